"""Fail-closed mini translator: a tiny typed subset of Python expressions -> Coq (Gallina) text.

Types: 'Z' (Python int), 'vec' (1-d integer numpy array -> list Z), 'bool', 'zi' (complex
constant with integer parts -> Z*Z), 'zitab' (list of such constants).
Anything outside the subset raises Unsupported, which the caller reports as a broken tie.
"""
import ast, os, textwrap

REPO = os.environ.get("QIB_REPO", "/repo")


class Unsupported(Exception):
    pass


def src(relpath):
    return open(os.path.join(REPO, relpath)).read()


def parse(relpath):
    return ast.parse(src(relpath))


def find_class(tree, name):
    for n in tree.body:
        if isinstance(n, ast.ClassDef) and n.name == name:
            return n
    raise Unsupported("class %s not found" % name)


def find_func(node, name):
    for n in node.body:
        if isinstance(n, (ast.FunctionDef, ast.AsyncFunctionDef)) and n.name == name:
            return n
    raise Unsupported("function %s not found" % name)


def body_nodoc(fn):
    b = fn.body
    if b and isinstance(b[0], ast.Expr) and isinstance(getattr(b[0], "value", None), ast.Constant) \
            and isinstance(b[0].value.value, str):
        b = b[1:]
    return b


def zlit(n):
    return "%d" % n if n >= 0 else "(%d)" % n


class Tr:
    """env: python name / 'self.attr' / 'other.attr' -> (coq_name, type)"""

    def __init__(self, env):
        self.env = dict(env)

    def name_of(self, node):
        if isinstance(node, ast.Name):
            return node.id
        if isinstance(node, ast.Attribute) and isinstance(node.value, ast.Name):
            return node.value.id + "." + node.attr
        return None

    def expr(self, e):
        """returns (coq_text, type)"""
        nm = self.name_of(e)
        if nm is not None:
            if nm in self.env:
                return self.env[nm]
            raise Unsupported("unknown name %s" % nm)
        if isinstance(e, ast.Constant):
            v = e.value
            if isinstance(v, bool):
                return ("true" if v else "false"), "bool"
            if isinstance(v, int):
                return zlit(v), "Z"
            if isinstance(v, (float, complex)):
                c = complex(v)
                if c.real == int(c.real) and c.imag == int(c.imag):
                    return "(%s, %s)" % (zlit(int(c.real)), zlit(int(c.imag))), "zi"
            raise Unsupported("constant %r" % (v,))
        if isinstance(e, ast.UnaryOp) and isinstance(e.op, ast.USub):
            t, ty = self.expr(e.operand)
            if ty == "Z":
                return "(- %s)" % t, "Z"
            if ty == "zi":
                return "(zi_opp %s)" % t, "zi"
            raise Unsupported("unary minus on %s" % ty)
        if isinstance(e, ast.BinOp):
            a, ta = self.expr(e.left)
            b, tb = self.expr(e.right)
            op = type(e.op)
            if ta == "Z" and tb == "Z":
                sym = {ast.Add: "+", ast.Sub: "-", ast.Mult: "*", ast.Mod: "mod", ast.FloorDiv: "/"}.get(op)
                if sym is None:
                    raise Unsupported("int operator %s" % op.__name__)
                return "(%s %s %s)" % (a, sym, b), "Z"
            if ta == "vec" and tb == "vec":
                f = {ast.Add: "vadd", ast.Sub: "vsub", ast.Mult: "vmul"}.get(op)
                if f is None:
                    raise Unsupported("array operator %s" % op.__name__)
                return "(%s %s %s)" % (f, a, b), "vec"
            if ta == "vec" and tb == "Z" and op is ast.Mod:
                return "(vmod %s %s)" % (a, b), "vec"
            if ta == "Z" and tb == "vec" and op is ast.Mult:
                return "(vscal %s %s)" % (a, b), "vec"
            raise Unsupported("operator %s on %s,%s" % (op.__name__, ta, tb))
        if isinstance(e, ast.Call):
            fn = self.call_name(e.func)
            args = [self.expr(a) for a in e.args]
            if e.keywords:
                raise Unsupported("keyword arguments in call to %s" % fn)
            tys = [t for _, t in args]
            if fn == "np.dot" and tys == ["vec", "vec"]:
                return "(vdot %s %s)" % (args[0][0], args[1][0]), "Z"
            if fn == "np.mod" and tys == ["vec", "Z"]:
                return "(vmod %s %s)" % (args[0][0], args[1][0]), "vec"
            if fn == "np.mod" and tys == ["Z", "Z"]:
                return "(%s mod %s)" % (args[0][0], args[1][0]), "Z"
            if fn == "int" and tys == ["Z"]:
                return args[0]
            if fn == "len" and tys == ["vec"]:
                return "(Z.of_nat (length %s))" % args[0][0], "Z"
            raise Unsupported("call %s(%s)" % (fn, ",".join(tys)))
        if isinstance(e, ast.Compare) and len(e.ops) == 1:
            a, ta = self.expr(e.left)
            b, tb = self.expr(e.comparators[0])
            if ta == "Z" and tb == "Z":
                op = type(e.ops[0])
                if op is ast.Eq:
                    return "(%s =? %s)" % (a, b), "bool"
                if op is ast.NotEq:
                    return "(negb (%s =? %s))" % (a, b), "bool"
                if op is ast.Lt:
                    return "(%s <? %s)" % (a, b), "bool"
                if op is ast.LtE:
                    return "(%s <=? %s)" % (a, b), "bool"
                if op is ast.Gt:
                    return "(%s <? %s)" % (b, a), "bool"
                if op is ast.GtE:
                    return "(%s <=? %s)" % (b, a), "bool"
            raise Unsupported("comparison")
        if isinstance(e, ast.BoolOp):
            parts = [self.expr(v) for v in e.values]
            if any(t != "bool" for _, t in parts):
                raise Unsupported("bool op on non-bool")
            sym = " && " if isinstance(e.op, ast.And) else " || "
            return "(" + sym.join(p for p, _ in parts) + ")", "bool"
        if isinstance(e, ast.List):
            parts = [self.expr(v) for v in e.elts]
            if parts and all(t == "zi" for _, t in parts):
                return "[" + "; ".join(p for p, _ in parts) + "]", "zitab"
            if parts and all(t == "Z" for _, t in parts):
                return "[" + "; ".join(p for p, _ in parts) + "]", "vec"
            raise Unsupported("list literal")
        if isinstance(e, ast.Subscript):
            a, ta = self.expr(e.value)
            i, ti = self.expr(e.slice)
            if ta == "zitab" and ti == "Z":
                return "(zitab_get %s %s)" % (a, i), "zi"
            raise Unsupported("subscript %s[%s]" % (ta, ti))
        raise Unsupported("expression %s" % ast.dump(e)[:80])

    def call_name(self, f):
        if isinstance(f, ast.Name):
            return f.id
        if isinstance(f, ast.Attribute) and isinstance(f.value, ast.Name):
            return f.value.id + "." + f.attr
        raise Unsupported("callee")

    def assign(self, stmt, coq_name=None):
        """x = expr  -> returns 'let x := ... in', extends env"""
        if not (isinstance(stmt, ast.Assign) and len(stmt.targets) == 1):
            raise Unsupported("statement %s" % type(stmt).__name__)
        nm = self.name_of(stmt.targets[0])
        if nm is None:
            raise Unsupported("assignment target")
        t, ty = self.expr(stmt.value)
        cn = coq_name or nm.replace(".", "_")
        self.env[nm] = (cn, ty)
        return cn, t, ty


COQTY = {"Z": "Z", "vec": "list Z", "bool": "bool", "zi": "(Z * Z)%type", "zitab": "list (Z * Z)"}


def definition(name, params, lets, result, rty):
    """params: [(coqname, type)], lets: [(name, text, type)]"""
    ps = " ".join("(%s : %s)" % (n, COQTY[t]) for n, t in params)
    body = "".join("  let %s := %s in\n" % (n, t) for n, t, _ in lets)
    return "Definition %s %s : %s :=\n%s  %s.\n" % (name, ps, COQTY[rty], body, result)
