"""T1 (elementary part): regenerate Coq definitions from /repo/src/qib/operator/gates.py.

For every elementary Gate subclass (fail-closed: an unknown Gate subclass, a missing one, or any
syntax outside the tiny subset below raises Unsupported, which the check reports as a broken tie):

  as_matrix     closed form as a list-of-rows template over *atoms*.  Every maximal
                np.cos / np.sin / np.exp(1j*..) / np.sqrt / np.linalg.norm sub-expression, every
                reciprocal of such an expression and every numeric parameter that is used directly
                as an entry becomes an input variable of type K; its defining expression is emitted
                separately as an `aspec` AST over the gate's real parameters.  Entries are ring
                expressions over atoms and the constants 0, 1, small integers, 1j.
                `if <atom> == 0: return M0` in front of the final return gives a second template
                selected by a guard bit.
  is_hermitian  constant True / False
  num_wires     integer constant or self.<int attribute>
  inverse       `return self` | `return C(args)` | `g = C(args); [if self.a [and self.b]: g.on(..)]; return g`
  particles     `if self.a [and self.b]: return [self.a, ..]; return []` | `return [self.a, ..]` | `return self.a`

Output: Coq text of module Run.GenGates, and (for the harness) a python description of the same data.
"""
import ast
from pyx import Unsupported, parse, find_class, find_func, body_nodoc

FILE = "src/qib/operator/gates.py"

ELEMENTARY = ["IdentityGate", "PauliXGate", "PauliYGate", "PauliZGate", "HadamardGate", "SxGate",
              "RxGate", "RyGate", "RzGate", "RotationGate", "SGate", "SAdjGate", "TGate", "TAdjGate",
              "PhaseFactorGate", "RxxGate", "RyyGate", "RzzGate", "ISwapGate"]
COMPOSITE = ["PrepareGate", "ControlledGate", "MultiplexedGate", "TimeEvolutionGate",
             "BlockEncodingGate", "GeneralGate"]      # handled by gen/gates_comp.py
TARGET_ONLY = ["GeneralGate"]                         # may be constructed by an elementary inverse()
KIND_RANK = {"APar": 0, "ANorm": 1, "ASqrt": 2, "AInv": 3, "ACos": 4, "ASin": 5, "AExpI": 6}
REAL_KINDS = ("APar", "ANorm", "ASqrt", "AInv", "ACos", "ASin")


def U(msg, node=None):
    if node is not None and hasattr(node, "lineno"):
        msg = "%s (gates.py:%d)" % (msg, node.lineno)
    return Unsupported(msg)


def attr_of_self(node):
    if isinstance(node, ast.Attribute) and isinstance(node.value, ast.Name) and node.value.id == "self":
        return node.attr
    return None


def call_name(f):
    if isinstance(f, ast.Name):
        return f.id
    if isinstance(f, ast.Attribute) and isinstance(f.value, ast.Name):
        return f.value.id + "." + f.attr
    if isinstance(f, ast.Attribute) and isinstance(f.value, ast.Attribute) and isinstance(f.value.value, ast.Name):
        return f.value.value.id + "." + f.value.attr + "." + f.attr
    return None


# ----------------------------------------------------------------------------- real expressions
# python-side AST: ("par",k) ("atom",id) ("num",z) ("pi",) ("neg",a) ("add",a,b) ("sub",a,b) ("mul",a,b) ("div",a,b)

def r_atoms(e):
    if e[0] == "atom":
        return {e[1]}
    out = set()
    for x in e[1:]:
        if isinstance(x, tuple):
            out |= r_atoms(x)
    return out


def r_coq(e, ren):
    t = e[0]
    if t == "par":
        return "(RPar %d)" % e[1]
    if t == "atom":
        return "(RAtom %d)" % ren[e[1]]
    if t == "num":
        return "(RNum %s)" % ("%d" % e[1] if e[1] >= 0 else "(%d)" % e[1])
    if t == "pi":
        return "RPi"
    if t == "neg":
        return "(RNeg %s)" % r_coq(e[1], ren)
    op = {"add": "RAdd", "sub": "RSub", "mul": "RMul", "div": "RDiv"}[t]
    return "(%s %s %s)" % (op, r_coq(e[1], ren), r_coq(e[2], ren))


def r_py(e, ren):
    """same AST with renamed atom ids, as plain python data (for the harness)"""
    if e[0] == "atom":
        return ["atom", ren[e[1]]]
    return [e[0]] + [r_py(x, ren) if isinstance(x, tuple) else x for x in e[1:]]


def r_text(e, names):
    t = e[0]
    if t == "par":
        return names[e[1]]
    if t == "atom":
        return "<%d>" % e[1]
    if t == "num":
        return str(e[1])
    if t == "pi":
        return "pi"
    if t == "neg":
        return "-(%s)" % r_text(e[1], names)
    return "(%s%s%s)" % (r_text(e[1], names), {"add": "+", "sub": "-", "mul": "*", "div": "/"}[t], r_text(e[2], names))


# ----------------------------------------------------------------------------- K expressions (Coq text)
def k_num(v, node=None):
    """python numeric constant -> Coq ring expression text"""
    c = complex(v)
    if c.real != int(c.real) or c.imag != int(c.imag) or abs(c.real) > 8 or abs(c.imag) > 8:
        raise U("numeric constant %r is not a small (Gaussian) integer" % (v,), node)

    def nat_k(n):
        return "0" if n == 0 else "1" if n == 1 else "(" + " + ".join(["1"] * n) + ")"

    def int_k(n):
        return nat_k(n) if n >= 0 else "(- (%s))" % nat_k(-n)
    re_, im_ = int(c.real), int(c.imag)
    if im_ == 0:
        return int_k(re_)
    ims = "sI" if im_ == 1 else "(- sI)" if im_ == -1 else "(%s * sI)" % int_k(im_)
    if re_ == 0:
        return ims
    return "(%s + %s)" % (int_k(re_), ims)


class Val:
    """typed value: kind in r (real parametric expr), k (K text), rvec, kvec, mat, symid, symscal"""

    def __init__(self, kind, v, extra=None):
        self.kind, self.v, self.extra = kind, v, extra


class MatrixTr:
    """translates the body of as_matrix of one class"""

    def __init__(self, cls, pinfo):
        self.cls = cls
        self.pinfo = pinfo            # attr -> ("real",k) | ("vec",[k..]) | ("int",) | ...
        self.atoms = []               # list of (kind, payload)
        self.env = {}

    # ---- atoms
    def atom(self, kind, payload):
        key = (kind, payload)
        for i, a in enumerate(self.atoms):
            if a == key:
                return i
        self.atoms.append(key)
        return len(self.atoms) - 1

    def kvar(self, i):
        return "@%d@" % i

    # ---- coercions
    def to_r(self, v, node):
        if v.kind == "r":
            return v.v
        raise U("%s: real parametric expression expected" % self.cls, node)

    def r_to_k(self, e, node):
        t = e[0]
        if t == "par":
            return self.kvar(self.atom("APar", e[1]))
        if t == "atom":
            return self.kvar(e[1])
        if t == "num":
            return k_num(e[1], node)
        if t == "neg":
            return "(- (%s))" % self.r_to_k(e[1], node)
        if t in ("add", "sub", "mul"):
            return "(%s %s %s)" % (self.r_to_k(e[1], node), {"add": "+", "sub": "-", "mul": "*"}[t], self.r_to_k(e[2], node))
        if t == "div":
            return "(%s * %s)" % (self.r_to_k(e[1], node), self.inv_of(e[2], node))
        raise U("%s: %s cannot be used as a matrix entry" % (self.cls, t), node)

    def inv_of(self, r, node):
        """K variable holding 1/r, r a sqrt/norm atom"""
        if r[0] != "atom" or self.atoms[r[1]][0] not in ("ASqrt", "ANorm"):
            raise U("%s: division inside a matrix entry by something that is not a sqrt/norm atom" % self.cls, node)
        return self.kvar(self.atom("AInv", r[1]))

    def to_k(self, v, node):
        if v.kind == "k":
            return v.v
        if v.kind == "r":
            return self.r_to_k(v.v, node)
        raise U("%s: scalar expected, got %s" % (self.cls, v.kind), node)

    def to_mat(self, v, node):
        if v.kind == "mat":
            return v.v
        raise U("%s: matrix expected, got %s" % (self.cls, v.kind), node)

    # ---- exp(1j * real)
    def split_i(self, e):
        """e is an AST that must denote 1j * (real expr); returns the real expr or None"""
        if isinstance(e, ast.Constant) and isinstance(e.value, complex) and e.value.real == 0 \
                and e.value.imag == int(e.value.imag) and e.value.imag != 0:
            return ("num", int(e.value.imag))
        if isinstance(e, ast.UnaryOp) and isinstance(e.op, ast.USub):
            a = self.split_i(e.operand)
            return None if a is None else ("neg", a)
        if isinstance(e, ast.BinOp) and isinstance(e.op, ast.Mult):
            a = self.split_i(e.left)
            if a is not None:
                b = self.try_r(e.right)
                return None if b is None else ("mul", a, b)
            b = self.split_i(e.right)
            if b is not None:
                a = self.try_r(e.left)
                return None if a is None else ("mul", a, b)
            return None
        if isinstance(e, ast.BinOp) and isinstance(e.op, ast.Div):
            a = self.split_i(e.left)
            b = self.try_r(e.right)
            return None if a is None or b is None else ("div", a, b)
        return None

    def try_r(self, e):
        try:
            v = self.expr(e)
        except Unsupported:
            return None
        return v.v if v.kind == "r" else None

    # ---- expressions
    def expr(self, e):
        if isinstance(e, ast.Constant):
            v = e.value
            if isinstance(v, bool) or not isinstance(v, (int, float, complex)):
                raise U("%s: constant %r" % (self.cls, v), e)
            if isinstance(v, complex):
                return Val("k", k_num(v, e))
            if v != int(v):
                raise U("%s: non-integer constant %r" % (self.cls, v), e)
            return Val("r", ("num", int(v)))
        if isinstance(e, ast.Name):
            if e.id in self.env:
                return self.env[e.id]
            raise U("%s: unknown name %s" % (self.cls, e.id), e)
        a = attr_of_self(e)
        if a is not None:
            info = self.pinfo.get(a)
            if info is None:
                raise U("%s: self.%s is not a numeric parameter" % (self.cls, a), e)
            if info[0] == "real":
                return Val("r", ("par", info[1]))
            if info[0] == "vec":
                return Val("rvec", [("par", k) for k in info[1]])
            if info[0] == "int":
                return Val("int", a)
            raise U("%s: self.%s used in as_matrix" % (self.cls, a), e)
        if isinstance(e, ast.Attribute) and isinstance(e.value, ast.Name) and e.value.id == "np" and e.attr == "pi":
            return Val("r", ("pi",))
        if isinstance(e, ast.UnaryOp) and isinstance(e.op, ast.USub):
            v = self.expr(e.operand)
            if v.kind == "r":
                return Val("r", ("neg", v.v))
            if v.kind == "k":
                return Val("k", "(- (%s))" % v.v)
            if v.kind == "rvec":
                return Val("rvec", [("neg", x) for x in v.v])
            if v.kind == "mat":
                return Val("mat", [["(- (%s))" % x for x in row] for row in v.v])
            raise U("%s: unary minus on %s" % (self.cls, v.kind), e)
        if isinstance(e, ast.BinOp):
            return self.binop(e)
        if isinstance(e, ast.Subscript):
            v = self.expr(e.value)
            if v.kind == "rvec" and isinstance(e.slice, ast.Constant) and isinstance(e.slice.value, int) \
                    and 0 <= e.slice.value < len(v.v):
                return Val("r", v.v[e.slice.value])
            raise U("%s: subscript" % self.cls, e)
        if isinstance(e, ast.Call):
            return self.call(e)
        raise U("%s: expression %s" % (self.cls, type(e).__name__), e)

    def call(self, e):
        if e.keywords:
            raise U("%s: keyword arguments" % self.cls, e)
        # x.conj()
        if isinstance(e.func, ast.Attribute) and e.func.attr == "conj" and not e.args:
            v = self.expr(e.func.value)
            if v.kind == "k":
                return Val("k", "(%s)^*" % v.v)
            if v.kind == "r":
                return v
            raise U("%s: .conj() on %s" % (self.cls, v.kind), e)
        fn = call_name(e.func)
        if fn in ("np.cos", "np.sin", "np.sqrt") and len(e.args) == 1:
            a = self.to_r(self.expr(e.args[0]), e)
            kind = {"np.cos": "ACos", "np.sin": "ASin", "np.sqrt": "ASqrt"}[fn]
            if kind == "ASqrt" and not (a[0] == "num" and a[1] > 0):
                raise U("%s: np.sqrt of something that is not a positive integer constant" % self.cls, e)
            return Val("r", ("atom", self.atom(kind, a)))
        if fn == "np.exp" and len(e.args) == 1:
            a = self.split_i(e.args[0])
            if a is None:
                raise U("%s: np.exp argument is not 1j * (real expression)" % self.cls, e)
            return Val("k", self.kvar(self.atom("AExpI", a)))
        if fn == "np.linalg.norm" and len(e.args) == 1:
            v = self.expr(e.args[0])
            if v.kind != "rvec" or any(x[0] != "par" for x in v.v):
                raise U("%s: np.linalg.norm of something that is not a parameter vector" % self.cls, e)
            return Val("r", ("atom", self.atom("ANorm", tuple(x[1] for x in v.v))))
        if fn == "np.identity" and len(e.args) == 1:
            d = e.args[0]
            if isinstance(d, ast.Constant) and isinstance(d.value, int) and 1 <= d.value <= 8:
                n = d.value
                return Val("mat", [["1" if i == j else "0" for j in range(n)] for i in range(n)])
            if isinstance(d, ast.BinOp) and isinstance(d.op, ast.Pow) and isinstance(d.left, ast.Constant) \
                    and d.left.value == 2 and attr_of_self(d.right) is not None \
                    and self.pinfo.get(attr_of_self(d.right), ("",))[0] == "int":
                return Val("symid", attr_of_self(d.right))
            raise U("%s: np.identity argument" % self.cls, e)
        if fn == "np.array" and len(e.args) == 1:
            m = e.args[0]
            if not (isinstance(m, ast.List) and m.elts and all(isinstance(r, ast.List) for r in m.elts)):
                raise U("%s: np.array argument is not a list of lists" % self.cls, e)
            rows = [[self.to_k(self.expr(x), x) for x in r.elts] for r in m.elts]
            if any(len(r) != len(rows) for r in rows):
                raise U("%s: np.array literal is not square" % self.cls, e)
            return Val("mat", rows)
        raise U("%s: call %s" % (self.cls, fn), e)

    def binop(self, e):
        op = type(e.op)
        a, b = self.expr(e.left), self.expr(e.right)
        sym = {ast.Add: "+", ast.Sub: "-", ast.Mult: "*"}.get(op)
        rtag = {ast.Add: "add", ast.Sub: "sub", ast.Mult: "mul", ast.Div: "div"}.get(op)
        if rtag is None:
            raise U("%s: operator %s" % (self.cls, op.__name__), e)
        scal = ("r", "k")
        if a.kind == "r" and b.kind == "r":
            return Val("r", (rtag, a.v, b.v))
        if a.kind in scal and b.kind in scal:
            if op is ast.Div:
                # K / real atom  ->  K * (1/atom)
                if b.kind == "r":
                    return Val("k", "(%s * %s)" % (self.to_k(a, e), self.inv_of(b.v, e)))
                raise U("%s: division by a complex expression" % self.cls, e)
            return Val("k", "(%s %s %s)" % (self.to_k(a, e), sym, self.to_k(b, e)))
        if a.kind == "rvec" and b.kind == "r" and op in (ast.Div, ast.Mult):
            return Val("rvec", [(rtag, x, b.v) for x in a.v])
        if a.kind == "mat" and b.kind == "mat" and op in (ast.Add, ast.Sub):
            if len(a.v) != len(b.v):
                raise U("%s: matrix shapes differ" % self.cls, e)
            return Val("mat", [["(%s %s %s)" % (x, sym, y) for x, y in zip(r1, r2)] for r1, r2 in zip(a.v, b.v)])
        if a.kind in scal and b.kind == "mat" and op is ast.Mult:
            s = self.to_k(a, e)
            return Val("mat", [["(%s * %s)" % (s, x) for x in row] for row in b.v])
        if a.kind == "mat" and b.kind in scal and op is ast.Mult:
            s = self.to_k(b, e)
            return Val("mat", [["(%s * %s)" % (x, s) for x in row] for row in a.v])
        if a.kind == "mat" and b.kind == "r" and op is ast.Div:
            s = self.inv_of(b.v, e)
            return Val("mat", [["(%s * %s)" % (x, s) for x in row] for row in a.v])
        if a.kind in scal and b.kind == "symid" and op is ast.Mult:
            return Val("symscal", self.to_k(a, e), b.v)
        raise U("%s: operator %s on %s, %s" % (self.cls, op.__name__, a.kind, b.kind), e)

    # ---- statements
    def body(self, fn):
        """returns (guard_atom_or_None, guard_matrix_or_None, final Val)"""
        guard = None
        stmts = body_nodoc(fn)
        for s in stmts[:-1]:
            if isinstance(s, ast.Assign) and len(s.targets) == 1 and isinstance(s.targets[0], ast.Name):
                self.env[s.targets[0].id] = self.expr(s.value)
                continue
            if isinstance(s, ast.If) and not s.orelse and len(s.body) == 1 and isinstance(s.body[0], ast.Return) \
                    and guard is None:
                t = s.test
                if not (isinstance(t, ast.Compare) and len(t.ops) == 1 and isinstance(t.ops[0], ast.Eq)
                        and isinstance(t.comparators[0], ast.Constant) and t.comparators[0].value == 0
                        and not isinstance(t.comparators[0].value, bool)):
                    raise U("%s.as_matrix: guard is not `<atom> == 0`" % self.cls, s)
                g = self.expr(t.left)
                if not (g.kind == "r" and g.v[0] == "atom"):
                    raise U("%s.as_matrix: guard is not `<atom> == 0`" % self.cls, s)
                guard = (g.v[1], self.to_mat(self.expr(s.body[0].value), s))
                continue
            raise U("%s.as_matrix: statement %s" % (self.cls, type(s).__name__), s)
        last = stmts[-1] if stmts else None
        if not isinstance(last, ast.Return) or last.value is None:
            raise U("%s.as_matrix: does not end in a return" % self.cls, fn)
        return guard, self.expr(last.value)

    # ---- canonical atom order
    def finish(self):
        n = len(self.atoms)

        def deps(i):
            kind, p = self.atoms[i]
            if kind == "AInv":
                return {p}
            if kind in ("ACos", "ASin", "AExpI", "ASqrt"):
                return r_atoms(p)
            return set()
        depth = {}

        def dp(i):
            if i not in depth:
                d = deps(i)
                depth[i] = 0 if not d else 1 + max(dp(j) for j in d)
            return depth[i]

        def canon(i):
            kind, p = self.atoms[i]
            if kind in ("APar",):
                return "%s%03d" % (kind, p)
            if kind == "ANorm":
                return "ANorm" + ",".join("%03d" % k for k in p)
            if kind == "AInv":
                return "AInv(" + canon(p) + ")"
            txt = r_text(p, {k: "p%03d" % k for k in range(64)})
            for j in sorted(r_atoms(p)):
                txt = txt.replace("<%d>" % j, "[" + canon(j) + "]")
            return kind + txt
        order = sorted(range(n), key=lambda i: (dp(i), KIND_RANK[self.atoms[i][0]], canon(i)))
        return {old: new for new, old in enumerate(order)}, order


def subst_vars(text, ren):
    import re
    return re.sub(r"@(\d+)@", lambda m: "a%d" % ren[int(m.group(1))], text)


# ----------------------------------------------------------------------------- per-class extraction
class ClassInfo:
    pass


def init_info(cname, cls):
    """__init__: parameter kinds and the attribute each one is stored in"""
    init = find_func(cls, "__init__")
    args = init.args
    if args.vararg or args.kwarg or args.kwonlyargs or args.posonlyargs:
        raise U("%s.__init__: unsupported signature" % cname, init)
    names = [a.arg for a in args.args][1:]
    ann = {a.arg: (ast.unparse(a.annotation) if a.annotation is not None else "") for a in args.args[1:]}
    ndef = len(args.defaults)
    defaults = {}
    for nm, d in zip(names[len(names) - ndef:], args.defaults):
        if not (isinstance(d, ast.Constant) and d.value is None):
            raise U("%s.__init__: default of %s is not None" % (cname, nm), init)
        defaults[nm] = None
    kinds, nreal = {}, 0
    veclen = {}
    attr_from = {}       # attribute -> ("param", name) | ("nil",)
    for s in body_nodoc(init):
        if isinstance(s, ast.Assign) and len(s.targets) == 1 and attr_of_self(s.targets[0]) is not None:
            a = attr_of_self(s.targets[0])
            v = s.value
            if a in attr_from:
                raise U("%s.__init__: attribute %s assigned twice" % (cname, a), s)
            if isinstance(v, ast.Name) and v.id in names:
                attr_from[a] = ("param", v.id)
            elif isinstance(v, ast.Call) and call_name(v.func) in ("np.asarray", "np.array") and len(v.args) == 1 \
                    and isinstance(v.args[0], ast.Name) and v.args[0].id in names and not v.keywords:
                # the parameter as an array, converted without or with a copy: the same value
                attr_from[a] = ("param", v.args[0].id)
            elif isinstance(v, ast.List) and not v.elts:
                attr_from[a] = ("nil",)
            else:
                raise U("%s.__init__: assignment to self.%s" % (cname, a), s)
            continue
        if isinstance(s, ast.Assign) and len(s.targets) == 1 and isinstance(s.targets[0], ast.Name) \
                and s.targets[0].id in names and isinstance(s.value, ast.Call) and call_name(s.value.func) in ("np.asarray", "np.array") \
                and len(s.value.args) == 1 and isinstance(s.value.args[0], ast.Name) \
                and s.value.args[0].id == s.targets[0].id and not s.value.keywords:
            continue                      # p = np.asarray(p) / p = np.array(p) (own copy)
        if isinstance(s, ast.If) and not s.orelse and len(s.body) == 1 and isinstance(s.body[0], ast.Raise):
            # validation; the only one with meaning for the model is the shape check of a vector parameter
            t = s.test
            if isinstance(t, ast.Compare) and len(t.ops) == 1 and isinstance(t.ops[0], ast.NotEq) \
                    and isinstance(t.left, ast.Attribute) and t.left.attr == "shape" \
                    and attr_of_self(t.left.value) is not None and isinstance(t.comparators[0], ast.Tuple) \
                    and len(t.comparators[0].elts) == 1 and isinstance(t.comparators[0].elts[0], ast.Constant):
                veclen[attr_of_self(t.left.value)] = int(t.comparators[0].elts[0].value)
            continue
        raise U("%s.__init__: statement %s" % (cname, type(s).__name__), s)
    info = ClassInfo()
    info.init_params = names
    info.defaults = defaults
    info.attr_from = attr_from
    info.pinfo = {}          # attribute -> numeric kind
    info.param_names = []    # names of the real parameters, flattened
    info.real_of_param = {}  # ctor parameter name -> list of real parameter indices
    info.int_attr = None
    info.part_attrs = {}     # attribute -> "single" | "list"
    for a, src in attr_from.items():
        if src[0] == "nil":
            info.part_attrs[a] = "list"
            continue
        p = src[1]
        an = ann.get(p, "")
        if an == "float":
            info.pinfo[a] = ("real", len(info.param_names))
            info.real_of_param[p] = [len(info.param_names)]
            info.param_names.append(p)
        elif an == "Sequence[float]":
            if a not in veclen:
                raise U("%s.__init__: vector parameter %s without a shape check" % (cname, p), init)
            ks = list(range(len(info.param_names), len(info.param_names) + veclen[a]))
            info.pinfo[a] = ("vec", ks)
            info.real_of_param[p] = ks
            info.param_names += ["%s[%d]" % (p, i) for i in range(veclen[a])]
        elif an == "int":
            if info.int_attr is not None:
                raise U("%s.__init__: two integer parameters" % cname, init)
            info.pinfo[a] = ("int",)
            info.int_attr = a
            info.int_param = p
        elif an in ("Qubit", "Gate", "Particle"):
            info.part_attrs[a] = "single"
        elif cname in TARGET_ONLY and an == "":
            info.pinfo[a] = ("matrix",)
        else:
            raise U("%s.__init__: parameter %s has unsupported annotation %r" % (cname, p, an), init)
    return info


def const_return(cname, fn, what):
    b = body_nodoc(fn)
    if len(b) != 1 or not isinstance(b[0], ast.Return):
        raise U("%s.%s: not a single return" % (cname, what), fn)
    return b[0].value


def particles_form(cname, cls, info, attr_id):
    fn = find_func(cls, "particles")
    b = body_nodoc(fn)

    def attr_list(node):
        if not isinstance(node, ast.List):
            return None
        out = []
        for x in node.elts:
            a = attr_of_self(x)
            if a is None or info.part_attrs.get(a) != "single":
                return None
            out.append(a)
        return out

    def guard_attrs(test):
        parts = test.values if isinstance(test, ast.BoolOp) and isinstance(test.op, ast.And) else [test]
        out = []
        for p in parts:
            a = attr_of_self(p)
            if a is None or a not in info.part_attrs:
                return None
            out.append(a)
        return out
    if len(b) == 1 and isinstance(b[0], ast.Return):
        v = b[0].value
        a = attr_of_self(v)
        if a is not None and info.part_attrs.get(a) == "list":
            return ("attr", a)
        l = attr_list(v)
        if l is not None:
            return ("guard", [], l)
    if len(b) == 2 and isinstance(b[0], ast.If) and not b[0].orelse and len(b[0].body) == 1 \
            and isinstance(b[0].body[0], ast.Return) and isinstance(b[1], ast.Return) \
            and isinstance(b[1].value, ast.List) and not b[1].value.elts:
        g = guard_attrs(b[0].test)
        l = attr_list(b[0].body[0].value)
        if g is not None and l is not None:
            return ("guard", g, l)
    raise U("%s.particles: unsupported form" % cname, fn)


VARIADIC_ON = """def on(self, *args):
    if len(args) == 1 and isinstance(args[0], Sequence):
        prtcl = list(args[0])
    else:
        prtcl = list(args)
    if len(prtcl) != self.nwires:
        raise ValueError(f'require {self.nwires} particles, but received {len(prtcl)}')
    self.ATTR = prtcl
    return self"""


def on_form(cname, cls, info):
    """None | ("simple", [(param, attr)...]) | ("variadic", attr)"""
    try:
        fn = find_func(cls, "on")
    except Unsupported:
        return None
    b = body_nodoc(fn)
    if fn.args.vararg is not None:
        last_assign = [s for s in b if isinstance(s, ast.Assign) and attr_of_self(s.targets[0]) is not None]
        if len(last_assign) != 1:
            raise U("%s.on: unsupported variadic form" % cname, fn)
        a = attr_of_self(last_assign[0].targets[0])
        want = ast.dump(ast.Module(body=ast.parse(VARIADIC_ON.replace("ATTR", a)).body[0].body, type_ignores=[]))
        got = ast.dump(ast.Module(body=b, type_ignores=[]))
        if want != got or info.part_attrs.get(a) != "list" or info.int_attr != "nwires":
            raise U("%s.on: variadic form differs from the modelled one" % cname, fn)
        return ("variadic", a)
    params = [a.arg for a in fn.args.args][1:]
    sets = []
    for s in b:
        if isinstance(s, ast.Assign) and len(s.targets) == 1 and attr_of_self(s.targets[0]) is not None \
                and isinstance(s.value, ast.Name) and s.value.id in params \
                and info.part_attrs.get(attr_of_self(s.targets[0])) == "single":
            sets.append((s.value.id, attr_of_self(s.targets[0])))
            continue
        if isinstance(s, ast.Return) and isinstance(s.value, ast.Name) and s.value.id == "self" and s is b[-1]:
            continue
        raise U("%s.on: unsupported statement" % cname, s)
    if sorted(p for p, _ in sets) != sorted(params):
        raise U("%s.on: not every parameter is stored" % cname, fn)
    return ("simple", params, sets)


class InvTr:
    def __init__(self, cname, info, infos, on_forms):
        self.cname, self.info, self.infos, self.on_forms = cname, info, infos, on_forms

    def rexpr(self, e):
        """numeric argument expression over self's parameters -> list of rexpr (vector => several)"""
        a = attr_of_self(e)
        if a is not None and a in self.info.pinfo:
            k = self.info.pinfo[a]
            if k[0] == "real":
                return [("par", k[1])]
            if k[0] == "vec":
                return [("par", i) for i in k[1]]
            raise U("%s.inverse: self.%s as numeric argument" % (self.cname, a), e)
        if isinstance(e, ast.UnaryOp) and isinstance(e.op, ast.USub):
            return [("neg", x) for x in self.rexpr(e.operand)]
        if isinstance(e, ast.Constant) and isinstance(e.value, (int, float)) and not isinstance(e.value, bool) \
                and e.value == int(e.value):
            return [("num", int(e.value))]
        if isinstance(e, ast.Attribute) and isinstance(e.value, ast.Name) and e.value.id == "np" and e.attr == "pi":
            return [("pi",)]
        if isinstance(e, ast.BinOp) and type(e.op) in (ast.Add, ast.Sub, ast.Mult, ast.Div):
            l, r = self.rexpr(e.left), self.rexpr(e.right)
            if len(l) != 1 or len(r) != 1:
                raise U("%s.inverse: vector arithmetic" % self.cname, e)
            tag = {ast.Add: "add", ast.Sub: "sub", ast.Mult: "mul", ast.Div: "div"}[type(e.op)]
            return [(tag, l[0], r[0])]
        raise U("%s.inverse: numeric argument %s" % (self.cname, ast.unparse(e)), e)

    def parg(self, e):
        a = attr_of_self(e)
        if a is not None and a in self.info.part_attrs:
            return ("self", a)
        if isinstance(e, ast.Constant) and e.value is None:
            return ("none",)
        raise U("%s.inverse: particle argument %s" % (self.cname, ast.unparse(e)), e)

    def ctor(self, call):
        tname = call_name(call.func)
        if tname not in self.infos:
            raise U("%s.inverse: constructs %s, which is not a modelled class" % (self.cname, tname), call)
        ti = self.infos[tname]
        if any(k.arg is None for k in call.keywords):
            raise U("%s.inverse: **kwargs" % self.cname, call)
        bound = dict(zip(ti.init_params, call.args))
        if len(call.args) > len(ti.init_params):
            raise U("%s.inverse: too many arguments for %s" % (self.cname, tname), call)
        for k in call.keywords:
            if k.arg in bound or k.arg not in ti.init_params:
                raise U("%s.inverse: bad keyword %s" % (self.cname, k.arg), call)
            bound[k.arg] = k.value
        for p in ti.init_params:
            if p not in bound:
                if p in ti.defaults:
                    bound[p] = ast.Constant(value=None)
                else:
                    raise U("%s.inverse: missing argument %s of %s" % (self.cname, p, tname), call)
        mat, nw, attrs = None, ("self",), []
        reals = {}
        for a, src in ti.attr_from.items():
            if src[0] == "nil":
                attrs.append((a, ("nil",)))
                continue
            p = src[1]
            arg = bound[p]
            kind = ti.pinfo.get(a)
            if kind is None:                       # particle attribute
                attrs.append((a, self.parg(arg)))
            elif kind[0] in ("real", "vec"):
                rs = self.rexpr(arg)
                if len(rs) != len(ti.real_of_param[p]):
                    raise U("%s.inverse: argument %s of %s has the wrong length" % (self.cname, p, tname), call)
                for i, r in zip(ti.real_of_param[p], rs):
                    reals[i] = r
            elif kind[0] == "int":
                if attr_of_self(arg) is not None and attr_of_self(arg) == self.info.int_attr:
                    nw = ("self",)
                elif isinstance(arg, ast.Constant) and isinstance(arg.value, int) and not isinstance(arg.value, bool) \
                        and 0 <= arg.value <= 8:
                    nw = ("const", arg.value)
                else:
                    raise U("%s.inverse: integer argument %s" % (self.cname, ast.unparse(arg)), call)
            elif kind[0] == "matrix":
                if ast.unparse(arg) != "self.as_matrix().conj().T":
                    raise U("%s.inverse: matrix argument %s" % (self.cname, ast.unparse(arg)), call)
                mat = ("adjself",)
        if mat is None:
            mat = ("params", [reals[i] for i in range(len(ti.param_names))])
        return tname, mat, nw, attrs

    def on_call(self, tname, call):
        """g.on(args) -> list of (attr, pargexp)"""
        of = self.on_forms.get(tname)
        if of is None or call.keywords:
            raise U("%s.inverse: %s has no usable on()" % (self.cname, tname), call)
        if of[0] == "simple":
            if len(call.args) != len(of[1]):
                raise U("%s.inverse: on() argument count" % self.cname, call)
            amap = dict(zip(of[1], call.args))
            return [(attr, self.parg(amap[p])) for p, attr in of[2]]
        # variadic: one list-valued attribute -> that list; otherwise the list of the arguments
        if len(call.args) == 1:
            a = attr_of_self(call.args[0])
            if a is not None and self.info.part_attrs.get(a) == "list":
                return [(of[1], ("self", a))]
        items = []
        for x in call.args:
            a = attr_of_self(x)
            if a is None or self.info.part_attrs.get(a) != "single":
                raise U("%s.inverse: on() argument %s" % (self.cname, ast.unparse(x)), call)
            items.append(a)
        if not items:
            raise U("%s.inverse: on() without arguments" % self.cname, call)
        return [(of[1], ("list", items))]

    def translate(self, fn):
        b = body_nodoc(fn)
        if len(b) == 1 and isinstance(b[0], ast.Return):
            v = b[0].value
            if isinstance(v, ast.Name) and v.id == "self":
                return ("self",)
            if isinstance(v, ast.Call):
                return ("new",) + self.ctor(v) + (None,)
        if len(b) >= 2 and isinstance(b[0], ast.Assign) and len(b[0].targets) == 1 \
                and isinstance(b[0].targets[0], ast.Name) and isinstance(b[0].value, ast.Call) \
                and isinstance(b[-1], ast.Return) and isinstance(b[-1].value, ast.Name) \
                and b[-1].value.id == b[0].targets[0].id:
            var = b[0].targets[0].id
            tname, mat, nw, attrs = self.ctor(b[0].value)
            on = None
            if len(b) == 3:
                s = b[1]
                if not (isinstance(s, ast.If) and not s.orelse and len(s.body) == 1 and isinstance(s.body[0], ast.Expr)
                        and isinstance(s.body[0].value, ast.Call) and isinstance(s.body[0].value.func, ast.Attribute)
                        and s.body[0].value.func.attr == "on" and isinstance(s.body[0].value.func.value, ast.Name)
                        and s.body[0].value.func.value.id == var):
                    raise U("%s.inverse: middle statement is not `if ...: %s.on(...)`" % (self.cname, var), s)
                parts = s.test.values if isinstance(s.test, ast.BoolOp) and isinstance(s.test.op, ast.And) else [s.test]
                guard = []
                for p in parts:
                    a = attr_of_self(p)
                    if a is None or a not in self.info.part_attrs:
                        raise U("%s.inverse: guard %s" % (self.cname, ast.unparse(s.test)), s)
                    guard.append(a)
                on = (guard, self.on_call(tname, s.body[0].value))
            elif len(b) != 2:
                raise U("%s.inverse: unsupported form" % self.cname, fn)
            return ("new", tname, mat, nw, attrs, on)
        raise U("%s.inverse: unsupported form" % self.cname, fn)


# ----------------------------------------------------------------------------- main
def extract():
    """returns the python description of all elementary classes (used by generate() and the harness)"""
    tree = parse(FILE)
    gate_classes = [n for n in tree.body if isinstance(n, ast.ClassDef)
                    and any(ast.unparse(b) == "Gate" for b in n.bases)]
    names = [c.name for c in gate_classes]
    for nm in names:
        if nm not in ELEMENTARY and nm not in COMPOSITE:
            raise U("Gate subclass %s is not modelled" % nm)
    for nm in ELEMENTARY + COMPOSITE:
        if names.count(nm) != 1:
            raise U("class %s: expected exactly one definition, found %d" % (nm, names.count(nm)))
    classes = {c.name: c for c in gate_classes}
    modelled = ELEMENTARY + TARGET_ONLY
    infos = {nm: init_info(nm, classes[nm]) for nm in modelled}
    attr_names = sorted({a for i in infos.values() for a in i.part_attrs})
    attr_id = {a: k for k, a in enumerate(attr_names)}
    islist = {}
    for i in infos.values():
        for a, k in i.part_attrs.items():
            if islist.setdefault(a, k == "list") != (k == "list"):
                raise U("attribute %s is a list in one class and a single particle in another" % a)
    on_forms = {nm: on_form(nm, classes[nm], infos[nm]) for nm in modelled}
    out = {"attrs": attr_names, "islist": [islist[a] for a in attr_names], "classes": {}}
    for nm in modelled:
        cls, info = classes[nm], infos[nm]
        d = {"name": nm, "params": info.param_names, "int_param": info.int_attr}
        # num_wires
        nwf = find_func(cls, "num_wires")
        if not any(isinstance(x, ast.Name) and x.id == "property" for x in nwf.decorator_list):
            raise U("%s.num_wires is not a property" % nm, nwf)
        v = const_return(nm, nwf, "num_wires")
        if isinstance(v, ast.Constant) and isinstance(v.value, int) and not isinstance(v.value, bool) and 0 <= v.value <= 8:
            d["num_wires"] = ("const", v.value)
        elif attr_of_self(v) is not None and attr_of_self(v) == info.int_attr:
            d["num_wires"] = ("int",)
        else:
            raise U("%s.num_wires: unsupported return" % nm, nwf)
        d["particles"] = particles_form(nm, cls, info, attr_id)
        if nm in TARGET_ONLY:
            am = const_return(nm, find_func(cls, "as_matrix"), "as_matrix")
            mattr = [a for a, k in info.pinfo.items() if k[0] == "matrix"]
            # the stored matrix itself or a copy of it: self.m | self.m.copy() | np.copy(self.m) | np.array(self.m)
            stored = am
            if isinstance(am, ast.Call) and not am.keywords:
                if isinstance(am.func, ast.Attribute) and am.func.attr == "copy" and not am.args and attr_of_self(am.func.value) is not None:
                    stored = am.func.value
                elif call_name(am.func) in ("np.copy", "np.array") and len(am.args) == 1:
                    stored = am.args[0]
            if len(mattr) != 1 or attr_of_self(stored) != mattr[0]:
                raise U("%s.as_matrix does not return the stored matrix" % nm)
            d["target_only"] = True
            out["classes"][nm] = d
            continue
        # is_hermitian
        v = const_return(nm, find_func(cls, "is_hermitian"), "is_hermitian")
        if not (isinstance(v, ast.Constant) and isinstance(v.value, bool)):
            raise U("%s.is_hermitian: not a boolean constant" % nm, v)
        d["is_hermitian"] = v.value
        # as_matrix
        mt = MatrixTr(nm, info.pinfo)
        guard, final = mt.body(find_func(cls, "as_matrix"))
        ren, order = mt.finish()
        d["atoms"] = []
        for old in order:
            kind, p = mt.atoms[old]
            if kind == "APar":
                d["atoms"].append({"kind": kind, "k": p})
            elif kind == "ANorm":
                d["atoms"].append({"kind": kind, "ks": list(p)})
            elif kind == "AInv":
                d["atoms"].append({"kind": kind, "k": ren[p]})
            else:
                d["atoms"].append({"kind": kind, "e": r_py(p, ren), "_coq": r_coq(p, ren)})
        if final.kind == "mat":
            d["mat"] = [[subst_vars(x, ren) for x in row] for row in final.v]
            d["sym"] = None
        elif final.kind == "symscal" and guard is None:
            d["mat"] = None
            d["sym"] = {"scalar": subst_vars(final.v, ren), "dim_pow2_of": final.extra}
        else:
            raise U("%s.as_matrix: returns %s" % (nm, final.kind))
        if guard is not None:
            if len(guard[1]) != len(final.v):
                raise U("%s.as_matrix: the two branches have different shapes" % nm)
            d["guard"] = {"atom": ren[guard[0]], "mat": [[subst_vars(x, ren) for x in row] for row in guard[1]]}
        else:
            d["guard"] = None
        if d["num_wires"][0] == "int" and not (d["sym"] and d["sym"]["dim_pow2_of"] == info.int_attr):
            raise U("%s: symbolic num_wires without a symbolic matrix" % nm)
        d["inverse"] = InvTr(nm, info, infos, on_forms).translate(find_func(cls, "inverse"))
        out["classes"][nm] = d
    return out


def coq_list(items):
    return "[" + "; ".join(items) + "]"


def coq_aspec(a):
    k = a["kind"]
    if k in ("APar", "AInv"):
        return "%s %d" % (k, a["k"])
    if k == "ANorm":
        return "ANorm %s" % coq_list(["%d" % x for x in a["ks"]])
    return "%s %s" % (k, a["_coq"])


def coq_parg(q, attr_id):
    if q[0] == "self":
        return "QSelf %d" % attr_id[q[1]]
    if q[0] == "none":
        return "QNone"
    if q[0] == "nil":
        return "QNil"
    return "QList %s" % coq_list(["%d" % attr_id[a] for a in q[1]])


def coq_pform(p, attr_id):
    if p[0] == "attr":
        return "PFAttrList %d" % attr_id[p[1]]
    return "PFGuard %s %s" % (coq_list(["%d" % attr_id[a] for a in p[1]]), coq_list(["%d" % attr_id[a] for a in p[2]]))


def coq_inv(inv, attr_id):
    if inv[0] == "self":
        return "InvSelf"
    _, tname, mat, nw, attrs, on = inv
    m = "MAdjSelf" if mat[0] == "adjself" else "(MParams %s)" % coq_list([r_coq(r, {}) for r in mat[1]])
    n = "NWSelf" if nw[0] == "self" else "(NWConst %d)" % nw[1]
    at = coq_list(["(%d, %s)" % (attr_id[a], coq_parg(q, attr_id)) for a, q in attrs])
    if on is None:
        o = "None"
    else:
        o = "(Some (%s, %s))" % (coq_list(["%d" % attr_id[a] for a in on[0]]),
                                 coq_list(["(%d, %s)" % (attr_id[a], coq_parg(q, attr_id)) for a, q in on[1]]))
    return "InvNew c%s %s %s %s %s" % (tname, m, n, at, o)


def generate(desc=None):
    d = desc or extract()
    attr_id = {a: k for k, a in enumerate(d["attrs"])}
    o = ["(* generated by gen/gates.py from %s -- do not edit *)" % FILE,
         "From Qib Require Import Gates.ElemModel.",
         "(* particle attributes: %s *)" % ", ".join("%d = self.%s" % (k, a) for a, k in attr_id.items()), ""]
    order = [nm for nm in ELEMENTARY + TARGET_ONLY]
    for nm in order:
        c = d["classes"][nm]
        o.append("(* ---- %s: real parameters [%s]%s *)" % (nm, ", ".join(c["params"]),
                                                         ", integer parameter self.%s" % c["int_param"] if c["int_param"] else ""))
        o.append("Definition %s_nparams : nat := %d." % (nm, len(c["params"])))
        o.append("Definition %s_num_wires (n : nat) : nat := %s." % (nm, "n" if c["num_wires"][0] == "int" else "%d" % c["num_wires"][1]))
        o.append("Definition %s_particles : pform := %s." % (nm, coq_pform(c["particles"], attr_id)))
        if c.get("target_only"):
            o.append("")
            continue
        na = len(c["atoms"])
        avars = " ".join("a%d" % i for i in range(na))
        abind = " (%s : K)" % avars if na else ""
        o.append("Definition %s_atoms : list aspec := %s." % (nm, coq_list([coq_aspec(a) for a in c["atoms"]])))
        alist = " ".join("(nth %d a s0)" % i for i in range(na))
        if c["mat"] is not None:
            rows = ";\n   ".join(coq_list(r) for r in c["mat"])
            o.append("Definition %s_mat {K : Scalar}%s : list (list K) :=\n  ([%s])%%K." % (nm, abind, rows))
            o.append("Definition %s_dim (n : nat) : nat := %d." % (nm, len(c["mat"])))
            if c["guard"]:
                rows0 = ";\n   ".join(coq_list(r) for r in c["guard"]["mat"])
                o.append("Definition %s_mat0 {K : Scalar}%s : list (list K) :=\n  ([%s])%%K." % (nm, abind, rows0))
                o.append("Definition %s_guard : option nat := Some %d." % (nm, c["guard"]["atom"]))
                o.append("Definition %s_bmx {K : Scalar} (g : bool) (n : nat) (a : list K) : BMx K :=\n"
                         "  if g then mxl (%s_mat0 %s) else mxl (%s_mat %s)." % (nm, nm, alist, nm, alist))
            else:
                o.append("Definition %s_guard : option nat := None." % nm)
                o.append("Definition %s_bmx {K : Scalar} (g : bool) (n : nat) (a : list K) : BMx K :=\n"
                         "  mxl (%s_mat %s)." % (nm, nm, alist))
        else:
            o.append("Definition %s_scalar {K : Scalar}%s : K := (%s)%%K." % (nm, abind, c["sym"]["scalar"]))
            o.append("Definition %s_dim (n : nat) : nat := 2 ^ n." % nm)
            o.append("Definition %s_guard : option nat := None." % nm)
            o.append("Definition %s_bmx {K : Scalar} (g : bool) (n : nat) (a : list K) : BMx K :=\n"
                     "  mscid (%s_scalar %s)." % (nm, nm, alist))
        o.append("Definition %s_is_hermitian : bool := %s." % (nm, "true" if c["is_hermitian"] else "false"))
        o.append("Definition %s_inverse : invform := %s." % (nm, coq_inv(c["inverse"], attr_id)))
        o.append("")

    def disp(field, default=None, only_elem=False):
        lines = []
        for nm in order:
            if d["classes"][nm].get("target_only") and only_elem:
                continue
            lines.append("  | c%s => %s_%s" % (nm, nm, field))
        if only_elem:
            lines.append("  | _ => %s" % default)
        return "\n".join(lines)
    o.append("Definition gen_db : gatedb := {|")
    o.append("  db_nparams := fun c => match c with\n%s\n  end;" % disp("nparams"))
    o.append("  db_atoms := fun c => match c with\n%s\n  end;" % disp("atoms", "[]", True))
    o.append("  db_guard := fun c => match c with\n%s\n  end;" % disp("guard", "None", True))
    o.append("  db_mat := fun K c => match c with\n%s\n  end;" % disp("bmx", "fun _ _ _ => mzero", True))
    o.append("  db_nw := fun c => match c with\n%s\n  end;" % disp("num_wires"))
    o.append("  db_dim := fun c => match c with\n%s\n  end;" % disp("dim", "fun n => 2 ^ n", True))
    o.append("  db_herm := fun c => match c with\n%s\n  end;" % disp("is_hermitian", "false", True))
    o.append("  db_inv := fun c => match c with\n%s\n  end;" % disp("inverse", "InvSelf", True))
    o.append("  db_part := fun c => match c with\n%s\n  end;" % disp("particles"))
    o.append("  db_islist := fun a => match a with\n%s\n  | _ => false\n  end |}." % "\n".join(
        "  | %d => %s" % (k, "true" if il else "false") for k, il in enumerate(d["islist"])))
    names = ["gen_db", "db_nparams", "db_atoms", "db_guard", "db_mat", "db_nw", "db_dim", "db_herm", "db_inv",
             "db_part", "db_islist"]
    for nm in order:
        fields = ["nparams", "num_wires", "particles"]
        if not d["classes"][nm].get("target_only"):
            fields += ["atoms", "guard", "bmx", "dim", "is_hermitian", "inverse"]
        names += ["%s_%s" % (nm, f) for f in fields]
    o.append("(* unfolds everything generated except the closed-form templates *)")
    o.append("Ltac gen_unfold := cbv [%s]." % " ".join(names))
    o.append("Ltac gen_unfold_in H := cbv [%s] in H." % " ".join(names))
    return "\n".join(o) + "\n"


if __name__ == "__main__":
    print(generate())
