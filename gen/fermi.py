"""T3: regenerate Coq definitions from the two fermion-to-qubit encoders

    /repo/src/qib/transform/jordan_wigner_encoding.py   (prefix jw)
    /repo/src/qib/transform/parity_encoding.py           (prefix par)

Extracted (fail-closed: anything outside the tiny subset raises pyx.Unsupported):
  * the loop `for i in range(L):` that fills clist/alist: the list expressions assigned to the
    z/x variables (`i*[0] + [1] + (L-i-1)*[1]`, optionally under `if i == 0: ... else: ...`)
    -> functions  Z -> Z -> list bool  (Python ints are Z; `n*[b]` is `repeat b (Z.to_nat n)`,
    which is exactly Python's behaviour for negative n),
  * the two `PauliString(z, x, q)` per ladder operator appended to clist resp. alist
    -> gen_<p>_tab : ltab   (q reduced mod 4 as the constructor does),
  * the weight expression  `0.5 ** len(term.opdesc) * coeff`
    -> gen_<p>_weight half k coeff  (the literal 0.5 becomes the parameter `half`),
  * the tolerance handed to remove_zero_weight_strings (exact binary value of the literal),
  * whether an empty result is given a zero-weight identity string (keepdim; see notes/C11.md).
The loop over terms/coefficients itself is hand-modelled (Qib.Fermi.FermiModel) and tied by the
correspondence run.
"""
import ast
from fractions import Fraction
from pyx import Unsupported, parse, find_func, body_nodoc, zlit

FILES = {
    "jw": ("src/qib/transform/jordan_wigner_encoding.py", "jordan_wigner_encode_field_operator"),
    "par": ("src/qib/transform/parity_encoding.py", "parity_encode_field_operator"),
}


# ------------------------------------------------------------------ integer expressions over L, i
def zexpr(e, names=("L", "i")):
    if isinstance(e, ast.Name) and e.id in names:
        return e.id
    if isinstance(e, ast.Constant) and isinstance(e.value, int) and not isinstance(e.value, bool):
        return zlit(e.value)
    if isinstance(e, ast.UnaryOp) and isinstance(e.op, ast.USub):
        return "(- %s)" % zexpr(e.operand, names)
    if isinstance(e, ast.BinOp) and type(e.op) in (ast.Add, ast.Sub, ast.Mult):
        sym = {ast.Add: "+", ast.Sub: "-", ast.Mult: "*"}[type(e.op)]
        return "(%s %s %s)" % (zexpr(e.left, names), sym, zexpr(e.right, names))
    raise Unsupported("integer expression %s" % ast.unparse(e))


def is_int_expr(e):
    try:
        zexpr(e)
        return True
    except Unsupported:
        return False


def bit(e):
    if isinstance(e, ast.Constant) and e.value in (0, 1) and not isinstance(e.value, bool):
        return "true" if e.value == 1 else "false"
    raise Unsupported("list entry %s (expected 0 or 1)" % ast.unparse(e))


def lexpr(e):
    """list-of-bits expression -> Coq term of type list bool (free variables L i : Z)"""
    if isinstance(e, ast.List):
        return "[" + "; ".join(bit(x) for x in e.elts) + "]"
    if isinstance(e, ast.BinOp) and isinstance(e.op, ast.Add):
        return "(%s ++ %s)" % (lexpr(e.left), lexpr(e.right))
    if isinstance(e, ast.BinOp) and isinstance(e.op, ast.Mult):
        for n, l in ((e.left, e.right), (e.right, e.left)):
            if isinstance(l, ast.List) and len(l.elts) == 1 and is_int_expr(n):
                return "(repeat %s (Z.to_nat %s))" % (bit(l.elts[0]), zexpr(n))
        raise Unsupported("list repetition %s" % ast.unparse(e))
    raise Unsupported("list expression %s" % ast.unparse(e))


def cond(e, names=("L", "i")):
    if isinstance(e, ast.Compare) and len(e.ops) == 1:
        a, b = zexpr(e.left, names), zexpr(e.comparators[0], names)
        op = type(e.ops[0])
        if op is ast.Eq:
            return "(%s =? %s)" % (a, b)
        if op is ast.NotEq:
            return "(negb (%s =? %s))" % (a, b)
        if op is ast.Lt:
            return "(%s <? %s)" % (a, b)
        if op is ast.Gt:
            return "(%s <? %s)" % (b, a)
        if op is ast.LtE:
            return "(%s <=? %s)" % (a, b)
        if op is ast.GtE:
            return "(%s <=? %s)" % (b, a)
    raise Unsupported("condition %s" % ast.unparse(e))


def single_assign(stmts):
    """a block consisting of exactly one `name = listexpr`"""
    if len(stmts) == 1 and isinstance(stmts[0], ast.Assign) and len(stmts[0].targets) == 1 \
            and isinstance(stmts[0].targets[0], ast.Name):
        return stmts[0].targets[0].id, lexpr(stmts[0].value)
    raise Unsupported("expected a single list assignment, got %s" % "; ".join(ast.unparse(s) for s in stmts))


# ------------------------------------------------------------------ the table loop
def table_loop(fn):
    loops = [s for s in body_nodoc(fn) if isinstance(s, ast.For)]
    if not loops:
        raise Unsupported("no loop")
    lp = loops[0]
    ok = (isinstance(lp.target, ast.Name) and lp.target.id == "i" and isinstance(lp.iter, ast.Call)
          and isinstance(lp.iter.func, ast.Name) and lp.iter.func.id == "range" and len(lp.iter.args) == 1
          and isinstance(lp.iter.args[0], ast.Name) and lp.iter.args[0].id == "L" and not lp.orelse)
    if not ok:
        raise Unsupported("first loop is not `for i in range(L):`")
    # L must be the number of lattice sites
    ldefs = [s for s in body_nodoc(fn) if isinstance(s, ast.Assign) and len(s.targets) == 1
             and isinstance(s.targets[0], ast.Name) and s.targets[0].id == "L"]
    if len(ldefs) != 1 or ast.unparse(ldefs[0].value) != "fields[0].lattice.nsites":
        raise Unsupported("L is not fields[0].lattice.nsites")
    defs, order, appended = {}, [], {}
    for s in lp.body:
        if isinstance(s, ast.Assign):
            nm, t = single_assign([s])
        elif isinstance(s, ast.If):
            n1, t1 = single_assign(s.body)
            n2, t2 = single_assign(s.orelse)
            if n1 != n2:
                raise Unsupported("if/else assign different variables")
            nm, t = n1, "(if %s then %s else %s)" % (cond(s.test), t1, t2)
        elif isinstance(s, ast.Expr) and isinstance(s.value, ast.Call) and isinstance(s.value.func, ast.Attribute) \
                and s.value.func.attr == "append" and isinstance(s.value.func.value, ast.Name) \
                and s.value.func.value.id in ("clist", "alist") and len(s.value.args) == 1 and not s.value.keywords:
            which = s.value.func.value.id
            arg = s.value.args[0]
            if which in appended or not (isinstance(arg, ast.List) and len(arg.elts) == 2):
                raise Unsupported("%s.append: expected one list of two Pauli strings" % which)
            strs = []
            for c in arg.elts:
                if not (isinstance(c, ast.Call) and isinstance(c.func, ast.Name) and c.func.id == "PauliString"
                        and len(c.args) == 3 and not c.keywords and isinstance(c.args[0], ast.Name)
                        and isinstance(c.args[1], ast.Name) and isinstance(c.args[2], ast.Constant)
                        and isinstance(c.args[2].value, int) and not isinstance(c.args[2].value, bool)):
                    raise Unsupported("%s.append: element %s" % (which, ast.unparse(c)))
                strs.append((c.args[0].id, c.args[1].id, c.args[2].value))
            appended[which] = strs
            continue
        else:
            raise Unsupported("statement in the table loop: %s" % ast.unparse(s)[:60])
        if nm in defs or nm in ("L", "i"):
            raise Unsupported("variable %s assigned twice" % nm)
        if appended:
            raise Unsupported("assignment after append")
        defs[nm] = t
        order.append(nm)
    if set(appended) != {"clist", "alist"}:
        raise Unsupported("clist/alist not both filled")
    for which, strs in appended.items():
        for z, x, q in strs:
            if z not in defs or x not in defs:
                raise Unsupported("%s uses an undefined list" % which)
    return defs, order, appended


# ------------------------------------------------------------------ weight, tolerance, keepdim
def kexpr(e):
    """scalar expression of the weight line -> (text, type) with type in {'K', 'nat'}"""
    if isinstance(e, ast.Name) and e.id == "coeff":
        return "coeff", "K"
    if isinstance(e, ast.Constant) and isinstance(e.value, (int, float)) and not isinstance(e.value, bool):
        if e.value == 0.5:
            return "half", "K"
        if e.value == 1:
            return "s1", "K"
        raise Unsupported("constant %r in the weight" % (e.value,))
    if isinstance(e, ast.Call) and isinstance(e.func, ast.Name) and e.func.id == "len" and len(e.args) == 1 \
            and ast.unparse(e.args[0]) == "term.opdesc":
        return "k", "nat"
    if isinstance(e, ast.BinOp):
        a, ta = kexpr(e.left)
        b, tb = kexpr(e.right)
        if isinstance(e.op, ast.Pow) and ta == "K" and tb == "nat":
            return "(spow %s %s)" % (a, b), "K"
        if isinstance(e.op, ast.Mult) and ta == "K" and tb == "K":
            return "(smul %s %s)" % (a, b), "K"
        raise Unsupported("operator %s in the weight" % type(e.op).__name__)
    raise Unsupported("weight expression %s" % ast.unparse(e))


def find_all(fn, pred):
    return [n for n in ast.walk(fn) if pred(n)]


def weight_of(fn):
    ws = find_all(fn, lambda n: isinstance(n, ast.Assign) and len(n.targets) == 1
                  and isinstance(n.targets[0], ast.Name) and n.targets[0].id == "weight")
    if len(ws) != 1:
        raise Unsupported("expected exactly one assignment to `weight`")
    t, ty = kexpr(ws[0].value)
    if ty != "K":
        raise Unsupported("weight is not a scalar")
    # the weight must be what is handed to WeightedPauliString (times the sign)
    uses = find_all(fn, lambda n: isinstance(n, ast.Call) and isinstance(n.func, ast.Name)
                    and n.func.id == "WeightedPauliString")
    uses = [u for u in uses if not (len(u.args) == 2 and ast.unparse(u.args[0]).startswith("PauliString.identity"))]
    if len(uses) != 1 or len(uses[0].args) != 2 or ast.unparse(uses[0].args[1]) not in ("sign * weight", "weight * sign"):
        raise Unsupported("WeightedPauliString is not built from `sign * weight`")
    return t


def tol_of(fn):
    cs = find_all(fn, lambda n: isinstance(n, ast.Call) and isinstance(n.func, ast.Attribute)
                  and n.func.attr == "remove_zero_weight_strings")
    if len(cs) != 1:
        raise Unsupported("expected exactly one call of remove_zero_weight_strings")
    c = cs[0]
    if c.args or len(c.keywords) != 1 or c.keywords[0].arg != "tol" or not isinstance(c.keywords[0].value, ast.Constant) \
            or not isinstance(c.keywords[0].value.value, (int, float)):
        raise Unsupported("remove_zero_weight_strings: expected tol=<literal>")
    fr = Fraction(c.keywords[0].value.value)
    if fr < 0:
        raise Unsupported("negative tolerance")
    return fr


def keepdim_of(fn):
    """True iff the function contains
         if not pauliop.pstrings: pauliop.add_pauli_string(WeightedPauliString(PauliString.identity(L), 0))
       (the proposed repair for the all-zero operator); any other use of identity strings is refused."""
    ifs = [s for s in body_nodoc(fn) if isinstance(s, ast.If)]
    hits = []
    for s in ifs:
        if ast.unparse(s.test) in ("not pauliop.pstrings", "len(pauliop.pstrings) == 0"):
            if s.orelse or len(s.body) != 1:
                raise Unsupported("unexpected shape of the empty-operator fallback")
            txt = ast.unparse(s.body[0])
            if txt not in ("pauliop.add_pauli_string(WeightedPauliString(PauliString.identity(L), 0))",
                           "pauliop.add_pauli_string(WeightedPauliString(PauliString.identity(L), 0.0))"):
                raise Unsupported("unexpected empty-operator fallback: %s" % txt)
            hits.append(s)
    if len(hits) > 1:
        raise Unsupported("several empty-operator fallbacks")
    return bool(hits)


def encoder_loop(fn, pre):
    """statement-by-statement translation of the assembling part of an encoder

        pauliop = PauliOperator()
        for term in fieldop.terms:
            it = np.nditer(term.coeffs, flags=["multi_index"])
            for coeff in it:
                [if coeff == 0: continue]
                pstrings = [PauliString.identity(L)]
                for i, j in enumerate(it.multi_index):
                    if <otype test>: pstrings = <list expression> elif ... else: raise
                weight = ...                                  (translated by weight_of)
                for ps in pstrings:
                    sign = ps.refactor_sign()
                    pauliop.add_pauli_string(WeightedPauliString(ps, sign * weight))
        [if not pauliop.pstrings: ...]                        (keepdim_of)
        pauliop.remove_zero_weight_strings(tol=...)           (tol_of)
        return pauliop

    and a whitelist for every other statement of the function.  List expressions: `[ps @ T for ps in pstrings]`
    (-> map), `+` (-> ++), with T = clist[j][0|1] / alist[j][0|1] and `@` = pmul in the order written.
    `sign = ps.refactor_sign(); add_pauli_string(WeightedPauliString(ps, sign * weight))` is the model's
    [add_signed] (refactor_sign mutates ps and returns the sign; C09 ties refactor_sign/add_pauli_string)."""
    body = body_nodoc(fn)
    loops = [s for s in body if isinstance(s, ast.For)]
    if len(loops) != 2:
        raise Unsupported("expected two top-level loops (table, terms)")
    tab_loop, tloop = loops
    k1, k2 = body.index(tab_loop), body.index(tloop)
    # prelude whitelist
    seen = set()
    for st in body[:k1]:
        if isinstance(st, ast.Assign) and len(st.targets) == 1 and isinstance(st.targets[0], ast.Name):
            nm, v = st.targets[0].id, ast.unparse(st.value)
            if nm in seen or (nm, v) not in (("fields", "fieldop.fields()"), ("L", "fields[0].lattice.nsites"),
                                             ("clist", "[]"), ("alist", "[]")):
                raise Unsupported("statement before the table loop: %s" % ast.unparse(st)[:60])
            seen.add(nm)
        elif isinstance(st, ast.If) and not st.orelse and all(isinstance(x, ast.Raise) for x in st.body):
            pass
        else:
            raise Unsupported("statement before the table loop: %s" % ast.unparse(st)[:60])
    if seen != {"fields", "L", "clist", "alist"}:
        raise Unsupported("fields / L / clist / alist not all defined before the table loop")
    mid_ = body[k1 + 1:k2]
    if len(mid_) != 1 or ast.unparse(mid_[0]) != "pauliop = PauliOperator()":
        raise Unsupported("between the loops: expected exactly `pauliop = PauliOperator()`")
    tail = body[k2 + 1:]
    if tail and isinstance(tail[0], ast.If):
        tail = tail[1:]                        # shape checked by keepdim_of
    if len(tail) != 2 or not (isinstance(tail[0], ast.Expr) and isinstance(tail[0].value, ast.Call)
                              and ast.unparse(tail[0].value.func) == "pauliop.remove_zero_weight_strings") \
            or ast.unparse(tail[1]) != "return pauliop":
        raise Unsupported("after the term loop: expected [empty-operator fallback], remove_zero_weight_strings, return pauliop")
    # the term loop
    if not (ast.unparse(tloop.target) == "term" and ast.unparse(tloop.iter) == "fieldop.terms" and not tloop.orelse
            and len(tloop.body) == 2):
        raise Unsupported("expected `for term in fieldop.terms:` with two statements")
    itdef, cloop = tloop.body
    if ast.unparse(itdef) != "it = np.nditer(term.coeffs, flags=['multi_index'])":
        raise Unsupported("iterator is not np.nditer(term.coeffs, flags=['multi_index'])")
    if not (isinstance(cloop, ast.For) and ast.unparse(cloop.iter) == "it" and ast.unparse(cloop.target) == "coeff"
            and not cloop.orelse):
        raise Unsupported("expected `for coeff in it:`")
    stmts = list(cloop.body)
    skip = None
    if stmts and isinstance(stmts[0], ast.If):
        s0 = stmts.pop(0)
        if s0.orelse or len(s0.body) != 1 or not isinstance(s0.body[0], ast.Continue):
            raise Unsupported("the leading `if` of the coefficient loop is not `if ...: continue`")
        skip = zero_test(s0.test, "coeff")
    if len(stmts) != 4:
        raise Unsupported("coefficient loop: expected pstrings = [identity], the expansion loop, weight = ..., the insertion loop")
    pdef, ploop, wdef, iloop = stmts
    if ast.unparse(pdef) != "pstrings = [PauliString.identity(L)]":
        raise Unsupported("pstrings does not start as [PauliString.identity(L)]")
    if not (isinstance(ploop, ast.For) and ast.unparse(ploop.target) == "(i, j)"
            and ast.unparse(ploop.iter) == "enumerate(it.multi_index)" and not ploop.orelse
            and len(ploop.body) == 1 and isinstance(ploop.body[0], ast.If)):
        raise Unsupported("expected `for i, j in enumerate(it.multi_index):` with one if/elif/else")

    def pstr_expr(e):
        if isinstance(e, ast.Name) and e.id == "ps":
            return "ps"
        if isinstance(e, ast.Subscript) and isinstance(e.slice, ast.Constant) and e.slice.value in (0, 1) \
                and not isinstance(e.slice.value, bool) and isinstance(e.value, ast.Subscript) \
                and isinstance(e.value.value, ast.Name) and e.value.value.id in ("clist", "alist") \
                and isinstance(e.value.slice, ast.Name) and e.value.slice.id == "j":
            return "(%s (%s (snd ij)))" % ("fst" if e.slice.value == 0 else "snd", e.value.value.id)
        if isinstance(e, ast.BinOp) and isinstance(e.op, ast.MatMult):
            return "(pmul %s %s)" % (pstr_expr(e.left), pstr_expr(e.right))
        raise Unsupported("Pauli-string expression %s" % ast.unparse(e))

    def list_expr(e):
        if isinstance(e, ast.Name) and e.id == "pstrings":
            return "pstrings"
        if isinstance(e, ast.BinOp) and isinstance(e.op, ast.Add):
            return "(%s ++ %s)" % (list_expr(e.left), list_expr(e.right))
        if isinstance(e, ast.ListComp) and len(e.generators) == 1:
            g = e.generators[0]
            if isinstance(g.target, ast.Name) and g.target.id == "ps" and not g.ifs and not g.is_async:
                return "(map (fun ps => %s) %s)" % (pstr_expr(e.elt), list_expr(g.iter))
        raise Unsupported("list expression %s" % ast.unparse(e))

    def pbranch(node):
        if not (len(node.body) == 1 and isinstance(node.body[0], ast.Assign)
                and ast.unparse(node.body[0].targets[0]) == "pstrings"):
            raise Unsupported("branch of the expansion loop is not a single assignment to pstrings")
        t = "if %s then %s\n          else " % (otype_test(node.test), list_expr(node.body[0].value))
        if len(node.orelse) == 1 and isinstance(node.orelse[0], ast.If):
            return t + pbranch(node.orelse[0])
        if len(node.orelse) == 1 and isinstance(node.orelse[0], ast.Raise):
            return t + "[]"
        raise Unsupported("else-branch of the expansion loop")
    step = pbranch(ploop.body[0])
    if not (isinstance(wdef, ast.Assign) and ast.unparse(wdef.targets[0]) == "weight"):
        raise Unsupported("expected `weight = ...` after the expansion loop")
    if not (isinstance(iloop, ast.For) and ast.unparse(iloop.target) == "ps" and ast.unparse(iloop.iter) == "pstrings"
            and not iloop.orelse and [ast.unparse(x) for x in iloop.body] ==
            ["sign = ps.refactor_sign()", "pauliop.add_pauli_string(WeightedPauliString(ps, sign * weight))"]):
        raise Unsupported("insertion loop is not `for ps in pstrings: sign = ps.refactor_sign(); "
                          "pauliop.add_pauli_string(WeightedPauliString(ps, sign * weight))`")
    inner = ("let pstrings := fold_left (fun (pstrings : list pstr) (ij : ifo) =>\n          %s)\n"
             "        (combine (tpat tm) idx) [pident n] in\n"
             "      let weight := gen_%s_weight half (length (tpat tm)) coeff in\n"
             "      fold_left (fun (pauliop : list (wstr (K:=K))) (ps : pstr) => add_signed weight pauliop ps) pstrings pauliop"
             % (step, pre))
    if skip:
        inner = "if %s then pauliop else\n      %s" % (skip, inner)
    return ("(* the assembling loop, statement by statement; zero-skip test present: %s *)\n"
            "Definition gen_%s_skips_zero : bool := %s.\n"
            "Definition gen_%s_loop {K : Scalar} (half : K) (isz : K -> bool) (n : nat)\n"
            "           (clist alist : nat -> (pstr * pstr)%%type) (terms : list (term K)) : list (wstr (K:=K)) :=\n"
            "  fold_left (fun (pauliop : list (wstr (K:=K))) (tm : term K) =>\n"
            "    fold_left (fun (pauliop : list (wstr (K:=K))) (idx : list nat) =>\n"
            "      let coeff := tcf tm idx in\n"
            "      %s)\n"
            "    (all_idx n (length (tpat tm))) pauliop)\n"
            "  terms []." % (bool(skip), pre, "true" if skip else "false", pre, inner))


def qlit(fr):
    return "(Qmake %s %d%%positive)" % ("%d%%Z" % fr.numerator, fr.denominator)


def generate():
    out = ["(* generated by gen/fermi.py from the two encoder sources -- do not edit *)",
           "From Qib Require Import Fermi.FermiModel.", "From Coq Require Import QArith.",
           "Local Open Scope Z_scope.", ""]
    for pre, (path, fname) in FILES.items():
        tree = parse(path)
        strict_toplevel(tree, path, [fname])
        fn = find_func(tree, fname)
        defs, order, appended = table_loop(fn)
        out.append("(* ---- %s: %s *)" % (pre, path))
        for nm in order:
            out.append("Definition gen_%s_%s (L i : Z) : list bool := %s." % (pre, nm, defs[nm]))

        def pstr(s):
            z, x, q = s
            return "{| pz := gen_%s_%s L i; px := gen_%s_%s L i; pq := Z.modulo %s 4 |}" % (pre, z, pre, x, zlit(q))
        c, a = appended["clist"], appended["alist"]
        out.append("Definition gen_%s_tab : ltab := fun kind Ln In =>\n"
                   "  let L := Z.of_nat Ln in let i := Z.of_nat In in\n"
                   "  if kind then (%s,\n                %s)\n"
                   "  else (%s,\n        %s)." % (pre, pstr(c[0]), pstr(c[1]), pstr(a[0]), pstr(a[1])))
        out.append("Definition gen_%s_weight {K : Scalar} (half : K) (k : nat) (coeff : K) : K := %s."
                   % (pre, weight_of(fn)))
        out.append("Definition gen_%s_tol : Q := %s." % (pre, qlit(tol_of(fn))))
        out.append("Definition gen_%s_keepdim : bool := %s." % (pre, "true" if keepdim_of(fn) else "false"))
        out.append("Definition gen_%s_params {K : Scalar} (half : K) : encparams K :=\n"
                   "  {| ep_tab := gen_%s_tab; ep_weight := gen_%s_weight half; ep_keepdim := gen_%s_keepdim |}."
                   % (pre, pre, pre, pre))
        out.append(encoder_loop(fn, pre))
        out.append("")
    return "\n".join(out) + "\n"


# ====================================================================== field_operator.py (C10)
FO_FILE = "src/qib/operator/field_operator.py"


def kconst(e):
    """float literal of a 2x2 site matrix -> scalar term"""
    if isinstance(e, ast.UnaryOp) and isinstance(e.op, ast.USub):
        return "(sopp %s)" % kconst(e.operand)
    if isinstance(e, ast.Constant) and isinstance(e.value, (int, float)) and not isinstance(e.value, bool):
        if e.value == 0:
            return "s0"
        if e.value == 1:
            return "s1"
    raise Unsupported("matrix entry %s" % ast.unparse(e))


def site_matrix(e):
    """sparse.identity(2) | sparse.csr_matrix([[a,b],[c,d]]) -> list-of-rows text"""
    if isinstance(e, ast.Call) and ast.unparse(e.func) == "sparse.identity" and len(e.args) == 1 and not e.keywords \
            and isinstance(e.args[0], ast.Constant) and e.args[0].value == 2:
        return "[[s1; s0]; [s0; s1]]"
    if isinstance(e, ast.Call) and ast.unparse(e.func) == "sparse.csr_matrix" and len(e.args) == 1 and not e.keywords \
            and isinstance(e.args[0], ast.List) and len(e.args[0].elts) == 2 \
            and all(isinstance(r, ast.List) and len(r.elts) == 2 for r in e.args[0].elts):
        return "[" + "; ".join("[" + "; ".join(kconst(x) for x in r.elts) + "]" for r in e.args[0].elts) + "]"
    raise Unsupported("site matrix %s" % ast.unparse(e))


def generate_fo():
    """FieldOperator.as_matrix: the 2x2 site matrices, the Kronecker-factor selection rule of
    clist[i], and `alist = [c.conj().T for c in clist]`."""
    tree = parse(FO_FILE)
    strict_toplevel(tree, FO_FILE, ["IFOType", "IFODesc", "FieldOperatorTerm", "FieldOperator"])
    cls = [n for n in tree.body if isinstance(n, ast.ClassDef) and n.name == "FieldOperator"]
    if len(cls) != 1:
        raise Unsupported("class FieldOperator not found")
    fn = only_method(cls[0], "as_matrix")
    body = body_nodoc(fn)
    mats = {}
    loop = None
    alist_ok = False
    seen = set()
    for s in body:
        if loop is None:
            # prelude: only the field lookup, the refusal of unsupported fields, L, the site matrices, clist = []
            if isinstance(s, ast.Assign) and len(s.targets) == 1 and isinstance(s.targets[0], ast.Name):
                nm = s.targets[0].id
                if nm in seen:
                    raise Unsupported("variable %s assigned twice before the ladder loop" % nm)
                seen.add(nm)
                if nm == "fields":
                    if ast.unparse(s.value) != "self.fields()":
                        raise Unsupported("fields is not self.fields()")
                elif nm == "L":
                    if ast.unparse(s.value) != "fields[0].lattice.nsites":
                        raise Unsupported("L is not fields[0].lattice.nsites")
                elif nm == "clist":
                    if ast.unparse(s.value) != "[]":
                        raise Unsupported("clist does not start empty")
                elif nm == "alist":
                    raise Unsupported("alist defined before clist is filled")
                else:
                    mats[nm] = site_matrix(s.value)
            elif isinstance(s, ast.If) and not s.orelse and all(isinstance(x, ast.Raise) for x in s.body):
                pass                     # a refusal (raise) narrows the domain, it cannot change a result
            elif isinstance(s, ast.For):
                loop = s
            else:
                raise Unsupported("statement before the ladder loop: %s" % ast.unparse(s)[:60])
        elif isinstance(s, ast.Assign) and len(s.targets) == 1 and isinstance(s.targets[0], ast.Name) \
                and s.targets[0].id == "alist":
            if alist_ok or ast.unparse(s.value) != "[c.conj().T for c in clist]":
                raise Unsupported("alist is not (once) [c.conj().T for c in clist]")
            alist_ok = True
        # everything after the ladder loop is checked by assembly_loop
    if not {"fields", "L", "clist"} <= seen:
        raise Unsupported("fields / L / clist not all defined before the ladder loop")
    if loop is None or ast.unparse(loop.target) != "i" or ast.unparse(loop.iter) != "range(L)":
        raise Unsupported("clist loop `for i in range(L):` not found")
    if not alist_ok:
        raise Unsupported("alist definition not found")
    lb = loop.body
    if not (len(lb) == 3 and ast.unparse(lb[0]) == "c = sparse.identity(1)" and isinstance(lb[1], ast.For)
            and ast.unparse(lb[1].target) == "j" and ast.unparse(lb[1].iter) == "range(L)" and not lb[1].orelse
            and ast.unparse(lb[2]) == "clist.append(c)"):
        raise Unsupported("unexpected shape of the clist loop body")
    inner = lb[1].body
    if len(inner) != 1 or not isinstance(inner[0], ast.If):
        raise Unsupported("inner loop is not a single if/elif/else")

    def kron_factor(stmts):
        if len(stmts) == 1 and isinstance(stmts[0], ast.Assign) and ast.unparse(stmts[0].targets[0]) == "c":
            v = stmts[0].value
            if isinstance(v, ast.Call) and ast.unparse(v.func) == "sparse.kron" and len(v.args) == 2 and not v.keywords \
                    and ast.unparse(v.args[0]) == "c" and isinstance(v.args[1], ast.Name) and v.args[1].id in mats:
                return "gen_fo_%s" % v.args[1].id
        raise Unsupported("expected `c = sparse.kron(c, <site matrix>)`")

    def branch(node):
        """if/elif/else chain -> nested Coq if"""
        t = "(if %s then %s else " % (cond(node.test, ("L", "i", "j")), kron_factor(node.body))
        if len(node.orelse) == 1 and isinstance(node.orelse[0], ast.If):
            return t + branch(node.orelse[0]) + ")"
        return t + kron_factor(node.orelse) + ")"

    sel = branch(inner[0])
    out = ["(* generated by gen/fermi.py from %s (FieldOperator.as_matrix) -- do not edit *)" % FO_FILE,
           "From Qib Require Import Fermi.FermiModel.", "Local Open Scope Z_scope.", ""]
    for nm, t in mats.items():
        out.append("Definition gen_fo_%s {K : Scalar} : list (list K) := %s." % (nm, t))
    out.append("Definition gen_fo_site {K : Scalar} (i j : Z) : list (list K) := %s." % sel)
    out.append("Definition gen_fo_alist_is_adjoint : bool := true.")
    out.append("")
    out.append(assembly_loop(body, loop))
    return "\n".join(out) + "\n"


# ---------------------------------------------------------------------- the accumulation loop of as_matrix
def is_pow2L(e):
    return ast.unparse(e) == "2 ** L"


def zero_test(e, var):
    """the test of `if <e>: continue`:  var == 0 (either order, 0 or 0.0) -> 'isz var'"""
    if isinstance(e, ast.Compare) and len(e.ops) == 1 and isinstance(e.ops[0], ast.Eq):
        a, b = e.left, e.comparators[0]
        for x, y in ((a, b), (b, a)):
            if isinstance(x, ast.Name) and x.id == var and isinstance(y, ast.Constant) \
                    and isinstance(y.value, (int, float)) and not isinstance(y.value, bool) and y.value == 0:
                return "isz %s" % var
    raise Unsupported("skip test `%s` (only `%s == 0` is understood)" % (ast.unparse(e), var))


def otype_test(e):
    """term.opdesc[i].otype == IFOType.FERMI_CREATE / FERMI_ANNIHIL  ->  test on the pattern entry (true = create)"""
    if isinstance(e, ast.Compare) and len(e.ops) == 1 and isinstance(e.ops[0], ast.Eq):
        l, r = ast.unparse(e.left), ast.unparse(e.comparators[0])
        for x, y in ((l, r), (r, l)):
            if x == "term.opdesc[i].otype" and y == "IFOType.FERMI_CREATE":
                return "Bool.eqb (fst ij) true"
            if x == "term.opdesc[i].otype" and y == "IFOType.FERMI_ANNIHIL":
                return "Bool.eqb (fst ij) false"
    raise Unsupported("operator-type test `%s`" % ast.unparse(e))


def assembly_loop(body, clist_loop):
    """statement-by-statement translation of

        op = sparse.csr_matrix((2**L, 2**L))
        for term in self.terms:
            it = np.nditer(term.coeffs, flags=["multi_index"])
            for coeff in it:
                [if coeff == 0: continue]
                fstring = sparse.identity(2**L)
                for i, j in enumerate(it.multi_index):
                    if <otype test>: fstring = <product of fstring / clist[j] / alist[j]> elif ... else: raise
                op += coeff * fstring
        return op

    Assumed meaning of the numpy iterator (validated by the correspondence run): np.nditer(a, flags=["multi_index"])
    visits every multi-index of `a` exactly once, `coeff` being a[it.multi_index] (C order for C-contiguous
    arrays; the order is irrelevant for the sum)."""
    k = body.index(clist_loop)
    rest = [s for s in body[k + 1:] if not (isinstance(s, ast.Assign) and ast.unparse(s.targets[0]) == "alist")]
    if len(rest) != 3:
        raise Unsupported("after the ladder matrices: expected `op = ...`, one loop over the terms and `return op`")
    init, tloop, ret = rest
    if not (isinstance(init, ast.Assign) and len(init.targets) == 1 and isinstance(init.targets[0], ast.Name)
            and isinstance(init.value, ast.Call) and ast.unparse(init.value.func) == "sparse.csr_matrix"
            and len(init.value.args) == 1 and not init.value.keywords and isinstance(init.value.args[0], ast.Tuple)
            and len(init.value.args[0].elts) == 2 and all(is_pow2L(x) for x in init.value.args[0].elts)):
        raise Unsupported("accumulator is not initialised by sparse.csr_matrix((2**L, 2**L))")
    acc = init.targets[0].id
    if not (isinstance(ret, ast.Return) and isinstance(ret.value, ast.Name) and ret.value.id == acc):
        raise Unsupported("as_matrix does not end with `return %s`" % acc)
    if not (isinstance(tloop, ast.For) and ast.unparse(tloop.target) == "term" and ast.unparse(tloop.iter) == "self.terms"
            and not tloop.orelse and len(tloop.body) == 2):
        raise Unsupported("expected `for term in self.terms:` with two statements")
    itdef, cloop = tloop.body
    if ast.unparse(itdef) != "it = np.nditer(term.coeffs, flags=['multi_index'])":
        raise Unsupported("iterator is not np.nditer(term.coeffs, flags=['multi_index'])")
    if not (isinstance(cloop, ast.For) and ast.unparse(cloop.iter) == "it" and isinstance(cloop.target, ast.Name)
            and not cloop.orelse):
        raise Unsupported("expected `for coeff in it:`")
    cv = cloop.target.id
    if cv != "coeff":
        raise Unsupported("the coefficient variable is not called coeff")
    stmts = list(cloop.body)
    skip = None
    if stmts and isinstance(stmts[0], ast.If):
        s0 = stmts.pop(0)
        if s0.orelse or len(s0.body) != 1 or not isinstance(s0.body[0], ast.Continue):
            raise Unsupported("the leading `if` of the coefficient loop is not `if ...: continue`")
        skip = zero_test(s0.test, cv)
    if len(stmts) != 3:
        raise Unsupported("coefficient loop: expected fstring = identity, the product loop and the accumulation")
    fdef, ploop, accum = stmts
    if not (isinstance(fdef, ast.Assign) and ast.unparse(fdef.targets[0]) == "fstring" and isinstance(fdef.value, ast.Call)
            and ast.unparse(fdef.value.func) == "sparse.identity" and len(fdef.value.args) == 1 and not fdef.value.keywords
            and is_pow2L(fdef.value.args[0])):
        raise Unsupported("fstring is not initialised by sparse.identity(2**L)")
    if not (isinstance(ploop, ast.For) and ast.unparse(ploop.target) == "(i, j)"
            and ast.unparse(ploop.iter) == "enumerate(it.multi_index)" and not ploop.orelse
            and len(ploop.body) == 1 and isinstance(ploop.body[0], ast.If)):
        raise Unsupported("expected `for i, j in enumerate(it.multi_index):` with one if/elif/else")

    def matexpr(e):
        if isinstance(e, ast.Name) and e.id == "fstring":
            return "fstring"
        if isinstance(e, ast.Subscript) and isinstance(e.value, ast.Name) and e.value.id in ("clist", "alist") \
                and isinstance(e.slice, ast.Name) and e.slice.id == "j":
            return "(%s (snd ij))" % e.value.id
        if isinstance(e, ast.BinOp) and isinstance(e.op, ast.MatMult):
            return "(mmul n %s %s)" % (matexpr(e.left), matexpr(e.right))
        raise Unsupported("matrix expression %s" % ast.unparse(e))

    def pbranch(node):
        if not (len(node.body) == 1 and isinstance(node.body[0], ast.Assign)
                and ast.unparse(node.body[0].targets[0]) == "fstring"):
            raise Unsupported("branch of the product loop is not a single assignment to fstring")
        t = "if %s then %s else " % (otype_test(node.test), matexpr(node.body[0].value))
        if len(node.orelse) == 1 and isinstance(node.orelse[0], ast.If):
            return t + pbranch(node.orelse[0])
        if len(node.orelse) == 1 and isinstance(node.orelse[0], ast.Raise):
            return t + "mzero"
        if not node.orelse:
            return t + "fstring"
        raise Unsupported("else-branch of the product loop")
    step = pbranch(ploop.body[0])
    # op += coeff * fstring   |   op = op + coeff * fstring
    if isinstance(accum, ast.AugAssign) and isinstance(accum.op, ast.Add) and ast.unparse(accum.target) == acc:
        addend = accum.value
    elif isinstance(accum, ast.Assign) and ast.unparse(accum.targets[0]) == acc and isinstance(accum.value, ast.BinOp) \
            and isinstance(accum.value.op, ast.Add) and ast.unparse(accum.value.left) == acc:
        addend = accum.value.right
    else:
        raise Unsupported("accumulation `%s` is not `%s += ...`" % (ast.unparse(accum), acc))
    if not (isinstance(addend, ast.BinOp) and isinstance(addend.op, ast.Mult)
            and sorted([ast.unparse(addend.left), ast.unparse(addend.right)]) == ["coeff", "fstring"]):
        raise Unsupported("the addend `%s` is not coeff * fstring" % ast.unparse(addend))
    inner = ("let fstring := fold_left (fun (fstring : BMx K) (ij : ifo) =>\n          %s)\n"
             "        (combine (tpat tm) idx) mid in\n      madd op (mscal coeff fstring)" % step)
    if skip:
        inner = "if %s then op else\n      %s" % (skip, inner)
    return ("(* the accumulation loop of as_matrix, statement by statement; zero-skip test present: %s *)\n"
            "Definition gen_fo_skips_zero : bool := %s.\n"
            "Definition gen_fo_loop {K : Scalar} (n : nat) (isz : K -> bool) (clist alist : nat -> BMx K)\n"
            "           (terms : list (term K)) : BMx K :=\n"
            "  fold_left (fun (op : BMx K) (tm : term K) =>\n"
            "    fold_left (fun (op : BMx K) (idx : list nat) =>\n"
            "      let coeff := tcf tm idx in\n"
            "      %s)\n"
            "    (all_idx n (length (tpat tm))) op)\n"
            "  terms mzero." % (bool(skip), "true" if skip else "false", inner))


# ---------------------------------------------------------------------- strictness: one binding per name
def strict_toplevel(tree, path, allowed_defs):
    """the module consists of imports, a docstring and exactly the named classes / functions, each bound once
    (a second `def`/assignment at the end of a file would silently replace what the translator read)"""
    seen = []
    for n in tree.body:
        if isinstance(n, (ast.Import, ast.ImportFrom)):
            continue
        if isinstance(n, ast.Expr) and isinstance(n.value, ast.Constant) and isinstance(n.value.value, str):
            continue
        if isinstance(n, (ast.ClassDef, ast.FunctionDef)) and not n.decorator_list:
            seen.append(n.name)
            continue
        raise Unsupported("%s: top-level statement `%s`" % (path, ast.unparse(n)[:60]))
    if sorted(seen) != sorted(allowed_defs):
        raise Unsupported("%s: top-level definitions %r, expected %r" % (path, seen, sorted(allowed_defs)))


def only_method(cls, name):
    ms = [n for n in cls.body if isinstance(n, ast.FunctionDef) and n.name == name]
    others = [n for n in cls.body if isinstance(n, ast.Assign) and any(ast.unparse(t) == name for t in n.targets)]
    if len(ms) != 1 or others:
        raise Unsupported("%s.%s is not defined exactly once" % (cls.name, name))
    return ms[0]


# the methods that are hand-modelled in Qib.Fermi.FermiModel (tadj, tmul, op_adj, op_add, op_mul, herm_flag, ifo_adj):
# their normalised source (docstrings and pure refusals `if ...: raise` removed) must be exactly this text
FO_METHODS = {
    ("IFOType", "adjoint", "otype"): """if otype == IFOType.BOSON_CREATE:
    return IFOType.BOSON_ANNIHIL
if otype == IFOType.BOSON_ANNIHIL:
    return IFOType.BOSON_CREATE
if otype == IFOType.FERMI_CREATE:
    return IFOType.FERMI_ANNIHIL
if otype == IFOType.FERMI_ANNIHIL:
    return IFOType.FERMI_CREATE
return otype""",
    ("IFODesc", "__init__", "self,field,otype"): """self.field = field
self.otype = otype""",
    ("IFODesc", "adjoint", "self"): "return IFODesc(self.field, IFOType.adjoint(self.otype))",
    ("FieldOperatorTerm", "__init__", "self,opdesc,coeffs"): """self.opdesc = tuple(opdesc)
self.coeffs = np.asarray(coeffs)""",
    ("FieldOperatorTerm", "is_hermitian", "self"): """n = len(self.opdesc)
if not all((self.opdesc[i].field == self.opdesc[n - 1 - i].field and self.opdesc[i].otype == IFOType.adjoint(self.opdesc[n - 1 - i].otype) for i in range(n))):
    return False
return np.allclose(self.coeffs, self.coeffs.conj().T)""",
    ("FieldOperatorTerm", "adjoint", "self"):
        "return FieldOperatorTerm((desc.adjoint() for desc in reversed(self.opdesc)), self.coeffs.conj().T)",
    ("FieldOperatorTerm", "__matmul__", "self,other"): """coeffs = np.kron(self.coeffs.reshape(-1), other.coeffs.reshape(-1)).reshape(self.coeffs.shape + other.coeffs.shape)
return FieldOperatorTerm(self.opdesc + other.opdesc, coeffs)""",
    ("FieldOperator", "__init__", "self,terms"): """if terms is None:
    self.terms = []
else:
    self.terms = list(terms)""",
    ("FieldOperator", "__add__", "self,other"): """if other == 0:
    return self
return FieldOperator(self.terms + other.terms)""",
    ("FieldOperator", "__radd__", "self,other"): """if other == 0:
    return self
return FieldOperator(other.terms + self.terms)""",
    ("FieldOperator", "__matmul__", "self,other"): "return FieldOperator([t1 @ t2 for t1 in self.terms for t2 in other.terms])",
    ("FieldOperator", "adjoint", "self"): "return FieldOperator([term.adjoint() for term in self.terms])",
}


def is_refusal(s):
    """`if c: raise ...` (also nested ifs that only raise): can only narrow the domain"""
    return isinstance(s, ast.If) and all(isinstance(x, ast.Raise) or is_refusal(x) for x in s.body) \
        and all(isinstance(x, ast.Raise) or is_refusal(x) for x in s.orelse)


def generate_fo_methods():
    """template tie for the small methods of field_operator.py that the Coq model copies by hand"""
    tree = parse(FO_FILE)
    strict_toplevel(tree, FO_FILE, ["IFOType", "IFODesc", "FieldOperatorTerm", "FieldOperator"])
    classes = {n.name: n for n in tree.body if isinstance(n, ast.ClassDef)}
    out = ["(* generated by gen/fermi.py: the hand-modelled methods of %s have exactly the expected source *)" % FO_FILE]
    for (cname, mname, args), want in FO_METHODS.items():
        cls = classes[cname]
        if cls.decorator_list or cls.keywords:
            raise Unsupported("class %s is decorated" % cname)
        fn = only_method(cls, mname)
        got_args = ",".join(a.arg for a in fn.args.args)
        deco = [ast.unparse(d) for d in fn.decorator_list]
        if got_args != args or fn.args.vararg or fn.args.kwarg or fn.args.kwonlyargs or deco not in ([], ["staticmethod"]):
            raise Unsupported("%s.%s: signature (%s) %r" % (cname, mname, got_args, deco))
        got = "\n".join(ast.unparse(st) for st in body_nodoc(fn) if not is_refusal(st))
        if got != want:
            raise Unsupported("%s.%s differs from the modelled source:\n%s" % (cname, mname, got))
        out.append("(* %s.%s: as modelled *)" % (cname, mname))
    # special methods that could change what the operations above mean
    for cname in ("FieldOperatorTerm", "FieldOperator", "IFODesc"):
        for n in classes[cname].body:
            if isinstance(n, ast.FunctionDef) and n.name in ("__getattr__", "__getattribute__", "__setattr__", "__eq__", "__new__",
                                                           "__iadd__", "__imatmul__", "__rmatmul__"):
                raise Unsupported("%s defines %s" % (cname, n.name))
    out.append("Definition gen_fo_methods_as_modelled : bool := true.")
    return "\n".join(out) + "\n"


if __name__ == "__main__":
    print(generate())
    print(generate_fo())
