"""C06 translator: regenerate the BUILD PROGRAMS of the gate tensor networks from the source.

  src/qib/tensor_network/tensor_network.py   TensorNetwork.wrap
  src/qib/operator/gates.py                  ControlledGate / MultiplexedGate / PhaseFactorGate /
                                             PrepareGate .as_tensornet, and for every other Gate
                                             subclass the argument handed to TensorNetwork.wrap

Every statement of these methods is translated (fail-closed: anything outside the small
statement/expression subset raises pyx.Unsupported, which the check reports as a broken tie):

  stn = SymbolicTensorNetwork()                       -> st0
  x = SymbolicTensor(tid, shape, bids, ref); stn.add_tensor(x)   -> new_tensor st tid shape bids ref
  stn.add_bond(SymbolicBond(bid, tids))               -> add_bond st bid tids
  x.bids[e] = v / stn.get_tensor(t).bids[e] = v       -> set_bid st <tid of x> e v
  bid_next = 0 / bid_next += 1                        -> set_next st 0 / incr st
  for i in range(..): ...  /  if c: ... else: ...      -> zfor / if
  j = self.ctrl_state[i]                              -> chk_idx + let j := csget ..
numpy statements only contribute the SHAPES they determine (np.reshape target, np.stack adds a
leading axis, np.zeros(shape=..)), the index tuples set to 1 on the cross tensors and the
literal matrices; the data dictionary itself is checked to bind each dataref to the expected
array (fail-closed) and is modelled by hand in Qib.GateNet.GateNetModel.
"""
import ast
from pyx import Unsupported, parse, find_class, find_func, body_nodoc

GATES = "src/qib/operator/gates.py"
TNET = "src/qib/tensor_network/tensor_network.py"

REFS = {"ctrl_cross_neg": "REF_neg", "ctrl_cross_pos": "REF_pos", "PauliX": "REF_PauliX", "|0>_2": "REF_ket0"}


def src_of(n):
    try:
        return ast.unparse(n)
    except Exception:
        return type(n).__name__


class B:
    """translator of one method body"""

    def __init__(self, ints, stn="stn"):
        self.ints = dict(ints)        # python int expression name -> coq text (Z)
        self.alias = {}               # tensor object name -> coq text of its tid
        self.shapes = {}              # array name -> coq text of its shape (list nat)
        self.entries = {}             # array name -> list of index tuples set to 1
        self.lists = {}               # python list-of-names name -> [names]
        self.reflists = {}            # python list of dataref strings name -> [coq ref]
        self.refnames = {}            # local name holding a dataref -> coq ref
        self.literals = {}            # literal arrays: key -> rows
        self.databind = []            # (coq ref text or python key source, array source)
        self.boolparams = {}          # self.transpose -> coq name
        self.stn = stn
        self.pending = None           # SymbolicTensor constructed, waiting for add_tensor
        self.has_consistency_assert = False
        self.vectors = {}             # self.ctrl_state -> coq name

    # ------------------------------------------------------------------ integer expressions
    def key(self, e):
        if isinstance(e, ast.Name):
            return e.id
        if isinstance(e, ast.Attribute) and isinstance(e.value, ast.Name):
            return e.value.id + "." + e.attr
        return None

    def z(self, e):
        k = self.key(e)
        if k is not None and k in self.ints:
            return self.ints[k]
        if isinstance(e, ast.Constant) and isinstance(e.value, int) and not isinstance(e.value, bool):
            return str(e.value) if e.value >= 0 else "(%d)" % e.value
        if isinstance(e, ast.UnaryOp) and isinstance(e.op, ast.USub):
            return "(- %s)" % self.z(e.operand)
        if isinstance(e, ast.BinOp) and type(e.op) in (ast.Add, ast.Sub, ast.Mult):
            sym = {ast.Add: "+", ast.Sub: "-", ast.Mult: "*"}[type(e.op)]
            return "(%s %s %s)" % (self.z(e.left), sym, self.z(e.right))
        if isinstance(e, ast.Attribute) and isinstance(e.value, ast.Name):
            if e.attr == "tid" and e.value.id in self.alias:
                return self.alias[e.value.id]
            if e.attr == "ndim" and e.value.id in self.shapes:
                return "(Z.of_nat (length %s))" % self.shapes[e.value.id]
        if isinstance(e, ast.Subscript) and self.key(e.value) in self.vectors:
            return "(csget %s %s)" % (self.vectors[self.key(e.value)], self.z(e.slice))
        raise Unsupported("integer expression: " + src_of(e))

    def vec_reads(self, e):
        """subscripts of self.ctrl_state occurring in e: [(vector, index text)]"""
        out = []
        for n in ast.walk(e):
            if isinstance(n, ast.Subscript) and self.key(n.value) in self.vectors:
                out.append((self.vectors[self.key(n.value)], self.z(n.slice)))
        return out

    # ------------------------------------------------------------------ lists of integers (bond ids, tensor ids)
    def zlist(self, e):
        if isinstance(e, (ast.Tuple, ast.List)):
            return "[" + "; ".join(self.z(x) for x in e.elts) + "]"
        if isinstance(e, ast.BinOp) and isinstance(e.op, ast.Mult) and isinstance(e.right, ast.List) \
                and len(e.right.elts) == 1:
            return "(zrep %s %s)" % (self.z(e.right.elts[0]), self.z(e.left))
        if isinstance(e, ast.BinOp) and isinstance(e.op, ast.Add):
            return "(%s ++ %s)" % (self.zlist(e.left), self.zlist(e.right))
        if isinstance(e, ast.Call) and isinstance(e.func, ast.Name) and e.func.id == "list" and len(e.args) == 1:
            return self.zlist(e.args[0])
        if isinstance(e, ast.Call) and isinstance(e.func, ast.Name) and e.func.id == "range" and not e.keywords:
            a = e.args
            if len(a) == 1:
                return "(zrange 0 %s)" % self.z(a[0])
            if len(a) == 2:
                return "(zrange %s %s)" % (self.z(a[0]), self.z(a[1]))
            if len(a) == 3 and isinstance(a[2], ast.Constant) and a[2].value == 2:
                return "(zrange2 %s %s)" % (self.z(a[0]), self.z(a[1]))
        if isinstance(e, ast.IfExp):
            return "(if %s then %s else %s)" % (self.cond(e.test), self.zlist(e.body), self.zlist(e.orelse))
        raise Unsupported("list of integers: " + src_of(e))

    # ------------------------------------------------------------------ shapes (list nat)
    def shape(self, e):
        if isinstance(e, ast.Tuple) and all(isinstance(x, ast.Constant) and isinstance(x.value, int) for x in e.elts):
            return "[" + "; ".join("%d%%nat" % x.value for x in e.elts) + "]"
        if isinstance(e, ast.BinOp) and isinstance(e.op, ast.Mult) and isinstance(e.right, ast.Tuple) \
                and len(e.right.elts) == 1 and isinstance(e.right.elts[0], ast.Constant):
            return "(zrep %d%%nat %s)" % (e.right.elts[0].value, self.z(e.left))
        if isinstance(e, ast.BinOp) and isinstance(e.op, ast.Add):
            return "(%s ++ %s)" % (self.shape(e.left), self.shape(e.right))
        if isinstance(e, ast.Attribute) and e.attr == "shape":
            v = e.value
            if isinstance(v, ast.Name) and v.id in self.shapes:
                return self.shapes[v.id]
            if isinstance(v, ast.Subscript) and isinstance(v.value, ast.Name) and v.value.id in self.lists:
                names = self.lists[v.value.id]
                return "(nth (Z.to_nat %s) [%s] [])" % (self.z(v.slice), "; ".join(self.shapes[n] for n in names))
        raise Unsupported("shape expression: " + src_of(e))

    def array_shape(self, e):
        """shape of a numpy expression, as far as the method determines it"""
        if isinstance(e, ast.Call):
            f = src_of(e.func)
            if f == "np.reshape" and len(e.args) == 2:
                return self.shape(e.args[1])
            if f == "np.stack" and len(e.args) == 1 and len(e.keywords) == 1 and e.keywords[0].arg == "axis" \
                    and isinstance(e.keywords[0].value, ast.Constant) and e.keywords[0].value.value == 0 \
                    and isinstance(e.args[0], ast.Tuple):
                inner = [self.array_shape(x) for x in e.args[0].elts]
                return "([%d%%nat] ++ %s)" % (len(inner), inner[-1])
            if f == "np.zeros" and not e.args and len(e.keywords) == 1 and e.keywords[0].arg == "shape":
                return self.shape(e.keywords[0].value)
        if isinstance(e, ast.Name) and e.id in self.shapes:
            return self.shapes[e.id]
        raise Unsupported("array expression: " + src_of(e))

    # ------------------------------------------------------------------ datarefs
    def ref(self, e):
        if isinstance(e, ast.Constant) and e.value is None:
            return "REF_none"
        if isinstance(e, ast.Constant) and isinstance(e.value, str):
            if e.value in REFS:
                return REFS[e.value]
            raise Unsupported("unknown dataref string %r" % e.value)
        s = src_of(e)
        if s.startswith("'ctrl_' + str(hash(") or s.startswith("str(hash("):
            return "REF_main"
        if isinstance(e, ast.JoinedStr):
            return "REF_main"
        if isinstance(e, ast.Name) and e.id in self.refnames:
            return self.refnames[e.id]
        if isinstance(e, ast.Attribute) and e.attr == "dataref" and isinstance(e.value, ast.Name) \
                and e.value.id in self.tensor_refs:
            return self.tensor_refs[e.value.id]
        if isinstance(e, ast.Subscript) and isinstance(e.value, ast.Name) and e.value.id in self.reflists:
            return "(nth (Z.to_nat %s) [%s] REF_bad)" % (self.z(e.slice), "; ".join(self.reflists[e.value.id]))
        raise Unsupported("dataref expression: " + s)

    tensor_refs = None

    # ------------------------------------------------------------------ conditions
    def cond(self, e):
        if isinstance(e, ast.Compare) and len(e.ops) == 1 and isinstance(e.ops[0], ast.Eq):
            return "(%s =? %s)" % (self.z(e.left), self.z(e.comparators[0]))
        if isinstance(e, ast.UnaryOp) and isinstance(e.op, ast.Not) and self.key(e.operand) in self.boolparams:
            return "negb %s" % self.boolparams[self.key(e.operand)]
        raise Unsupported("condition: " + src_of(e))

    # ------------------------------------------------------------------ statements
    def tensor_ctor(self, call):
        if not (isinstance(call, ast.Call) and src_of(call.func) == "SymbolicTensor" and len(call.args) == 4
                and not call.keywords):
            raise Unsupported("expected SymbolicTensor(tid, shape, bids, dataref): " + src_of(call))
        tid, shp, bids, ref = call.args
        return self.z(tid), self.shape(shp), self.zlist(bids), self.ref(ref)

    def block(self, stmts, ind):
        if self.tensor_refs is None:
            self.tensor_refs = {}
        out = []
        pad = "  " * ind
        i = 0
        while i < len(stmts):
            s = stmts[i]
            i += 1
            txt = src_of(s)
            # ---- docstrings
            if isinstance(s, ast.Expr) and isinstance(s.value, ast.Constant) and isinstance(s.value.value, str):
                continue
            # ---- stn = SymbolicTensorNetwork()
            if isinstance(s, ast.Assign) and txt == "%s = SymbolicTensorNetwork()" % self.stn:
                out.append(pad + "let st := st0 in")
                continue
            # ---- x = SymbolicTensor(...)   [followed by stn.add_tensor(x)]
            if isinstance(s, ast.Assign) and len(s.targets) == 1 and isinstance(s.targets[0], ast.Name) \
                    and isinstance(s.value, ast.Call) and src_of(s.value.func) == "SymbolicTensor":
                name = s.targets[0].id
                if i >= len(stmts) or src_of(stmts[i]) != "%s.add_tensor(%s)" % (self.stn, name):
                    raise Unsupported("SymbolicTensor %s is not added to the network right after its construction" % name)
                i += 1
                tid, shp, bids, ref = self.tensor_ctor(s.value)
                self.alias[name] = tid
                self.tensor_refs[name] = ref
                out.append(pad + "let st := new_tensor st %s %s %s %s in" % (tid, shp, bids, ref))
                continue
            # ---- stn.add_tensor(SymbolicTensor(...))
            if isinstance(s, ast.Expr) and isinstance(s.value, ast.Call) \
                    and src_of(s.value.func) == self.stn + ".add_tensor" and len(s.value.args) == 1:
                tid, shp, bids, ref = self.tensor_ctor(s.value.args[0])
                out.append(pad + "let st := new_tensor st %s %s %s %s in" % (tid, shp, bids, ref))
                continue
            # ---- stn.add_bond(SymbolicBond(bid, tids))
            if isinstance(s, ast.Expr) and isinstance(s.value, ast.Call) \
                    and src_of(s.value.func) == self.stn + ".add_bond" and len(s.value.args) == 1:
                c = s.value.args[0]
                if not (isinstance(c, ast.Call) and src_of(c.func) == "SymbolicBond" and len(c.args) == 2 and not c.keywords):
                    raise Unsupported("expected SymbolicBond(bid, tids): " + src_of(c))
                out.append(pad + "let st := add_bond st %s %s in" % (self.z(c.args[0]), self.zlist(c.args[1])))
                continue
            # ---- x.bids[e] = v   /   stn.get_tensor(t).bids[e] = v
            if isinstance(s, ast.Assign) and len(s.targets) == 1 and isinstance(s.targets[0], ast.Subscript) \
                    and isinstance(s.targets[0].value, ast.Attribute) and s.targets[0].value.attr == "bids":
                obj = s.targets[0].value.value
                if isinstance(obj, ast.Name) and obj.id in self.alias:
                    tid = self.alias[obj.id]
                elif isinstance(obj, ast.Call) and src_of(obj.func) == self.stn + ".get_tensor" and len(obj.args) == 1:
                    tid = self.z(obj.args[0])
                else:
                    raise Unsupported("leg assignment on an unknown tensor: " + txt)
                out.append(pad + "let st := set_bid st %s %s %s in" % (tid, self.z(s.targets[0].slice), self.z(s.value)))
                continue
            # ---- bid_next = 0 / bid_next += 1
            if isinstance(s, ast.Assign) and len(s.targets) == 1 and self.key(s.targets[0]) == "bid_next":
                out.append(pad + "let st := set_next st %s in" % self.z(s.value))
                self.ints["bid_next"] = "(s_next st)"
                continue
            if isinstance(s, ast.AugAssign) and self.key(s.target) == "bid_next" and isinstance(s.op, ast.Add) \
                    and isinstance(s.value, ast.Constant) and s.value.value == 1:
                out.append(pad + "let st := incr st in")
                continue
            # ---- for i in range(..)
            if isinstance(s, ast.For):
                if s.orelse or not (isinstance(s.target, ast.Name) and isinstance(s.iter, ast.Call)
                                    and src_of(s.iter.func) == "range" and 1 <= len(s.iter.args) <= 2):
                    raise Unsupported("for loop: " + txt.split("\n")[0])
                a = "0" if len(s.iter.args) == 1 else self.z(s.iter.args[0])
                b = self.z(s.iter.args[-1])
                v = s.target.id
                saved = dict(self.ints)
                self.ints[v] = v
                body = self.block(s.body, ind + 1)
                self.ints = saved
                if "bid_next" in saved or any("s_next" in l for l in body):
                    self.ints.setdefault("bid_next", "(s_next st)")
                out.append(pad + "let st := zfor %s %s (fun %s st =>" % (a, b, v))
                out += body
                out.append(pad + "  st) st in")
                continue
            # ---- if / else
            if isinstance(s, ast.If):
                t = src_of(s.test)
                if t.endswith("not in data"):            # data-only statement (binding checked below)
                    self.data_stmts(s.body)
                    continue
                for vec, idx in self.vec_reads(s.test):
                    out.append(pad + "let st := chk_idx %s %s st in" % (vec, idx))
                c = self.cond(s.test)
                body = self.block(s.body, ind + 1)
                els = self.block(s.orelse, ind + 1) if s.orelse else None
                out.append(pad + "let st := if %s then (" % c)
                out += body
                if els is None:
                    out.append(pad + "  st) else st in")
                else:
                    out.append(pad + "  st) else (")
                    out += els
                    out.append(pad + "  st) in")
                continue
            # ---- j = self.ctrl_state[i]
            if isinstance(s, ast.Assign) and len(s.targets) == 1 and isinstance(s.targets[0], ast.Name) \
                    and isinstance(s.value, ast.Subscript) and self.key(s.value.value) in self.vectors:
                vec, idx = self.vectors[self.key(s.value.value)], self.z(s.value.slice)
                nm = s.targets[0].id
                out.append(pad + "let st := chk_idx %s %s st in" % (vec, idx))
                out.append(pad + "let %s := csget %s %s in" % (nm, vec, idx))
                self.ints[nm] = nm
                continue
            # ---- assert stn.is_consistent()
            if isinstance(s, ast.Assert) and src_of(s.test) == self.stn + ".is_consistent()":
                self.has_consistency_assert = True
                continue
            # ---- return TensorNetwork(stn, data) / cls(stn, {...})
            if isinstance(s, ast.Return):
                r = s.value
                if isinstance(r, ast.Call) and src_of(r.func) in ("TensorNetwork", "cls") and len(r.args) == 2 \
                        and src_of(r.args[0]) == self.stn:
                    if isinstance(r.args[1], ast.Dict):
                        for k, v in zip(r.args[1].keys, r.args[1].values):
                            self.databind.append((self.ref_of_key(k), src_of(v)))
                    elif not (isinstance(r.args[1], ast.Name) and r.args[1].id == "data"):
                        raise Unsupported("returned data dictionary: " + src_of(r.args[1]))
                    if i != len(stmts):
                        raise Unsupported("statements after return")
                    continue
                raise Unsupported("return: " + txt)
            # ---- numpy / data statements
            if self.numpy_stmt(s):
                continue
            raise Unsupported("statement: " + txt.split("\n")[0])
        return out

    def ref_of_key(self, k):
        try:
            return self.ref(k)
        except Unsupported:
            return src_of(k)

    def data_stmts(self, stmts):
        for s in stmts:
            if not self.numpy_stmt(s):
                raise Unsupported("data statement: " + src_of(s))

    def numpy_stmt(self, s):
        txt = src_of(s)
        if isinstance(s, ast.Assign) and len(s.targets) == 1:
            t, v = s.targets[0], s.value
            # data = {ref: array} / data[ref] = array
            if isinstance(t, ast.Name) and t.id == "data" and isinstance(v, ast.Dict):
                for k, a in zip(v.keys, v.values):
                    self.databind.append((self.ref_of_key(k), src_of(a)))
                return True
            if isinstance(t, ast.Subscript) and isinstance(t.value, ast.Name) and t.value.id == "data":
                self.databind.append((self.ref_of_key(t.slice), src_of(v)))
                if isinstance(v, ast.Call) and src_of(v.func) == "np.array":
                    self.literals[self.ref_of_key(t.slice)] = self.literal(v.args[0])
                return True
            # entries of the cross tensors: a[i,j,k,l] = 1
            if isinstance(t, ast.Subscript) and isinstance(t.value, ast.Name) and t.value.id in self.entries:
                if not (isinstance(v, ast.Constant) and v.value == 1 and isinstance(t.slice, ast.Tuple)
                        and all(isinstance(x, ast.Constant) and isinstance(x.value, int) for x in t.slice.elts)):
                    raise Unsupported("tensor entry assignment: " + txt)
                self.entries[t.value.id].append([x.value for x in t.slice.elts])
                return True
            if isinstance(t, ast.Name):
                # lists of arrays / of dataref strings
                if isinstance(v, ast.List) and v.elts and all(isinstance(x, ast.Name) and x.id in self.shapes for x in v.elts):
                    self.lists[t.id] = [x.id for x in v.elts]
                    return True
                if isinstance(v, ast.List) and v.elts and all(isinstance(x, ast.Constant) and x.value in REFS for x in v.elts):
                    self.reflists[t.id] = [REFS[x.value] for x in v.elts]
                    return True
                if isinstance(v, ast.JoinedStr):
                    self.refnames[t.id] = "REF_main"
                    return True
                # arrays whose shape the method determines
                if isinstance(v, ast.Call) and src_of(v.func) in ("np.reshape", "np.stack", "np.zeros"):
                    self.shapes[t.id] = self.array_shape(v)
                    if src_of(v.func) == "np.zeros":
                        self.entries[t.id] = []
                    return True
        return False

    def literal(self, e):
        def num(x):
            if isinstance(x, ast.Constant) and isinstance(x.value, (int, float)) and float(x.value) == int(x.value):
                return int(x.value)
            raise Unsupported("literal entry: " + src_of(x))
        if isinstance(e, ast.List) and e.elts and all(isinstance(r, ast.List) for r in e.elts):
            return [[num(x) for x in r.elts] for r in e.elts]
        if isinstance(e, ast.List):
            return [num(x) for x in e.elts]
        raise Unsupported("array literal: " + src_of(e))


def znum(n):
    return str(n) if n >= 0 else "(%d)" % n


def definition(name, params, lines):
    return "Definition %s %s : bst :=\n%s\n  st.\n" % (name, params, "\n".join(lines))


def expect_bind(b, want, where):
    got = sorted(b.databind)
    if got != sorted(want):
        raise Unsupported("%s: data dictionary binds %r, expected %r" % (where, got, sorted(want)))


def gen_ctrl(cls, out):
    fn = find_func(cls, "as_tensornet")
    body = body_nodoc(fn)
    # ---- nested controlled gate: rebuilt as one controlled gate
    first = body[0]
    want = ("ControlledGate(self.tgate.tgate, self.ncontrols + self.tgate.ncontrols, "
            "self.ctrl_state + self.tgate.ctrl_state).as_tensornet()")
    if not (isinstance(first, ast.If) and src_of(first.test) == "isinstance(self.tgate, ControlledGate)"
            and len(first.body) == 1 and isinstance(first.body[0], ast.Return) and not first.orelse
            and src_of(first.body[0].value) == want):
        raise Unsupported("ControlledGate.as_tensornet: flattening of a nested controlled gate changed")
    out.append("(** ControlledGate(self.tgate.tgate, self.ncontrols + self.tgate.ncontrols,\n"
               "    self.ctrl_state + self.tgate.ctrl_state).as_tensornet() *)")
    out.append("Definition gen_flatten_step (ncontrols : Z) (ctrl_state : list Z) (ncontrols' : Z) (ctrl_state' : list Z)"
               " : Z * list Z :=\n  ((ncontrols + ncontrols'), (ctrl_state ++ ctrl_state')).\n")
    # the constructor of the flattened gate checks len(ctrl_state) == ncontrols
    init = find_func(cls, "__init__")
    if not any(isinstance(s, ast.If) and src_of(s.test) == "len(ctrl_state) != ncontrols"
               and len(s.body) == 1 and isinstance(s.body[0], ast.Raise) for s in init.body):
        raise Unsupported("ControlledGate.__init__: length check of ctrl_state not found")
    rest = body[1:]
    # ntargets = self.tgate.num_wires
    if not (isinstance(rest[0], ast.Assign) and src_of(rest[0]) == "ntargets = self.tgate.num_wires"):
        raise Unsupported("ControlledGate.as_tensornet: ntargets")
    b = B({"self.ncontrols": "ncontrols", "ntargets": "ntargets"})
    b.vectors = {"self.ctrl_state": "ctrl_state"}
    lines = b.block(rest[1:], 1)
    expect_bind(b, [("REF_main", "ctgmat"), ("REF_PauliX", "np.array([[0.0, 1.0], [1.0, 0.0]])"),
                    ("(nth (Z.to_nat j) [REF_neg; REF_pos] REF_bad)", "ctrl_cross[j]")], "ControlledGate")
    if b.lists.get("ctrl_cross") != ["ctrl_cross_neg", "ctrl_cross_pos"] or \
            b.reflists.get("cc_dataref") != ["REF_neg", "REF_pos"]:
        raise Unsupported("ControlledGate: ctrl_cross / cc_dataref lists changed")
    if not b.has_consistency_assert:
        raise Unsupported("ControlledGate.as_tensornet no longer asserts consistency")
    out.append(definition("gen_ctrl_build", "(ncontrols ntargets : Z) (ctrl_state : list Z)", lines))
    for nm in ("ctrl_cross_pos", "ctrl_cross_neg"):
        out.append("Definition gen_%s_entries : list (list nat) :=\n  [%s]%%nat.\n" % (
            nm.replace("ctrl_", ""), "; ".join("[" + "; ".join(str(x) for x in e) + "]" for e in b.entries[nm])))
    rows = b.literals["REF_PauliX"]
    out.append("Definition gen_paulix_rows : list (list Z) :=\n  [%s].\n" % "; ".join(
        "[" + "; ".join(znum(x) for x in r) + "]" for r in rows))


def gen_mux(cls, out):
    fn = find_func(cls, "as_tensornet")
    body = body_nodoc(fn)
    if src_of(body[0]) != "ntargets = self.tgates[0].num_wires":
        raise Unsupported("MultiplexedGate.as_tensornet: ntargets")
    b = B({"self.ncontrols": "ncontrols", "ntargets": "ntargets"})
    lines = b.block(body[1:], 1)
    expect_bind(b, [("REF_main", "mtgmat")], "MultiplexedGate")
    out.append(definition("gen_mux_build", "(ncontrols ntargets : Z)", lines))


def gen_phase(cls, out):
    fn = find_func(cls, "as_tensornet")
    b = B({"self.nwires": "nwires"})
    lines = b.block(body_nodoc(fn), 1)
    expect_bind(b, [("REF_main", "np.exp(1j * self.phi / self.nwires) * np.identity(2)")], "PhaseFactorGate")
    out.append(definition("gen_phase_build", "(nwires : Z)", lines))


def gen_prep(cls, out):
    fn = find_func(cls, "as_tensornet")
    b = B({"self.nqubits": "nqubits"})
    b.boolparams = {"self.transpose": "transpose"}
    lines = b.block(body_nodoc(fn), 1)
    expect_bind(b, [("REF_main", "x"), ("REF_ket0", "np.array([1.0, 0.0])")], "PrepareGate")
    out.append(definition("gen_prep_build", "(nqubits : Z) (transpose : bool)", lines))
    # np.array([1., 0.]) of the returned dictionary
    ret = body_nodoc(fn)[-1].value.args[1]
    lit = None
    for k, v in zip(ret.keys, ret.values):
        if isinstance(k, ast.Constant) and k.value == "|0>_2":
            lit = b.literal(v.args[0])
    if lit is None:
        raise Unsupported("PrepareGate: |0> literal not found")
    out.append("Definition gen_ket0_entries : list Z :=\n  [%s].\n" % "; ".join(znum(x) for x in lit))


def gen_wrap(out):
    cls = find_class(parse(TNET), "TensorNetwork")
    fn = find_func(cls, "wrap")
    if [a.arg for a in fn.args.args] != ["cls", "a", "dataref"]:
        raise Unsupported("TensorNetwork.wrap: parameters")
    b = B({})
    b.shapes["a"] = "shp"
    b.refnames["dataref"] = "REF_main"
    lines = b.block(body_nodoc(fn), 1)
    expect_bind(b, [("REF_main", "a")], "TensorNetwork.wrap")
    out.append(definition("gen_wrap_build", "(shp : list nat)", lines))


# ----------------------------------------------------------------------------- the wrap call of every other gate
RAW, QUBITS, DIMS, BUILDER, NONE = 0, 1, 2, 3, 4


def wrap_table(tree):
    rows = []
    for cls in tree.body:
        if not isinstance(cls, ast.ClassDef):
            continue
        fns = {f.name: f for f in cls.body if isinstance(f, ast.FunctionDef)}
        if "as_tensornet" not in fns or not any(src_of(bs) == "Gate" for bs in cls.bases):
            continue
        body = body_nodoc(fns["as_tensornet"])
        nw = None
        if "num_wires" in fns:
            nb_ = body_nodoc(fns["num_wires"])
            if len(nb_) == 1 and isinstance(nb_[0], ast.Return) and isinstance(nb_[0].value, ast.Constant) \
                    and isinstance(nb_[0].value.value, int):
                nw = nb_[0].value.value
        if cls.name in ("ControlledGate", "MultiplexedGate", "PhaseFactorGate", "PrepareGate"):
            kind = BUILDER
        elif len(body) == 1 and isinstance(body[0], ast.Raise):
            kind = NONE
        else:
            ret = body[-1]
            if not (isinstance(ret, ast.Return) and isinstance(ret.value, ast.Call)
                    and src_of(ret.value.func) == "TensorNetwork.wrap" and len(ret.value.args) == 2):
                raise Unsupported("%s.as_tensornet does not end in TensorNetwork.wrap(..)" % cls.name)
            arg = src_of(ret.value.args[0])
            pre = [src_of(s) for s in body[:-1]]
            if arg == "self.as_matrix()" and not pre:
                kind = RAW
            elif arg == "np.reshape(self.as_matrix(), 2 * self.nwires * (2,))" and not pre:
                kind = QUBITS
            elif arg == "np.reshape(umat, dims + dims)" and pre == ["dims = [p.field.local_dim for p in self.particles()]",
                                                                    "umat = self.as_matrix()"]:
                kind = DIMS
            else:
                raise Unsupported("%s.as_tensornet: unexpected argument of wrap: %s" % (cls.name, arg))
        rows.append((cls.name, nw, kind))
    if not rows:
        raise Unsupported("no gate classes found")
    return rows


def generate():
    tree = parse(GATES)
    out = ["(* generated by gen/gatenet.py from %s and %s -- do not edit *)" % (GATES, TNET),
           "From Qib Require Import GateNet.GateNetModel.", "Local Open Scope Z_scope.", ""]
    gen_wrap(out)
    gen_ctrl(find_class(tree, "ControlledGate"), out)
    gen_mux(find_class(tree, "MultiplexedGate"), out)
    gen_phase(find_class(tree, "PhaseFactorGate"), out)
    gen_prep(find_class(tree, "PrepareGate"), out)
    rows = wrap_table(tree)
    out.append("(** every Gate subclass with as_tensornet: (class name as character codes, literal num_wires if any,\n"
               "    kind: 0 = wrap(as_matrix()), 1 = wrap(reshape(as_matrix(), 2*nwires*(2,))),\n"
               "    2 = wrap(reshape(as_matrix(), dims + dims)), 3 = own build program, 4 = not offered) *)")
    out.append("Definition gen_wrap_table : list (list nat * option nat * nat) :=\n  [%s].\n" % ";\n   ".join(
        "(%s, %s, %d%%nat) (* %s *)" % ("[" + "; ".join("%d%%nat" % ord(c) for c in name) + "]",
                                        "None" if nw is None else "Some %d%%nat" % nw, kind, name)
        for name, nw, kind in rows))
    return "\n".join(out)


if __name__ == "__main__":
    print(generate())
