"""Translator for C20: regenerate Coq definitions from
  /repo/src/qib/algorithms/vqe/vqe.py            measure_expectation_statevector
  /repo/src/qib/algorithms/vqe/ansatz/ansatz.py  qUCC.as_matrix

Extracted (fail-closed):
  measure_expectation_statevector : which of state / state.conj() (and .T, a no-op on 1-d arrays)
      is the left and the right factor and what is applied to the operator matrix
      -> expect_src {ex_left; ex_mat; ex_right}
  qUCC.as_matrix, per `excitations` setting s / d / sd : the operator kinds of each
      FieldOperatorTerm (FERMI_CREATE = true), the sign in the expm argument
      T_mat +- T_mat^dagger, the order of the factors of the product form
      -> qucc_branch {qb_kinds; qb_signs}
  The reshape / split statements are compared textually with the expected ones (row-major
  indexing itself is hand-modelled and tied by correspondence).
"""
import ast
from pyx import Unsupported, parse, find_class, find_func, body_nodoc

F_VQE = "src/qib/algorithms/vqe/vqe.py"
F_ANS = "src/qib/algorithms/vqe/ansatz/ansatz.py"


def up(e):
    return ast.unparse(e)


# ---------------------------------------------------------------------------------- expectation
def state_kind(e, var="state"):
    """expression built from `state` by .T / .transpose() / .conj() / .conjugate() / np.conj(...)
    -> number of conjugations mod 2  (transposition of a 1-d array is the identity)"""
    conj = 0
    while True:
        if isinstance(e, ast.Name) and e.id == var:
            return conj % 2
        if isinstance(e, ast.Attribute) and e.attr == "T":
            e = e.value
            continue
        if isinstance(e, ast.Call) and not e.keywords:
            f = e.func
            if isinstance(f, ast.Attribute) and not e.args and f.attr in ("conj", "conjugate"):
                conj += 1
                e = f.value
                continue
            if isinstance(f, ast.Attribute) and not e.args and f.attr == "transpose":
                e = f.value
                continue
            if up(f) in ("np.conj", "np.conjugate") and len(e.args) == 1:
                conj += 1
                e = e.args[0]
                continue
        raise Unsupported("state factor: %s" % up(e)[:80])


def matrix_kind(e):
    """pauli_op.as_matrix()[.toarray()] followed by .conj()/.conjugate()/.T/.transpose()/.getH()
    -> (conj, transpose) parities"""
    conj = tr = 0
    while True:
        s = up(e)
        if s in ("pauli_op.as_matrix().toarray()", "pauli_op.as_matrix()", "pauli_op.as_matrix().todense()"):
            return conj % 2, tr % 2
        if isinstance(e, ast.Attribute) and e.attr == "T":
            tr += 1
            e = e.value
            continue
        if isinstance(e, ast.Attribute) and e.attr == "H":
            tr += 1
            conj += 1
            e = e.value
            continue
        if isinstance(e, ast.Call) and not e.keywords and not e.args and isinstance(e.func, ast.Attribute):
            a = e.func.attr
            if a in ("conj", "conjugate"):
                conj += 1
            elif a == "transpose":
                tr += 1
            elif a == "getH":
                conj += 1
                tr += 1
            else:
                raise Unsupported("operator factor: %s" % s[:80])
            e = e.func.value
            continue
        raise Unsupported("operator factor: %s" % s[:80])


def mentions(e, name):
    return any(isinstance(n, ast.Name) and n.id == name for n in ast.walk(e))


def gen_expect():
    tree = parse(F_VQE)
    fn = None
    for n in tree.body:
        if isinstance(n, ast.FunctionDef) and n.name == "measure_expectation_statevector":
            fn = n
    if fn is None:
        raise Unsupported("measure_expectation_statevector not found")
    if [a.arg for a in fn.args.args] != ["pauli_op", "state"]:
        raise Unsupported("measure_expectation_statevector: unexpected parameters")
    body = body_nodoc(fn)
    if len(body) == 2:
        s = up(body[0])
        if s not in ("state = np.asarray(state)", "state = np.array(state)", "state = np.array(state, copy=False)"):
            raise Unsupported("unexpected statement %s" % s[:80])
        body = body[1:]
    if not (len(body) == 1 and isinstance(body[0], ast.Return)):
        raise Unsupported("expected a single return")
    e = body[0].value

    # flatten the @ chain (matrix products are associative)
    def flat(x):
        if isinstance(x, ast.BinOp) and isinstance(x.op, ast.MatMult):
            return flat(x.left) + flat(x.right)
        return [x]
    # np.vdot(a, b) conjugates EVERY factor of its first argument (conj(x @ M) = conj(x) @ conj(M));
    # np.dot / np.inner conjugate nothing
    if isinstance(e, ast.Call) and not e.keywords and len(e.args) == 2 and up(e.func) in ("np.vdot", "np.dot", "np.inner"):
        fa, fb = flat(e.args[0]), flat(e.args[1])
        # (for 1-d a, b : np.dot(a @ M, b) = np.dot(a, M @ b) = np.inner(...) = sum_ij a_i M_ij b_j)
        fs = fa + fb
        extra = [1 if up(e.func) == "np.vdot" else 0] * len(fa) + [0] * len(fb)
    else:
        fs = flat(e)
        extra = [0] * len(fs)
    if len(fs) != 3:
        raise Unsupported("expected left @ matrix @ right, got %d factors" % len(fs))
    l, m, r = fs
    left_conj, mid_conj, right_conj = extra
    if right_conj:
        raise Unsupported("conjugated right factor through np.vdot")
    if mentions(m, "state") or not mentions(l, "state") or not mentions(r, "state"):
        raise Unsupported("factors are not state, matrix, state")
    lk = (state_kind(l) + left_conj) % 2
    rk = state_kind(r)
    mc, mt = matrix_kind(m)
    mc = (mc + mid_conj) % 2
    mk = {(0, 0): "MId", (1, 0): "MConj", (0, 1): "MTrans", (1, 1): "MAdj"}[(mc, mt)]
    return ("Definition gen_expect : expect_src := {| ex_left := %s; ex_mat := %s; ex_right := %s |}.\n"
            % ("SConj" if lk else "SId", mk, "SConj" if rk else "SId"))


# ---------------------------------------------------------------------------------- qUCC
def term_kinds(e):
    """FieldOperatorTerm([IFODesc(self.field, IFOType.X), ...], params...) -> (kinds, params expr)"""
    if not (isinstance(e, ast.Call) and up(e.func) == "FieldOperatorTerm" and len(e.args) == 2 and not e.keywords
            and isinstance(e.args[0], ast.List)):
        raise Unsupported("expected FieldOperatorTerm([...], params): %s" % up(e)[:80])
    kinds = []
    for d in e.args[0].elts:
        s = up(d)
        if s == "IFODesc(self.field, IFOType.FERMI_CREATE)":
            kinds.append(True)
        elif s == "IFODesc(self.field, IFOType.FERMI_ANNIHIL)":
            kinds.append(False)
        else:
            raise Unsupported("operator description %s" % s[:80])
    return kinds, up(e.args[1])


ADJ = ("T_mat.conjugate().T", "T_mat.conj().T", "T_mat.T.conj()", "T_mat.T.conjugate()")


def expm_sign(e):
    """expm(T_mat - T_mat^dagger) -> -1 ; expm(T_mat + T_mat^dagger) -> +1"""
    if not (isinstance(e, ast.Call) and up(e.func) == "expm" and len(e.args) == 1 and not e.keywords):
        raise Unsupported("expected expm(...): %s" % up(e)[:80])
    a = e.args[0]
    if isinstance(a, ast.BinOp) and up(a.left) == "T_mat" and up(a.right) in ADJ:
        if isinstance(a.op, ast.Sub):
            return -1
        if isinstance(a.op, ast.Add):
            return 1
    raise Unsupported("expm argument is not T_mat +- T_mat^dagger: %s" % up(a)[:80])


def expect_stmt(st, text):
    if up(st) != text:
        raise Unsupported("expected `%s`, got `%s`" % (text, up(st)[:100]))


def single_branch(stmts, npow, shape):
    """the s / d branches: guard, reshape, T, T_pauli, T_mat, return csr(expm(...))"""
    if len(stmts) != 6:
        raise Unsupported("branch with %d statements" % len(stmts))
    g = stmts[0]
    if not (isinstance(g, ast.If) and len(g.body) == 1 and isinstance(g.body[0], ast.Raise)
            and up(g.test) == "not len(params) == self.nqubits ** %d" % npow):
        raise Unsupported("parameter-count guard: %s" % up(g.test)[:80])
    expect_stmt(stmts[1], "params = np.reshape(params, (%s))" % ", ".join(shape * ["self.nqubits"]))
    if not (isinstance(stmts[2], ast.Assign) and up(stmts[2].targets[0]) == "T"):
        raise Unsupported("expected T = FieldOperatorTerm(...)")
    kinds, par = term_kinds(stmts[2].value)
    if par != "params" or len(kinds) != shape:
        raise Unsupported("FieldOperatorTerm coefficient array / number of operators")
    expect_stmt(stmts[3], "T_pauli = jordan_wigner_encode_field_operator(FieldOperator([T]))")
    expect_stmt(stmts[4], "T_mat = T_pauli.as_matrix().toarray()")
    r = stmts[5]
    if not (isinstance(r, ast.Return) and isinstance(r.value, ast.Call) and up(r.value.func) == "sparse.csr_matrix"
            and len(r.value.args) == 1):
        raise Unsupported("expected return sparse.csr_matrix(expm(...))")
    return [kinds], [expm_sign(r.value.args[0])]


def sd_branch(stmts):
    if len(stmts) != 8:
        raise Unsupported("sd branch with %d statements" % len(stmts))
    g = stmts[0]
    if not (isinstance(g, ast.If) and len(g.body) == 1 and isinstance(g.body[0], ast.Raise)
            and up(g.test) == "not len(params) == self.nqubits ** 2 + self.nqubits ** 4"):
        raise Unsupported("parameter-count guard: %s" % up(g.test)[:80])
    expect_stmt(stmts[1], "params = [params[:self.nqubits ** 2]] + [params[self.nqubits ** 2:]]")
    expect_stmt(stmts[2], "params[0] = np.reshape(params[0], (self.nqubits, self.nqubits))")
    expect_stmt(stmts[3], "params[1] = np.reshape(params[1], (self.nqubits, self.nqubits, self.nqubits, self.nqubits))")
    t = stmts[4]
    if not (isinstance(t, ast.Assign) and up(t.targets[0]) == "T" and isinstance(t.value, ast.List) and len(t.value.elts) == 2):
        raise Unsupported("expected T = [FieldOperatorTerm(...), FieldOperatorTerm(...)]")
    kinds = []
    for k, e in enumerate(t.value.elts):
        ks, par = term_kinds(e)
        if par != "params[%d]" % k or len(ks) != (2, 4)[k]:
            raise Unsupported("sd: coefficient array / number of operators of term %d" % k)
        kinds.append(ks)
    expect_stmt(stmts[5], "U = []")
    loop = stmts[6]
    if not (isinstance(loop, ast.For) and up(loop.target) == "i" and up(loop.iter) == "range(2)" and len(loop.body) == 3
            and not loop.orelse):
        raise Unsupported("sd: expected for i in range(2) with 3 statements")
    expect_stmt(loop.body[0], "T_pauli = jordan_wigner_encode_field_operator(FieldOperator([T[i]]))")
    expect_stmt(loop.body[1], "T_mat = T_pauli.as_matrix().toarray()")
    ap = loop.body[2]
    if not (isinstance(ap, ast.Expr) and isinstance(ap.value, ast.Call) and up(ap.value.func) == "U.append"
            and len(ap.value.args) == 1):
        raise Unsupported("sd: expected U.append(expm(...))")
    sg = expm_sign(ap.value.args[0])
    r = stmts[7]
    if up(r) != "return sparse.csr_matrix(U[0] @ U[1])":
        raise Unsupported("sd: expected return sparse.csr_matrix(U[0] @ U[1]), got %s" % up(r)[:80])
    return kinds, [sg, sg]


def coq_branch(name, kinds, signs):
    ks = "[" + "; ".join("[" + "; ".join("true" if b else "false" for b in k) + "]" for k in kinds) + "]"
    ss = "[" + "; ".join("(%d)%%Z" % s for s in signs) + "]"
    return "Definition %s : qucc_branch := {| qb_kinds := %s; qb_signs := %s |}.\n" % (name, ks, ss)


def gen_qucc():
    cls = find_class(parse(F_ANS), "qUCC")
    body = body_nodoc(find_func(cls, "as_matrix"))
    if len(body) != 2:
        raise Unsupported("qUCC.as_matrix: expected `params = np.array(params)` and the if chain")
    expect_stmt(body[0], "params = np.array(params)")
    br = body[1]
    if not (isinstance(br, ast.If) and up(br.test) == "self.excitations == 's'" and len(br.orelse) == 1
            and isinstance(br.orelse[0], ast.If) and up(br.orelse[0].test) == "self.excitations == 'd'"):
        raise Unsupported("qUCC.as_matrix: unexpected branch structure")
    br2 = br.orelse[0]
    if not (len(br2.orelse) == 1 and isinstance(br2.orelse[0], ast.If) and up(br2.orelse[0].test) == "self.excitations == 'sd'"
            and not br2.orelse[0].orelse):
        raise Unsupported("qUCC.as_matrix: unexpected sd branch")
    out = coq_branch("gen_qucc_s", *single_branch(br.body, 2, 2))
    out += coq_branch("gen_qucc_d", *single_branch(br2.body, 4, 4))
    # the sd branch has 8 statements (guard, split, 2 reshapes, T, U, loop, return)
    out += coq_branch("gen_qucc_sd", *sd_branch(br2.orelse[0].body))
    return out


# ---------------------------------------------------------------------------------- VQE.run, expectation_secondary_ops
def gen_run():
    """VQE.run: the energy function handed to the optimiser measures the operator object it was PASSED, in the state
    ansatz.as_matrix(params) @ initial_state (attributes read at call time); the only store into the instance is
    _optimal_params; the result is the optimiser's own result object.  Anything else (e.g. a matrix kept on the instance)
    is refused."""
    cls = find_class(parse(F_VQE), "VQE")
    fn = find_func(cls, "run")
    if [a.arg for a in fn.args.args] != ["self", "pauli_op"] or fn.args.vararg or fn.args.kwarg:
        raise Unsupported("VQE.run: unexpected parameters")
    body = body_nodoc(fn)
    if len(body) != 4:
        raise Unsupported("VQE.run: expected energy_func, minimize, _optimal_params, return (got %d statements: %s)"
                          % (len(body), "; ".join(up(b).split("\n")[0][:50] for b in body)))
    ef, mn, st, rt = body
    if not (isinstance(ef, ast.FunctionDef) and ef.name == "energy_func" and [a.arg for a in ef.args.args] == ["params"]):
        raise Unsupported("VQE.run: expected def energy_func(params)")
    eb = [up(x) for x in body_nodoc(ef)]
    want = ["state = self.ansatz.as_matrix(params).toarray() @ self.initial_state",
            "energy = measure_expectation_statevector(pauli_op, state)"]
    if eb[:2] != want or len(eb) != 3 or eb[2] not in ("return energy", "return np.real(energy)", "return energy.real"):
        raise Unsupported("VQE.run.energy_func: unexpected body: %s" % " | ".join(eb)[:200])
    v = mn.value if isinstance(mn, ast.Assign) and up(mn.targets[0]) == "res" else None
    if not (isinstance(v, ast.Call) and up(v.func) == "minimize" and not v.args):
        raise Unsupported("VQE.run: expected res = minimize(...)")
    kw = {k.arg: up(k.value) for k in v.keywords}
    if kw.get("fun") != "energy_func" or kw.get("x0") != "self.optimizer.x0":
        raise Unsupported("VQE.run: minimize is not called with fun=energy_func, x0=self.optimizer.x0")
    for k, val in kw.items():
        if k not in ("fun", "x0") and val != "self.optimizer." + k:
            raise Unsupported("VQE.run: minimize argument %s=%s" % (k, val))
    if up(st) != "self._optimal_params = res.x" or up(rt) != "return res":
        raise Unsupported("VQE.run: expected self._optimal_params = res.x; return res")
    fn2 = find_func(cls, "expectation_secondary_ops")
    b2 = body_nodoc(fn2)
    want2 = ("if self._optimal_params is None:\n    return None\nelse:\n"
             "    state = self.ansatz.as_matrix(self._optimal_params).toarray() @ self.initial_state\n"
             "    return [measure_expectation_statevector(s_op, state) for s_op in secondary_ops]")
    if len(b2) != 1 or up(b2[0]) != want2:
        raise Unsupported("VQE.expectation_secondary_ops: unexpected body")
    return ("(* VQE.run: energy_func measures the operator object passed to run() in the state ansatz.as_matrix(params) @ initial_state;\n"
            "   stores only _optimal_params; returns the optimiser's result object *)\n"
            "Definition gen_run : run_src := {| rs_op := OpArgument |}.\n"
            "Definition gen_vqe_getters : getter_kind := GFresh.\n")


def generate():
    return ("(* generated by gen/vqe.py from %s and %s -- do not edit *)\n"
            "From Qib Require Import VQE.VqeModel VQE.VqeHistModel.\n\n" % (F_VQE, F_ANS)
            + gen_expect() + "\n" + gen_qucc() + "\n" + gen_run())


if __name__ == "__main__":
    print(generate())
