"""T4: regenerate Coq definitions from
  /repo/src/qib/algorithms/qubitization/projector_controlled_phase_shift.py  (as_circuit)
  /repo/src/qib/algorithms/qubitization/eigenvalue_transformation.py         (as_matrix, as_circuit)

Extracted (fail-closed; anything outside the expected statement skeleton raises Unsupported):
  c-phase method : max_den, the angle of the first RzGate as a rational multiple of theta, its
                   target index, the loop bounds range(lo, hi), the angle / target / number of
                   controls of the cascaded controlled RzGate, the angle of the PhaseFactorGate
  auxiliary      : the angle of the RzGate, the order of the append_gate calls
  as_matrix (phase shift) : the coefficients a, b of  expm(1j*theta*(a*|0..0><0..0| + b*identity))
  eigenvalue transformation (as_matrix and as_circuit separately):
                   the parity test, dim / start of both branches, the factors produced before the
                   loop, range(lo, hi) of the pairing loop, the factors of the loop body with their
                   theta_seq index expressions, which of U / U^-1 each factor is

Angles: an expression that is homogeneous of degree 1 in self.theta is turned into its
coefficient (a Q-valued Gallina term: theta replaced by 1, Python ints -> Z, `/` -> Qdiv).
"""
import ast
from fractions import Fraction
from pyx import Unsupported, parse, find_class, find_func, body_nodoc

F_PCPS = "src/qib/algorithms/qubitization/projector_controlled_phase_shift.py"
F_EVT = "src/qib/algorithms/qubitization/eigenvalue_transformation.py"


def zlit(n):
    return "%d%%Z" % n if n >= 0 else "(%d)%%Z" % n


def up(node):
    return ast.unparse(node)


class QTr:
    """typed expressions: 'Z' (Python int), 'Q' (float that is a rational function of ints
    and theta), 'bool'. expr() returns (text, type, degree in theta)."""

    def __init__(self, env, theta="self.theta", subst=None):
        self.env = dict(env)          # python source text of a name/attribute -> (coq text, type)
        self.theta = theta
        self.subst = subst or {}      # python source text -> (coq text, type)   (e.g. len(self.theta_seq))

    @staticmethod
    def q(t, ty):
        return t if ty == "Q" else "(inject_Z %s)" % t

    def expr(self, e):
        s = up(e)
        if s in self.subst:
            t, ty = self.subst[s]
            return t, ty, 0
        if self.theta is not None and s == self.theta:
            return "1%Q", "Q", 1
        if isinstance(e, (ast.Name, ast.Attribute)):
            if s in self.env:
                t, ty = self.env[s]
                return t, ty, 0
            raise Unsupported("unknown name %s" % s)
        if isinstance(e, ast.Constant):
            if isinstance(e.value, bool) or not isinstance(e.value, int):
                raise Unsupported("constant %r" % (e.value,))
            return zlit(e.value), "Z", 0
        if isinstance(e, ast.UnaryOp) and isinstance(e.op, ast.USub):
            t, ty, d = self.expr(e.operand)
            if ty == "Z":
                return "(Z.opp %s)" % t, "Z", d
            if ty == "Q":
                return "(Qopp %s)" % t, "Q", d
            raise Unsupported("unary minus on %s" % ty)
        if isinstance(e, ast.BinOp):
            a, ta, da = self.expr(e.left)
            b, tb, db = self.expr(e.right)
            op = type(e.op)
            if ta not in ("Z", "Q") or tb not in ("Z", "Q"):
                raise Unsupported("arithmetic on %s,%s" % (ta, tb))
            if op in (ast.Add, ast.Sub):
                if da != db:
                    raise Unsupported("sum of terms of different degree in theta: %s" % s)
                if ta == tb == "Z":
                    return "(%s %s %s)" % ("Z.add" if op is ast.Add else "Z.sub", a, b), "Z", da
                return "(%s %s %s)" % ("Qplus" if op is ast.Add else "Qminus", self.q(a, ta), self.q(b, tb)), "Q", da
            if op is ast.Mult:
                if da + db > 1:
                    raise Unsupported("not linear in theta: %s" % s)
                if ta == tb == "Z":
                    return "(Z.mul %s %s)" % (a, b), "Z", 0
                return "(Qmult %s %s)" % (self.q(a, ta), self.q(b, tb)), "Q", da + db
            if op is ast.Div:
                if db != 0:
                    raise Unsupported("division by an expression containing theta: %s" % s)
                return "(Qdiv %s %s)" % (self.q(a, ta), self.q(b, tb)), "Q", da
            if op is ast.Pow:
                if ta == tb == "Z" and da == db == 0:
                    return "(Z.pow %s %s)" % (a, b), "Z", 0
                raise Unsupported("power: %s" % s)
            if op in (ast.FloorDiv, ast.Mod):
                if ta == tb == "Z" and da == db == 0:
                    return "(%s %s %s)" % ("Z.div" if op is ast.FloorDiv else "Z.modulo", a, b), "Z", 0
                raise Unsupported("// or %% on non-int: %s" % s)
            raise Unsupported("operator %s" % op.__name__)
        if isinstance(e, ast.Compare) and len(e.ops) == 1:
            a, ta, da = self.expr(e.left)
            b, tb, db = self.expr(e.comparators[0])
            if ta == tb == "Z" and da == db == 0:
                op = type(e.ops[0])
                if op is ast.Eq:
                    return "(Z.eqb %s %s)" % (a, b), "bool", 0
                if op is ast.NotEq:
                    return "(negb (Z.eqb %s %s))" % (a, b), "bool", 0
            raise Unsupported("comparison %s" % s)
        raise Unsupported("expression %s" % s[:80])

    def z(self, e):
        t, ty, d = self.expr(e)
        if ty != "Z" or d != 0:
            raise Unsupported("expected an int expression: %s" % up(e))
        return t

    def coef(self, e):
        """coefficient of theta of an angle expression"""
        t, ty, d = self.expr(e)
        if d != 1:
            raise Unsupported("angle is not homogeneous of degree 1 in theta: %s" % up(e))
        return self.q(t, ty)


def is_raise_guard(st):
    return isinstance(st, ast.If) and not st.orelse and len(st.body) == 1 and isinstance(st.body[0], ast.Raise)


def call_of(st, text_prefix):
    """st is `Expr(Call)` whose callee unparses to text_prefix -> the Call"""
    if isinstance(st, ast.Expr) and isinstance(st.value, ast.Call) and up(st.value.func) == text_prefix \
            and not st.value.keywords:
        return st.value
    return None


def assign_of(st, name):
    if isinstance(st, ast.Assign) and len(st.targets) == 1 and up(st.targets[0]) == name:
        return st.value
    return None


def ctor(e, name, nargs):
    if isinstance(e, ast.Call) and up(e.func) == name and len(e.args) == nargs and not e.keywords:
        return e.args
    raise Unsupported("expected %s(...) with %d arguments, got %s" % (name, nargs, up(e)[:80]))


def index_of(e, base):
    """base[IDX] -> IDX"""
    if isinstance(e, ast.Subscript) and up(e.value) == base and not isinstance(e.slice, ast.Slice):
        return e.slice
    raise Unsupported("expected %s[...], got %s" % (base, up(e)[:60]))


def upper_slice(e, base):
    """base[:N] -> N"""
    if isinstance(e, ast.Subscript) and up(e.value) == base and isinstance(e.slice, ast.Slice) \
            and e.slice.lower is None and e.slice.step is None and e.slice.upper is not None:
        return e.slice.upper
    raise Unsupported("expected %s[:N], got %s" % (base, up(e)[:60]))


def range_args(it):
    if isinstance(it, ast.Call) and up(it.func) == "range" and not it.keywords:
        if len(it.args) == 2:
            return it.args[0], it.args[1]
        if len(it.args) == 1:
            return ast.Constant(0), it.args[0]
    raise Unsupported("loop iterable is not range(a, b): %s" % up(it)[:60])


# ---------------------------------------------------------------------------------- phase shift
def gen_phase_shift():
    cls = find_class(parse(F_PCPS), "ProjectorControlledPhaseShift")
    body = body_nodoc(find_func(cls, "as_circuit"))
    # size_enc = len(self.encoding_qubits); guards; circuit = Circuit(); if method ...; return circuit
    if not (len(body) >= 4 and up(body[0]) == "size_enc = len(self.encoding_qubits)"):
        raise Unsupported("as_circuit: first statement is not size_enc = len(self.encoding_qubits)")
    rest = body[1:]
    while rest and is_raise_guard(rest[0]):
        rest = rest[1:]
    if not (len(rest) == 3 and up(rest[0]) == "circuit = Circuit()" and isinstance(rest[1], ast.If)
            and up(rest[2]) == "return circuit"):
        raise Unsupported("as_circuit: unexpected statement skeleton")
    br = rest[1]
    if up(br.test) != "self.method == 'auxiliary'":
        raise Unsupported("as_circuit: branch test is %s" % up(br.test))

    # ---- auxiliary branch
    ab = br.body
    if len(ab) < 3:
        raise Unsupported("auxiliary branch too short")
    a = ctor(assign_of(ab[0], "multi_cnot"), "ControlledGate", 3) if assign_of(ab[0], "multi_cnot") is not None else None
    if a is None:
        raise Unsupported("auxiliary: expected multi_cnot = ControlledGate(...)")
    tg = ctor(a[0], "PauliXGate", 1)
    if up(tg[0]) != "self.auxiliary_qubits[0]" or up(a[1]) != "size_enc" or up(a[2]) != "self.projection_state":
        raise Unsupported("auxiliary: multi_cnot is not X on auxiliary_qubits[0] controlled on all encoding qubits")
    c = call_of(ab[1], "multi_cnot.set_control")
    if c is None or len(c.args) != 1 or up(c.args[0]) != "self.encoding_qubits":
        raise Unsupported("auxiliary: expected multi_cnot.set_control(self.encoding_qubits)")
    order, coefs = [], []
    for st in ab[2:]:
        c = call_of(st, "circuit.append_gate")
        if c is None or len(c.args) != 1:
            raise Unsupported("auxiliary: unexpected statement %s" % up(st)[:60])
        if up(c.args[0]) == "multi_cnot":
            order.append(0)
            continue
        rz = ctor(c.args[0], "RzGate", 2)
        if up(rz[1]) != "self.auxiliary_qubits[0]":
            raise Unsupported("auxiliary: RzGate not on auxiliary_qubits[0]")
        coefs.append(QTr({}).coef(rz[0]))
        order.append(1)
    if len(set(coefs)) != 1:
        raise Unsupported("auxiliary: expected RzGate angles given by one expression")

    # ---- c-phase branch
    cb = br.orelse
    if len(cb) != 6:
        raise Unsupported("c-phase branch: expected 6 statements, got %d" % len(cb))
    md = assign_of(cb[0], "max_den")
    if md is None:
        raise Unsupported("c-phase: expected max_den = ...")
    max_den = QTr({"size_enc": ("size_enc", "Z")}).z(md)
    tr = QTr({"max_den": ("max_den", "Z")})
    c = call_of(cb[1], "circuit.append_gate")
    if c is None or len(c.args) != 1:
        raise Unsupported("c-phase: expected circuit.append_gate(RzGate(...))")
    rz = ctor(c.args[0], "RzGate", 2)
    first_coef = tr.coef(rz[0])
    first_tgt = QTr({}).z(index_of(rz[1], "self.encoding_qubits"))
    loop = cb[2]
    if not (isinstance(loop, ast.For) and up(loop.target) == "i" and not loop.orelse and len(loop.body) == 3):
        raise Unsupported("c-phase: expected `for i in range(...)` with 3 statements")
    lo, hi = range_args(loop.iter)
    lo_t = QTr({}).z(lo)
    hi_t = QTr({"size_enc": ("size_enc", "Z")}).z(hi)
    tri = QTr({"max_den": ("max_den", "Z"), "i": ("i", "Z")})
    mr = assign_of(loop.body[0], "multi_rot")
    if mr is None:
        raise Unsupported("c-phase loop: expected multi_rot = ControlledGate(...)")
    cg = ctor(mr, "ControlledGate", 3)
    rz = ctor(cg[0], "RzGate", 2)
    loop_coef = tri.coef(rz[0])
    loop_tgt = QTr({"i": ("i", "Z")}).z(index_of(rz[1], "self.encoding_qubits"))
    nctrl = cg[1]
    s1 = upper_slice(cg[2], "self.projection_state")
    c = call_of(loop.body[1], "multi_rot.set_control")
    if c is None or len(c.args) != 1:
        raise Unsupported("c-phase loop: expected multi_rot.set_control(...)")
    s2 = upper_slice(c.args[0], "self.encoding_qubits")
    if not (up(s1) == up(s2) == up(nctrl)):
        raise Unsupported("c-phase loop: number of controls, ctrl_state slice and control slice differ")
    loop_nctrl = QTr({"i": ("i", "Z")}).z(nctrl)
    c = call_of(loop.body[2], "circuit.append_gate")
    if c is None or len(c.args) != 1 or up(c.args[0]) != "multi_rot":
        raise Unsupported("c-phase loop: expected circuit.append_gate(multi_rot)")
    gp = assign_of(cb[3], "glob_p")
    if gp is None:
        raise Unsupported("c-phase: expected glob_p = PhaseFactorGate(...)")
    pf = ctor(gp, "PhaseFactorGate", 2)
    if up(pf[1]) != "self.num_wires":
        raise Unsupported("c-phase: PhaseFactorGate not on self.num_wires wires")
    glob_coef = tr.coef(pf[0])
    c = call_of(cb[4], "glob_p.on")
    if c is None or len(c.args) != 1 or up(c.args[0]) != "self.encoding_qubits":
        raise Unsupported("c-phase: expected glob_p.on(self.encoding_qubits)")
    c = call_of(cb[5], "circuit.append_gate")
    if c is None or len(c.args) != 1 or up(c.args[0]) != "glob_p":
        raise Unsupported("c-phase: expected circuit.append_gate(glob_p)")

    out = []
    out.append("Definition gen_cphase : cphase_src := {|\n"
               "  cp_max_den := fun size_enc : Z => %s;\n"
               "  cp_first_coef := fun max_den : Z => %s;\n"
               "  cp_first_tgt := %s;\n"
               "  cp_lo := %s;\n"
               "  cp_hi := fun size_enc : Z => %s;\n"
               "  cp_loop_coef := fun max_den i : Z => %s;\n"
               "  cp_loop_tgt := fun i : Z => %s;\n"
               "  cp_loop_nctrl := fun i : Z => %s;\n"
               "  cp_glob_coef := fun max_den : Z => %s |}.\n"
               % (max_den, first_coef, first_tgt, lo_t, hi_t,
                  loop_coef, loop_tgt, loop_nctrl, glob_coef))
    out.append("Definition gen_aux : aux_src := {|\n  ax_rz_coef := %s;\n  ax_order := [%s]%%nat |}.\n"
               % (coefs[0], "; ".join(str(k) for k in order)))
    return "\n".join(out)



# ---------------------------------------------------------------------------------- phase shift, as_matrix
def qlit(fr):
    return "(%d # %d)%%Q" % (fr.numerator, fr.denominator) if fr >= 0 else "(- (%d # %d))%%Q" % (-fr.numerator, fr.denominator)


def lin_expm_arg(e):
    """the argument of expm as a polynomial: ({'1'|'P'|'I': Fraction}, power of 1j, degree in theta);
    'P' = the projector `matrix`, 'I' = np.identity(2**size_enc)"""
    s = up(e)
    if s == "matrix":
        return {"P": Fraction(1)}, 0, 0
    if s in ("np.identity(2 ** size_enc)", "np.eye(2 ** size_enc)"):
        return {"I": Fraction(1)}, 0, 0
    if s == "self.theta":
        return {"1": Fraction(1)}, 0, 1
    if isinstance(e, ast.Constant):
        if isinstance(e.value, complex) and e.value == 1j:
            return {"1": Fraction(1)}, 1, 0
        if isinstance(e.value, int) and not isinstance(e.value, bool):
            return {"1": Fraction(e.value)}, 0, 0
        raise Unsupported("constant %r in the expm argument" % (e.value,))
    if isinstance(e, ast.UnaryOp) and isinstance(e.op, ast.USub):
        d, pi, pt = lin_expm_arg(e.operand)
        return {k: -v for k, v in d.items()}, pi, pt
    if isinstance(e, ast.BinOp):
        a, ai, at = lin_expm_arg(e.left)
        b, bi, bt = lin_expm_arg(e.right)
        if isinstance(e.op, (ast.Add, ast.Sub)):
            if (ai, at) != (bi, bt):
                raise Unsupported("sum of terms with different powers of 1j / theta: %s" % s[:80])
            sg = 1 if isinstance(e.op, ast.Add) else -1
            out = dict(a)
            for k, v in b.items():
                out[k] = out.get(k, Fraction(0)) + sg * v
            return out, ai, at
        if isinstance(e.op, ast.Mult):
            if set(a) != {"1"} and set(b) != {"1"}:
                raise Unsupported("product of two matrices in the expm argument: %s" % s[:80])
            if set(a) != {"1"}:
                a, b = b, a
            return {k: a["1"] * v for k, v in b.items()}, ai + bi, at + bt
        if isinstance(e.op, ast.Div):
            if set(b) != {"1"} or bi or bt or b["1"] == 0:
                raise Unsupported("division in the expm argument: %s" % s[:80])
            return {k: v / b["1"] for k, v in a.items()}, ai, at
    raise Unsupported("expm argument: %s" % s[:80])


def gen_phase_matrix():
    cls = find_class(parse(F_PCPS), "ProjectorControlledPhaseShift")
    body = [st for st in body_nodoc(find_func(cls, "as_matrix")) if not is_raise_guard(st)]
    want = ["size_enc = len(self.projection_state)",
            "binary_index = int(''.join(map(str, self.projection_state)), 2)",
            "basis_state = np.zeros(2 ** size_enc)",
            "basis_state[binary_index] = 1",
            "matrix = np.outer(basis_state, basis_state)"]
    if len(body) != 7 or [up(st) for st in body[:5]] != want:
        raise Unsupported("ProjectorControlledPhaseShift.as_matrix: unexpected statements before expm")
    v = assign_of(body[5], "mat_ref")
    if v is None or up(body[6]) != "return mat_ref":
        raise Unsupported("ProjectorControlledPhaseShift.as_matrix: expected mat_ref = expm(...); return mat_ref")
    arg = ctor(v, "expm", 1)[0]
    d, pi, pt = lin_expm_arg(arg)
    if pi != 1 or pt != 1 or d.get("1", 0) != 0:
        raise Unsupported("expm argument is not 1j * theta * (a * projector + b * identity): %s" % up(arg)[:80])
    return ("Definition gen_pmat : pmat_src := {| pm_proj := %s; pm_id := %s |}.\n"
            % (qlit(d.get("P", Fraction(0))), qlit(d.get("I", Fraction(0)))))


# ---------------------------------------------------------------------------------- eigenvalue transformation
LEN = "len(self.theta_seq)"


class Block:
    """sequence of statements that set theta and produce factors"""

    def __init__(self, kind, env, names):
        self.kind = kind          # 'matrix' | 'circuit'
        self.env = env
        self.names = names        # for 'matrix': {'U_matrix': False, 'U_inv_matrix': True}
        self.cur = None
        self.letters = []
        self.assigns = {}

    def feed(self, st):
        c = call_of(st, "self.processing.set_theta")
        if c is not None:
            if len(c.args) != 1:
                raise Unsupported("set_theta arguments")
            idx = index_of(c.args[0], "self.theta_seq")
            self.cur = QTr(self.env, theta=None, subst={LEN: ("len", "Z")}).z(idx)
            return
        if self.kind == "matrix":
            v = assign_of(st, "matrix")
            if v is not None:
                fs = []
                e = v
                while isinstance(e, ast.BinOp) and isinstance(e.op, ast.MatMult):
                    fs.append(e.right)
                    e = e.left
                fs.append(e)
                fs.reverse()
                if up(fs[0]) != "matrix":
                    raise Unsupported("matrix update does not start with `matrix @`: %s" % up(v)[:80])
                for f in fs[1:]:
                    s = up(f)
                    if s == "np.kron(self.processing.as_matrix(), id_for_projector)":
                        if self.cur is None:
                            raise Unsupported("phase shift used before set_theta in this block")
                        self.letters.append("LP %s" % self.cur)
                        self.cur = None
                    elif s in self.names:
                        self.letters.append("LU %s" % ("true" if self.names[s] else "false"))
                    else:
                        raise Unsupported("unknown factor %s" % s[:80])
                return
        else:
            c = call_of(st, "circuit.prepend_circuit")
            if c is not None:
                if len(c.args) != 1 or up(c.args[0]) != "self.processing.as_circuit()":
                    raise Unsupported("prepend_circuit argument %s" % up(c)[:80])
                if self.cur is None:
                    raise Unsupported("phase shift used before set_theta in this block")
                self.letters.append("LP %s" % self.cur)
                self.cur = None
                return
            c = call_of(st, "circuit.prepend_gate")
            if c is not None:
                s = up(c.args[0]) if len(c.args) == 1 else "?"
                if s == "self.block_encoding":
                    self.letters.append("LU false")
                elif s == "self.block_encoding.inverse()":
                    self.letters.append("LU true")
                else:
                    raise Unsupported("prepend_gate argument %s" % s[:80])
                return
        for nm in ("dim", "start"):
            v = assign_of(st, nm)
            if v is not None:
                if nm in self.assigns:
                    raise Unsupported("%s assigned twice" % nm)
                self.assigns[nm] = QTr({}, theta=None, subst={LEN: ("len", "Z")}).z(v)
                return
        raise Unsupported("unexpected statement: %s" % up(st)[:80])

    def done(self):
        if self.cur is not None:
            raise Unsupported("set_theta without a following use")
        return "[" + "; ".join(self.letters) + "]"


def gen_evt_method(cls, meth, kind, coqname):
    body = body_nodoc(find_func(cls, meth))
    names = {}
    i = 0
    pre_ok = {"matrix": ["matrix = np.identity(2 ** self.block_encoding.num_wires)",
                         "num_particles = self.block_encoding.num_wires - self.block_encoding.num_aux_qubits",
                         "id_for_projector = np.identity(2 ** num_particles)"],
              "circuit": ["circuit = Circuit()"]}[kind]
    seen = set()
    while i < len(body) and not (isinstance(body[i], ast.If) and not is_raise_guard(body[i])):
        st = body[i]
        s = up(st)
        if is_raise_guard(st):
            pass
        elif s in pre_ok:
            seen.add(s)
        elif kind == "matrix" and s == "U_inv_matrix = self.block_encoding.inverse().as_matrix()":
            names["U_inv_matrix"] = True
        elif kind == "matrix" and s == "U_matrix = self.block_encoding.as_matrix()":
            names["U_matrix"] = False
        else:
            raise Unsupported("%s: unexpected statement before the parity branch: %s" % (meth, s[:80]))
        i += 1
    if seen != set(pre_ok):
        raise Unsupported("%s: missing initialisation (%s)" % (meth, sorted(set(pre_ok) - seen)))
    if kind == "matrix" and set(names) != {"U_inv_matrix", "U_matrix"}:
        raise Unsupported("as_matrix: U_matrix / U_inv_matrix not both defined")
    if len(body) - i != 3:
        raise Unsupported("%s: expected `if parity`, `for`, `return` after the preamble" % meth)
    br, loop, ret = body[i:]
    if up(ret) != ("return matrix" if kind == "matrix" else "return circuit"):
        raise Unsupported("%s: unexpected return" % meth)
    t, ty, _ = QTr({}, theta=None, subst={LEN: ("len", "Z")}).expr(br.test)
    if ty != "bool":
        raise Unsupported("%s: parity test is not boolean" % meth)
    blocks = []
    for stmts in (br.body, br.orelse):
        b = Block(kind, {}, names)
        for st in stmts:
            b.feed(st)
        if set(b.assigns) != {"dim", "start"}:
            raise Unsupported("%s: branch does not assign both dim and start" % meth)
        blocks.append(b)
    if not (isinstance(loop, ast.For) and up(loop.target) == "i" and not loop.orelse):
        raise Unsupported("%s: expected `for i in range(...)`" % meth)
    lo, hi = range_args(loop.iter)
    env2 = {"start": ("start", "Z"), "dim": ("dim", "Z")}
    lo_t = QTr(env2, theta=None).z(lo)
    hi_t = QTr(env2, theta=None).z(hi)
    lb = Block(kind, {"i": ("i", "Z"), "start": ("start", "Z")}, names)
    for st in loop.body:
        lb.feed(st)
    if lb.assigns:
        raise Unsupported("%s: loop body assigns dim/start" % meth)
    ev, od = blocks
    return ("Definition %s : evt_src := {|\n"
            "  ev_even := fun len : Z => %s;\n"
            "  ev_dim_even := fun len : Z => %s; ev_start_even := %s; ev_prefix_even := %s;\n"
            "  ev_dim_odd := fun len : Z => %s; ev_start_odd := %s; ev_prefix_odd := %s;\n"
            "  ev_lo := fun start dim : Z => %s;\n"
            "  ev_hi := fun start dim : Z => %s;\n"
            "  ev_body := fun i start : Z => %s |}.\n"
            % (coqname, t, ev.assigns["dim"], ev.assigns["start"], ev.done(),
               od.assigns["dim"], od.assigns["start"], od.done(), lo_t, hi_t, lb.done()))


def gen_evt():
    cls = find_class(parse(F_EVT), "EigenvalueTransformation")
    return gen_evt_method(cls, "as_matrix", "matrix", "gen_evt_mat") + "\n" + \
        gen_evt_method(cls, "as_circuit", "circuit", "gen_evt_circ")


# ---------------------------------------------------------------------------------- setters, getter effects
ARG_NORMALISE = ("if len(args) == 1 and isinstance(args[0], Sequence):\n    %s = list(args[0])\nelse:\n    %s = list(args)")
PATTR = {"theta": "upd_theta", "encoding_qubits": "upd_enc", "auxiliary_qubits": "upd_aux", "method": "upd_method"}


class SetterTr:
    """body of a setter -> Coq term of type (state) for the state variable `st`.
    values: names bound to the call's argument; conditions: comparisons of `self.method` / a method parameter with
    'auxiliary' (modelled as a bool: true = 'auxiliary')"""

    def __init__(self, arg_names, method_params=()):
        self.args = set(arg_names)            # python names that denote the argument of the call
        self.mparams = set(method_params)     # python names of parameters holding a method string

    def cond(self, e, cur):
        if isinstance(e, ast.Compare) and len(e.ops) == 1 and isinstance(e.comparators[0], ast.Constant) \
                and e.comparators[0].value == "auxiliary":
            l = up(e.left)
            if l == "self.method":
                t = "(ps_auxm %s)" % cur
            elif l in self.mparams:
                t = l
            else:
                raise Unsupported("condition on %s" % l)
            if isinstance(e.ops[0], ast.Eq):
                return t
            if isinstance(e.ops[0], ast.NotEq):
                return "(negb %s)" % t
        raise Unsupported("setter condition %s" % up(e)[:80])

    def value(self, e):
        s = up(e)
        if s in self.args or s in self.mparams:
            return s if s in self.mparams else "arg"
        if isinstance(e, ast.Call) and up(e.func) == "list" and len(e.args) == 1 and up(e.args[0]) in self.args:
            return "arg"
        if s == "[]":
            return "[]"
        raise Unsupported("setter value %s" % s[:80])

    def stmts(self, sts, cur):
        """-> Coq term for the state after the statements (st-valued)"""
        if not sts:
            return cur
        st, rest = sts[0], sts[1:]
        if is_raise_guard(st):
            return self.stmts(rest, cur)
        if isinstance(st, ast.Return):
            if st.value is not None and up(st.value) != "self":
                raise Unsupported("setter returns %s" % up(st.value)[:60])
            return cur
        if isinstance(st, ast.If):
            txt = up(st)
            for nm in ("encoding_qubits", "auxiliary_qubits"):
                if txt == ARG_NORMALISE % (nm, nm):
                    self.args.add(nm)          # the local is the (normalised) argument
                    return self.stmts(rest, cur)
            c = self.cond(st.test, cur)
            if st.orelse:
                raise Unsupported("setter: if/else %s" % txt[:80])
            if len(st.body) == 1 and isinstance(st.body[0], ast.Return):
                self.stmts(st.body, cur)
                return "(if %s then %s else %s)" % (c, cur, self.stmts(rest, cur))
            inner = self.stmts(st.body, cur)
            return "(let st1 := (if %s then %s else %s) in %s)" % (c, inner, cur, self.stmts(rest, "st1").replace("st1", "st1"))
        if isinstance(st, ast.Assign) and len(st.targets) == 1:
            t = st.targets[0]
            if isinstance(t, ast.Attribute) and up(t.value) == "self" and t.attr in PATTR:
                new = "(%s %s %s)" % (PATTR[t.attr], self.value(st.value), cur)
                return "(let st2 := %s in %s)" % (new, self.stmts(rest, "st2"))
        raise Unsupported("setter statement %s" % up(st)[:80])


def gen_pcps_setters():
    cls = find_class(parse(F_PCPS), "ProjectorControlledPhaseShift")

    def params(fn):
        return [a.arg for a in fn.args.args[1:]], (fn.args.vararg.arg if fn.args.vararg else None)
    out = {}
    fn = find_func(cls, "set_theta")
    if params(fn) != (["theta"], None):
        raise Unsupported("set_theta parameters")
    out["st_theta"] = "fun (arg : Q) (st : pstate) => %s" % SetterTr({"theta"}).stmts(body_nodoc(fn), "st")
    for nm, field in (("set_encoding_qubits", "st_enc"), ("set_auxiliary_qubits", "st_aux")):
        fn = find_func(cls, nm)
        if params(fn) != ([], "args"):
            raise Unsupported("%s parameters" % nm)
        out[field] = "fun (arg : list nat) (st : pstate) => %s" % SetterTr(set()).stmts(body_nodoc(fn), "st")
    fn = find_func(cls, "set_method")
    if params(fn) != (["method"], None):
        raise Unsupported("set_method parameters")
    out["st_method"] = "fun (method : bool) (st : pstate) => %s" % SetterTr(set(), {"method"}).stmts(body_nodoc(fn), "st")
    return ("Definition gen_pcps_setters : pcps_setters := {|\n"
            + ";\n".join("  %s := %s" % (k, out[k]) for k in ("st_theta", "st_enc", "st_aux", "st_method")) + " |}.\n")


def gen_evt_setters():
    cls = find_class(parse(F_EVT), "EigenvalueTransformation")
    out = {}
    # set_theta_seq: both branches of `if theta_seq is not None` store the argument (a list in the model)
    fn = find_func(cls, "set_theta_seq")
    body = body_nodoc(fn)
    ok = (len(body) == 1 and isinstance(body[0], ast.If) and up(body[0].test) == "theta_seq is not None"
          and [up(s) for s in body[0].body] == ["self.theta_seq = list(theta_seq)"]
          and [up(s) for s in body[0].orelse] == ["self.theta_seq = theta_seq"])
    if not ok:
        raise Unsupported("set_theta_seq: unexpected body")
    out["et_seq"] = "fun (arg : list Q) (st : estate) => upd_seq arg st"
    DELEG = {"self.processing.set_encoding_qubits": "upd_proc (st_enc gen_pcps_setters arg (es_proc %s)) %s",
             "self.processing.set_auxiliary_qubits": "upd_proc (st_aux gen_pcps_setters arg (es_proc %s)) %s",
             "self.processing.set_method": "upd_proc (st_method gen_pcps_setters arg (es_proc %s)) %s",
             "self.block_encoding.set_auxiliary_qubits": "upd_benc arg %s"}
    for nm, field, ty in (("set_encoding_qubits", "et_enc", "list nat"), ("set_auxiliary_qubits", "et_anc", "list nat"),
                          ("set_method", "et_method", "bool")):
        fn = find_func(cls, nm)
        ps = [a.arg for a in fn.args.args[1:]]
        if len(ps) != 1 or fn.args.vararg:
            raise Unsupported("%s parameters" % nm)
        cur = "st"
        for k, st in enumerate(body_nodoc(fn)):
            c = st.value if isinstance(st, ast.Expr) and isinstance(st.value, ast.Call) else None
            if c is None or up(c.func) not in DELEG or len(c.args) != 1 or up(c.args[0]) != ps[0] or c.keywords:
                raise Unsupported("%s: unexpected statement %s" % (nm, up(st)[:80]))
            tmpl = DELEG[up(c.func)]
            cur = "(" + (tmpl % ((cur,) * tmpl.count("%s"))) + ")"
        out[field] = "fun (arg : %s) (st : estate) => %s" % (ty, cur)
    return ("Definition gen_evt_setters : evt_setters := {|\n"
            + ";\n".join("  %s := %s" % (k, out[k]) for k in ("et_seq", "et_enc", "et_anc", "et_method")) + " |}.\n")


MUTATORS = {"append", "extend", "insert", "pop", "remove", "clear", "update", "sort", "reverse", "setdefault", "add",
            "discard", "popitem", "fill", "resize", "put", "itemset", "__setitem__", "__setattr__", "__delitem__"}


def root_self(e):
    while isinstance(e, (ast.Attribute, ast.Subscript, ast.Call)):
        e = e.func if isinstance(e, ast.Call) else e.value
    return isinstance(e, ast.Name) and e.id == "self"


def getter_effects(cls, meth, allowed_calls=()):
    """what a getter does to `self`: (list of stores / mutating calls on self.*, is the returned object built in the call)"""
    fn = find_func(cls, meth)
    stores, aliases = [], set()
    for n in ast.walk(fn):
        tgts = []
        if isinstance(n, ast.Assign):
            tgts = n.targets
            if isinstance(n.value, (ast.Attribute, ast.Subscript)) and root_self(n.value):
                for t in n.targets:
                    if isinstance(t, ast.Name):
                        aliases.add(t.id)           # a local that IS an object stored in self
        elif isinstance(n, (ast.AugAssign, ast.AnnAssign)):
            tgts = [n.target]
        elif isinstance(n, ast.Delete):
            tgts = n.targets
        for t in tgts:
            for el in (t.elts if isinstance(t, (ast.Tuple, ast.List)) else [t]):
                if not isinstance(el, ast.Name) and (root_self(el) or (isinstance(el, (ast.Attribute, ast.Subscript))
                                                                       and up(el).split(".")[0].split("[")[0] in aliases)):
                    stores.append(up(el))
        if isinstance(n, ast.Call):
            f = n.func
            if isinstance(f, ast.Attribute) and root_self(f.value) and up(f) not in allowed_calls \
                    and (f.attr in MUTATORS or f.attr.startswith("set_")):
                stores.append(up(f) + "(...)")
            if isinstance(f, ast.Name) and f.id in ("setattr", "delattr") and n.args and root_self(n.args[0]):
                stores.append(up(n)[:60])
    fresh = True
    rets = [n for n in ast.walk(fn) if isinstance(n, ast.Return)]
    if not rets:
        fresh = False
    for r in rets:
        if not isinstance(r.value, ast.Name) or r.value.id in aliases or r.value.id == "self":
            fresh = False
    return stores, fresh


def hist_facts():
    """-> {name: (kind 'GFresh'|'GReuse', detail)} for the two classes"""
    pc = find_class(parse(F_PCPS), "ProjectorControlledPhaseShift")
    ev = find_class(parse(F_EVT), "EigenvalueTransformation")
    out = {}
    for key, cls, allowed in (("pcps", pc, ()), ("evt", ev, ("self.processing.set_theta",))):
        det, kind = [], "GFresh"
        for meth in ("as_circuit", "as_matrix"):
            stores, fresh = getter_effects(cls, meth, allowed)
            if stores:
                det.append("%s stores into %s" % (meth, ", ".join(sorted(set(stores)))))
            if not fresh:
                det.append("%s returns an object that is not a local built in the call" % meth)
            if stores or not fresh:
                kind = "GReuse"
        out[key] = (kind, "; ".join(det) or "as_circuit / as_matrix store nothing into self and return a local built in the call")
    return out


def generate_hist():
    facts = hist_facts()
    return ("(* generated by gen/qubitization.py from %s and %s -- do not edit *)\n"
            "From Qib Require Import Qubitization.HistModel.\n\n" % (F_PCPS, F_EVT)
            + gen_pcps_setters() + "\n" + gen_evt_setters() + "\n"
            + "(* %s *)\nDefinition gen_pcps_getters : getter_kind := %s.\n" % (facts["pcps"][1], facts["pcps"][0])
            + "(* %s *)\nDefinition gen_evt_getters : getter_kind := %s.\n" % (facts["evt"][1], facts["evt"][0]))


def generate():
    return ("(* generated by gen/qubitization.py from %s and %s -- do not edit *)\n"
            "From Qib Require Import Qubitization.QubitModel.\n\n" % (F_PCPS, F_EVT)
            + gen_phase_shift() + "\n" + gen_phase_matrix() + "\n" + gen_evt())


if __name__ == "__main__":
    print(generate())
