"""T-embed: regenerate Coq definitions from /repo/src for C04 (gate embedding) and C05 (circuits).

C04  generate():
  gates.py  _distribute_to_wires   -> gen_distribute : the whole function, statement by statement, as
                                      a Gallina term over the combinators of Qib.Embed.EmbedModel
                                      (py_range_minus, py_assert, zrange, znth, accum, csr_loop,
                                      base_block, shift_block).  Every closed form (the two reversal
                                      comprehensions, loop bounds, bit tests, increments, the assert
                                      conditions) is translated from the syntax; the array plumbing
                                      (allocation, slice assignments, the final csr_matrix call) must
                                      match the text the combinators model, otherwise Unsupported.
  gates.py  every Gate subclass    -> as_circuit_matrix must be "guards; iwire from particles() via
                                      map_particle_to_wire; nwires = sum of nsites; _distribute_to_wires"
  util.py   map_particle_to_wire   -> gen_mp2w_init/hit/skip/miss (the four closed-form pieces)
  util.py   permute_gate_wires     -> gen_permute_axes (the axes list handed to np.transpose)
C05  generate_circ():  see below.
Anything outside the expected shapes raises pyx.Unsupported (fail closed)."""
import ast
import pyx
from pyx import Unsupported, parse, find_class, body_nodoc

GATES = "src/qib/operator/gates.py"
UTIL = "src/qib/util/util.py"
CIRC = "src/qib/circuit/circuit.py"
SVSIM = "src/qib/simulator/statevector_simulator.py"


def U(node):
    return ast.unparse(node)


class Tr(pyx.Tr):
    """pyx.Tr + integer **, <<, &, list subscripts, gmat attributes"""

    def expr(self, e):
        if isinstance(e, ast.BinOp) and isinstance(e.op, (ast.Pow, ast.LShift, ast.BitAnd)):
            a, ta = self.expr(e.left)
            b, tb = self.expr(e.right)
            if ta != "Z" or tb != "Z":
                raise Unsupported("operator %s on %s,%s" % (type(e.op).__name__, ta, tb))
            if isinstance(e.op, ast.Pow):
                return "(%s ^ %s)" % (a, b), "Z"
            if isinstance(e.op, ast.LShift):
                return "(Z.shiftl %s %s)" % (a, b), "Z"
            return "(Z.land %s %s)" % (a, b), "Z"
        if isinstance(e, ast.Subscript):
            a, ta = self.expr(e.value)
            i, ti = self.expr(e.slice)
            if ta == "vec" and ti == "Z":
                return "(znth %s %s)" % (a, i), "Z"
            raise Unsupported("subscript %s[%s]" % (ta, ti))
        if isinstance(e, ast.Call) and self.call_name(e.func) == "len" and len(e.args) == 1 and not e.keywords:
            a, ta = self.expr(e.args[0])
            if ta == "vec":
                return "(zlen %s)" % a, "Z"
            raise Unsupported("len of %s" % ta)
        return super().expr(e)


def expect(cond, what):
    if not cond:
        raise Unsupported(what)


def expect_text(node, text, what):
    got = U(node)
    if got != text:
        raise Unsupported("%s: expected `%s`, found `%s`" % (what, text, got))


def is_doc(n):
    return isinstance(n, ast.Expr) and isinstance(n.value, ast.Constant) and isinstance(n.value.value, str)


def bound_names(n):
    """names a module-/class-level statement binds"""
    if isinstance(n, (ast.ClassDef, ast.FunctionDef, ast.AsyncFunctionDef)):
        return [n.name]
    if isinstance(n, ast.Import):
        return [(a.asname or a.name.split(".")[0]) for a in n.names]
    if isinstance(n, ast.ImportFrom):
        return [(a.asname or a.name) for a in n.names]
    if isinstance(n, (ast.Assign, ast.AnnAssign, ast.AugAssign)):
        tg = n.targets if isinstance(n, ast.Assign) else [n.target]
        return [x.id for t in tg for x in ast.walk(t) if isinstance(x, ast.Name)]
    return []


def strict_module(tree, path, imports):
    """fail closed unless the module body is docstring / imports / classes / functions only (no statement that
    could rebind or patch a translated definition after the fact), every top-level name is bound exactly once,
    and every name in `imports` {name: module} is imported under its own name from that module"""
    count = {}
    for n in tree.body:
        if is_doc(n):
            continue
        if not isinstance(n, (ast.Import, ast.ImportFrom, ast.ClassDef, ast.FunctionDef)):
            raise Unsupported("%s: module-level statement `%s`" % (path, U(n)[:80]))
        if isinstance(n, (ast.ClassDef, ast.FunctionDef)) and n.decorator_list:
            raise Unsupported("%s: decorated top-level definition %s" % (path, n.name))
        for x in bound_names(n):
            count[x] = count.get(x, 0) + 1
    dup = sorted(x for x, k in count.items() if k > 1)
    expect(not dup, "%s: top-level names bound more than once: %s" % (path, ", ".join(dup)))
    for name, module in imports.items():
        if module.startswith("import "):       # `import numpy as np`
            ok = any(isinstance(n, ast.Import) and any(a.name == module[7:] and (a.asname or a.name) == name for a in n.names)
                     for n in tree.body)
        else:
            ok = any(isinstance(n, ast.ImportFrom) and n.module == module and n.level == 0
                     and any(a.name == name and a.asname in (None, name) for a in n.names) for n in tree.body)
        expect(ok, "%s: `%s` is not imported from %s" % (path, name, module))


UTIL_INIT = "src/qib/util/__init__.py"


def parse_gates():
    tree = parse(GATES)
    strict_module(tree, GATES, {"csr_matrix": "scipy.sparse", "map_particle_to_wire": "qib.util", "copy": "copy",
                                "np": "import numpy"})
    # qib.util re-exports the two functions of util.py that are translated
    init = parse(UTIL_INIT)
    strict_module(init, UTIL_INIT, {"map_particle_to_wire": "qib.util.util", "permute_gate_wires": "qib.util.util"})
    return tree


def parse_util():
    tree = parse(UTIL)
    strict_module(tree, UTIL, {"np": "import numpy"})
    return tree


def parse_circ():
    tree = parse(CIRC)
    strict_module(tree, CIRC, {"copy": "copy"})
    return tree


def parse_svsim():
    tree = parse(SVSIM)
    strict_module(tree, SVSIM, {"np": "import numpy", "math": "import math"})
    return tree


def ufunc(node, name):
    """the unique, undecorated definition of `name` in a module or class body; no other binding of the name"""
    defs = [n for n in node.body if name in bound_names(n)]
    expect(len(defs) == 1 and isinstance(defs[0], ast.FunctionDef),
           "%s: expected exactly one plain definition of %s, found %d binding(s)" % (getattr(node, "name", "module"), name, len(defs)))
    fn = defs[0]
    expect(not fn.decorator_list, "%s is decorated" % name)
    expect(fn.args.vararg is None and fn.args.kwarg is None and not fn.args.kwonlyargs and not fn.args.posonlyargs,
           "%s: unexpected parameter kinds" % name)
    return fn


def range_args(call, what):
    expect(isinstance(call, ast.Call) and U(call.func) == "range" and not call.keywords and 1 <= len(call.args) <= 2,
           what + ": not a range(...)")
    return call.args


def accum_loop(stmts, var, tr, what):
    """`var = 0`  `for b in range(N): if COND: var += INCR`  ->  Coq accum term"""
    expect(len(stmts) == 2, what + ": expected init + loop")
    init, loop = stmts
    expect_text(init, "%s = 0" % var, what + " init")
    expect(isinstance(loop, ast.For) and not loop.orelse and isinstance(loop.target, ast.Name), what + ": for loop")
    bvar = loop.target.id
    (n,) = range_args(loop.iter, what)
    nt, nty = tr.expr(n)
    expect(nty == "Z", what + ": range bound type")
    expect(len(loop.body) == 1 and isinstance(loop.body[0], ast.If) and not loop.body[0].orelse, what + ": if")
    iff = loop.body[0]
    expect(len(iff.body) == 1 and isinstance(iff.body[0], ast.AugAssign) and isinstance(iff.body[0].op, ast.Add)
           and U(iff.body[0].target) == var, what + ": %s += ..." % var)
    tr2 = type(tr)(dict(tr.env, **{bvar: (bvar, "Z")}))
    ct, cty = tr2.expr(iff.test)
    if cty == "Z":
        ct = "truthy %s" % ct
    elif cty != "bool":
        raise Unsupported(what + ": condition type " + cty)
    it, ity = tr2.expr(iff.body[0].value)
    expect(ity == "Z", what + ": increment type")
    return "accum (zrange 0 %s) (fun %s => %s) (fun %s => %s)" % (nt, bvar, ct, bvar, it)


def gen_distribute():
    tree = parse_gates()
    fn = ufunc(tree, "_distribute_to_wires")
    expect([a.arg for a in fn.args.args] == ["nwires", "iwire", "gmat"], "_distribute_to_wires: parameters")
    b = body_nodoc(fn)
    expect(len(b) == 14, "_distribute_to_wires: expected 14 statements, found %d" % len(b))
    env = {"nwires": ("nwires", "Z"), "iwire": ("iwire", "vec")}
    tr = Tr(env)
    out = []
    # 0: complement
    expect_text(b[0], "iwcompl = list(set(range(nwires)).difference(iwire))", "complementary wires")
    out.append("let iwcompl := py_range_minus nwires iwire in")
    tr.env["iwcompl"] = ("iwcompl", "vec")
    # 1: assert
    expect(isinstance(b[1], ast.Assert) and b[1].msg is None, "statement 1: assert")
    t, ty = tr.expr(b[1].test)
    expect(ty == "bool", "assert 1 type")
    out.append("py_assert %s (" % t)
    # 2: m = len(iwire)
    cn, t, ty = tr.assign(b[2])
    expect(cn == "m" and ty == "Z", "m = len(iwire)")
    out.append("let m := %s in" % t)
    # 3: assert m <= nwires
    expect(isinstance(b[3], ast.Assert) and b[3].msg is None, "statement 3: assert")
    t, ty = tr.expr(b[3].test)
    expect(ty == "bool", "assert 3 type")
    out.append("py_assert %s (" % t)
    # 4: assert gmat.shape == (E, E)
    a4 = b[4]
    expect(isinstance(a4, ast.Assert) and isinstance(a4.test, ast.Compare) and len(a4.test.ops) == 1
           and isinstance(a4.test.ops[0], ast.Eq) and U(a4.test.left) == "gmat.shape"
           and isinstance(a4.test.comparators[0], ast.Tuple) and len(a4.test.comparators[0].elts) == 2
           and U(a4.test.comparators[0].elts[0]) == U(a4.test.comparators[0].elts[1]), "assert gmat.shape == (E, E)")
    dim, ty = tr.expr(a4.test.comparators[0].elts[0])
    out.append("py_assert (c_nrows gmat =? %s) (" % dim)
    # 5-7: allocation; the number of replicas must be the upper bound of the copy loop
    al = b[5]
    expect(isinstance(al, ast.Assign) and U(al.targets[0]) == "values" and isinstance(al.value, ast.Call)
           and U(al.value.func) == "np.zeros" and len(al.value.args) == 1
           and isinstance(al.value.args[0], ast.BinOp) and isinstance(al.value.args[0].op, ast.Mult)
           and U(al.value.args[0].right) == "gmat.nnz" and U(al.value.keywords[0].value) == "gmat.dtype",
           "values = np.zeros(R * gmat.nnz, dtype=gmat.dtype)")
    nrep_text = U(al.value.args[0].left)
    expect_text(b[6], "rowind = np.zeros_like(values, dtype=int)", "rowind allocation")
    expect_text(b[7], "colind = np.zeros_like(values, dtype=int)", "colind allocation")
    # 8, 9: reversal comprehensions
    for k, name in ((8, "iwire"), (9, "iwcompl")):
        s = b[k]
        expect(isinstance(s, ast.Assign) and U(s.targets[0]) == name and isinstance(s.value, ast.ListComp)
               and len(s.value.generators) == 1 and not s.value.generators[0].ifs
               and isinstance(s.value.generators[0].target, ast.Name), "%s = [E for b in range(N)]" % name)
        g = s.value.generators[0]
        (n,) = range_args(g.iter, name + " comprehension")
        nt, nty = tr.expr(n)
        tr2 = Tr(dict(tr.env, **{g.target.id: (g.target.id, "Z")}))
        et, ety = tr2.expr(s.value.elt)
        expect(nty == "Z" and ety == "Z", name + " comprehension types")
        out.append("let %s := map (fun %s => %s) (zrange 0 %s) in" % (name, g.target.id, et, nt))
    # 10: row loop
    L = b[10]
    expect(isinstance(L, ast.For) and not L.orelse and U(L.target) == "j" and len(L.body) == 3, "row loop")
    (nrows,) = range_args(L.iter, "row loop")
    nrows_t, _ = tr.expr(nrows)
    expect(nrows_t == dim, "row loop bound must equal the asserted gate dimension")
    trj = Tr(dict(tr.env, j=("j", "Z")))
    rowf = accum_loop(L.body[0:2], "r", trj, "row index loop")
    I = L.body[2]
    expect(isinstance(I, ast.For) and not I.orelse and U(I.target) == "i" and len(I.body) == 4, "entry loop")
    expect_text(I.iter, "range(gmat.indptr[j], gmat.indptr[j + 1])", "entry loop range")
    # the column loop reads gmat.indices[i]; translate with that sub-expression bound to ci
    class TrC(Tr):
        def expr(self, e):
            if U(e) == "gmat.indices[i]":
                return "ci", "Z"
            return super().expr(e)
    colf = accum_loop(I.body[0:2], "c", TrC(dict(tr.env)), "column index loop")
    expect("ci" in colf, "column loop does not read gmat.indices[i]")
    expect_text(I.body[2], "rowind[i] = r", "rowind assignment")
    expect_text(I.body[3], "colind[i] = c", "colind assignment")
    # 11
    expect_text(b[11], "values[:gmat.nnz] = gmat.data", "values of the first block")
    # 12: copy loop
    C = b[12]
    expect(isinstance(C, ast.For) and not C.orelse and U(C.target) == "k" and len(C.body) == 5, "copy loop")
    ra = range_args(C.iter, "copy loop")
    expect(len(ra) == 2, "copy loop: range(lo, hi)")
    lo, loty = tr.expr(ra[0])
    hi, hity = tr.expr(ra[1])
    expect(U(ra[1]) == nrep_text, "copy loop bound differs from the allocated number of replicas")
    trk = Tr(dict(tr.env, k=("k", "Z")))
    koff = accum_loop(C.body[0:2], "koffset", trk, "offset loop")
    expect_text(C.body[2], "rowind[gmat.nnz * k:gmat.nnz * (k + 1)] = rowind[:gmat.nnz] + koffset", "row block copy")
    expect_text(C.body[3], "colind[gmat.nnz * k:gmat.nnz * (k + 1)] = colind[:gmat.nnz] + koffset", "col block copy")
    expect_text(C.body[4], "values[gmat.nnz * k:gmat.nnz * (k + 1)] = gmat.data", "value block copy")
    # 13
    expect_text(b[13], "return csr_matrix((values, (rowind, colind)), shape=(2 ** nwires, 2 ** nwires))", "return")
    out.append("match base_block d gmat (csr_loop gmat (zrange 0 %s)\n      (fun j => %s)\n      (fun ci => %s)) with" % (nrows_t, rowf, colf))
    out.append("| None => None")
    out.append("| Some base => Some (base ++ flat_map (fun k => let koffset := %s in shift_block koffset base) (zrange %s %s))"
               % (koff, lo, hi))
    out.append("end)))")
    return ("Definition gen_distribute {V} (d : V) (nwires : Z) (iwire : list Z) (gmat : csr V) : option (list (triple V)) :=\n  "
            + "\n  ".join(out) + ".\n")


def is_guard(s):
    """statement that can only raise (no effect on the values used afterwards)"""
    if isinstance(s, ast.Raise):
        return True
    if isinstance(s, ast.Assert):
        return True
    if isinstance(s, ast.If):
        return all(is_guard(x) for x in s.body + s.orelse)
    if isinstance(s, ast.For):
        return all(is_guard(x) for x in s.body + s.orelse)
    return False


TAIL_LIST = ["iwire = [map_particle_to_wire(fields, p) for p in %s]",
             "if any((iw < 0 for iw in iwire)):\n    raise RuntimeError('particle not found among fields')",
             "nwires = sum((f.lattice.nsites for f in fields))",
             "return _distribute_to_wires(nwires, iwire, csr_matrix(self.as_matrix()))"]
TAIL_ONE = ["iwire = map_particle_to_wire(fields, self.qubit)",
            "if iwire < 0:\n    raise RuntimeError('qubit not found among fields')",
            "nwires = sum((f.lattice.nsites for f in fields))",
            "return _distribute_to_wires(nwires, [iwire], csr_matrix(self.as_matrix()))"]


def gate_classes(tree):
    """classes deriving (transitively) from Gate, in source order"""
    names, out = {"Gate"}, []
    for c in tree.body:
        if isinstance(c, ast.ClassDef) and any(isinstance(b, ast.Name) and b.id in names for b in c.bases):
            names.add(c.name)
            out.append(c)
    return out


def gen_acm():
    tree = parse_gates()
    kinds = []
    for c in gate_classes(tree):
        f = ufunc(c, "as_circuit_matrix")
        expect([a.arg for a in f.args.args] == ["self", "fields"], c.name + ".as_circuit_matrix parameters")
        b = body_nodoc(f)
        txt = [U(s) for s in b]
        part = ufunc(c, "particles")
        pret = body_nodoc(part)
        if txt[-4:] == TAIL_ONE:
            guards = b[:-4]
            # particles() must list exactly self.qubit when bound
            expect(U(pret[-2]) == "if self.qubit:\n    return [self.qubit]" and U(pret[-1]) == "return []"
                   and len(pret) == 2, c.name + ".particles(): expected [self.qubit]")
            kinds.append((c.name, 1))
        elif len(txt) >= 4 and txt[-3:] == TAIL_LIST[1:] and txt[-4] in (TAIL_LIST[0] % "prtcl", TAIL_LIST[0] % "self.prtcl"):
            guards = b[:-4]
            if txt[-4] == TAIL_LIST[0] % "prtcl":
                # prtcl = self.particles() among the guards, exactly once
                ps = [s for s in guards if not is_guard(s)]
                expect(len(ps) == 1 and U(ps[0]) == "prtcl = self.particles()", c.name + ": prtcl = self.particles()")
                guards = [s for s in guards if is_guard(s)]
            else:
                expect(len(pret) == 1 and U(pret[0]) == "return self.prtcl", c.name + ".particles(): expected self.prtcl")
            kinds.append((c.name, 2))
        else:
            raise Unsupported("%s.as_circuit_matrix does not end in the _distribute_to_wires funnel" % c.name)
        expect(all(is_guard(s) for s in guards), c.name + ".as_circuit_matrix: non-guard statement before the funnel")
    return kinds


FIELD = "src/qib/field/field.py"
PARTICLE = "src/qib/field/particle.py"
FIELD_INIT = "src/qib/field/__init__.py"


def plain_class(tree, path, name, allowed_special=("__init__",)):
    """the class `name` of a strict module: no decorator, no metaclass/keywords, every member a plain (undecorated except
    @property) function or the docstring, no special method besides `allowed_special` (so == / hash / attribute access are
    the defaults of object)"""
    c = find_class(tree, name)
    expect(not c.decorator_list and not c.keywords, "%s: class %s is decorated or has class keywords" % (path, name))
    for n in c.body:
        if is_doc(n):
            continue
        expect(isinstance(n, ast.FunctionDef), "%s: class %s: member `%s` is not a plain method" % (path, name, U(n)[:60]))
        expect(all(U(d) == "property" for d in n.decorator_list), "%s: %s.%s is decorated" % (path, name, n.name))
        special = n.name.startswith("__") and n.name.endswith("__")
        expect(not special or n.name in allowed_special,
               "%s: class %s defines %s (equality / hashing / attribute access are no longer the defaults of object)"
               % (path, name, n.name))
    return c


def check_field_identity():
    """`p.field == f` in map_particle_to_wire is OBJECT IDENTITY of fields: Field is a plain class deriving from object
    with no special method besides __init__ (no __eq__/__hash__, no dataclass decorator); Particle.__eq__ compares
    the field (identity) and the index; Qubit does not override it.  The model's field ids are distinct integers per
    Field object exactly because of this."""
    tree = parse(FIELD)
    strict_module(tree, FIELD, {})
    c = plain_class(tree, FIELD, "Field")
    expect(not c.bases, "%s: class Field has base classes" % FIELD)
    init = parse(FIELD_INIT)
    strict_module(init, FIELD_INIT, {"Field": "qib.field.field", "Particle": "qib.field.particle", "Qubit": "qib.field.particle"})
    tree = parse(PARTICLE)
    strict_module(tree, PARTICLE, {"Field": "qib.field"})
    pc = plain_class(tree, PARTICLE, "Particle", ("__init__", "__eq__", "__hash__"))
    expect(not pc.bases, "%s: class Particle has base classes" % PARTICLE)
    eq = body_nodoc(ufunc(pc, "__eq__"))
    expect(len(eq) == 1, "Particle.__eq__: one statement")
    expect_text(eq[0], "return self.field == other.field and self.index == other.index", "Particle.__eq__")
    qc = plain_class(tree, PARTICLE, "Qubit")
    expect([U(b) for b in qc.bases] == ["Particle"], "%s: bases of Qubit" % PARTICLE)


def gen_mp2w():
    check_field_identity()
    tree = parse_util()
    fn = ufunc(tree, "map_particle_to_wire")
    expect([a.arg for a in fn.args.args] == ["fields", "p"], "map_particle_to_wire parameters")
    b = body_nodoc(fn)
    expect(len(b) == 3, "map_particle_to_wire: 3 statements")
    expect(isinstance(b[0], ast.Assign) and U(b[0].targets[0]) == "i", "i = INIT")
    init, ty = Tr({}).expr(b[0].value)
    L = b[1]
    expect(isinstance(L, ast.For) and not L.orelse and U(L.target) == "f" and U(L.iter) == "fields" and len(L.body) == 2,
           "for f in fields")
    iff, skip = L.body
    expect(isinstance(iff, ast.If) and not iff.orelse and U(iff.test) == "p.field == f" and len(iff.body) == 2,
           "if p.field == f")
    hit, ret = iff.body
    expect(isinstance(hit, ast.AugAssign) and isinstance(hit.op, ast.Add) and U(hit.target) == "i"
           and U(hit.value) == "p.index", "i += p.index")
    expect_text(ret, "return i", "return i")
    expect(isinstance(skip, ast.AugAssign) and isinstance(skip.op, ast.Add) and U(skip.target) == "i"
           and U(skip.value) == "f.lattice.nsites", "i += f.lattice.nsites")
    expect(isinstance(b[2], ast.Return), "return MISS")
    miss, ty = Tr({}).expr(b[2].value)
    return ("Definition gen_mp2w_init : Z := %s.\n"
            "Definition gen_mp2w_hit (i index : Z) : Z := (i + index).\n"
            "Definition gen_mp2w_skip (i nsites : Z) : Z := (i + nsites).\n"
            "Definition gen_mp2w_miss : Z := %s.\n" % (init, miss))


def natlist(e, env):
    """tiny translator for list-of-nat expressions: names, +, [ARITH for p in NAME]"""
    if isinstance(e, ast.Name) and env.get(e.id) == "list":
        return e.id
    if isinstance(e, ast.BinOp) and isinstance(e.op, ast.Add):
        return "(%s ++ %s)" % (natlist(e.left, env), natlist(e.right, env))
    if isinstance(e, ast.ListComp) and len(e.generators) == 1 and not e.generators[0].ifs \
            and isinstance(e.generators[0].target, ast.Name) and isinstance(e.generators[0].iter, ast.Name) \
            and env.get(e.generators[0].iter.id) == "list":
        v = e.generators[0].target.id
        return "(map (fun %s => %s) %s)" % (v, natexpr(e.elt, dict(env, **{v: "nat"})), e.generators[0].iter.id)
    raise Unsupported("list expression " + U(e))


def natexpr(e, env):
    if isinstance(e, ast.Name) and env.get(e.id) == "nat":
        return e.id
    if isinstance(e, ast.Constant) and isinstance(e.value, int) and e.value >= 0:
        return "%d" % e.value
    if isinstance(e, ast.BinOp) and isinstance(e.op, (ast.Add, ast.Mult)):
        return "(%s %s %s)%%nat" % (natexpr(e.left, env), "+" if isinstance(e.op, ast.Add) else "*", natexpr(e.right, env))
    raise Unsupported("nat expression " + U(e))


def gen_permute():
    tree = parse_util()
    fn = ufunc(tree, "permute_gate_wires")
    expect([a.arg for a in fn.args.args] == ["u", "perm"], "permute_gate_wires parameters")
    b = body_nodoc(fn)
    expect(len(b) == 7, "permute_gate_wires: 7 statements")
    expect_text(b[0], "nwires = len(perm)", "nwires")
    expect_text(b[1], "assert u.shape == (2 ** nwires, 2 ** nwires)", "shape assert")
    expect_text(b[2], "perm = list(perm)", "perm list")
    expect_text(b[3], "u = np.reshape(u, 2 * nwires * (2,))", "reshape to tensor")
    t = b[4]
    expect(isinstance(t, ast.Assign) and U(t.targets[0]) == "u" and isinstance(t.value, ast.Call)
           and U(t.value.func) == "np.transpose" and len(t.value.args) == 2 and U(t.value.args[0]) == "u"
           and not t.value.keywords, "u = np.transpose(u, AXES)")
    axes = natlist(t.value.args[1], {"perm": "list", "nwires": "nat"})
    expect_text(b[5], "u = np.reshape(u, (2 ** nwires, 2 ** nwires))", "reshape to matrix")
    expect_text(b[6], "return u", "return")
    return "Definition gen_permute_axes (nwires : nat) (perm : list nat) : list nat := %s.\n" % axes


def generate():
    out = ["(* generated by gen/embed.py from %s and %s -- do not edit *)" % (GATES, UTIL),
           "From Qib Require Import Embed.EmbedModel.", "Local Open Scope Z_scope.", ""]
    out.append(gen_distribute())
    kinds = gen_acm()
    out.append("(* Gate subclasses whose as_circuit_matrix is the _distribute_to_wires funnel on particles():\n   %s *)"
               % ", ".join("%s/%d" % k for k in kinds))
    out.append("Definition gen_acm_funnel_classes : nat := %d%%nat.\n" % len(kinds))
    out.append(gen_mp2w())
    out.append(gen_permute())
    return "\n".join(out) + "\n"


# ======================================================================= C05
COPY_CALL = ("copy",)


def copy_rules():
    """per Gate subclass: for each gate-valued field (tgate / tgates) whether __copy__ copies it deeply.
    returns [(class name, has gate-valued field, deep?)] in source order"""
    tree = parse_gates()
    rules = []
    for c in gate_classes(tree):
        f = ufunc(c, "__copy__")
        b = body_nodoc(f)
        expect(b and isinstance(b[-1], ast.Return), c.name + ".__copy__: return")
        # the constructor call: either `return Cls(args)` or `gate = Cls(args)` ... `return gate`
        ctor = None
        for s in b:
            v = s.value if isinstance(s, (ast.Assign, ast.Return)) else None
            if isinstance(v, ast.Call) and isinstance(v.func, ast.Name) and v.func.id == c.name:
                ctor = v
                break
        expect(ctor is not None, c.name + ".__copy__: no constructor call of the same class")
        init = ufunc(c, "__init__")
        params = [a.arg for a in init.args.args][1:]
        # which constructor parameters are stored as gate-valued fields
        gate_fields = {}
        for s in ast.walk(init):
            if isinstance(s, ast.Assign) and len(s.targets) == 1 and U(s.targets[0]) in ("self.tgate", "self.tgates"):
                gate_fields[U(s.targets[0])[5:]] = U(s.value)
        has = bool(gate_fields)
        for other in ast.walk(c):
            if isinstance(other, ast.Attribute) and isinstance(other.value, ast.Name) and other.value.id == "self" \
                    and other.attr in ("tgate", "tgates"):
                expect(other.attr in gate_fields, c.name + ": gate-valued field not set in __init__")
        deep = True
        if has:
            args = list(ctor.args)
            expect(not ctor.keywords, c.name + ".__copy__: keyword arguments")
            for fld, stored in gate_fields.items():
                # stored is `tgate` or `list(tgates)`
                pname = stored if stored in params else None
                if pname is None and stored.startswith("list(") and stored[5:-1] in params:
                    pname = stored[5:-1]
                expect(pname is not None, c.name + ": cannot trace field %s to a constructor parameter" % fld)
                a = U(args[params.index(pname)])
                if fld == "tgate":
                    if a == "copy(self.tgate)":
                        pass
                    elif a == "self.tgate":
                        deep = False
                    else:
                        raise Unsupported(c.name + ".__copy__: argument for tgate is `%s`" % a)
                else:
                    if a in ("[copy(g) for g in self.tgates]", "[copy(tg) for tg in self.tgates]",
                             "[copy(t) for t in self.tgates]", "list(map(copy, self.tgates))"):
                        pass
                    elif a in ("copy(self.tgates)", "self.tgates", "list(self.tgates)", "self.tgates[:]"):
                        deep = False     # copies at most the list, shares the gate objects
                    else:
                        raise Unsupported(c.name + ".__copy__: argument for tgates is `%s`" % a)
        rules.append((c.name, has, deep))
    return rules


BUILDERS = {
    "append_gate": (["self", "gate"], "self.gates.append(copy(gate))", "BAppendGate"),
    "append_circuit": (["self", "other"], "for g in other.gates:\n    self.gates.append(copy(g))", "BAppendCircuit"),
    "prepend_gate": (["self", "gate"], "self.gates.insert(0, copy(gate))", "BPrependGate"),
    "prepend_circuit": (["self", "other"], "self.gates = [copy(g) for g in other.gates] + self.gates", "BPrependCircuit"),
}


def generate_circ():
    out = ["(* generated by gen/embed.py from %s, %s and %s -- do not edit *)" % (GATES, CIRC, SVSIM),
           "From Qib Require Import Embed.CircModel.", ""]
    rules = copy_rules()
    out.append("(* class codes = position among the Gate subclasses of gates.py:\n   %s *)"
               % ", ".join("%d=%s" % (i, r[0]) for i, r in enumerate(rules)))
    out.append("Definition gen_has_gate_fields (cls : nat) : bool :=\n  match cls with\n%s  | _ => false\n  end.\n"
               % "".join("  | %d%%nat => true\n" % i for i, r in enumerate(rules) if r[1]))
    out.append("Definition gen_copy_deep (cls : nat) : bool :=\n  match cls with\n%s  | _ => true\n  end.\n"
               % "".join("  | %d%%nat => false\n" % i for i, r in enumerate(rules) if r[1] and not r[2]))
    out.append("Definition gen_num_classes : nat := %d%%nat.\n" % len(rules))
    # builder calls
    tree = parse_circ()
    circ = find_class(tree, "Circuit")
    sem = []
    for name, (params, text, ctor) in BUILDERS.items():
        f = ufunc(circ, name)
        expect([a.arg for a in f.args.args] == params, "Circuit.%s parameters" % name)
        b = body_nodoc(f)
        expect(len(b) == 1, "Circuit.%s: one statement" % name)
        expect_text(b[0], text, "Circuit." + name)
        sem.append(ctor)
    out.append("(* builder calls found with the copying list semantics of CircModel.apply_builder: %s *)" % ", ".join(sem))
    out.append("Definition gen_builders_copy : bool := true.\n")
    # __init__: by reference
    init = ufunc(circ, "__init__")
    ib = body_nodoc(init)
    expect(len(ib) == 1 and isinstance(ib[0], ast.If), "Circuit.__init__ shape")
    txt = U(ib[0])
    if txt == "if gates is None:\n    self.gates = []\nelse:\n    self.gates = list(gates)":
        out.append("Definition gen_ctor_copies : bool := false.\n")
    elif txt in ("if gates is None:\n    self.gates = []\nelse:\n    self.gates = [copy(g) for g in gates]",):
        out.append("Definition gen_ctor_copies : bool := true.\n")
    else:
        raise Unsupported("Circuit.__init__: `%s`" % txt)
    # as_matrix loop
    am = ufunc(circ, "as_matrix")
    b = body_nodoc(am)
    expect(len(b) == 5, "Circuit.as_matrix: 5 statements")
    expect_text(b[0], "self._control_instructions_warning()", "as_matrix warning")
    expect_text(b[1], "if not self.gates:\n    raise RuntimeError('missing gates, hence cannot compute matrix representation of circuit')",
                "as_matrix empty check")
    expect_text(b[2], "isFirst = True", "as_matrix isFirst")
    expect_text(b[3], "for gate in self.gates:\n    if isinstance(gate, ControlInstruction):\n        continue\n"
                      "    if isFirst:\n        mat = gate.as_circuit_matrix(fields)\n        isFirst = False\n"
                      "    else:\n        mat = gate.as_circuit_matrix(fields) @ mat", "as_matrix loop")
    expect_text(b[4], "return mat", "as_matrix return")
    out.append("(* Circuit.as_matrix: first gate's matrix, then mat = E(gate) @ mat  (CircModel.circuit_matrix) *)")
    out.append("Definition gen_as_matrix_left_mult : bool := true.\n")
    # statevector loop
    tree = parse_svsim()
    sv = find_class(tree, "StatevectorSimulator")
    run = ufunc(sv, "run")
    b = body_nodoc(run)
    expect(len(b) == 5, "StatevectorSimulator.run: 5 statements")
    expect_text(b[0], "fields = circ.fields()", "run fields")
    expect_text(b[1], "psi = np.zeros(math.prod([f.dof() for f in fields]))", "run psi")
    expect_text(b[2], "psi[0] = 1", "run psi[0]")
    expect_text(b[3], "for g in circ.gates:\n    if isinstance(g, ControlInstruction):\n        continue\n"
                      "    psi = g.as_circuit_matrix(fields) @ psi", "run loop")
    expect_text(b[4], "return psi", "run return")
    out.append("(* StatevectorSimulator.run: psi = e_0; for g in gates (control instructions skipped, as in as_matrix): psi = E(g) @ psi  (CircModel.run_statevector) *)")
    out.append("Definition gen_statevector_loop : bool := true.\n")
    return "\n".join(out) + "\n"


def class_codes():
    return [r[0] for r in copy_rules()]


if __name__ == "__main__":
    import sys
    print(generate() if len(sys.argv) < 2 else generate_circ())
