"""Correspondence cases for coq/theories/Embed/CircNet.v (C05 clauses (d),(e)).

`cases_for(circ, nw)` runs the IMPLEMENTATION (Circuit.as_tensornet, TensorNetworkSimulator.run) on a
circuit over `nw` qubit wires and returns [(coq_term, description), ...] of type `cn_case`
(Qib.Embed.CircNetCheck) for `ctx.cases("circnet", HEADER, cases)`:
  * CNCirc: per gate the gate's own symbolic network, its wires, and the iteration orders of the Python
    sets `self.keys() & other.keys()` RECORDED from the very merge call; expected = the symbolic network
    Circuit.as_tensornet returned (dictionaries in insertion order);
  * CNSim: the circuit network, the code of the "|0>_2" dataref, the recorded orders of the simulator's
    merge; expected = the network handed to contract_einsum.
Nothing here is trusted by the theorems; it ties the hand model (id_net / gate_step / simulator_net) to /repo.
"""
from vlib import coqterm as ct
import tn

HEADER = "From Coq Require Import List ZArith.\nImport ListNotations.\nFrom Qib Require Import TN.TNCheck Embed.CircNetCheck.\nLocal Open Scope Z_scope.\n"


def _recording_merge(recs, only=None):
    from qib.tensor_network.symbolic_network import SymbolicTensorNetwork as STN
    from qib.tensor_network import TensorNetwork
    orig_merge = TensorNetwork.merge
    rtname = "_rename_tensor" if hasattr(STN, "_rename_tensor") else "rename_tensor"
    rt, rb = getattr(STN, rtname), STN.rename_bond

    def merge(self, other, join_axes=None):
        called = {"t": [], "b": []}

        def _rt(s, a, c):
            called["t"].append(a)
            return rt(s, a, c)

        def _rb(s, a, c):
            called["b"].append(a)
            return rb(s, a, c)
        rec = {"self_term": None, "other": other, "joins": list(join_axes or []), "cal": called, "self": self}
        if only is not None:
            only(rec)
        setattr(STN, rtname, _rt)
        STN.rename_bond = _rb
        try:
            r = orig_merge(self, other, join_axes)
        finally:
            setattr(STN, rtname, rt)
            STN.rename_bond = rb
        recs.append(rec)
        return r
    return TensorNetwork, orig_merge, merge


def cases_for(circ, nw, desc=""):
    """[(term, description)] for one circuit; raises whatever the implementation raises"""
    from qib.simulator import TensorNetworkSimulator
    from qib.tensor_network import TensorNetwork
    refs = tn.Refs()
    out = []
    # (d) Circuit.as_tensornet
    recs = []
    gate_terms = []

    def snap(rec):
        rec["other_term"] = tn.net_term(rec["other"].net, refs)
    TN, orig, patched = _recording_merge(recs, snap)
    TN.merge = patched
    try:
        net = circ.as_tensornet()
    finally:
        TN.merge = orig
    for rec in recs:
        iw = [j[0] for j in rec["joins"]]
        k = len(iw)
        if [j[1] for j in rec["joins"]] != list(range(k, 2 * k)):
            raise RuntimeError("as_tensornet joins are not zip(iwire, range(k, 2k)): %r" % (rec["joins"],))
        gate_terms.append(ct.pair(rec["other_term"], tn.nl(iw), tn.zl(rec["cal"]["t"]), tn.zl(rec["cal"]["b"])))
    out.append(("CNCirc %s %s %s" % (ct.nat(nw), ct.lst(gate_terms), tn.net_term(net.net, refs)),
                "as_tensornet " + desc))
    # (e) the simulator's merged network
    recs2, holder = [], {}

    def snap2(rec):
        rec["self_term"] = tn.net_term(rec["self"].net, refs)
        rec["is_init"] = any(str(k).startswith("|0>") for k in rec["other"].data)
        if rec["is_init"]:
            rec["ref"] = refs.code(list(rec["other"].data.keys())[0])
    TN, orig, patched = _recording_merge(recs2, snap2)
    orig_ce = TensorNetwork.contract_einsum

    def ce(self):
        holder["net"] = tn.net_term(self.net, refs)
        return orig_ce(self)
    TN.merge = patched
    TensorNetwork.contract_einsum = ce
    try:
        TensorNetworkSimulator().run(circ)
    finally:
        TN.merge = orig
        TensorNetwork.contract_einsum = orig_ce
    init = [r for r in recs2 if r.get("is_init")]
    if len(init) == 1 and init[0]["joins"] == [(nw + i, i) for i in range(nw)] and "net" in holder:
        r = init[0]
        out.append(("CNSim %s %s %s %s %s %s" % (ct.nat(nw), r["self_term"], ct.z(r["ref"]), tn.zl(r["cal"]["t"]),
                                                 tn.zl(r["cal"]["b"]), holder["net"]),
                    "tn_simulator " + desc))
    else:
        raise RuntimeError("TensorNetworkSimulator.run no longer merges one |0> network on [(nw+i, i)]")
    return out
