"""T6 (+ the syntactic parts of C18): regenerate Coq definitions from the backend sources of /repo.

generate_life()  -> GenLife.v   (C17)  from
    src/qib/backend/experiment.py            ExperimentStatus members, is_terminal list
    src/qib/backend/wmi/wmi_experiment.py    _initialize (initial status), _from_wmi_status chain,
                                             query_status guard + results update condition,
                                             results()/wait_for_results() early return, loop condition, tail
    src/qib/backend/wmi/wmi_q*_processor.py  submit_experiment / _send_request / _process_response
    src/qib/util/networking.py               retry loop: initial value, loop condition, increment, handlers, final if
    src/qib/util/const.py                    NW_MAX_RETRIES

generate_qobj()  -> GenQobj.v   (C18)  from
    wmi_experiment.py  _validate: shots condition, what the final range check looks at, range condition;
                       get_counts: the key conversion expression (shape only)
    processor_configuration.py  check_qubits / check_params
    the two processors' configuration() are *run* and their records emitted
    const.py gate-name constants

Everything is fail-closed: any construct outside the expected shapes raises pyx.Unsupported, which the
check reports as a broken tie (never skipped).
"""
import ast, os, sys, importlib
from pyx import Unsupported, parse, find_class, find_func, body_nodoc, Tr, zlit

F_EXPERIMENT = "src/qib/backend/experiment.py"
F_WMIEXP = "src/qib/backend/wmi/wmi_experiment.py"
F_QSIM = "src/qib/backend/wmi/wmi_qsim_processor.py"
F_QC = "src/qib/backend/wmi/wmi_qc_processor.py"
F_NET = "src/qib/util/networking.py"
F_CONST = "src/qib/util/const.py"
F_PCONF = "src/qib/backend/processor_configuration.py"

STATUSES = ["INITIALIZING", "QUEUED", "RUNNING", "DONE", "ERROR", "CANCELLED"]


def u(node):
    return ast.unparse(node)


def expect(cond, msg):
    if not cond:
        raise Unsupported(msg)


def codes(s):
    return "[" + "; ".join(str(ord(c)) for c in s) + "]"


def status_const(node, where):
    """ExperimentStatus.X -> X"""
    if isinstance(node, ast.Attribute) and isinstance(node.value, ast.Name) \
            and node.value.id == "ExperimentStatus" and node.attr in STATUSES:
        return node.attr
    raise Unsupported("%s: expected ExperimentStatus.<member>, got %s" % (where, u(node)))


def status_bool(e, subject, where, allow_h=False):
    """boolean expression over the experiment status -> Coq bool expression in variables s (status)
    and, where allowed, h ('self._results is not None')"""
    if isinstance(e, ast.BoolOp):
        parts = [status_bool(v, subject, where, allow_h) for v in e.values]
        return "(" + (" && " if isinstance(e.op, ast.And) else " || ").join(parts) + ")"
    if isinstance(e, ast.UnaryOp) and isinstance(e.op, ast.Not):
        return "(negb %s)" % status_bool(e.operand, subject, where, allow_h)
    if isinstance(e, ast.Compare) and len(e.ops) == 1:
        op, lhs, rhs = e.ops[0], e.left, e.comparators[0]
        if u(lhs) == subject + ".status" and isinstance(op, (ast.Eq, ast.Is)):
            return "(status_eqb s %s)" % status_const(rhs, where)
        if u(lhs) == subject + ".status" and isinstance(op, (ast.NotEq, ast.IsNot)):
            return "(negb (status_eqb s %s))" % status_const(rhs, where)
        if allow_h and u(lhs) == subject + "._results" and isinstance(op, ast.IsNot) and u(rhs) == "None":
            return "h"
        if allow_h and u(lhs) == subject + "._results" and isinstance(op, ast.Is) and u(rhs) == "None":
            return "(negb h)"
    if isinstance(e, ast.Call) and u(e) == subject + ".status.is_terminal()":
        return "(gen_is_terminal s)"
    raise Unsupported("%s: unsupported status condition %s" % (where, u(e)))


def single_if_return(stmt, ret, where):
    """`if COND: return <ret>` with no else -> COND"""
    expect(isinstance(stmt, ast.If) and not stmt.orelse and len(stmt.body) == 1
           and isinstance(stmt.body[0], ast.Return) and stmt.body[0].value is not None
           and u(stmt.body[0].value) == ret, "%s: expected `if ...: return %s`" % (where, ret))
    return stmt.test


def const_int(name):
    tree = parse(F_CONST)
    found = []
    for n in tree.body:
        if isinstance(n, ast.AnnAssign) and isinstance(n.target, ast.Name) and n.target.id == name:
            found.append(n.value)
        if isinstance(n, ast.Assign) and len(n.targets) == 1 and isinstance(n.targets[0], ast.Name) \
                and n.targets[0].id == name:
            found.append(n.value)
    expect(len(found) == 1, "const.%s: expected exactly one assignment" % name)
    v = found[0]
    expect(isinstance(v, ast.Constant) and isinstance(v.value, int) and not isinstance(v.value, bool),
           "const.%s: not an integer literal" % name)
    return v.value


def const_strs():
    """all `NAME[: str] = 'literal'` of const.py"""
    tree = parse(F_CONST)
    out = {}
    for n in tree.body:
        tgt = val = None
        if isinstance(n, ast.AnnAssign) and isinstance(n.target, ast.Name):
            tgt, val = n.target.id, n.value
        elif isinstance(n, ast.Assign) and len(n.targets) == 1 and isinstance(n.targets[0], ast.Name):
            tgt, val = n.targets[0].id, n.value
        if tgt and isinstance(val, ast.Constant) and isinstance(val.value, str):
            expect(tgt not in out, "const.%s assigned twice" % tgt)
            out[tgt] = val.value
    return out


# ------------------------------------------------------------------------------------------ C17

def gen_is_terminal():
    tree = parse(F_EXPERIMENT)
    cls = find_class(tree, "ExperimentStatus")
    members = [n.targets[0].id for n in cls.body if isinstance(n, ast.Assign) and len(n.targets) == 1
               and isinstance(n.targets[0], ast.Name)]
    expect(members == STATUSES, "ExperimentStatus members are %s, expected %s" % (members, STATUSES))
    fn = find_func(cls, "is_terminal")
    b = body_nodoc(fn)
    expect(len(b) == 1 and isinstance(b[0], ast.Return), "is_terminal: expected a single return")
    e = b[0].value
    expect(isinstance(e, ast.Compare) and len(e.ops) == 1 and isinstance(e.ops[0], ast.In)
           and u(e.left) == "self" and isinstance(e.comparators[0], (ast.List, ast.Tuple)),
           "is_terminal: expected `self in [ExperimentStatus....]`")
    elems = [status_const(x, "is_terminal") for x in e.comparators[0].elts]
    return "Definition gen_is_terminal (s : status) : bool := existsb (status_eqb s) [%s].\n" % "; ".join(elems)


def gen_from_wmi_status(cls):
    fn = find_func(cls, "_from_wmi_status")
    expect([a.arg for a in fn.args.args] == ["self", "status"], "_from_wmi_status: arguments")
    b = body_nodoc(fn)
    expect(len(b) == 1 and isinstance(b[0], ast.If), "_from_wmi_status: expected one if/elif chain")

    def branch(stmts):
        st = None
        for s in stmts:
            if isinstance(s, ast.Assign) and len(s.targets) == 1 and u(s.targets[0]) == "self.status":
                expect(st is None, "_from_wmi_status: status assigned twice in a branch")
                st = status_const(s.value, "_from_wmi_status")
            elif isinstance(s, ast.Assign) and len(s.targets) == 1 and u(s.targets[0]) == "self.error" \
                    and isinstance(s.value, ast.Constant) and isinstance(s.value.value, str):
                pass
            else:
                raise Unsupported("_from_wmi_status: statement %s" % u(s))
        expect(st is not None, "_from_wmi_status: a branch does not set self.status")
        return st

    node, text, depth = b[0], "", 0
    while True:
        t = node.test
        expect(isinstance(t, ast.Compare) and len(t.ops) == 1 and isinstance(t.ops[0], ast.Eq)
               and u(t.left) == "status" and isinstance(t.comparators[0], ast.Constant)
               and isinstance(t.comparators[0].value, str), "_from_wmi_status: test %s" % u(t))
        text += "  if str_eqb s %s (* %r *) then %s else\n" % (codes(t.comparators[0].value), t.comparators[0].value,
                                                             branch(node.body))
        if len(node.orelse) == 1 and isinstance(node.orelse[0], ast.If):
            node = node.orelse[0]
            continue
        expect(node.orelse, "_from_wmi_status: no catch-all else branch")
        text += "  %s.\n" % branch(node.orelse)
        break
    return "Definition gen_from_wmi_status (s : str) : status :=\n" + text


def gen_initial(cls):
    fn = find_func(cls, "_initialize")
    vals = {}
    for s in body_nodoc(fn):
        tgt = val = None
        if isinstance(s, ast.AnnAssign):
            tgt, val = u(s.target), s.value
        elif isinstance(s, ast.Assign) and len(s.targets) == 1:
            tgt, val = u(s.targets[0]), s.value
        else:
            raise Unsupported("_initialize: statement %s" % u(s))
        expect(tgt not in vals, "_initialize: %s assigned twice" % tgt)
        vals[tgt] = val
    for k in ("self.status", "self._results", "self._job_id"):
        expect(k in vals, "_initialize: %s not initialised" % k)
    expect(u(vals["self._results"]) == "None" and u(vals["self._job_id"]) == "None",
           "_initialize: _results/_job_id must start as None")
    init = find_func(cls, "__init__")
    calls = [u(s) for s in body_nodoc(init) if isinstance(s, ast.Expr)]
    expect(calls == ["self._initialize()", "self._validate()"],
           "__init__: expected self._initialize(); self._validate() as the only calls, got %s" % calls)
    return "Definition gen_initial : status := %s.\n" % status_const(vals["self.status"], "_initialize")


def gen_query_status(cls):
    fn = find_func(cls, "query_status")
    b = body_nodoc(fn)
    expect(len(b) == 6, "query_status: expected 6 statements, got %d" % len(b))
    g = b[0]
    expect(isinstance(g, ast.If) and len(g.body) == 1 and isinstance(g.body[0], ast.Raise)
           and isinstance(g.body[0].exc, ast.Call) and u(g.body[0].exc.func) == "ValueError"
           and len(g.orelse) == 1 and isinstance(g.orelse[0], ast.If) and not g.orelse[0].orelse,
           "query_status: guard is not if <c1>: raise ValueError elif <c2>: return self.status")
    t2 = single_if_return(g.orelse[0], "self.status", "query_status")
    c1 = status_bool(g.test, "self", "query_status")
    c2 = status_bool(t2, "self", "query_status")
    expect(isinstance(b[1], ast.Assign) and u(b[1].targets[0]) == "http_headers", "query_status: statement 2")
    r = b[2]
    expect(isinstance(r, ast.Assign) and u(r.targets[0]) == "response" and isinstance(r.value, ast.Call)
           and u(r.value.func) == "networking.http_post" and not r.value.args,
           "query_status: response = networking.http_post(...)")
    kw = {k.arg: u(k.value) for k in r.value.keywords}
    expect(kw.get("body") == "{'job_id': self._job_id}", "query_status: request body is %s" % kw.get("body"))
    expect(isinstance(b[3], ast.Expr) and u(b[3]) == "self.from_json(response.json())", "query_status: from_json call")
    s = b[4]
    expect(isinstance(s, ast.If) and not s.orelse and len(s.body) == 1 and isinstance(s.body[0], ast.Assign)
           and u(s.body[0]) == "self._results = WMIExperimentResults(self).from_json(response.json())",
           "query_status: results update")
    c3 = status_bool(s.test, "self", "query_status")
    expect(isinstance(b[5], ast.Return) and u(b[5].value) == "self.status", "query_status: final return")
    fj = find_func(cls, "from_json")
    expect([u(x) for x in body_nodoc(fj)] == ["self._job_id = json['job_id']",
                                             "self._execution_datetime = json['execution_datetime']",
                                             "self._from_wmi_status(json['status'])", "return self"],
           "from_json: unexpected body")
    return ("Definition gen_guard (s : status) : guard :=\n  "
            "  if %s then GRefuse else if %s then GReturn else GRequest.\n" % (c1, c2)
            + "Definition gen_store (s : status) : bool := %s.\n" % c3)


def gen_results(cls):
    out = ""
    # blocking
    fn = find_func(cls, "results")
    expect(isinstance(fn, ast.FunctionDef), "results: must be a plain function")
    b = body_nodoc(fn)
    expect(len(b) == 7, "results: expected 7 statements, got %d" % len(b))
    fast = single_if_return(b[0], "self._results", "results")
    expect(u(b[1]) == "scheduler = sched.scheduler(time.time, time.sleep)", "results: scheduler construction")
    inner = b[2]
    expect(isinstance(inner, ast.FunctionDef) and inner.name == "check_and_reschedule", "results: inner function")
    ib = body_nodoc(inner)
    expect(len(ib) == 1 and isinstance(ib[0], ast.If) and not ib[0].orelse
           and u(ib[0].test) == "not self.query_status().is_terminal()"
           and [u(x) for x in ib[0].body] ==
           ["scheduler.enter(self.configuration.query_frequency, 1, check_and_reschedule, (scheduler,))"],
           "results: check_and_reschedule body")
    expect(u(b[3]) == "scheduler.enter(0, 1, check_and_reschedule, (scheduler,))", "results: first enter")
    expect(u(b[4]) == "scheduler.run()", "results: scheduler.run()")
    tail = single_if_return(b[5], "self._results", "results")
    expect(isinstance(b[6], ast.Return) and u(b[6].value) == "None", "results: final return None")
    out += "Definition gen_fast_b (h : bool) (s : status) : bool := %s.\n" % status_bool(fast, "self", "results", True)
    out += "Definition gen_tail_b (s : status) : bool := %s.\n" % status_bool(tail, "self", "results")
    # awaiting
    fn = find_func(cls, "wait_for_results")
    expect(isinstance(fn, ast.AsyncFunctionDef), "wait_for_results: must be a coroutine function")
    b = body_nodoc(fn)
    expect(len(b) == 4, "wait_for_results: expected 4 statements, got %d" % len(b))
    fast = single_if_return(b[0], "self._results", "wait_for_results")
    w = b[1]
    expect(isinstance(w, ast.While) and not w.orelse and u(w.test) == "not self.query_status().is_terminal()"
           and [u(x) for x in w.body] == ["await asyncio.sleep(self.configuration.query_frequency)"],
           "wait_for_results: poll loop")
    tail = single_if_return(b[2], "self._results", "wait_for_results")
    expect(isinstance(b[3], ast.Return) and u(b[3].value) == "None", "wait_for_results: final return None")
    out += "Definition gen_fast_a (h : bool) (s : status) : bool := %s.\n" % status_bool(fast, "self", "wait_for_results", True)
    out += "Definition gen_tail_a (s : status) : bool := %s.\n" % status_bool(tail, "self", "wait_for_results")
    return out


def gen_processors():
    conds = []
    for f, cname in ((F_QSIM, "WMIQSimProcessor"), (F_QC, "WMIQCProcessor")):
        cls = find_class(parse(f), cname)
        sub = body_nodoc(find_func(cls, "submit_experiment"))
        expect([u(x) for x in sub] == [
            "experiment = WMIExperiment(name, circ, options, self.configuration(), self.credentials)",
            "response = self._send_request(experiment)",
            "self._process_response(experiment, response.json())",
            "return experiment"], "%s.submit_experiment: unexpected body" % cname)
        snd = body_nodoc(find_func(cls, "_send_request"))
        expect(len(snd) == 2 and isinstance(snd[1], ast.Return) and isinstance(snd[1].value, ast.Call)
               and u(snd[1].value.func) == "networking.http_put"
               and {k.arg: u(k.value) for k in snd[1].value.keywords}.get("body") == "{'qobj': experiment.as_qasm()}",
               "%s._send_request: unexpected body" % cname)
        pr = body_nodoc(find_func(cls, "_process_response"))
        expect(len(pr) == 2 and u(pr[0]) == "experiment.from_json(response)" and isinstance(pr[1], ast.If)
               and not pr[1].orelse and len(pr[1].body) == 1 and isinstance(pr[1].body[0], ast.Raise)
               and isinstance(pr[1].body[0].exc, ast.Call) and u(pr[1].body[0].exc.func) == "RuntimeError",
               "%s._process_response: unexpected body" % cname)
        conds.append(status_bool(pr[1].test, "experiment", cname + "._process_response"))
    expect(conds[0] == conds[1], "the two processors raise on different conditions")
    return "Definition gen_submit_raises (s : status) : bool := %s.\n" % conds[0]


def gen_retry():
    tree = parse(F_NET)
    fn = find_func(tree, "_http_request")
    expect([a.arg for a in fn.args.args] == ["request", "url", "headers", "body", "title"], "_http_request: arguments")
    b = body_nodoc(fn)
    expect(len(b) == 4, "_http_request: expected 4 statements, got %d" % len(b))
    expect(isinstance(b[0], ast.Assign) and u(b[0].targets[0]) == "log_title", "_http_request: statement 1")
    init = b[1]
    expect(isinstance(init, ast.Assign) and u(init.targets[0]) == "retries", "_http_request: retries = ...")
    env = {"retries": ("retries", "Z"), "const.NW_MAX_RETRIES": ("gen_max_retries", "Z")}
    t_init, ty = Tr(env).expr(init.value)
    expect(ty == "Z", "_http_request: initial value is not an integer")
    w = b[2]
    expect(isinstance(w, ast.While) and not w.orelse, "_http_request: while loop")
    t_cond, ty = Tr(env).expr(w.test)
    expect(ty == "bool", "_http_request: loop condition")
    expect(len(w.body) == 2 and isinstance(w.body[0], ast.Try) and isinstance(w.body[1], ast.Return)
           and u(w.body[1].value) == "response", "_http_request: loop body is not try/return response")
    tr = w.body[0]
    expect(not tr.orelse and not tr.finalbody and len(tr.handlers) == 1, "_http_request: outer try has %d handlers"
           % len(tr.handlers))
    h = tr.handlers[0]
    expect(h.type is not None and u(h.type) == "requests.exceptions.Timeout",
           "_http_request: the retrying handler catches %s" % (u(h.type) if h.type else "everything"))
    hb = h.body
    expect(len(hb) == 3 and isinstance(hb[0], ast.AugAssign) and u(hb[0].target) == "retries"
           and isinstance(hb[1], ast.Expr) and isinstance(hb[1].value, ast.Call) and u(hb[1].value.func) == "print"
           and isinstance(hb[2], ast.Continue), "_http_request: Timeout handler body")
    aug = ast.BinOp(left=ast.Name(id="retries", ctx=ast.Load()), op=hb[0].op, right=hb[0].value)
    t_incr, ty = Tr(env).expr(aug)
    expect(ty == "Z", "_http_request: increment")
    tb = tr.body
    expect(len(tb) == 2 and isinstance(tb[0], (ast.Assign, ast.AnnAssign)) and u(tb[0].target if isinstance(tb[0], ast.AnnAssign)
           else tb[0].targets[0]) == "response" and isinstance(tb[0].value, ast.Call) and u(tb[0].value.func) == "request"
           and isinstance(tb[1], ast.Try), "_http_request: try body")
    inner = tb[1]
    expect([u(x) for x in inner.body] == ["response.raise_for_status()"] and not inner.orelse and not inner.finalbody
           and [u(x.type) for x in inner.handlers] == ["requests.exceptions.HTTPError", "requests.exceptions.RequestException"]
           and all(len(x.body) == 1 and isinstance(x.body[0], ast.Raise) and isinstance(x.body[0].exc, ast.Call)
                   and u(x.body[0].exc.func) == "RuntimeError" for x in inner.handlers),
           "_http_request: status check")
    f = b[3]
    expect(isinstance(f, ast.If) and not f.orelse and len(f.body) == 1 and isinstance(f.body[0], ast.Raise)
           and isinstance(f.body[0].exc, ast.Call) and u(f.body[0].exc.func) == "RuntimeError",
           "_http_request: final if/raise")
    t_final, ty = Tr(env).expr(f.test)
    expect(ty == "bool", "_http_request: final condition")
    for name, verb in (("http_put", "requests.put"), ("http_post", "requests.post")):
        hb = body_nodoc(find_func(tree, name))
        expect(len(hb) == 1 and isinstance(hb[0], ast.Return)
               and u(hb[0].value) == "_http_request(%s, url, headers, body, title)" % verb, "%s: unexpected body" % name)
    return ("Definition gen_max_retries : Z := %s.\n" % zlit(const_int("NW_MAX_RETRIES"))
            + "Definition gen_retry_init : Z := %s.\n" % t_init
            + "Definition gen_retry_cond (retries : Z) : bool := %s.\n" % t_cond
            + "Definition gen_retry_incr (retries : Z) : Z := %s.\n" % t_incr
            + "Definition gen_retry_final (retries : Z) : bool := %s.\n" % t_final)


def generate_life():
    cls = find_class(parse(F_WMIEXP), "WMIExperiment")
    out = ["(* generated by gen/backend.py from the backend sources of /repo -- do not edit *)",
           "From Qib Require Import Backend.LifeModel.", "Local Open Scope Z_scope.", "",
           gen_initial(cls), gen_from_wmi_status(cls), gen_is_terminal(), gen_query_status(cls),
           gen_results(cls), gen_processors(), gen_retry(),
           "Definition gen_tables : tables :=\n"
           "  {| tb_initial := gen_initial; tb_status := gen_from_wmi_status; tb_terminal := gen_is_terminal;\n"
           "     tb_guard := gen_guard; tb_store := gen_store; tb_fast_b := gen_fast_b; tb_tail_b := gen_tail_b;\n"
           "     tb_fast_a := gen_fast_a; tb_tail_a := gen_tail_a; tb_submit_raises := gen_submit_raises;\n"
           "     tb_init := gen_retry_init; tb_cond := gen_retry_cond; tb_incr := gen_retry_incr;\n"
           "     tb_final := gen_retry_final |}.\n"]
    return "\n".join(out)


if __name__ == "__main__":
    which = sys.argv[1] if len(sys.argv) > 1 else "life"
    print(generate_life() if which == "life" else generate_qobj())
