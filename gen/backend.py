"""T6 (+ the syntactic parts of C18): regenerate Coq definitions from the backend sources of /repo.

generate_life()  -> GenLife.v   (C17)  from
    src/qib/backend/experiment.py            ExperimentStatus members, is_terminal list
    src/qib/backend/wmi/wmi_experiment.py    _initialize (initial status), _from_wmi_status chain,
                                             query_status guard + results update condition (in query_status and/or from_json),
                                             results()/wait_for_results() early return, loop condition, tail
    src/qib/backend/wmi/wmi_q*_processor.py  submit_experiment / _send_request / _process_response
    src/qib/util/networking.py               retry loop: initial value, loop condition, increment, handlers, final if
    src/qib/util/const.py                    NW_MAX_RETRIES

generate_qobj()  -> GenQobj.v   (C18)  from
    wmi_experiment.py  _validate: shots condition, what the final range check looks at, range condition;
                       get_counts: the key conversion expression (shape only)
    processor_configuration.py  check_qubits / check_params
    the two processors' configuration() are *run* and their records emitted
    const.py gate-name constants

Everything is fail-closed: any construct outside the expected shapes raises pyx.Unsupported, which the
check reports as a broken tie (never skipped).
"""
import ast, os, sys, importlib
from pyx import Unsupported, parse, find_class, find_func, body_nodoc, Tr, zlit

F_EXPERIMENT = "src/qib/backend/experiment.py"
F_WMIEXP = "src/qib/backend/wmi/wmi_experiment.py"
F_QSIM = "src/qib/backend/wmi/wmi_qsim_processor.py"
F_QC = "src/qib/backend/wmi/wmi_qc_processor.py"
F_NET = "src/qib/util/networking.py"
F_CONST = "src/qib/util/const.py"
F_PCONF = "src/qib/backend/processor_configuration.py"

STATUSES = ["INITIALIZING", "QUEUED", "RUNNING", "DONE", "ERROR", "CANCELLED"]


def u(node):
    return ast.unparse(node)


def expect(cond, msg):
    if not cond:
        raise Unsupported(msg)


def codes(s):
    return "[" + "; ".join(str(ord(c)) for c in s) + "]"


def status_const(node, where):
    """ExperimentStatus.X -> X"""
    if isinstance(node, ast.Attribute) and isinstance(node.value, ast.Name) \
            and node.value.id == "ExperimentStatus" and node.attr in STATUSES:
        return node.attr
    raise Unsupported("%s: expected ExperimentStatus.<member>, got %s" % (where, u(node)))


def status_bool(e, subject, where, allow_h=False):
    """boolean expression over the experiment status -> Coq bool expression in variables s (status)
    and, where allowed, h ('self._results is not None')"""
    if isinstance(e, ast.BoolOp):
        parts = [status_bool(v, subject, where, allow_h) for v in e.values]
        return "(" + (" && " if isinstance(e.op, ast.And) else " || ").join(parts) + ")"
    if isinstance(e, ast.UnaryOp) and isinstance(e.op, ast.Not):
        return "(negb %s)" % status_bool(e.operand, subject, where, allow_h)
    if isinstance(e, ast.Compare) and len(e.ops) == 1:
        op, lhs, rhs = e.ops[0], e.left, e.comparators[0]
        if u(lhs) == subject + ".status" and isinstance(op, (ast.Eq, ast.Is)):
            return "(status_eqb s %s)" % status_const(rhs, where)
        if u(lhs) == subject + ".status" and isinstance(op, (ast.NotEq, ast.IsNot)):
            return "(negb (status_eqb s %s))" % status_const(rhs, where)
        if allow_h and u(lhs) == subject + "._results" and isinstance(op, ast.IsNot) and u(rhs) == "None":
            return "h"
        if allow_h and u(lhs) == subject + "._results" and isinstance(op, ast.Is) and u(rhs) == "None":
            return "(negb h)"
    if isinstance(e, ast.Call) and u(e) == subject + ".status.is_terminal()":
        return "(gen_is_terminal s)"
    raise Unsupported("%s: unsupported status condition %s" % (where, u(e)))


def single_if_return(stmt, ret, where):
    """`if COND: return <ret>` with no else -> COND"""
    expect(isinstance(stmt, ast.If) and not stmt.orelse and len(stmt.body) == 1
           and isinstance(stmt.body[0], ast.Return) and stmt.body[0].value is not None
           and u(stmt.body[0].value) == ret, "%s: expected `if ...: return %s`" % (where, ret))
    return stmt.test


def const_int(name):
    tree = parse(F_CONST)
    found = []
    for n in tree.body:
        if isinstance(n, ast.AnnAssign) and isinstance(n.target, ast.Name) and n.target.id == name:
            found.append(n.value)
        if isinstance(n, ast.Assign) and len(n.targets) == 1 and isinstance(n.targets[0], ast.Name) \
                and n.targets[0].id == name:
            found.append(n.value)
    expect(len(found) == 1, "const.%s: expected exactly one assignment" % name)
    v = found[0]
    expect(isinstance(v, ast.Constant) and isinstance(v.value, int) and not isinstance(v.value, bool),
           "const.%s: not an integer literal" % name)
    return v.value


def const_strs():
    """all `NAME[: str] = 'literal'` of const.py"""
    tree = parse(F_CONST)
    out = {}
    for n in tree.body:
        tgt = val = None
        if isinstance(n, ast.AnnAssign) and isinstance(n.target, ast.Name):
            tgt, val = n.target.id, n.value
        elif isinstance(n, ast.Assign) and len(n.targets) == 1 and isinstance(n.targets[0], ast.Name):
            tgt, val = n.targets[0].id, n.value
        if tgt and isinstance(val, ast.Constant) and isinstance(val.value, str):
            expect(tgt not in out, "const.%s assigned twice" % tgt)
            out[tgt] = val.value
    return out


# ------------------------------------------------------------------------------------------ C17

def gen_is_terminal():
    tree = parse(F_EXPERIMENT)
    cls = find_class(tree, "ExperimentStatus")
    members = [n.targets[0].id for n in cls.body if isinstance(n, ast.Assign) and len(n.targets) == 1
               and isinstance(n.targets[0], ast.Name)]
    expect(members == STATUSES, "ExperimentStatus members are %s, expected %s" % (members, STATUSES))
    fn = find_func(cls, "is_terminal")
    b = body_nodoc(fn)
    expect(len(b) == 1 and isinstance(b[0], ast.Return), "is_terminal: expected a single return")
    e = b[0].value
    expect(isinstance(e, ast.Compare) and len(e.ops) == 1 and isinstance(e.ops[0], ast.In)
           and u(e.left) == "self" and isinstance(e.comparators[0], (ast.List, ast.Tuple)),
           "is_terminal: expected `self in [ExperimentStatus....]`")
    elems = [status_const(x, "is_terminal") for x in e.comparators[0].elts]
    return "Definition gen_is_terminal (s : status) : bool := existsb (status_eqb s) [%s].\n" % "; ".join(elems)


def gen_from_wmi_status(cls):
    fn = find_func(cls, "_from_wmi_status")
    expect([a.arg for a in fn.args.args] == ["self", "status"], "_from_wmi_status: arguments")
    b = body_nodoc(fn)
    expect(len(b) == 1 and isinstance(b[0], ast.If), "_from_wmi_status: expected one if/elif chain")

    def branch(stmts):
        st = None
        for s in stmts:
            if isinstance(s, ast.Assign) and len(s.targets) == 1 and u(s.targets[0]) == "self.status":
                expect(st is None, "_from_wmi_status: status assigned twice in a branch")
                st = status_const(s.value, "_from_wmi_status")
            elif isinstance(s, ast.Assign) and len(s.targets) == 1 and u(s.targets[0]) == "self.error" \
                    and isinstance(s.value, ast.Constant) and isinstance(s.value.value, str):
                pass
            else:
                raise Unsupported("_from_wmi_status: statement %s" % u(s))
        expect(st is not None, "_from_wmi_status: a branch does not set self.status")
        return st

    node, text, depth = b[0], "", 0
    while True:
        t = node.test
        expect(isinstance(t, ast.Compare) and len(t.ops) == 1 and isinstance(t.ops[0], ast.Eq)
               and u(t.left) == "status" and isinstance(t.comparators[0], ast.Constant)
               and isinstance(t.comparators[0].value, str), "_from_wmi_status: test %s" % u(t))
        text += "  if str_eqb s %s (* %r *) then %s else\n" % (codes(t.comparators[0].value), t.comparators[0].value,
                                                             branch(node.body))
        if len(node.orelse) == 1 and isinstance(node.orelse[0], ast.If):
            node = node.orelse[0]
            continue
        expect(node.orelse, "_from_wmi_status: no catch-all else branch")
        text += "  %s.\n" % branch(node.orelse)
        break
    return "Definition gen_from_wmi_status (s : str) : status :=\n" + text


def gen_initial(cls):
    fn = find_func(cls, "_initialize")
    vals = {}
    for s in body_nodoc(fn):
        tgt = val = None
        if isinstance(s, ast.AnnAssign):
            tgt, val = u(s.target), s.value
        elif isinstance(s, ast.Assign) and len(s.targets) == 1:
            tgt, val = u(s.targets[0]), s.value
        else:
            raise Unsupported("_initialize: statement %s" % u(s))
        expect(tgt not in vals, "_initialize: %s assigned twice" % tgt)
        vals[tgt] = val
    for k in ("self.status", "self._results", "self._job_id"):
        expect(k in vals, "_initialize: %s not initialised" % k)
    expect(u(vals["self._results"]) == "None" and u(vals["self._job_id"]) == "None",
           "_initialize: _results/_job_id must start as None")
    init = find_func(cls, "__init__")
    calls = [u(s) for s in body_nodoc(init) if isinstance(s, ast.Expr)]
    expect(calls == ["self._initialize()", "self._validate()"],
           "__init__: expected self._initialize(); self._validate() as the only calls, got %s" % calls)
    return "Definition gen_initial : status := %s.\n" % status_const(vals["self.status"], "_initialize")


def gen_query_status(cls):
    """query_status and from_json.  The results of a 'finished' reply may be recorded in query_status (after
    from_json: gen_store), in from_json itself (gen_store_fj: then also for the reply to the submission), or both;
    whichever block is absent yields the constant false."""
    fn = find_func(cls, "query_status")
    b = body_nodoc(fn)
    expect(len(b) in (5, 6), "query_status: expected 5 or 6 statements, got %d" % len(b))
    g = b[0]
    expect(isinstance(g, ast.If) and len(g.body) == 1 and isinstance(g.body[0], ast.Raise)
           and isinstance(g.body[0].exc, ast.Call) and u(g.body[0].exc.func) == "ValueError"
           and len(g.orelse) == 1 and isinstance(g.orelse[0], ast.If) and not g.orelse[0].orelse,
           "query_status: guard is not if <c1>: raise ValueError elif <c2>: return self.status")
    t2 = single_if_return(g.orelse[0], "self.status", "query_status")
    c1 = status_bool(g.test, "self", "query_status")
    c2 = status_bool(t2, "self", "query_status")
    expect(isinstance(b[1], ast.Assign) and u(b[1].targets[0]) == "http_headers", "query_status: statement 2")
    r = b[2]
    expect(isinstance(r, ast.Assign) and u(r.targets[0]) == "response" and isinstance(r.value, ast.Call)
           and u(r.value.func) == "networking.http_post" and not r.value.args,
           "query_status: response = networking.http_post(...)")
    kw = {k.arg: u(k.value) for k in r.value.keywords}
    expect(kw.get("body") == "{'job_id': self._job_id}", "query_status: request body is %s" % kw.get("body"))
    expect(isinstance(b[3], ast.Expr) and u(b[3]) == "self.from_json(response.json())", "query_status: from_json call")
    c3 = "false"
    if len(b) == 6:
        s = b[4]
        expect(isinstance(s, ast.If) and not s.orelse and len(s.body) == 1 and isinstance(s.body[0], ast.Assign)
               and u(s.body[0]) == "self._results = WMIExperimentResults(self).from_json(response.json())",
               "query_status: results update")
        c3 = status_bool(s.test, "self", "query_status")
    expect(isinstance(b[-1], ast.Return) and u(b[-1].value) == "self.status", "query_status: final return")
    fj = find_func(cls, "from_json")
    expect([a.arg for a in fj.args.args] == ["self", "json"], "from_json: arguments")
    fb = body_nodoc(fj)
    expect(len(fb) in (4, 5) and [u(x) for x in fb[:3]] == ["self._job_id = json['job_id']",
                                                           "self._execution_datetime = json['execution_datetime']",
                                                           "self._from_wmi_status(json['status'])"]
           and u(fb[-1]) == "return self", "from_json: unexpected body")
    c4 = "false"
    if len(fb) == 5:
        s = fb[3]
        expect(isinstance(s, ast.If) and not s.orelse and len(s.body) == 1 and isinstance(s.body[0], ast.Assign)
               and u(s.body[0]) == "self._results = WMIExperimentResults(self).from_json(json)",
               "from_json: results update")
        c4 = status_bool(s.test, "self", "from_json")
    return ("Definition gen_guard (s : status) : guard :=\n  "
            "  if %s then GRefuse else if %s then GReturn else GRequest.\n" % (c1, c2)
            + "Definition gen_store (s : status) : bool := %s.\n" % c3
            + "Definition gen_store_fj (s : status) : bool := %s.\n" % c4)


def gen_results(cls):
    out = ""
    # blocking
    fn = find_func(cls, "results")
    expect(isinstance(fn, ast.FunctionDef), "results: must be a plain function")
    b = body_nodoc(fn)
    expect(len(b) == 7, "results: expected 7 statements, got %d" % len(b))
    fast = single_if_return(b[0], "self._results", "results")
    expect(u(b[1]) == "scheduler = sched.scheduler(time.time, time.sleep)", "results: scheduler construction")
    inner = b[2]
    expect(isinstance(inner, ast.FunctionDef) and inner.name == "check_and_reschedule", "results: inner function")
    ib = body_nodoc(inner)
    expect(len(ib) == 1 and isinstance(ib[0], ast.If) and not ib[0].orelse
           and u(ib[0].test) == "not self.query_status().is_terminal()"
           and [u(x) for x in ib[0].body] ==
           ["scheduler.enter(self.configuration.query_frequency, 1, check_and_reschedule, (scheduler,))"],
           "results: check_and_reschedule body")
    expect(u(b[3]) == "scheduler.enter(0, 1, check_and_reschedule, (scheduler,))", "results: first enter")
    expect(u(b[4]) == "scheduler.run()", "results: scheduler.run()")
    tail = single_if_return(b[5], "self._results", "results")
    expect(isinstance(b[6], ast.Return) and u(b[6].value) == "None", "results: final return None")
    out += "Definition gen_fast_b (h : bool) (s : status) : bool := %s.\n" % status_bool(fast, "self", "results", True)
    out += "Definition gen_tail_b (s : status) : bool := %s.\n" % status_bool(tail, "self", "results")
    # awaiting
    fn = find_func(cls, "wait_for_results")
    expect(isinstance(fn, ast.AsyncFunctionDef), "wait_for_results: must be a coroutine function")
    b = body_nodoc(fn)
    expect(len(b) == 4, "wait_for_results: expected 4 statements, got %d" % len(b))
    fast = single_if_return(b[0], "self._results", "wait_for_results")
    w = b[1]
    expect(isinstance(w, ast.While) and not w.orelse and u(w.test) == "not self.query_status().is_terminal()"
           and [u(x) for x in w.body] == ["await asyncio.sleep(self.configuration.query_frequency)"],
           "wait_for_results: poll loop")
    tail = single_if_return(b[2], "self._results", "wait_for_results")
    expect(isinstance(b[3], ast.Return) and u(b[3].value) == "None", "wait_for_results: final return None")
    out += "Definition gen_fast_a (h : bool) (s : status) : bool := %s.\n" % status_bool(fast, "self", "wait_for_results", True)
    out += "Definition gen_tail_a (s : status) : bool := %s.\n" % status_bool(tail, "self", "wait_for_results")
    return out


def gen_processors():
    conds = []
    for f, cname in ((F_QSIM, "WMIQSimProcessor"), (F_QC, "WMIQCProcessor")):
        cls = find_class(parse(f), cname)
        sub = body_nodoc(find_func(cls, "submit_experiment"))
        expect([u(x) for x in sub] == [
            "experiment = WMIExperiment(name, circ, options, self.configuration(), self.credentials)",
            "response = self._send_request(experiment)",
            "self._process_response(experiment, response.json())",
            "return experiment"], "%s.submit_experiment: unexpected body" % cname)
        snd = body_nodoc(find_func(cls, "_send_request"))
        expect(len(snd) == 2 and isinstance(snd[1], ast.Return) and isinstance(snd[1].value, ast.Call)
               and u(snd[1].value.func) == "networking.http_put"
               and {k.arg: u(k.value) for k in snd[1].value.keywords}.get("body") == "{'qobj': experiment.as_qasm()}",
               "%s._send_request: unexpected body" % cname)
        pr = body_nodoc(find_func(cls, "_process_response"))
        expect(len(pr) == 2 and u(pr[0]) == "experiment.from_json(response)" and isinstance(pr[1], ast.If)
               and not pr[1].orelse and len(pr[1].body) == 1 and isinstance(pr[1].body[0], ast.Raise)
               and isinstance(pr[1].body[0].exc, ast.Call) and u(pr[1].body[0].exc.func) == "RuntimeError",
               "%s._process_response: unexpected body" % cname)
        conds.append(status_bool(pr[1].test, "experiment", cname + "._process_response"))
    expect(conds[0] == conds[1], "the two processors raise on different conditions")
    return "Definition gen_submit_raises (s : status) : bool := %s.\n" % conds[0]


def gen_retry():
    tree = parse(F_NET)
    fn = find_func(tree, "_http_request")
    expect([a.arg for a in fn.args.args] == ["request", "url", "headers", "body", "title"], "_http_request: arguments")
    b = body_nodoc(fn)
    expect(len(b) == 4, "_http_request: expected 4 statements, got %d" % len(b))
    expect(isinstance(b[0], ast.Assign) and u(b[0].targets[0]) == "log_title", "_http_request: statement 1")
    init = b[1]
    expect(isinstance(init, ast.Assign) and u(init.targets[0]) == "retries", "_http_request: retries = ...")
    env = {"retries": ("retries", "Z"), "const.NW_MAX_RETRIES": ("gen_max_retries", "Z")}
    t_init, ty = Tr(env).expr(init.value)
    expect(ty == "Z", "_http_request: initial value is not an integer")
    w = b[2]
    expect(isinstance(w, ast.While) and not w.orelse, "_http_request: while loop")
    t_cond, ty = Tr(env).expr(w.test)
    expect(ty == "bool", "_http_request: loop condition")
    expect(len(w.body) == 2 and isinstance(w.body[0], ast.Try) and isinstance(w.body[1], ast.Return)
           and u(w.body[1].value) == "response", "_http_request: loop body is not try/return response")
    tr = w.body[0]
    expect(not tr.orelse and not tr.finalbody and len(tr.handlers) == 1, "_http_request: outer try has %d handlers"
           % len(tr.handlers))
    h = tr.handlers[0]
    expect(h.type is not None and u(h.type) == "requests.exceptions.Timeout",
           "_http_request: the retrying handler catches %s" % (u(h.type) if h.type else "everything"))
    hb = h.body
    expect(len(hb) == 3 and isinstance(hb[0], ast.AugAssign) and u(hb[0].target) == "retries"
           and isinstance(hb[1], ast.Expr) and isinstance(hb[1].value, ast.Call) and u(hb[1].value.func) == "print"
           and isinstance(hb[2], ast.Continue), "_http_request: Timeout handler body")
    aug = ast.BinOp(left=ast.Name(id="retries", ctx=ast.Load()), op=hb[0].op, right=hb[0].value)
    t_incr, ty = Tr(env).expr(aug)
    expect(ty == "Z", "_http_request: increment")
    tb = tr.body
    expect(len(tb) == 2 and isinstance(tb[0], (ast.Assign, ast.AnnAssign)) and u(tb[0].target if isinstance(tb[0], ast.AnnAssign)
           else tb[0].targets[0]) == "response" and isinstance(tb[0].value, ast.Call) and u(tb[0].value.func) == "request"
           and isinstance(tb[1], ast.Try), "_http_request: try body")
    inner = tb[1]
    expect([u(x) for x in inner.body] == ["response.raise_for_status()"] and not inner.orelse and not inner.finalbody
           and [u(x.type) for x in inner.handlers] == ["requests.exceptions.HTTPError", "requests.exceptions.RequestException"]
           and all(len(x.body) == 1 and isinstance(x.body[0], ast.Raise) and isinstance(x.body[0].exc, ast.Call)
                   and u(x.body[0].exc.func) == "RuntimeError" for x in inner.handlers),
           "_http_request: status check")
    f = b[3]
    expect(isinstance(f, ast.If) and not f.orelse and len(f.body) == 1 and isinstance(f.body[0], ast.Raise)
           and isinstance(f.body[0].exc, ast.Call) and u(f.body[0].exc.func) == "RuntimeError",
           "_http_request: final if/raise")
    t_final, ty = Tr(env).expr(f.test)
    expect(ty == "bool", "_http_request: final condition")
    for name, verb in (("http_put", "requests.put"), ("http_post", "requests.post")):
        hb = body_nodoc(find_func(tree, name))
        expect(len(hb) == 1 and isinstance(hb[0], ast.Return)
               and u(hb[0].value) == "_http_request(%s, url, headers, body, title)" % verb, "%s: unexpected body" % name)
    return ("Definition gen_max_retries : Z := %s.\n" % zlit(const_int("NW_MAX_RETRIES"))
            + "Definition gen_retry_init : Z := %s.\n" % t_init
            + "Definition gen_retry_cond (retries : Z) : bool := %s.\n" % t_cond
            + "Definition gen_retry_incr (retries : Z) : Z := %s.\n" % t_incr
            + "Definition gen_retry_final (retries : Z) : bool := %s.\n" % t_final)


def generate_life():
    cls = find_class(parse(F_WMIEXP), "WMIExperiment")
    out = ["(* generated by gen/backend.py from the backend sources of /repo -- do not edit *)",
           "From Qib Require Import Backend.LifeModel.", "Local Open Scope Z_scope.", "",
           gen_initial(cls), gen_from_wmi_status(cls), gen_is_terminal(), gen_query_status(cls),
           gen_results(cls), gen_processors(), gen_retry(),
           "Definition gen_tables : tables :=\n"
           "  {| tb_initial := gen_initial; tb_status := gen_from_wmi_status; tb_terminal := gen_is_terminal;\n"
           "     tb_guard := gen_guard; tb_store := gen_store; tb_store_fj := gen_store_fj; tb_fast_b := gen_fast_b; tb_tail_b := gen_tail_b;\n"
           "     tb_fast_a := gen_fast_a; tb_tail_a := gen_tail_a; tb_submit_raises := gen_submit_raises;\n"
           "     tb_init := gen_retry_init; tb_cond := gen_retry_cond; tb_incr := gen_retry_incr;\n"
           "     tb_final := gen_retry_final |}.\n"]
    return "\n".join(out)


# ------------------------------------------------------------------------------------------ C18

class Subst(ast.NodeTransformer):
    """replace sub-expressions (by their unparsed text) with plain names, so that pyx.Tr can translate the rest"""

    def __init__(self, table):
        self.table, self.used = table, set()

    def visit(self, node):
        if isinstance(node, ast.expr):
            t = u(node)
            if t in self.table:
                self.used.add(t)
                return ast.Name(id=self.table[t], ctx=ast.Load())
        return self.generic_visit(node)


def tr_bool(expr, table, where):
    sub = Subst(table)
    e = sub.visit(ast.parse(u(expr), mode="eval").body)
    env = {v: (v, "Z") for v in table.values()}
    t, ty = Tr(env).expr(e)
    expect(ty == "bool", "%s: not a boolean expression: %s" % (where, u(expr)))
    return t


def raises_value_error(stmts, where):
    expect(stmts and isinstance(stmts[-1], ast.Raise) and isinstance(stmts[-1].exc, ast.Call)
           and u(stmts[-1].exc.func) == "ValueError", "%s: branch does not end in raise ValueError" % where)
    for s in stmts[:-1]:
        expect(u(s) == "self.status = ExperimentStatus.ERROR", "%s: unexpected statement %s" % (where, u(s)))


def gen_validate(cls):
    fn = find_func(cls, "_validate")
    b = body_nodoc(fn)
    expect(len(b) >= 5, "_validate: too short")
    # shots
    s0 = b[0]
    expect(isinstance(s0, ast.If) and not s0.orelse, "_validate: first statement is not the shots check")
    raises_value_error(s0.body, "_validate/shots")
    shots = tr_bool(s0.test, {"self.options.shots": "shots", "self.configuration.max_shots": "maxs"}, "_validate/shots")
    # loop
    loop = b[1]
    expect(isinstance(loop, ast.For) and u(loop.target) == "gate" and u(loop.iter) == "self.circuit.gates"
           and not loop.orelse, "_validate: loop header")
    lb = loop.body
    expect([u(x) for x in lb[:4]] == [
        "gate_openQASM = gate.as_qasm()", "gate_name = gate_openQASM['name']", "gate_qubits = gate_openQASM['qubits']",
        "gate_params = gate_openQASM['params'] if 'params' in gate_openQASM else []"], "_validate: loop prologue")
    expect(len(lb) == 5 and isinstance(lb[4], ast.If) and not lb[4].orelse and u(lb[4].test) == "gate_name != 'measure'",
           "_validate: loop body is not `if gate_name != 'measure': ...`")
    inner = lb[4].body
    tests, k = [], 0
    want = ["gate_name not in self.configuration.basis_gates", None, "gate_properties is None",
            "not gate_properties.check_qubits(gate_qubits)", "not gate_properties.check_params(gate_params)",
            "len(gate_qubits) > 1 and self.configuration.coupling_map"]
    expect(len(inner) == 6, "_validate: expected 6 statements in the gate branch, got %d" % len(inner))
    for st, w in zip(inner, want):
        if w is None:
            expect(u(st) == "gate_properties = self.configuration.get_gate_by_name(gate_name)", "_validate: gate lookup")
            continue
        expect(isinstance(st, ast.If) and not st.orelse and u(st.test) == w, "_validate: expected `if %s`, got %s"
               % (w, u(st).split("\n")[0]))
        if w.startswith("len(gate_qubits)"):
            expect([u(x) for x in st.body[:1]] == ["qubit_pairs = list(combinations(gate_qubits, 2))"] and len(st.body) == 2
                   and isinstance(st.body[1], ast.For) and u(st.body[1].target) == "qubit_pair"
                   and u(st.body[1].iter) == "qubit_pairs" and len(st.body[1].body) == 1
                   and isinstance(st.body[1].body[0], ast.If) and not st.body[1].body[0].orelse
                   and u(st.body[1].body[0].test) == "list(qubit_pair) not in self.configuration.coupling_map",
                   "_validate: coupling check")
            raises_value_error(st.body[1].body[0].body, "_validate/coupling")
        else:
            raises_value_error(st.body, "_validate/" + w)
    # after the loop
    rest = b[2:]
    guard = False
    if isinstance(rest[0], ast.If):
        expect(u(rest[0].test) in ("not self.circuit.gates", "len(self.circuit.gates) == 0") and not rest[0].orelse,
               "_validate: unexpected statement after the loop: %s" % u(rest[0]).split("\n")[0])
        raises_value_error(rest[0].body, "_validate/empty")
        guard = True
        rest = rest[1:]
    expect(len(rest) == 3, "_validate: expected qubits / qubits_index / range check after the loop")
    q = rest[0]
    expect(isinstance(q, (ast.Assign, ast.AnnAssign)) and u(q.target if isinstance(q, ast.AnnAssign) else q.targets[0]) == "qubits",
           "_validate: qubits = ...")
    src = u(q.value)
    expect(src in ("gate.particles()", "self.circuit.particles()"), "_validate: range check looks at %s" % src)
    scope = "ScopeLast" if src == "gate.particles()" else "ScopeAll"
    expect(u(rest[1]) == "qubits_index = [q.index for q in qubits]", "_validate: qubits_index")
    r = rest[2]
    expect(isinstance(r, ast.If) and not r.orelse, "_validate: range check")
    raises_value_error(r.body, "_validate/range")
    rng = tr_bool(r.test, {"len(qubits)": "l", "min(qubits_index)": "mn", "max(qubits_index)": "mx",
                           "self.configuration.n_qubits": "n"}, "_validate/range")
    return ("Definition gen_shots_refused (shots maxs : Z) : bool := %s.\n" % shots
            + "Definition gen_scope : scope := %s.\n" % scope
            + "Definition gen_empty_guard : bool := %s.\n" % ("true" if guard else "false")
            + "Definition gen_range_refused (l mn mx n : Z) : bool := %s.\n" % rng)


def gen_pconf():
    tree = parse(F_PCONF)
    gp = find_class(tree, "GateProperties")
    cq = body_nodoc(find_func(gp, "check_qubits"))
    expect(len(cq) == 1 and u(cq[0]) == "return qubits in self.qubits", "check_qubits: unexpected body")
    cp = body_nodoc(find_func(gp, "check_params"))
    expect(len(cp) == 1 and isinstance(cp[0], ast.Return), "check_params: unexpected body")
    t = tr_bool(cp[0].value, {"len(params)": "a", "len(self.parameters)": "b"}, "check_params")
    pc = find_class(tree, "ProcessorConfiguration")
    gg = body_nodoc(find_func(pc, "get_gate_by_name"))
    expect([u(x) for x in gg] == ["for gate in self.gates:\n    if gate.name == gate_name:\n        return gate", "return None"],
           "get_gate_by_name: unexpected body")
    return "Definition gen_params_ok (a b : Z) : bool := %s.\n" % t


def gen_ctrl_guard():
    tree = parse("src/qib/operator/gates.py")
    fn = find_func(find_class(tree, "ControlledGate"), "as_qasm")
    b = body_nodoc(fn)
    first = b[0]
    expect(isinstance(first, ast.If), "ControlledGate.as_qasm: first statement")
    if u(first.test) == "self.ncontrols == 1":
        checked = False
    else:
        expect(u(first.test) in ("self.ctrl_state != self.ncontrols * [1]", "self.ctrl_state != [1] * self.ncontrols",
                                 "any((s != 1 for s in self.ctrl_state))", "not all((s == 1 for s in self.ctrl_state))")
               and not first.orelse and [u(x) for x in first.body] == ["return super().as_qasm()"]
               and len(b) > 1 and isinstance(b[1], ast.If) and u(b[1].test) == "self.ncontrols == 1",
               "ControlledGate.as_qasm: unexpected guard %s" % u(first.test))
        checked = True
    expect(u(b[-1]) == "return super().as_qasm()", "ControlledGate.as_qasm: fallback")
    return "Definition gen_ctrl_std_checked : bool := %s.\n" % ("true" if checked else "false")


def check_qobj_shapes(cls):
    fn = find_func(cls, "as_qasm")
    b = body_nodoc(fn)
    expect(u(b[0].value if isinstance(b[0], ast.AnnAssign) else b[0].value) == "self.circuit.particles()"
           and u(b[1].value) == "self.circuit.clbits()", "WMIExperiment.as_qasm: qubits/clbits")
    d = b[2].value
    expect(isinstance(d, ast.Dict), "WMIExperiment.as_qasm: qobj is not a dict literal")
    want = {"n_qubits": "len(qubits)", "memory_slots": "len(clbits)", "qreg_sizes": "{'q': len(qubits)}",
            "creg_sizes": "{'c': len(clbits)}",
            # the instruction list serialised at construction, handed out as it is or as a private copy
            "instructions": ("self.instructions", "deepcopy(self.instructions)", "copy.deepcopy(self.instructions)"),
            "qubit_labels": "{'qubits': [['q', qubit.index] for qubit in qubits]}",
            "clbit_labels": "{'clbits': [['c', clbit] for clbit in clbits]}",
            "shots": "self.options.shots", "init_qubits": "self.options.init_qubits",
            "do_emulation": "self.options.do_emulation"}
    seen = {}
    for node in ast.walk(d):
        if isinstance(node, ast.Dict):
            for k, v in zip(node.keys, node.values):
                if isinstance(k, ast.Constant) and k.value in want:
                    alts = want[k.value] if isinstance(want[k.value], tuple) else (want[k.value],)
                    expect(u(v) in alts, "WMIExperiment.as_qasm: %s is %s" % (k.value, u(v)))
                    seen[k.value] = seen.get(k.value, 0) + 1
    expect(seen.get("n_qubits") == 3 and seen.get("memory_slots") == 3 and all(k in seen for k in want),
           "WMIExperiment.as_qasm: header fields %s" % seen)
    expect(u(b[3]) == "qobj['config'].update(self.options.optional())" and u(b[4]) == "return qobj",
           "WMIExperiment.as_qasm: tail")
    res = find_class(parse(F_WMIEXP), "WMIExperimentResults")
    gc = body_nodoc(find_func(res, "get_counts"))
    expect(len(gc) == 2 and isinstance(gc[0], ast.If) and u(gc[0].test) == "binary"
           and [u(x) for x in gc[0].body] == [
               "n_qubits = len(self._experiment_ref.circuit.particles())",
               "return {str(bin(int(key, 16))).split('b')[1].zfill(n_qubits): value for key, value in self._counts.items()}"]
           and u(gc[1]) in ("return self._counts", "return dict(self._counts)", "return self._counts.copy()"),
           "get_counts: unexpected body")
    circ = find_class(parse("src/qib/circuit/circuit.py"), "Circuit")
    expect([u(x) for x in body_nodoc(find_func(circ, "particles"))] == [
        "wires_set = set()", "for gate in self.gates:\n    wires_set.update(gate.particles())",
        "return sorted(wires_set, key=lambda p: p.index)"], "Circuit.particles: unexpected body")
    expect([u(x) for x in body_nodoc(find_func(circ, "clbits"))] == [
        "bits_set = set()",
        "for gate in self.gates:\n    if type(gate) is MeasureInstruction:\n        bits_set.update(gate.memory())",
        "return sorted(bits_set)"], "Circuit.clbits: unexpected body")
    expect([u(x) for x in body_nodoc(find_func(circ, "as_qasm"))] == [
        "instructions = []", "for gate in self.gates:\n    instructions.append(gate.as_qasm())",
        "return instructions"], "Circuit.as_qasm: unexpected body")


def coq_cfg(name, cfg):
    def zl(l):
        return "[" + "; ".join(zlit(int(x)) for x in l) + "]"
    gates = []
    for g in cfg.gates:
        gates.append("{| gp_name := %s; gp_qubits := [%s]; gp_nparams := %d |}"
                     % (codes(g.name), "; ".join(zl(q) for q in g.qubits), len(g.parameters)))
    for v in (cfg.max_shots, cfg.n_qubits):
        expect(isinstance(v, int) and not isinstance(v, bool), "%s: non-integer limit %r" % (name, v))
    return ("Definition %s : config :=\n  {| c_basis := [%s];\n     c_coupling := [%s];\n     c_gates := [\n       %s];\n"
            "     c_max_shots := %s; c_nqubits := %s |}.\n"
            % (name, "; ".join(codes(b) for b in cfg.basis_gates), "; ".join(zl(p) for p in cfg.coupling_map),
               ";\n       ".join(gates), zlit(cfg.max_shots), zlit(cfg.n_qubits)))


def generate_qobj():
    cls = find_class(parse(F_WMIEXP), "WMIExperiment")
    gen_initial(cls)          # __init__ = _initialize(); _validate()   (shape only)
    gen_processors()          # submit_experiment builds the experiment before _send_request (shape only)
    check_qobj_shapes(cls)
    out = ["(* generated by gen/backend.py from the backend sources of /repo -- do not edit *)",
           "From Qib Require Import Backend.QobjModel.", "Local Open Scope Z_scope.", "",
           gen_validate(cls), gen_pconf(), gen_ctrl_guard(),
           "Definition gen_vt : vtables :=\n"
           "  {| vt_shots_refused := gen_shots_refused; vt_scope := gen_scope; vt_empty_guard := gen_empty_guard;\n"
           "     vt_range_refused := gen_range_refused; vt_params_ok := gen_params_ok;\n"
           "     vt_ctrl_std_checked := gen_ctrl_std_checked |}.\n"]
    # configuration records: obtained by running the code
    from qib.backend.wmi import WMIQSimProcessor, WMIQCProcessor
    out.append("(* obtained by running WMIQSimProcessor.configuration() / WMIQCProcessor.configuration() *)")
    out.append(coq_cfg("gen_cfg_qsim", WMIQSimProcessor.configuration()))
    out.append(coq_cfg("gen_cfg_qc", WMIQCProcessor.configuration()))
    return "\n".join(out)


if __name__ == "__main__":
    which = sys.argv[1] if len(sys.argv) > 1 else "life"
    print(generate_life() if which == "life" else generate_qobj())
