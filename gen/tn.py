"""Shared helpers of the TN area (C07, C08): network generator (descriptions that are plain
python literals, built through the public API of qib), Coq term printers, and the independent
numpy reference (brute-force defining sum, no einsum)."""
import copy, itertools
import numpy as np
from vlib import coqterm as ct

VT = -1


# ----------------------------------------------------------------------------- build / dump
def build_symbolic(desc):
    """desc = {"tensors": [[tid, shape, bids, ref], ...] (insertion order, incl. the virtual tensor),
               "bonds": None (generate_bonds) | [[bid, tids], ...] (insertion order)}"""
    from qib.tensor_network import SymbolicTensor, SymbolicBond, SymbolicTensorNetwork
    stn = SymbolicTensorNetwork()
    for tid, shape, bids, ref in desc["tensors"]:
        stn.add_tensor(SymbolicTensor(tid, tuple(shape), list(bids), ref))
    if desc.get("bonds") is None:
        stn.generate_bonds()
    else:
        for bid, tids in desc["bonds"]:
            stn.add_bond(SymbolicBond(bid, tuple(tids)))
    return stn


def arr(v):
    """nested list of ints or [re, im] pairs -> ndarray (complex when any entry is a pair)"""
    a = np.array(v["re"], dtype=float).reshape(v["shape"])
    if v.get("im") is not None:
        a = a + 1j * np.array(v["im"], dtype=float).reshape(v["shape"])
    return a


def build(desc):
    from qib.tensor_network import TensorNetwork
    stn = build_symbolic(desc)
    data = {k: arr(v) for k, v in desc["data"].items()}
    return TensorNetwork(stn, data)


class Refs:
    """dataref -> integer code (the virtual tensor's None is -1)"""
    def __init__(self):
        self.m = {}

    def code(self, r):
        if r is None:
            return -1
        if r not in self.m:
            self.m[r] = len(self.m)
        return self.m[r]


def zl(v):
    return ct.lst([ct.z(x) for x in v])


def nl(v):
    return ct.lst([ct.nat(x) for x in v])


def net_term(stn, refs):
    ts = []
    for k, t in stn.tensors.items():
        ts.append(ct.pair(ct.z(k), ct.pair(ct.z(t.tid), nl(t.shape), zl(t.bids), ct.z(refs.code(t.dataref)))))
    bs = []
    for k, b in stn.bonds.items():
        bs.append(ct.pair(ct.z(k), ct.pair(ct.z(b.bid), zl(b.tids))))
    return ct.pair(ct.lst(ts), ct.lst(bs))


def snapshot(stn):
    """deep, order-sensitive snapshot of a symbolic network"""
    return ([(k, t.tid, tuple(t.shape), tuple(t.bids), t.dataref) for k, t in stn.tensors.items()],
            [(k, b.bid, tuple(b.tids)) for k, b in stn.bonds.items()])


def dense_term(a):
    a = np.asarray(a)
    return ct.pair(nl(a.shape), ct.lst([ct.zi(c) for c in a.reshape(-1)]))


def data_term(data, refs):
    items = []
    for k, a in data.items():
        a = np.asarray(a)
        items.append(ct.pair(ct.z(refs.code(k)), dense_term(a)))
    return ct.lst(items)


def scaffold_term(s):
    if isinstance(s, int):
        return "(SLeaf %s)" % ct.z(s)
    return "(SNode %s %s)" % (scaffold_term(s[0]), scaffold_term(s[1]))


def legs_term(l):
    return ct.lst([ct.pair(ct.z(a), ct.nat(b)) for a, b in l])


def tree_term(node):
    if node.is_leaf:
        return "(TLeaf %s %s %s %s)" % (ct.z(node.tid), nl(node.idxout), legs_term(node.openaxes), nl(node.trackaxes))
    return "(TNode %s %s %s %s %s %s %s %s)" % (
        ct.z(node.tid), tree_term(node.children[0]), nl(node.idxL), tree_term(node.children[1]), nl(node.idxR),
        nl(node.idxout), legs_term(node.openaxes), nl(node.trackaxes))


# ----------------------------------------------------------------------------- reference semantics
def ref_consistent(stn):
    """exact incidence: independent re-statement of what a consistent network is"""
    T, B = stn.tensors, stn.bonds
    if VT not in T:
        return False
    for k, t in T.items():
        if k != t.tid or len(t.shape) != len(t.bids):
            return False
        for b in t.bids:
            if b not in B:
                return False
    for k, b in B.items():
        if k != b.bid or len(b.tids) < 2:
            return False
        for tid in b.tids:
            if tid not in T:
                return False
        dims = set()
        for tk, t in T.items():
            nlegs = sum(1 for x in t.bids if x == k)
            if nlegs != sum(1 for x in b.tids if x == tk):
                return False
            dims |= {t.shape[ax] for ax, x in enumerate(t.bids) if x == k}
        if len(dims) != 1:
            return False
    return True


def ref_dense(stn, data):
    """defining sum by brute force from the network's own description (no einsum):
    one index per bond; every tensor entry is gathered on the full index grid; the open axes
    scatter-add into the output at the index of their bond"""
    T, B = stn.tensors, stn.bonds
    bids = list(B.keys())
    dim = {}
    for t in T.values():
        for ax, b in enumerate(t.bids):
            dim.setdefault(b, t.shape[ax])
    dims = [dim[b] for b in bids]
    pos = {b: i for i, b in enumerate(bids)}
    grids = np.indices(dims).reshape(len(dims), -1) if dims else np.zeros((0, 1), dtype=int)
    total = np.ones(grids.shape[1], dtype=complex)
    for k, t in T.items():
        if k == VT:
            continue
        a = np.asarray(data[t.dataref])
        if a.ndim == 0:
            total = total * a
        else:
            total = total * a[tuple(grids[pos[b]] for b in t.bids)]
    vt = T[VT]
    out = np.zeros(tuple(vt.shape), dtype=complex)
    if len(vt.bids) == 0:
        out[()] = total.sum()
    else:
        np.add.at(out, tuple(grids[pos[b]] for b in vt.bids), total)
    return out


def ref_size(desc_or_stn):
    """(product of all bond dimensions, number of output entries)"""
    stn = desc_or_stn
    dim = {}
    for t in stn.tensors.values():
        for ax, b in enumerate(t.bids):
            dim.setdefault(b, t.shape[ax])
    p = 1
    for b in stn.bonds:
        p *= dim.get(b, 1)
    o = 1
    for d in stn.tensors[VT].shape:
        o *= d
    return p, o


def ref_merge_value(v1, v2, joins):
    """contraction of two dense tensors over the joined axes [(ax1, ax2), ...] (an axis may be
    joined several times: all joined axes carry one summed index); remaining axes of the first
    followed by those of the second"""
    v1, v2 = np.asarray(v1), np.asarray(v2)
    keep1 = [a for a in range(v1.ndim) if a not in {j[0] for j in joins}]
    keep2 = [a for a in range(v2.ndim) if a not in {j[1] for j in joins}]
    out = np.zeros([v1.shape[a] for a in keep1] + [v2.shape[a] for a in keep2], dtype=complex)
    nd = v1.ndim + v2.ndim
    g = np.indices(list(v1.shape) + list(v2.shape)).reshape(nd, -1) if nd else np.zeros((0, 1), dtype=int)
    mask = np.ones(g.shape[1], dtype=bool)
    for a, b in joins:
        mask &= g[a] == g[v1.ndim + b]
    g = g[:, mask]
    vals = v1[tuple(g[:v1.ndim])] if v1.ndim else np.full(g.shape[1], v1[()])
    vals = vals * (v2[tuple(g[v1.ndim:])] if v2.ndim else np.full(g.shape[1], v2[()]))
    idx = tuple([g[a] for a in keep1] + [g[v1.ndim + a] for a in keep2])
    if idx:
        np.add.at(out, idx, vals)
    else:
        out[()] = vals.sum()
    return out


# ----------------------------------------------------------------------------- generator
def rand_data(rng, shape, cplx=False):
    n = int(np.prod(shape)) if len(shape) else 1
    re = [rng.choice([-2, -1, -1, 0, 1, 1, 1, 2, 3]) for _ in range(n)]
    im = [rng.choice([-1, 0, 0, 1, 2]) for _ in range(n)] if cplx else None
    return {"shape": list(shape), "re": re, "im": im}


def gen_net(rng, nt_max=6, open_max=4, cap=60000, ids="random", refprefix="", allow_idle=True, min_t=0, idle_p=0.3):
    """a random consistent network description; returns (desc, feature set)"""
    while True:
        nt = rng.randint(max(min_t, 0), nt_max)
        if nt == 0 and not allow_idle:
            continue
        degs = [rng.randint(0 if nt > 1 else 1, 4) for _ in range(nt)]
        if rng.random() < 0.1 and nt:
            degs[rng.randrange(nt)] = 0                       # a scalar factor
        legs = [(t, a) for t in range(nt) for a in range(degs[t])]
        nopen = rng.randint(0, open_max)
        olegs = [(VT, a) for a in range(nopen)]
        pool = legs + olegs
        rng.shuffle(pool)
        groups = []
        while pool:
            k = rng.choice([2, 2, 2, 2, 3, 3, 4])
            g, pool = pool[:k], pool[k:]
            if len(g) == 1:
                if groups and len(groups[-1]) < 5:
                    groups[-1].append(g[0])
                else:
                    # add one more open leg to close the bond
                    olegs.append((VT, len(olegs)))
                    g.append(olegs[-1])
                    groups.append(g)
            else:
                groups.append(g)
        if any(all(l[0] == VT for l in g) for g in groups) and (not allow_idle or rng.random() > idle_p):
            continue
        dims = [rng.choice([1, 2, 2, 2, 2, 3, 3]) for _ in groups]
        p = 1
        for d in dims:
            p *= d
        o = 1
        for g, d in zip(groups, dims):
            o *= d ** sum(1 for l in g if l[0] == VT)
        if p * max(o, 1) > cap:
            continue
        break
    # identifiers
    if ids == "random":
        tid_pool = [x for x in range(-6, 12) if x != VT]
        bid_pool = list(range(-8, 20))
    else:
        tid_pool = list(range(0, 12))
        bid_pool = list(range(0, 30))
    tids = rng.sample(tid_pool, nt)
    bidl = rng.sample(bid_pool, len(groups))
    nopen = len(olegs)
    shapes = {t: [None] * degs[t] for t in range(nt)}
    bidsd = {t: [None] * degs[t] for t in range(nt)}
    vshape, vbids = [None] * nopen, [None] * nopen
    for g, d, b in zip(groups, dims, bidl):
        for (t, a) in g:
            if t == VT:
                vshape[a], vbids[a] = d, b
            else:
                shapes[t][a], bidsd[t][a] = d, b
    feats = set()
    for g in groups:
        real = [l for l in g if l[0] != VT]
        nop = len(g) - len(real)
        if len(g) >= 3:
            feats.add("hyper")
        if nop >= 2:
            feats.add("shared-open" if real else "idle-wire")
        elif nop and not real:
            feats.add("idle-wire")
        cnt = {}
        for l in real:
            cnt[l[0]] = cnt.get(l[0], 0) + 1
        if any(v >= 2 for v in cnt.values()):
            feats.add("self-trace" if not nop and len(cnt) == 1 else "self-multi")
    pairs = {}
    for g in groups:
        ts = sorted({l[0] for l in g if l[0] != VT})
        for a, b in itertools.combinations(ts, 2):
            pairs[(a, b)] = pairs.get((a, b), 0) + 1
    if any(v >= 2 for v in pairs.values()):
        feats.add("multi-edge")
    # data references (some shared between equal-shaped tensors)
    data, refs_of = {}, {}
    cplx = rng.random() < 0.3
    for t in range(nt):
        same = [u for u in range(t) if shapes[u] == shapes[t]]
        if same and rng.random() < 0.3:
            refs_of[t] = refs_of[rng.choice(same)]
            feats.add("shared-dataref")
        else:
            refs_of[t] = "%sd%d" % (refprefix, t)
            data[refs_of[t]] = rand_data(rng, shapes[t], cplx)
    tl = [[tids[t], shapes[t], bidsd[t], refs_of[t]] for t in range(nt)]
    rng.shuffle(tl)
    tl.insert(rng.randint(0, len(tl)), [VT, vshape, vbids, None])
    if rng.random() < 0.5:
        bonds = None
    else:
        bonds = []
        for g, b in zip(groups, bidl):
            ts = [tids[l[0]] if l[0] != VT else VT for l in g]
            rng.shuffle(ts)
            bonds.append([b, ts])
        rng.shuffle(bonds)
    if any(x < 0 for x in tids) or any(x < 0 for x in bidl):
        feats.add("negative-ids")
    return {"tensors": tl, "bonds": bonds, "data": data}, feats


def all_scaffolds(tids):
    """every binary tree over the leaves, both child orders"""
    tids = list(tids)
    if len(tids) == 1:
        return [tids[0]]
    out = []
    n = len(tids)
    for mask in range(1, 2 ** n - 1):
        A = [tids[i] for i in range(n) if mask >> i & 1]
        Bs = [tids[i] for i in range(n) if not mask >> i & 1]
        for a in all_scaffolds(A):
            for b in all_scaffolds(Bs):
                out.append([a, b])
    return out


def rand_scaffold(rng, tids):
    tids = list(tids)
    rng.shuffle(tids)
    forest = tids
    while len(forest) > 1:
        i, j = rng.sample(range(len(forest)), 2)
        a, b = forest[i], forest[j]
        forest = [x for k, x in enumerate(forest) if k not in (i, j)] + [[a, b]]
    return forest[0]


def tree_nodes(node, path=()):
    yield path, node
    if not node.is_leaf:
        yield from tree_nodes(node.children[0], path + (0,))
        yield from tree_nodes(node.children[1], path + (1,))


def to_jsonable(x):
    if isinstance(x, (np.integer,)):
        return int(x)
    if isinstance(x, (list, tuple)):
        return [to_jsonable(y) for y in x]
    if isinstance(x, dict):
        return {str(k): to_jsonable(v) for k, v in x.items()}
    return x
