"""Shared helpers of the TN area (C07, C08): network generator (descriptions that are plain
python literals, built through the public API of qib), Coq term printers, and the independent
numpy reference (brute-force defining sum, no einsum)."""
import copy, itertools
import numpy as np
from vlib import coqterm as ct

VT = -1


# ----------------------------------------------------------------------------- build / dump
def build_symbolic(desc):
    """desc = {"tensors": [[tid, shape, bids, ref], ...] (insertion order, incl. the virtual tensor),
               "bonds": None (generate_bonds) | [[bid, tids], ...] (insertion order)}"""
    from qib.tensor_network import SymbolicTensor, SymbolicBond, SymbolicTensorNetwork
    stn = SymbolicTensorNetwork()
    for tid, shape, bids, ref in desc["tensors"]:
        stn.add_tensor(SymbolicTensor(tid, tuple(shape), list(bids), ref))
    if desc.get("bonds") is None:
        stn.generate_bonds()
    else:
        for bid, tids in desc["bonds"]:
            stn.add_bond(SymbolicBond(bid, tuple(tids)))
    return stn


def arr(v):
    """nested list of ints or [re, im] pairs -> ndarray (complex when any entry is a pair)"""
    a = np.array(v["re"], dtype=float).reshape(v["shape"])
    if v.get("im") is not None:
        a = a + 1j * np.array(v["im"], dtype=float).reshape(v["shape"])
    return a


def build(desc):
    from qib.tensor_network import TensorNetwork
    stn = build_symbolic(desc)
    data = {k: arr(v) for k, v in desc["data"].items()}
    return TensorNetwork(stn, data)


class Refs:
    """dataref -> integer code (the virtual tensor's None is -1)"""
    def __init__(self):
        self.m = {}

    def code(self, r):
        if r is None:
            return -1
        if r not in self.m:
            self.m[r] = len(self.m)
        return self.m[r]


def zl(v):
    return ct.lst([ct.z(x) for x in v])


def nl(v):
    return ct.lst([ct.nat(x) for x in v])


def net_term(stn, refs):
    ts = []
    for k, t in stn.tensors.items():
        ts.append(ct.pair(ct.z(k), ct.pair(ct.z(t.tid), nl(t.shape), zl(t.bids), ct.z(refs.code(t.dataref)))))
    bs = []
    for k, b in stn.bonds.items():
        bs.append(ct.pair(ct.z(k), ct.pair(ct.z(b.bid), zl(b.tids))))
    return ct.pair(ct.lst(ts), ct.lst(bs))


def snapshot(stn):
    """deep, order-sensitive snapshot of a symbolic network"""
    return ([(k, t.tid, tuple(t.shape), tuple(t.bids), t.dataref) for k, t in stn.tensors.items()],
            [(k, b.bid, tuple(b.tids)) for k, b in stn.bonds.items()])


def dense_term(a):
    a = np.asarray(a)
    return ct.pair(nl(a.shape), ct.lst([ct.zi(c) for c in a.reshape(-1)]))


def data_term(data, refs):
    items = []
    for k, a in data.items():
        a = np.asarray(a)
        items.append(ct.pair(ct.z(refs.code(k)), dense_term(a)))
    return ct.lst(items)


def scaffold_term(s):
    if isinstance(s, int):
        return "(SLeaf %s)" % ct.z(s)
    return "(SNode %s %s)" % (scaffold_term(s[0]), scaffold_term(s[1]))


def legs_term(l):
    return ct.lst([ct.pair(ct.z(a), ct.nat(b)) for a, b in l])


def tree_term(node):
    if node.is_leaf:
        return "(TLeaf %s %s %s %s)" % (ct.z(node.tid), nl(node.idxout), legs_term(node.openaxes), nl(node.trackaxes))
    return "(TNode %s %s %s %s %s %s %s %s)" % (
        ct.z(node.tid), tree_term(node.children[0]), nl(node.idxL), tree_term(node.children[1]), nl(node.idxR),
        nl(node.idxout), legs_term(node.openaxes), nl(node.trackaxes))


# ----------------------------------------------------------------------------- reference semantics
def ref_consistent(stn):
    """exact incidence: independent re-statement of what a consistent network is"""
    T, B = stn.tensors, stn.bonds
    if VT not in T:
        return False
    for k, t in T.items():
        if k != t.tid or len(t.shape) != len(t.bids):
            return False
        for b in t.bids:
            if b not in B:
                return False
    for k, b in B.items():
        if k != b.bid or len(b.tids) < 2:
            return False
        for tid in b.tids:
            if tid not in T:
                return False
        dims = set()
        for tk, t in T.items():
            nlegs = sum(1 for x in t.bids if x == k)
            if nlegs != sum(1 for x in b.tids if x == tk):
                return False
            dims |= {t.shape[ax] for ax, x in enumerate(t.bids) if x == k}
        if len(dims) != 1:
            return False
    return True


def ref_dense(stn, data, by_tid=None):
    """defining sum by brute force from the network's own description (no einsum):
    one index per bond; every tensor entry is gathered on the full index grid; the open axes
    scatter-add into the output at the index of their bond"""
    T, B = stn.tensors, stn.bonds
    bids = list(B.keys())
    dim = {}
    for t in T.values():
        for ax, b in enumerate(t.bids):
            dim.setdefault(b, t.shape[ax])
    dims = [dim[b] for b in bids]
    pos = {b: i for i, b in enumerate(bids)}
    grids = np.indices(dims).reshape(len(dims), -1) if dims else np.zeros((0, 1), dtype=int)
    total = np.ones(grids.shape[1], dtype=complex)
    for k, t in T.items():
        if k == VT:
            continue
        a = np.asarray(by_tid[k] if by_tid is not None and k in by_tid else data[t.dataref])
        if a.ndim == 0:
            total = total * a
        else:
            total = total * a[tuple(grids[pos[b]] for b in t.bids)]
    vt = T[VT]
    out = np.zeros(tuple(vt.shape), dtype=complex)
    if len(vt.bids) == 0:
        out[()] = total.sum()
    else:
        np.add.at(out, tuple(grids[pos[b]] for b in vt.bids), total)
    return out


def ref_size(desc_or_stn):
    """(product of all bond dimensions, number of output entries)"""
    stn = desc_or_stn
    dim = {}
    for t in stn.tensors.values():
        for ax, b in enumerate(t.bids):
            dim.setdefault(b, t.shape[ax])
    p = 1
    for b in stn.bonds:
        p *= dim.get(b, 1)
    o = 1
    for d in stn.tensors[VT].shape:
        o *= d
    return p, o


def ref_merge_value(v1, v2, joins):
    """contraction of two dense tensors over the joined axes [(ax1, ax2), ...] (an axis may be
    joined several times: all joined axes carry one summed index); remaining axes of the first
    followed by those of the second"""
    v1, v2 = np.asarray(v1), np.asarray(v2)
    keep1 = [a for a in range(v1.ndim) if a not in {j[0] for j in joins}]
    keep2 = [a for a in range(v2.ndim) if a not in {j[1] for j in joins}]
    out = np.zeros([v1.shape[a] for a in keep1] + [v2.shape[a] for a in keep2], dtype=complex)
    nd = v1.ndim + v2.ndim
    g = np.indices(list(v1.shape) + list(v2.shape)).reshape(nd, -1) if nd else np.zeros((0, 1), dtype=int)
    mask = np.ones(g.shape[1], dtype=bool)
    for a, b in joins:
        mask &= g[a] == g[v1.ndim + b]
    g = g[:, mask]
    vals = v1[tuple(g[:v1.ndim])] if v1.ndim else np.full(g.shape[1], v1[()])
    vals = vals * (v2[tuple(g[v1.ndim:])] if v2.ndim else np.full(g.shape[1], v2[()]))
    idx = tuple([g[a] for a in keep1] + [g[v1.ndim + a] for a in keep2])
    if idx:
        np.add.at(out, idx, vals)
    else:
        out[()] = vals.sum()
    return out


# ----------------------------------------------------------------------------- generator
def rand_data(rng, shape, cplx=False):
    n = int(np.prod(shape)) if len(shape) else 1
    re = [rng.choice([-2, -1, -1, 0, 1, 1, 1, 2, 3]) for _ in range(n)]
    im = [rng.choice([-1, 0, 0, 1, 2]) for _ in range(n)] if cplx else None
    return {"shape": list(shape), "re": re, "im": im}


def gen_net(rng, nt_max=6, open_max=4, cap=60000, ids="random", refprefix="", allow_idle=True, min_t=0, idle_p=0.3):
    """a random consistent network description; returns (desc, feature set)"""
    while True:
        nt = rng.randint(max(min_t, 0), nt_max)
        if nt == 0 and not allow_idle:
            continue
        degs = [rng.randint(0 if nt > 1 else 1, 4) for _ in range(nt)]
        if rng.random() < 0.1 and nt:
            degs[rng.randrange(nt)] = 0                       # a scalar factor
        legs = [(t, a) for t in range(nt) for a in range(degs[t])]
        nopen = rng.randint(0, open_max)
        olegs = [(VT, a) for a in range(nopen)]
        pool = legs + olegs
        rng.shuffle(pool)
        groups = []
        while pool:
            k = rng.choice([2, 2, 2, 2, 3, 3, 4])
            g, pool = pool[:k], pool[k:]
            if len(g) == 1:
                if groups and len(groups[-1]) < 5:
                    groups[-1].append(g[0])
                else:
                    # add one more open leg to close the bond
                    olegs.append((VT, len(olegs)))
                    g.append(olegs[-1])
                    groups.append(g)
            else:
                groups.append(g)
        if any(all(l[0] == VT for l in g) for g in groups) and (not allow_idle or rng.random() > idle_p):
            continue
        dims = [rng.choice([1, 2, 2, 2, 2, 3, 3]) for _ in groups]
        p = 1
        for d in dims:
            p *= d
        o = 1
        for g, d in zip(groups, dims):
            o *= d ** sum(1 for l in g if l[0] == VT)
        if p * max(o, 1) > cap:
            continue
        break
    # identifiers
    if ids == "random":
        tid_pool = [x for x in range(-6, 12) if x != VT]
        bid_pool = list(range(-8, 20))
    else:
        tid_pool = list(range(0, 12))
        bid_pool = list(range(0, 30))
    tids = rng.sample(tid_pool, nt)
    bidl = rng.sample(bid_pool, len(groups))
    nopen = len(olegs)
    shapes = {t: [None] * degs[t] for t in range(nt)}
    bidsd = {t: [None] * degs[t] for t in range(nt)}
    vshape, vbids = [None] * nopen, [None] * nopen
    for g, d, b in zip(groups, dims, bidl):
        for (t, a) in g:
            if t == VT:
                vshape[a], vbids[a] = d, b
            else:
                shapes[t][a], bidsd[t][a] = d, b
    feats = set()
    for g in groups:
        real = [l for l in g if l[0] != VT]
        nop = len(g) - len(real)
        if len(g) >= 3:
            feats.add("hyper")
        if nop >= 2:
            feats.add("shared-open" if real else "idle-wire")
        elif nop and not real:
            feats.add("idle-wire")
        cnt = {}
        for l in real:
            cnt[l[0]] = cnt.get(l[0], 0) + 1
        if any(v >= 2 for v in cnt.values()):
            feats.add("self-trace" if not nop and len(cnt) == 1 else "self-multi")
    pairs = {}
    for g in groups:
        ts = sorted({l[0] for l in g if l[0] != VT})
        for a, b in itertools.combinations(ts, 2):
            pairs[(a, b)] = pairs.get((a, b), 0) + 1
    if any(v >= 2 for v in pairs.values()):
        feats.add("multi-edge")
    # data references (some shared between equal-shaped tensors)
    data, refs_of = {}, {}
    cplx = rng.random() < 0.3
    for t in range(nt):
        same = [u for u in range(t) if shapes[u] == shapes[t]]
        if same and rng.random() < 0.3:
            refs_of[t] = refs_of[rng.choice(same)]
            feats.add("shared-dataref")
        else:
            refs_of[t] = "%sd%d" % (refprefix, t)
            data[refs_of[t]] = rand_data(rng, shapes[t], cplx)
    tl = [[tids[t], shapes[t], bidsd[t], refs_of[t]] for t in range(nt)]
    rng.shuffle(tl)
    tl.insert(rng.randint(0, len(tl)), [VT, vshape, vbids, None])
    if rng.random() < 0.5:
        bonds = None
    else:
        bonds = []
        for g, b in zip(groups, bidl):
            ts = [tids[l[0]] if l[0] != VT else VT for l in g]
            rng.shuffle(ts)
            bonds.append([b, ts])
        rng.shuffle(bonds)
    if any(x < 0 for x in tids) or any(x < 0 for x in bidl):
        feats.add("negative-ids")
    return {"tensors": tl, "bonds": bonds, "data": data}, feats


def gen_open_net(rng, order=None):
    """networks that stress the OPEN-AXIS bookkeeping: 0-2 real tensors; open axes that are alone on a
    bond of a tensor, groups of 2-3 open axes sharing a bond with a tensor leg, and identity wires
    (2-3 open axes on a bond without any tensor) - several of them, every dimension drawn
    independently from {1,2,3}; the logical order of the open axes is a random interleaving, or
    (order='wires-last' / 'wires-first') all identity wires after / before everything else."""
    nt = rng.choice([0, 1, 1, 1, 2, 2])
    groups = []            # (kind, dim, [legs of real tensors], number of open axes)
    legs = {t: 0 for t in range(nt)}
    def newleg(t):
        legs[t] += 1
        return (t, legs[t] - 1)
    for t in range(nt):
        for _ in range(rng.randint(1, 3)):
            m = rng.choice([1, 1, 2, 2, 3])
            groups.append(("real", rng.choice([1, 2, 3]), [newleg(t)], m))
    if nt == 2 and rng.random() < 0.7:
        groups.append(("real", rng.choice([1, 2, 3]), [newleg(0), newleg(1)], rng.choice([0, 0, 1, 2])))
    if nt and rng.random() < 0.3:
        t = rng.randrange(nt)
        groups.append(("real", rng.choice([1, 2, 3]), [newleg(t), newleg(t)], rng.choice([0, 1])))    # self-trace / diagonal
    for _ in range(rng.choice([1, 1, 2, 3]) if nt else rng.choice([1, 2, 3])):
        groups.append(("wire", rng.choice([1, 2, 3]), [], rng.choice([2, 2, 3])))
    bid_pool = rng.sample(range(-8, 20), len(groups))
    tid_pool = rng.sample([x for x in range(-6, 12) if x != VT], nt)
    # logical order of the open axes
    opens = [(gi, g[0]) for gi, g in enumerate(groups) for _ in range(g[3])]
    rng.shuffle(opens)
    if order == "wires-last":
        opens = [o for o in opens if o[1] != "wire"] + [o for o in opens if o[1] == "wire"]
    elif order == "wires-first":
        opens = [o for o in opens if o[1] == "wire"] + [o for o in opens if o[1] != "wire"]
    shapes = {t: [None] * legs[t] for t in range(nt)}
    bids = {t: [None] * legs[t] for t in range(nt)}
    for gi, (kind, d, lg, m) in enumerate(groups):
        for (t, a) in lg:
            shapes[t][a], bids[t][a] = d, bid_pool[gi]
    vshape = [groups[gi][1] for gi, _ in opens]
    vbids = [bid_pool[gi] for gi, _ in opens]
    data = {}
    tl = []
    for t in range(nt):
        data["o%d" % t] = rand_data(rng, shapes[t], rng.random() < 0.2)
        tl.append([tid_pool[t], shapes[t], bids[t], "o%d" % t])
    rng.shuffle(tl)
    tl.insert(rng.randint(0, len(tl)), [VT, vshape, vbids, None])
    feats = {"open-structure", "idle-wire"}
    if any(g[0] == "real" and g[3] >= 2 for g in groups):
        feats.add("shared-open")
    if any(d == 1 for _, d, _, _ in groups):
        feats.add("dimension-1")
    # does an identity wire come after a repeated open bond?
    seen, rep = set(), False
    for gi, kind in opens:
        if kind == "wire" and rep:
            feats.add("wire-after-repeated-open-bond")
        if gi in seen:
            rep = True
        seen.add(gi)
    o = b = 1
    for g in groups:
        o *= g[1] ** g[3]          # entries of the dense result
        b *= g[1]                  # terms of the defining sum per entry
    if o * b > 2500:
        return gen_open_net(rng, order)
    return {"tensors": tl, "bonds": None, "data": data}, feats


def all_scaffolds(tids):
    """every binary tree over the leaves, both child orders"""
    tids = list(tids)
    if len(tids) == 1:
        return [tids[0]]
    out = []
    n = len(tids)
    for mask in range(1, 2 ** n - 1):
        A = [tids[i] for i in range(n) if mask >> i & 1]
        Bs = [tids[i] for i in range(n) if not mask >> i & 1]
        for a in all_scaffolds(A):
            for b in all_scaffolds(Bs):
                out.append([a, b])
    return out


def rand_scaffold(rng, tids):
    tids = list(tids)
    rng.shuffle(tids)
    forest = tids
    while len(forest) > 1:
        i, j = rng.sample(range(len(forest)), 2)
        a, b = forest[i], forest[j]
        forest = [x for k, x in enumerate(forest) if k not in (i, j)] + [[a, b]]
    return forest[0]


def tree_nodes(node, path=()):
    yield path, node
    if not node.is_leaf:
        yield from tree_nodes(node.children[0], path + (0,))
        yield from tree_nodes(node.children[1], path + (1,))


def to_jsonable(x):
    if isinstance(x, (np.integer,)):
        return int(x)
    if isinstance(x, (list, tuple)):
        return [to_jsonable(y) for y in x]
    if isinstance(x, dict):
        return {str(k): to_jsonable(v) for k, v in x.items()}
    return x


# ============================================================================= translator
# Fail-closed Python-ast -> Gallina translation of the CLOSED-FORM parts of
# /repo/src/qib/tensor_network/symbolic_network.py (the loops themselves stay hand-modelled and
# correspondence-tied).  `generate()` returns the text of build/<ID>/GenTN.v; coq/props/C07.v and
# C08.v prove these regenerated definitions equal to / sufficient for what the model uses, so the
# theorems are re-checked against what the source says on every run.
#   translated (structurally):  merge's fresh-id arithmetic and join validation (range, dimension, final test of the
#       leg-count refusal), del_axes,
#       build_contraction_tree's first intermediate id and bump rule, as_einsum's sort key and
#       axes_map rule, every `return False` condition of is_consistent, the preconditions of
#       rename_tensor (public guard + delegation) / _rename_tensor / rename_bond / SymbolicBond /
#       SymbolicTensor.transpose (normalisation of negative axes, permutation test, selection)
#   pinned (normalised source text must equal the expected text, else Unsupported):
#       the loop skeleton of is_consistent, the pair-repetition test, the first-occurrence rule,
#       merge's leg-count refusal (MERGE_LEGS_GUARD; model TNModel.joins_starve)
import ast as _ast
import pyx as _pyx

SN_PATH = "src/qib/tensor_network/symbolic_network.py"


class _Unsupported(_pyx.Unsupported):
    pass


def _u(node):
    return _ast.unparse(node)


class X:
    """typed expression translator.  env: normalised python source of a sub-expression -> (coq, type).
    types: Z nat int(literal) bool zlist nlist tdict bdict tensor bond"""

    def __init__(self, env, nonneg=()):
        self.env = dict(env)
        # source texts of integer expressions KNOWN to be >= 0 where they are used as an index (established by
        # the caller from the guards in front); only these may index a list while being of type Z
        self.nonneg = frozenset(nonneg)

    def sub(self, **more):
        e = dict(self.env)
        e.update(more)
        return X(e, self.nonneg)

    # ---- coercions
    @staticmethod
    def lit(v, ty):
        if ty == "nat":
            if v < 0:
                raise _Unsupported("negative literal %d where a nat is needed" % v)
            return "%d%%nat" % v
        return "%d%%Z" % v if v >= 0 else "(%d)%%Z" % v

    def num2(self, a, b):
        """translate two numeric operands to a common type"""
        (ca, ta), (cb, tb) = a, b
        if ta == "int" and tb == "int":
            return self.lit(ca, "Z"), self.lit(cb, "Z"), "Z"
        if ta == "int":
            return self.lit(ca, tb), cb, tb
        if tb == "int":
            return ca, self.lit(cb, ta), ta
        if ta == tb and ta in ("Z", "nat"):
            return ca, cb, ta
        if {ta, tb} == {"Z", "nat"}:
            za = ca if ta == "Z" else "(Z.of_nat %s)" % ca
            zb = cb if tb == "Z" else "(Z.of_nat %s)" % cb
            return za, zb, "Z"
        raise _Unsupported("numeric operands of types %s, %s" % (ta, tb))

    def fix(self, r, want=None):
        c, t = r
        if t == "int":
            return self.lit(c, want or "Z"), (want or "Z")
        return c, t

    # ---- expressions
    def e(self, n):
        key = _u(n)
        if key in self.env:
            return self.env[key]
        if isinstance(n, _ast.Constant) and isinstance(n.value, bool):
            return ("true" if n.value else "false"), "bool"
        if isinstance(n, _ast.Constant) and isinstance(n.value, int):
            return n.value, "int"
        if isinstance(n, _ast.UnaryOp) and isinstance(n.op, _ast.USub) and isinstance(n.operand, _ast.Constant) \
                and isinstance(n.operand.value, int):
            return -n.operand.value, "int"
        if isinstance(n, _ast.UnaryOp) and isinstance(n.op, _ast.Not):
            c, t = self.e(n.operand)
            if t in ("zlist", "nlist"):       # `not l` / `if l:` truthiness of a list
                return "(match %s with [] => true | _ => false end)" % c, "bool"
            if t != "bool":
                raise _Unsupported("not of %s" % t)
            return "(negb %s)" % c, "bool"
        if isinstance(n, _ast.BoolOp):
            parts = [self.e(v) for v in n.values]
            if any(t != "bool" for _, t in parts):
                raise _Unsupported("boolean operator on non-bool: " + key)
            op = " && " if isinstance(n.op, _ast.And) else " || "
            return "(" + op.join(c for c, _ in parts) + ")", "bool"
        if isinstance(n, _ast.BinOp) and isinstance(n.op, (_ast.Add, _ast.Sub, _ast.Mult)):
            a, b, t = self.num2(self.e(n.left), self.e(n.right))
            if isinstance(n.op, _ast.Sub) and t == "nat":
                raise _Unsupported("subtraction on nat: " + key)
            o = {"Add": "+", "Sub": "-", "Mult": "*"}[type(n.op).__name__]
            return "(%s %s %s)%%%s" % (a, o, b, t), t
        if isinstance(n, _ast.BinOp) and isinstance(n.op, _ast.BitOr):
            (a, ta), (b, tb) = self.e(n.left), self.e(n.right)
            if ta == tb == "zlist":
                return "(%s ++ %s)" % (a, b), "zlist"   # union of key sets, used under max / membership only
            raise _Unsupported("| on %s, %s" % (ta, tb))
        if isinstance(n, _ast.IfExp):
            c, tc = self.e(n.test)
            a, b, t = self.num2(self.e(n.body), self.e(n.orelse))
            if tc != "bool":
                raise _Unsupported("condition of type " + tc)
            return "(if %s then %s else %s)" % (c, a, b), t
        if isinstance(n, _ast.Compare) and len(n.ops) == 1:
            return self.compare(n.left, n.ops[0], n.comparators[0], key)
        if isinstance(n, _ast.Attribute):
            c, t = self.e(n.value)
            tab = {("tensor", "tid"): ("t_id", "Z"), ("tensor", "bids"): ("t_bids", "zlist"),
                   ("tensor", "shape"): ("t_shape", "nlist"), ("bond", "bid"): ("b_id", "Z"),
                   ("bond", "tids"): ("b_tids", "zlist")}
            if (t, n.attr) in tab:
                f, ty = tab[(t, n.attr)]
                return "(%s %s)" % (f, c), ty
            if (t, n.attr) == ("tensor", "ndim"):
                return "(length (t_shape %s))" % c, "nat"
            raise _Unsupported("attribute %s of %s" % (n.attr, t))
        if isinstance(n, _ast.Subscript):
            c, t = self.e(n.value)
            i, ti = self.fix(self.e(n.slice), "nat")
            if ti == "Z" and _u(n.slice) in self.nonneg:
                # Python would count a negative index from the end; the caller has established i >= 0
                i, ti = "(Z.to_nat %s)" % i, "nat"
            if ti != "nat":
                raise _Unsupported("index of type %s in %s" % (ti, key))
            if t == "zlist":
                return "(nth %s %s 0%%Z)" % (i, c), "Z"
            if t == "nlist":
                return "(nth %s %s 0%%nat)" % (i, c), "nat"
            raise _Unsupported("subscript of %s" % t)
        if isinstance(n, _ast.Call):
            return self.call(n, key)
        if isinstance(n, _ast.ListComp) and len(n.generators) == 1 and not n.generators[0].is_async:
            g = n.generators[0]
            if not isinstance(g.target, _ast.Name):
                raise _Unsupported("comprehension target " + _u(g.target))
            src, ts = self.e(g.iter)
            if ts not in ("nlist", "zlist"):
                raise _Unsupported("comprehension over " + ts)
            et = "nat" if ts == "nlist" else "Z"
            v = g.target.id
            inner = self.sub(**{v: (v, et)})
            cur = src
            for cond in g.ifs:
                cc, tc = inner.e(cond)
                if tc != "bool":
                    raise _Unsupported("filter of type " + tc)
                cur = "(filter (fun %s => %s) %s)" % (v, cc, cur)
            body, tb = inner.fix(inner.e(n.elt))
            if _u(n.elt) == v:
                return cur, ts
            if tb not in ("nat", "Z"):
                raise _Unsupported("comprehension element of type " + tb)
            return "(map (fun %s => %s) %s)" % (v, body, cur), ("nlist" if tb == "nat" else "zlist")
        raise _Unsupported("expression " + key)

    def compare(self, l, op, r, key):
        L, R = self.e(l), self.e(r)
        if isinstance(op, (_ast.In, _ast.NotIn)):
            (a, ta), (b, tb) = L, R
            if tb == "zlist":
                a, ta = self.fix(L, "Z")
                c = "(zmem %s %s)" % (a, b)
            elif tb == "nlist":
                a, ta = self.fix(L, "nat")
                c = "(nmem %s %s)" % (a, b)
            elif tb in ("tdict", "bdict"):
                a, ta = self.fix(L, "Z")
                c = "(dhas %s %s)" % (a, b)
            else:
                raise _Unsupported("membership in " + tb)
            if (tb == "nlist") != (ta == "nat"):
                raise _Unsupported("membership of %s in %s" % (ta, tb))
            return (c if isinstance(op, _ast.In) else "(negb %s)" % c), "bool"
        if L[1] in ("zlist", "nlist") or R[1] in ("zlist", "nlist"):
            # equality of integer lists (e.g. sorted(axes) != list(range(ndim)))
            if not isinstance(op, (_ast.Eq, _ast.NotEq)) or {L[1], R[1]} - {"zlist", "nlist"}:
                raise _Unsupported("comparison of lists: " + key)
            za = L[0] if L[1] == "zlist" else "(map Z.of_nat %s)" % L[0]
            zb = R[0] if R[1] == "zlist" else "(map Z.of_nat %s)" % R[0]
            c = "(zlist_eqb %s %s)" % (za, zb)
            return (c if isinstance(op, _ast.Eq) else "(negb %s)" % c), "bool"
        a, b, t = self.num2(L, R)
        m = "Z" if t == "Z" else "Nat"
        tab = {"Eq": "%s.eqb %s %s", "Lt": "%s.ltb %s %s", "LtE": "%s.leb %s %s"}
        nm = type(op).__name__
        if nm in tab:
            return "(" + tab[nm] % (m, a, b) + ")", "bool"
        if nm == "NotEq":
            return "(negb (%s.eqb %s %s))" % (m, a, b), "bool"
        if nm == "Gt":
            return "(%s.ltb %s %s)" % (m, b, a), "bool"
        if nm == "GtE":
            return "(%s.leb %s %s)" % (m, b, a), "bool"
        raise _Unsupported("comparison " + key)

    def call(self, n, key):
        f = n.func
        if isinstance(f, _ast.Name) and f.id == "len" and len(n.args) == 1 and not n.keywords:
            c, t = self.e(n.args[0])
            if t in ("zlist", "nlist"):
                return "(length %s)" % c, "nat"
            raise _Unsupported("len of " + t)
        if isinstance(f, _ast.Name) and f.id == "max":
            if len(n.args) == 1 and len(n.keywords) == 1 and n.keywords[0].arg == "default":
                c, t = self.e(n.args[0])
                d, td = self.e(n.keywords[0].value)
                if t == "zlist" and td == "int":
                    return "(zmaxd %s %s)" % (self.lit(d, "Z"), c), "Z"
                raise _Unsupported("max over %s default %s" % (t, td))
            if len(n.args) == 2 and not n.keywords:
                a, b, t = self.num2(self.e(n.args[0]), self.e(n.args[1]))
                return "(%s.max %s %s)" % ("Z" if t == "Z" else "Nat", a, b), t
            raise _Unsupported("max call " + key)
        if isinstance(f, _ast.Name) and f.id == "range" and len(n.args) == 1:
            c, t = self.fix(self.e(n.args[0]), "nat")
            if t != "nat":
                raise _Unsupported("range of " + t)
            return "(seq 0 %s)" % c, "nlist"
        if isinstance(f, _ast.Name) and f.id in ("list", "tuple") and len(n.args) == 1:
            c, t = self.e(n.args[0])
            if t in ("zlist", "nlist"):
                return c, t
            raise _Unsupported("list() of " + t)
        if isinstance(f, _ast.Name) and f.id == "sorted" and len(n.args) == 1 and not n.keywords:
            c, t = self.e(n.args[0])
            if t == "zlist":
                return "(zsort %s)" % c, "zlist"
            raise _Unsupported("sorted of " + t)
        if isinstance(f, _ast.Name) and f.id == "set" and len(n.args) == 1:
            c, t = self.e(n.args[0])
            if t in ("zlist", "nlist"):
                return "(%s %s)" % ("zdedup" if t == "zlist" else "ndedup", c), t
            raise _Unsupported("set of " + t)
        if isinstance(f, _ast.Name) and f.id == "all" and len(n.args) == 1 and isinstance(n.args[0], _ast.GeneratorExp):
            g = n.args[0]
            if len(g.generators) != 1 or g.generators[0].ifs or not isinstance(g.generators[0].target, _ast.Name):
                raise _Unsupported("generator " + key)
            src, ts = self.e(g.generators[0].iter)
            if ts not in ("nlist", "zlist"):
                raise _Unsupported("all over " + ts)
            v = g.generators[0].target.id
            body, tb = self.sub(**{v: (v, "nat" if ts == "nlist" else "Z")}).e(g.elt)
            if tb != "bool":
                raise _Unsupported("all of " + tb)
            return "(forallb (fun %s => %s) %s)" % (v, body, src), "bool"
        if isinstance(f, _ast.Attribute) and f.attr == "count" and len(n.args) == 1:
            c, t = self.e(f.value)
            a, ta = self.fix(self.e(n.args[0]), "Z")
            if t == "zlist" and ta == "Z":
                return "(zcount %s %s)" % (a, c), "nat"
            raise _Unsupported("count on " + t)
        if isinstance(f, _ast.Attribute) and f.attr == "keys" and not n.args:
            c, t = self.e(f.value)
            if t in ("tdict", "bdict"):
                return "(dkeys %s)" % c, "zlist"
            raise _Unsupported("keys of " + t)
        if isinstance(f, _ast.Attribute) and f.attr == "index" and len(n.args) == 1:
            c, t = self.e(f.value)
            a, ta = self.fix(self.e(n.args[0]), "nat")
            if t == "nlist" and ta == "nat":
                return "(nindex %s %s)" % (a, c), "onat"
            raise _Unsupported("index on " + t)
        raise _Unsupported("call " + key)


# ----------------------------------------------------------------------------- locating statements
def _fn(cls, name):
    return _pyx.find_func(cls, name)


def _assigns(fn, target):
    return [n for n in _ast.walk(fn) if isinstance(n, _ast.Assign) and len(n.targets) == 1 and _u(n.targets[0]) == target]


def _one(lst, what):
    if len(lst) != 1:
        raise _Unsupported("expected exactly one %s, found %d" % (what, len(lst)))
    return lst[0]


def _raises_value_error(ifnode):
    return (len(ifnode.body) == 1 and isinstance(ifnode.body[0], _ast.Raise) and not ifnode.orelse
            and isinstance(ifnode.body[0].exc, _ast.Call) and _u(ifnode.body[0].exc.func) == "ValueError")


def _guards(fn):
    """the `if c: raise ValueError(...)` statements of a function, in source order"""
    out = []

    def walk(stmts):
        for st in stmts:
            if isinstance(st, _ast.If) and _raises_value_error(st):
                out.append(st)
            elif isinstance(st, (_ast.For, _ast.While, _ast.If, _ast.With, _ast.Try)):
                walk(st.body)
                walk(getattr(st, "orelse", []))
    walk(_pyx.body_nodoc(fn))
    return out


def _defn(name, params, body, rty):
    return "Definition %s %s : %s :=\n  %s.\n" % (name, " ".join("(%s : %s)" % p for p in params), rty, body)


def _expect(cond, msg):
    if not cond:
        raise _Unsupported(msg)


# merge's refusal of joins that would leave a (fused) bond with fewer than two legs
# (proposed_fixes/C08-merge-refuses-joins-that-starve-a-bond.diff): pinned; model = TNModel.joins_starve
MERGE_LEGS_GUARD = """
nets = (self, other)
open_bids = {(i, joinax[i]): (i, nets[i].tensors[-1].bids[joinax[i]]) for joinax in join_axes for i in (0, 1)}
fused_bids = dict(open_bids)
for joinax in join_axes:
    bid0, bid1 = fused_bids[0, joinax[0]], fused_bids[1, joinax[1]]
    fused_bids = {ax: (bid0 if bid == bid1 else bid) for ax, bid in fused_bids.items()}
for fbid in set(fused_bids.values()):
    axes = [ax for ax in fused_bids if fused_bids[ax] == fbid]
    num_legs = sum(len(nets[i].bonds[bid].tids) for i, bid in set(open_bids[ax] for ax in axes))
    if num_legs - len(axes) < 2:
        raise ValueError("...")
"""


IC_SKELETON = [
    "if:0", "for k, tensor in self.tensors.items()", "if:1", "for bid in tensor.bids", "if:2", "bond = self.bonds[bid]", "if:3",
    "end", "end",
    "for k, bond in self.bonds.items()", "if:4", "if:5", "dims = []", "bond_axes = self.get_bond_axes(bond.bid)",
    "for i in range(len(bond.tids))", "if:6", "end",
    "for tid, ax in zip(bond.tids, bond_axes)", "if:7", "tensor = self.tensors[tid]", "if:8", "if:9",
    "dims.append(tensor.shape[ax])", "end",
    "if dims", "if:10", "end", "end", "return True"]


def _ic_skeleton(fn):
    """statement skeleton of is_consistent; the tests of the `... return False` ifs are collected
    separately (they are translated), `if verbose: print(...)` is dropped"""
    sk, conds = [], []

    def is_ret_false(st):
        if not isinstance(st, _ast.If) or st.orelse:
            return False
        body = [b for b in st.body if not (isinstance(b, _ast.If) and _u(b.test) == "verbose")]
        return len(body) == 1 and isinstance(body[0], _ast.Return) and _u(body[0]) == "return False" \
            and all(isinstance(b, _ast.Return) or (len(b.body) == 1 and _u(b.body[0]).startswith("print(")) for b in st.body)

    def walk(stmts):
        for st in stmts:
            if is_ret_false(st):
                sk.append("if:%d" % len(conds))
                conds.append(st.test)
            elif isinstance(st, _ast.For):
                _expect(not st.orelse, "for-else")
                sk.append("for %s in %s" % (_u(st.target).strip("()"), _u(st.iter)))
                walk(st.body)
                sk.append("end")
            elif isinstance(st, _ast.If):
                _expect(not st.orelse, "if-else in is_consistent")
                sk.append("if " + _u(st.test))
                walk(st.body)
                sk.append("end")
            elif isinstance(st, (_ast.Assign, _ast.Expr, _ast.Return)):
                sk.append(_u(st))
            else:
                raise _Unsupported("statement in is_consistent: " + _u(st)[:60])
    walk(_pyx.body_nodoc(fn))
    return sk, conds


def generate():
    tree = _pyx.parse(SN_PATH)
    STN = _pyx.find_class(tree, "SymbolicTensorNetwork")
    ST = _pyx.find_class(tree, "SymbolicTensor")
    SB = _pyx.find_class(tree, "SymbolicBond")
    out = ["(* generated by gen/tn.py from %s - do not edit *)" % SN_PATH,
           "From Qib Require Import TN.TNGenBase.", "Local Open Scope Z_scope.", ""]

    # ------------------------------------------------------------------ merge
    mg = _fn(STN, "merge")
    env = {"self.tensors": ("T", "tdict"), "other.tensors": ("To", "tdict"),
           "self.bonds": ("B", "bdict"), "other.bonds": ("Bo", "bdict")}
    x = X(env)
    c, t = x.e(_one(_assigns(mg, "next_tid"), "assignment to next_tid in merge").value)
    _expect(t == "Z", "next_tid not an integer")
    out.append(_defn("gen_merge_next_tid", [("T To", "dict tensor")], c, "Z"))
    c, t = x.e(_one(_assigns(mg, "next_bid"), "assignment to next_bid in merge").value)
    _expect(t == "Z", "next_bid not an integer")
    out.append(_defn("gen_merge_next_bid", [("B Bo", "dict bond")], c, "Z"))
    # tmp_open_tid is assigned twice: the initial constant and inside the relabelling loop
    asg = _assigns(mg, "tmp_open_tid")
    _expect(len(asg) == 2, "tmp_open_tid must be assigned exactly twice in merge")
    c0, t0 = x.fix(x.e(asg[0].value), "Z")
    _expect(t0 == "Z" and _u(asg[1].value) == "next_tid", "tmp_open_tid assignments")
    out.append(_defn("gen_merge_tmp_init", [], c0, "Z"))
    # the two relabelling loops: rename(id, next); [if tid == -1: tmp = next]; next += 1
    loops = [n for n in mg.body if isinstance(n, _ast.For) and _u(n.iter) in ("shared_tids", "shared_bids")]
    _expect(len(loops) == 2, "relabelling loops of merge")
    for lp, (it, var, ren, nxt) in zip(loops, [("shared_tids", "tid", "_rename_tensor", "next_tid"), ("shared_bids", "bid", "rename_bond", "next_bid")]):
        _expect(_u(lp.iter) == it and _u(lp.target) == var, "loop header " + _u(lp.iter))
        body = lp.body
        _expect(_u(body[0]) == "other.%s(%s, %s)" % (ren, var, nxt), "first statement of the %s loop must be other.%s(...): %s" % (it, ren, _u(body[0])))
        last = body[-1]
        _expect(isinstance(last, _ast.AugAssign) and _u(last.target) == nxt and isinstance(last.op, _ast.Add), "increment of " + nxt)
        inc, ti = X({nxt: ("next", "Z")}).e(_ast.BinOp(left=_ast.Name(id=nxt), op=_ast.Add(), right=last.value))
        out.append(_defn("gen_merge_%s_step" % var, [("next", "Z")], inc, "Z"))
        if var == "tid":
            _expect(len(body) == 3 and isinstance(body[1], _ast.If) and not body[1].orelse and len(body[1].body) == 1
                    and _u(body[1].body[0]) == "tmp_open_tid = next_tid", "virtual-tensor bookkeeping in the shared_tids loop")
            cv, tv = X({"tid": ("tid", "Z")}).e(body[1].test)
            out.append(_defn("gen_merge_is_virtual", [("tid", "Z")], cv, "bool"))
        else:
            _expect(len(body) == 2, "shared_bids loop body")
    _expect(_u(_one(_assigns(mg, "shared_tids"), "shared_tids").value) == "self.tensors.keys() & other.tensors.keys()", "shared_tids")
    _expect(_u(_one(_assigns(mg, "shared_bids"), "shared_bids").value) == "self.bonds.keys() & other.bonds.keys()", "shared_bids")
    # join validation: for joinax in join_axes: if c: raise ValueError ...
    # (range of the first component, range of the second, equal dimensions) - all inside ONE loop over
    # join_axes that precedes every statement changing state, in this order (the third test indexes
    # shape with joinax[k], which is only the k-th entry because the tests in front have excluded k < 0)
    gs = _guards(mg)
    _expect(len(gs) == 4, "merge must have exactly four ValueError guards (two range tests, the dimension test, the test that every "
                          "fused bond keeps two legs), found %d" % len(gs))
    jloops = [st for st in _pyx.body_nodoc(mg) if isinstance(st, _ast.For) and _u(st.iter) == "join_axes" and _u(st.target) == "joinax"]
    _expect(len(jloops) == 3, "merge must loop three times over join_axes (validation, fusing the labelled bonds for the leg count, joining)")
    _expect(list(jloops[0].body) == gs[:3], "the validation loop of merge must consist of exactly the first three guards")
    mbody = _pyx.body_nodoc(mg)
    first_change = [i for i, st in enumerate(mbody) if not (isinstance(st, _ast.If) and _u(st.test) == "join_axes is None")][0]
    _expect(mbody[first_change] is jloops[0], "the validation loop must be the first statement of merge after the default for join_axes")
    # the leg-count refusal: PINNED statement by statement (ast equality with MERGE_LEGS_GUARD), directly behind the
    # validation loop and in front of every statement that changes state; only its final test is translated
    want = _ast.parse(MERGE_LEGS_GUARD).body
    got = mbody[first_change + 1: first_change + 1 + len(want)]
    _expect(len(got) == len(want), "merge ends before the leg-count refusal")
    for k, (g, w) in enumerate(zip(got, want)):
        if k == len(want) - 1:
            _expect(isinstance(g, _ast.For) and not g.orelse and _ast.dump(g.target) == _ast.dump(w.target) and _ast.dump(g.iter) == _ast.dump(w.iter)
                    and len(g.body) == len(w.body) and all(_ast.dump(a) == _ast.dump(b) for a, b in zip(g.body[:-1], w.body[:-1]))
                    and g.body[-1] is gs[3],
                    "the loop over the fused bonds in merge's leg-count refusal changed: " + _u(g)[:300])
        else:
            _expect(_ast.dump(g) == _ast.dump(w), "statement %d of merge's leg-count refusal changed: got `%s`, expected `%s`"
                    % (k, _u(g)[:200], _u(w)[:200]))
    _expect(got[3] is jloops[1], "the second loop over join_axes must be the fusing loop of the leg-count refusal")
    _expect(_u(mbody[first_change + 1 + len(want)]) == "num_open_axes_orig = self.num_open_axes",
            "the leg-count refusal must be followed by `num_open_axes_orig = self.num_open_axes`: " + _u(mbody[first_change + 1 + len(want)])[:120])
    c, t = X({"num_legs": ("legs", "Z"), "len(axes)": ("naxes", "Z")}).e(gs[3].test)
    _expect(t == "bool", "leg-count guard type")
    out.append("(* legs = number of legs of the bonds fused into one, naxes = number of its to-be removed open legs *)\n" +
               _defn("gen_merge_class_refused", [("legs naxes", "Z")], c, "bool"))
    for k in (0, 1):
        tst = gs[k].test
        _expect(isinstance(tst, _ast.BoolOp) and isinstance(tst.op, _ast.Or) and _u(tst.values[0]) == "joinax[%d] < 0" % k,
                "range test %d of merge does not start with joinax[%d] < 0: %s" % (k, k, _u(tst)))
    jenv = {"joinax[0]": ("j0", "Z"), "joinax[1]": ("j1", "Z"), "self.num_open_axes": ("n1", "nat"), "other.num_open_axes": ("n2", "nat"),
            "self.shape": ("s1", "nlist"), "other.shape": ("s2", "nlist")}
    cs = []
    for k, g in enumerate(gs[:3]):
        c, t = X(jenv, nonneg=("joinax[0]", "joinax[1]") if k == 2 else ()).e(g.test)
        _expect(t == "bool", "guard type")
        cs.append(c)
    out.append(_defn("gen_merge_join_refused", [("j0 j1", "Z"), ("n1 n2", "nat"), ("s1 s2", "list nat")], "(%s || %s || %s)" % tuple(cs), "bool"))
    # del_axes
    da = _one(_assigns(mg, "del_axes"), "del_axes")
    c, t = X({"tensor_open_axes.ndim": ("ndim", "nat"), "axes_map": ("amap", "nlist")}).e(da.value)
    _expect(t == "nlist", "del_axes type")
    out.append(_defn("gen_merge_del_axes", [("ndim", "nat"), ("amap", "list nat")], c, "list nat"))
    # the assert inside the deletion loop
    asserts = [n for n in _ast.walk(mg) if isinstance(n, _ast.Assert)]
    a = _one(asserts, "assert in merge")
    c, t = X({"bond.tids": ("tids", "zlist")}).e(a.test)
    out.append(_defn("gen_merge_bond_still_ok", [("tids", "list Z")], c, "bool"))
    # final selection of the kept open axes
    for attr, ty, d in (("shape", "nlist", "list nat"), ("bids", "zlist", "list Z")):
        asg = _one(_assigns(mg, "tensor_open_axes." + attr), "tensor_open_axes." + attr)
        v = asg.value
        if isinstance(v, _ast.Call) and _u(v.func) == "tuple" and len(v.args) == 1 and isinstance(v.args[0], _ast.GeneratorExp):
            v = _ast.ListComp(elt=v.args[0].elt, generators=v.args[0].generators)
        c, t = X({"tensor_open_axes." + attr: ("l", ty), "axes_map": ("amap", "nlist")}).e(v)
        _expect(t == ty, "kept " + attr)
        out.append(_defn("gen_merge_keep_" + attr, [("l", d), ("amap", "list nat")], c, d))

    # ------------------------------------------------------------------ renames, bond, transpose: preconditions
    for fname, gname, a, b, dn, dty in (("_rename_tensor", "rename_tensor_priv", "tid_cur", "tid_new", "self.tensors", "tdict"),
                                        ("rename_bond", "rename_bond", "bid_cur", "bid_new", "self.bonds", "bdict")):
        gs = _guards(_fn(STN, fname))
        _expect(len(gs) == 2, fname + " guards")
        xx = X({a: ("a", "Z"), b: ("c", "Z"), dn: ("D", dty)})
        cs = [xx.e(g.test) for g in gs]
        _expect(all(t == "bool" for _, t in cs), fname + " guard types")
        out.append(_defn("gen_%s_refused" % gname, [("a c", "Z"), ("D", "dict %s" % ("tensor" if dty == "tdict" else "bond"))],
                         "(%s || %s)" % (cs[0][0], cs[1][0]), "bool"))
    # the public rename_tensor: one guard (the virtual tensor), then the private worker - nothing else
    rt = _pyx.body_nodoc(_fn(STN, "rename_tensor"))
    _expect(len(rt) == 2 and isinstance(rt[0], _ast.If) and _raises_value_error(rt[0])
            and _u(rt[1]) == "self._rename_tensor(tid_cur, tid_new)",
            "rename_tensor is not `if <guard>: raise ValueError; self._rename_tensor(tid_cur, tid_new)`")
    c, t = X({"tid_cur": ("a", "Z"), "tid_new": ("c", "Z")}).e(rt[0].test)
    _expect(t == "bool", "rename_tensor guard type")
    out.append(_defn("gen_rename_tensor_refused", [("a c", "Z")], c, "bool"))
    g = _one(_guards(_fn(SB, "__init__")), "SymbolicBond guard")
    c, t = X({"tids": ("tids", "zlist")}).e(g.test)
    out.append(_defn("gen_bond_refused", [("tids", "list Z")], c, "bool"))
    c, t = X({"tids": ("tids", "zlist")}).e(_one(_assigns(_fn(SB, "__init__"), "self.tids"), "self.tids").value)
    _expect(t == "zlist", "SymbolicBond.tids")
    out.append(_defn("gen_bond_tids", [("tids", "list Z")], c, "list Z"))
    # SymbolicTensor.transpose: [default for axes=None]; axes = <normalisation>; if <guard>: raise ValueError;
    # self.shape = ...; self.bids = ...; return self      - in this order, nothing else
    tr = _fn(ST, "transpose")
    tb = _pyx.body_nodoc(tr)
    _expect(len(tb) == 6 and isinstance(tb[0], _ast.If) and _u(tb[0].test) == "axes is None" and not tb[0].orelse
            and [_u(x) for x in tb[0].body] == ["axes = list(reversed(range(self.ndim)))"]
            and isinstance(tb[1], _ast.Assign) and _u(tb[1].targets[0]) == "axes"
            and isinstance(tb[2], _ast.If) and _raises_value_error(tb[2])
            and isinstance(tb[3], _ast.Assign) and _u(tb[3].targets[0]) == "self.shape"
            and isinstance(tb[4], _ast.Assign) and _u(tb[4].targets[0]) == "self.bids"
            and _u(tb[5]) == "return self",
            "statement skeleton of SymbolicTensor.transpose changed: " + " | ".join(_u(x).split("\n")[0] for x in tb))
    tx = X({"axes": ("axes", "zlist"), "self.ndim": ("ndim", "nat")})
    c, t = tx.e(tb[1].value)
    _expect(t == "zlist", "normalised axes of transpose")
    out.append(_defn("gen_transpose_norm", [("ndim", "nat"), ("axes", "list Z")], c, "list Z"))
    c, t = tx.e(tb[2].test)
    _expect(t == "bool", "transpose guard type")
    out.append("(* the guard reads the NORMALISED axes *)\n" +
               _defn("gen_transpose_refused", [("ndim", "nat"), ("axes0", "list Z")],
                     "let axes := gen_transpose_norm ndim axes0 in %s" % c, "bool"))
    for st, attr, ty, d in ((tb[3], "shape", "nlist", "list nat"), (tb[4], "bids", "zlist", "list Z")):
        v = st.value
        if isinstance(v, _ast.Call) and _u(v.func) == "tuple" and len(v.args) == 1 and isinstance(v.args[0], _ast.GeneratorExp):
            v = _ast.ListComp(elt=v.args[0].elt, generators=v.args[0].generators)
        _expect(isinstance(v, _ast.ListComp) and len(v.generators) == 1 and _u(v.generators[0].target) == "ax"
                and _u(v.generators[0].iter) == "axes", "transposed %s is not a comprehension over axes" % attr)
        # behind the guard every entry of (the normalised) axes lies in range(ndim): ax >= 0
        c, t = X({"self." + attr: ("l", ty), "axes": ("axes", "zlist")}, nonneg=("ax",)).e(v)
        _expect(t == ty, "transposed " + attr)
        out.append(_defn("gen_transpose_" + attr, [("l", d), ("axes", "list Z")], c, d))

    # ------------------------------------------------------------------ contraction tree ids
    bt = _fn(STN, "build_contraction_tree")
    c, t = X({"self.tensors": ("T", "tdict")}).e(_one(_assigns(bt, "max_tid"), "max_tid").value)
    ret = _one([n for n in bt.body if isinstance(n, _ast.Return)], "return of build_contraction_tree")
    _expect(isinstance(ret.value, _ast.Call) and _u(ret.value.func) == "self._build_contraction_tree" and len(ret.value.args) == 2
            and _u(ret.value.args[0]) == "scaffold", "build_contraction_tree return")
    c2, t2 = X({"max_tid": ("(%s)" % c, "Z")}).e(ret.value.args[1])
    out.append(_defn("gen_tree_first_id", [("T", "dict tensor")], c2, "Z"))
    rb = _fn(STN, "_build_contraction_tree")
    bumps = [n for n in _ast.walk(rb) if isinstance(n, _ast.If) and _u(n.test) in ("nL.tid >= next_tid", "nR.tid >= next_tid")]
    _expect(len(bumps) == 2, "id bump rule of _build_contraction_tree")
    forms = set()
    for b in bumps:
        _expect(len(b.body) == 1 and not b.orelse and isinstance(b.body[0], _ast.Assign) and _u(b.body[0].targets[0]) == "next_tid", "bump body")
        who = _u(b.test).split(".")[0]
        cc, _ = X({who + ".tid": ("tid", "Z"), "next_tid": ("next", "Z")}).e(
            _ast.IfExp(test=b.test, body=b.body[0].value, orelse=_ast.Name(id="next_tid")))
        forms.add(cc)
    _expect(len(forms) == 1, "left and right bump rules differ")
    out.append(_defn("gen_tree_bump", [("next tid", "Z")], forms.pop(), "Z"))

    # ------------------------------------------------------------------ as_einsum
    ae = _fn(STN, "as_einsum")
    c, t = X({"self.tensors": ("T", "tdict")}).e(_one(_assigns(ae, "max_tid"), "max_tid in as_einsum").value)
    out.append(_defn("gen_einsum_max_tid", [("T", "dict tensor")], c, "Z"))
    tids_asg = _assigns(ae, "tids")[0].value
    _expect(isinstance(tids_asg, _ast.Call) and _u(tids_asg.func) == "sorted" and _u(tids_asg.args[0]) == "list(self.tensors.keys())"
            and len(tids_asg.keywords) == 1 and tids_asg.keywords[0].arg == "key" and isinstance(tids_asg.keywords[0].value, _ast.Lambda),
            "tids of as_einsum is not sorted(list(keys), key=lambda ...)")
    lam = tids_asg.keywords[0].value
    _expect(len(lam.args.args) == 1, "sort key lambda")
    v = lam.args.args[0].arg
    c, t = X({v: ("tid", "Z"), "max_tid": ("mx", "Z")}).e(lam.body)
    _expect(t == "Z", "sort key type")
    out.append(_defn("gen_einsum_sort_key", [("mx tid", "Z")], c, "Z"))
    imin = _one(_assigns(ae, "imin"), "imin")
    _expect(isinstance(imin.value, _ast.Call) and _u(imin.value.func) == "min" and len(imin.value.keywords) == 1
            and imin.value.keywords[0].arg == "default", "imin is not min(..., default=...)")
    c, t = X({}).fix(X({}).e(imin.value.keywords[0].value), "nat")
    out.append(_defn("gen_einsum_min_default", [], c, "nat"))
    _expect(_u(imin.value.args[0]) == "(tidx[i][ax] for i, ax in zip(it, bond_axes))", "imin ranges over: " + _u(imin.value.args[0]))
    io = _assigns(ae, "idxout")
    _expect(len(io) == 2 and _u(io[0].value) == "tidx[-1]", "idxout assignments of as_einsum")
    _expect(_u(io[1].value) == "[i for k, i in enumerate(idxout) if i not in idxout[:k]]",
            "first-occurrence rule changed: " + _u(io[1].value))
    out.append("(* pinned: [i for k, i in enumerate(idxout) if i not in idxout[:k]] *)\n"
               "Definition gen_einsum_out (logical : list nat) : list nat := keep_first logical.\n")
    am = _one(_assigns(ae, "axes_map"), "axes_map of as_einsum")
    _expect(isinstance(am.value, _ast.ListComp) and len(am.value.generators) == 1 and _u(am.value.generators[0].iter) == "idxout_logical"
            and not am.value.generators[0].ifs, "axes_map comprehension")
    v = _u(am.value.generators[0].target)
    c, t = X({"idxout": ("out", "nlist"), v: ("i", "nat")}).e(am.value.elt)
    _expect(t == "onat", "axes_map element is not a list index")
    out.append(_defn("gen_einsum_axes_map", [("out logical", "list nat")], "omap (fun i => %s) logical" % c, "option (list nat)"))

    # ------------------------------------------------------------------ is_consistent
    ic = _fn(STN, "is_consistent")
    sk, conds = _ic_skeleton(ic)
    _expect(sk == IC_SKELETON, "loop skeleton of is_consistent changed:\n  got      %r\n  expected %r" % (sk, IC_SKELETON))
    _expect(len(conds) == 11, "is_consistent must have 11 failure conditions")
    tb = {"self.tensors": ("T", "tdict"), "self.bonds": ("B", "bdict"), "k": ("k", "Z"), "tensor": ("t", "tensor"),
          "bond": ("b", "bond"), "bid": ("bid", "Z"), "tid": ("tid", "Z"), "ax": ("ax", "nat"), "dims": ("dims", "nlist")}
    xi = X(tb)
    params = {0: [("T", "dict tensor")], 1: [("k", "Z"), ("t", "tensor")], 2: [("bid", "Z"), ("B", "dict bond")],
              3: [("t", "tensor"), ("b", "bond"), ("bid", "Z")], 4: [("k", "Z"), ("b", "bond")], 5: [("b", "bond")],
              7: [("tid", "Z"), ("T", "dict tensor")], 8: [("t", "tensor"), ("ax", "nat")],
              9: [("t", "tensor"), ("ax", "nat"), ("b", "bond")], 10: [("dims", "list nat")]}
    for i, cnd in enumerate(conds):
        if i == 6:
            _expect(_u(cnd) == "(bond.tids[i], bond_axes[i]) in zip(bond.tids[:i], bond_axes[:i])", "pair-repetition test changed: " + _u(cnd))
            out.append("(* pinned: (bond.tids[i], bond_axes[i]) in zip(bond.tids[:i], bond_axes[:i]) for some i *)\n"
                       "Definition gen_ic_fail_6 (tids : list Z) (axs : list nat) : bool := pairs_repeat tids axs.\n")
            continue
        c, t = xi.e(cnd)
        _expect(t == "bool", "condition %d of is_consistent is not boolean" % i)
        out.append(_defn("gen_ic_fail_%d" % i, params[i], c, "bool"))
    return "\n".join(out)
