"""T5: regenerate Coq definitions from /repo/src/qib/lattice/*.py  (fail-closed).

Every straight-line integer function of the lattice classes becomes a total Gallina function
over Z:  `//` -> Z.div, `%` -> Z.modulo, raise/assert -> None, `return None` -> Some None.

  IntegerLattice / TriangularLattice / FullyConnectedLattice / CustomizedLattice
        nsites, index_to_coord, coord_to_index                       (shape : list Z)
  OddFaceCenteredLattice   nsites, constructor parity check, index_to_coord (DOUBLED coordinates),
        coord_to_index (vertex branch / face branch), edge_to_odd_face_index,
        skip test and corner indices of the face loop in adjacency_matrix
  BrickLattice   _shape_square, nsites, index_to_coord, coord_to_index, d_square / parity_shift_condition,
        the link filter of adjacency_matrix, the positions removed by _delete_extra_points and
        zeroed by _disconnect_extra_points
  HexagonalLattice   nsites, position of a square-grid point (exact: multiples of 1/2 and sqrt(3)/2),
        the rounding/decoding part of coord_to_index, delegation to BrickLattice(delete=True)
  LayeredLattice     nsites / index maps / np.block expression matched against fixed templates
  IntegerLattice / TriangularLattice adjacency_matrix, vertex part of OddFaceCenteredLattice.adjacency_matrix:
        the np.roll loops matched against the text the model (int_pairs_g / tri_diag_g) was written from
  FullyConnectedLattice / CustomizedLattice adjacency_matrix and CustomizedLattice.__init__: templates
        (CustomizedLattice may return the stored matrix or a copy of it)

Floating point expressions are evaluated symbolically over Q(sqrt 3) as linear forms in integer
sub-expressions; a float variable must be an integer, a multiple of 1/2 or a multiple of sqrt(3)/2.
`v = round(u)` followed by `if abs(u - v) > tol: raise` is read as "u must be an integer".
"""
import ast, os
from fractions import Fraction

REPO = os.environ.get("QIB_REPO", "/repo")
LDIR = "src/qib/lattice/"


class Unsupported(Exception):
    pass


def parse(fn):
    return ast.parse(open(os.path.join(REPO, LDIR, fn)).read())


def find_class(tree, name):
    for n in tree.body:
        if isinstance(n, ast.ClassDef) and n.name == name:
            return n
    raise Unsupported("class %s not found" % name)


def find_func(cls, name):
    for n in cls.body:
        if isinstance(n, ast.FunctionDef) and n.name == name:
            return n
    raise Unsupported("%s.%s not found" % (cls.name, name))


def nodoc(fn):
    b = fn.body
    if b and isinstance(b[0], ast.Expr) and isinstance(b[0].value, ast.Constant) and isinstance(b[0].value.value, str):
        b = b[1:]
    return b


def zlit(n):
    return "%d" % n if n >= 0 else "(%d)" % n


def dump(node):
    return ast.dump(node) if not isinstance(node, list) else "|".join(ast.dump(n) for n in node)


def same(stmts, code):
    """structural equality of a statement list with the given source text"""
    return dump(stmts) == dump(ast.parse(code).body)


# ------------------------------------------------------------------ linear forms over Q(sqrt 3)
class Lin:
    """sum_k (a_k + b_k sqrt3) * atom_k ; atom '1' is the constant"""

    def __init__(self, terms=None):
        self.t = {k: v for k, v in (terms or {}).items() if v != (0, 0)}

    @staticmethod
    def const(a, b=0):
        return Lin({"1": (Fraction(a), Fraction(b))})

    @staticmethod
    def atom(text, a=1, b=0):
        return Lin({text: (Fraction(a), Fraction(b))})

    def is_const(self):
        return set(self.t) <= {"1"}

    def cval(self):
        return self.t.get("1", (Fraction(0), Fraction(0)))

    def add(self, o, sign=1):
        r = dict(self.t)
        for k, (a, b) in o.t.items():
            a0, b0 = r.get(k, (Fraction(0), Fraction(0)))
            r[k] = (a0 + sign * a, b0 + sign * b)
        return Lin(r)

    def scale(self, c):
        ca, cb = c
        return Lin({k: (a * ca + 3 * b * cb, a * cb + b * ca) for k, (a, b) in self.t.items()})

    def mul(self, o):
        if o.is_const():
            return self.scale(o.cval())
        if self.is_const():
            return o.scale(self.cval())
        raise Unsupported("product of two non-constant float expressions")

    def div(self, o):
        if not o.is_const():
            raise Unsupported("division by a non-constant float expression")
        c, d = o.cval()
        den = c * c - 3 * d * d
        if den == 0:
            raise Unsupported("division by zero")
        return self.scale((c / den, -d / den))

    def kind(self):
        """'Z' integer combination, 'half' multiples of 1/2, 'r3half' multiples of sqrt3/2"""
        if all(b == 0 for _, b in self.t.values()):
            if all(a.denominator == 1 for a, _ in self.t.values()):
                return "Z"
            if all((2 * a).denominator == 1 for a, _ in self.t.values()):
                return "half"
        if all(a == 0 for a, _ in self.t.values()) and all((2 * b).denominator == 1 for _, b in self.t.values()):
            return "r3half"
        raise Unsupported("float expression is not on the grid Z/2 or Z*sqrt3/2: %r" % (self.t,))

    def text(self, kind):
        """Coq Z expression of the integer numerator for the given kind"""
        parts = []
        for k, (a, b) in sorted(self.t.items(), key=lambda kv: (kv[0] == "1", kv[0])):
            c = {"Z": a, "half": 2 * a, "r3half": 2 * b}[kind]
            assert c.denominator == 1
            c = int(c)
            if k == "1":
                parts.append(zlit(c))
            elif c == 1:
                parts.append(k)
            else:
                parts.append("%s * %s" % (zlit(c), k))
        return "(" + " + ".join(parts) + ")" if parts else "0"


FLOATK = ("half", "r3half")


# ------------------------------------------------------------------ the translator
class Fn:
    """One function body -> Coq term.
    env: python name -> (text, type).  types: Z bool zlist coord pair:<a>,<b> MZ Mcoord MoptZ half r3half const lin
    partial: result is `option T` (raise/assert -> None)."""

    def __init__(self, env, partial, rtype, conv=None, scale=1, cls2d=False, selfmap=None):
        self.env0 = dict(env)
        self.partial = partial
        self.rtype = rtype
        self.conv = conv or {}
        self.scale = scale
        self.cls2d = cls2d
        self.selfmap = selfmap or {}
        self.nj = 0

    # ---------------- expressions
    def name_of(self, e):
        if isinstance(e, ast.Name):
            return e.id
        if isinstance(e, ast.Attribute) and isinstance(e.value, ast.Name):
            return e.value.id + "." + e.attr
        if isinstance(e, ast.Attribute) and isinstance(e.value, ast.Attribute):
            n = self.name_of(e.value)
            return None if n is None else n + "." + e.attr
        return None

    def conv_test(self, e):
        """self.convention == ShiftedLatticeConvention.X  ->  'up' / '(negb up)'"""
        if isinstance(e, ast.Compare) and len(e.ops) == 1 and isinstance(e.ops[0], ast.Eq) \
                and self.name_of(e.left) == "self.convention":
            nm = self.name_of(e.comparators[0])
            if nm in self.conv:
                return self.conv[nm]
        return None

    def E(self, e, env):
        ct = self.conv_test(e)
        if ct is not None:
            return ct, "bool"
        nm = self.name_of(e)
        if nm is not None:
            if nm in env:
                return env[nm]
            if nm in self.selfmap:
                return self.selfmap[nm]
            raise Unsupported("unknown name %s" % nm)
        if isinstance(e, ast.Constant):
            v = e.value
            if isinstance(v, bool):
                return ("true" if v else "false"), "bool"
            if isinstance(v, int):
                return zlit(v), "Z"
            if isinstance(v, float):
                return Lin.const(Fraction(v).limit_denominator(10 ** 12) if v != int(v) and abs(v) < 1e-3 else Fraction(v)), "lin"
            raise Unsupported("constant %r" % (v,))
        if isinstance(e, ast.UnaryOp):
            if isinstance(e.op, ast.USub):
                t, ty = self.E(e.operand, env)
                if ty == "Z":
                    return "(- %s)" % t, "Z"
                if ty == "lin":
                    return t.scale((Fraction(-1), Fraction(0))), "lin"
            if isinstance(e.op, ast.Not):
                t, ty = self.E(e.operand, env)
                if ty == "bool":
                    return "(negb %s)" % t, "bool"
            raise Unsupported("unary operator")
        if isinstance(e, ast.BinOp):
            a, ta = self.E(e.left, env)
            b, tb = self.E(e.right, env)
            op = type(e.op)
            if ta == "Z" and tb == "Z" and op is not ast.Div:
                sym = {ast.Add: "+", ast.Sub: "-", ast.Mult: "*", ast.Mod: "mod", ast.FloorDiv: "/"}.get(op)
                if sym is None:
                    raise Unsupported("int operator %s" % op.__name__)
                return "(%s %s %s)" % (a, sym, b), "Z"
            if ta == "MZ" and tb == "Z" and op in (ast.Sub, ast.Add):
                return "(option_map (fun r_ => r_ %s %s) %s)" % ("-" if op is ast.Sub else "+", b, a), "MZ"
            la, lb = self.as_lin(a, ta), self.as_lin(b, tb)
            if la is not None and lb is not None:
                if op is ast.Add:
                    return la.add(lb), "lin"
                if op is ast.Sub:
                    return la.add(lb, -1), "lin"
                if op is ast.Mult:
                    return la.mul(lb), "lin"
                if op is ast.Div:
                    return la.div(lb), "lin"
            raise Unsupported("operator %s on %s,%s" % (op.__name__, ta, tb))
        if isinstance(e, ast.Compare) and len(e.ops) == 1:
            a, ta = self.E(e.left, env)
            b, tb = self.E(e.comparators[0], env)
            op = type(e.ops[0])
            if ta == "Z" and tb == "Z":
                if op is ast.Eq:
                    return "(%s =? %s)" % (a, b), "bool"
                if op is ast.NotEq:
                    return "(negb (%s =? %s))" % (a, b), "bool"
                if op is ast.Lt:
                    return "(%s <? %s)" % (a, b), "bool"
                if op is ast.LtE:
                    return "(%s <=? %s)" % (a, b), "bool"
                if op is ast.Gt:
                    return "(%s <? %s)" % (b, a), "bool"
                if op is ast.GtE:
                    return "(%s <=? %s)" % (b, a), "bool"
            raise Unsupported("comparison %s on %s,%s" % (op.__name__, ta, tb))
        if isinstance(e, ast.BoolOp):
            parts = [self.E(v, env) for v in e.values]
            if any(t != "bool" for _, t in parts):
                raise Unsupported("and/or on non-boolean")
            return "(" + (" && " if isinstance(e.op, ast.And) else " || ").join(p for p, _ in parts) + ")", "bool"
        if isinstance(e, ast.Subscript):
            base = self.name_of(e.value)
            if isinstance(e.slice, ast.Constant) and isinstance(e.slice.value, int) and base is not None:
                key = "%s[%d]" % (base, e.slice.value)
                if key in env:
                    return env[key]
                if key in self.selfmap:
                    return self.selfmap[key]
            raise Unsupported("subscript %s" % ast.unparse(e))
        if isinstance(e, ast.Tuple):
            parts = [self.E(v, env) for v in e.elts]
            return parts, "tuple"
        if isinstance(e, ast.Call):
            fn = self.name_of(e.func)
            if e.keywords:
                raise Unsupported("keyword arguments in call to %s" % fn)
            args = [self.E(a, env) for a in e.args]
            tys = [t for _, t in args]
            if fn == "math.prod" and tys == ["zlist"]:
                return "(zprod %s)" % args[0][0], "Z"
            if fn == "math.prod" and tys == ["shape2"]:
                return "(%s * %s)" % args[0][0], "Z"
            if fn == "len" and tys == ["zlist"]:
                return "(Z.of_nat (length %s))" % args[0][0], "Z"
            if fn == "len" and tys == ["shape2"]:
                return "2", "Z"
            if fn == "int" and tys[0] in ("Z", "MZ"):
                return args[0]
            if fn == "abs" and tys == ["Z"]:
                return "(Z.abs %s)" % args[0][0], "Z"
            if fn == "min" and tys == ["Z", "Z"]:
                return "(Z.min %s %s)" % (args[0][0], args[1][0]), "Z"
            if fn == "math.sqrt" and tys == ["lin"] and args[0][0].is_const() and args[0][0].cval() == (3, 0):
                return Lin.const(0, 1), "lin"
            if fn == "math.sqrt" and tys == ["Z"] and args[0][0] == "3":
                return Lin.const(0, 1), "lin"
            if fn == "np.unravel_index" and tys[0] == "Z" and tys[1] in ("zlist", "shape2"):
                return "(np_unravel %s %s)" % (self.shape_text(args[1]), args[0][0]), "Mcoord"
            if fn == "np.ravel_multi_index" and tys[1] in ("zlist", "shape2"):
                if tys[0] == "coord":
                    return "(np_ravel %s %s)" % (self.shape_text(args[1]), args[0][0]), "MZ"
                if tys[0] == "pair":
                    return "(np_ravel %s [%s; %s])" % (self.shape_text(args[1]), args[0][0][0], args[0][0][1]), "MZ"
            raise Unsupported("call %s(%s)" % (fn, ",".join(map(str, tys))))
        raise Unsupported("expression %s" % ast.dump(e)[:100])

    def shape_text(self, a):
        t, ty = a
        return t if ty == "zlist" else "[%s; %s]" % t

    def as_lin(self, t, ty):
        if ty == "lin":
            return t
        if ty == "Z":
            try:
                return Lin.const(int(t.strip("()")))
            except ValueError:
                return Lin.atom(t)
        if ty == "half":
            return Lin.atom(t, Fraction(1, 2))
        if ty == "r3half":
            return Lin.atom(t, 0, Fraction(1, 2))
        return None

    # ---------------- statements
    @staticmethod
    def falls(stmts):
        if not stmts:
            return True
        s = stmts[-1]
        if isinstance(s, (ast.Return, ast.Raise)):
            return False
        if isinstance(s, ast.If):
            return Fn.falls(s.body) or Fn.falls(s.orelse)
        return True

    @staticmethod
    def assigned(stmts):
        out = []
        for s in stmts:
            if isinstance(s, ast.Assign):
                for t in s.targets:
                    for n in (t.elts if isinstance(t, ast.Tuple) else [t]):
                        if isinstance(n, ast.Name):
                            out.append(n.id)
            elif isinstance(s, ast.AugAssign) and isinstance(s.target, ast.Name):
                out.append(s.target.id)
            elif isinstance(s, ast.If):
                out += Fn.assigned(s.body) + Fn.assigned(s.orelse)
        return out

    def ret(self, text, ty):
        """wrap a return value"""
        rt = self.rtype
        if ty == "MZ":
            if not self.partial:
                raise Unsupported("raising call in a total function")
            return text if rt == "Z" else "(option_map Some %s)" % text if rt == "optZ" else self.bad(ty)
        if ty == "Mcoord":
            if not self.partial or rt != "coord":
                self.bad(ty)
            return text if self.scale == 1 else "(option_map (map (Z.mul %d)) %s)" % (self.scale, text)
        if ty == "MoptZ":
            if not self.partial or rt != "optZ":
                self.bad(ty)
            return text
        if ty == "none":
            if rt != "optZ":
                self.bad(ty)
            v = "None"
        elif ty == "tuple":
            if rt == "coord":
                items = []
                for (t, k) in text:
                    l = self.as_lin(t, k)
                    if l is None:
                        self.bad(k)
                    kind = l.kind()
                    if self.scale == 2:
                        if kind not in ("Z", "half"):
                            self.bad(kind)
                        items.append(l.scale((Fraction(2), Fraction(0))).text("Z"))
                    else:
                        items.append(l.text(kind))
                v = "[" + "; ".join(items) + "]"
            elif rt.startswith("tuple:"):
                want = rt[6:].split(",")
                if [k for _, k in text] != want:
                    self.bad(str([k for _, k in text]))
                v = "(" + ", ".join(t for t, _ in text) + ")"
            else:
                self.bad(ty)
        elif ty == "Z" and rt in ("Z", "optZ"):
            v = text if rt == "Z" else "(Some %s)" % text
        elif ty == "bool" and rt == "bool":
            v = text
        elif ty == "zlist" and rt == "zlist":
            v = text
        else:
            self.bad(ty)
        return "(Some %s)" % v if self.partial else v

    def bad(self, ty):
        raise Unsupported("return of type %s in a function of result type %s" % (ty, self.rtype))

    def local(self, n):
        return "v_" + n

    def bind(self, env, name, text, ty):
        """let-bind a python variable; float kinds are materialised as their integer numerator"""
        if ty == "lin":
            if text.is_const():
                env[name] = (text, "lin")      # float constant (length, tol): stays symbolic
                return ""
            kind = text.kind()
            text, ty = text.text(kind), kind
        if ty in ("Z", "bool", "half", "r3half"):
            cn = self.local(name)
            env[name] = (cn, ty)
            return "let %s := %s in\n" % (cn, text)
        if ty in ("tuple",):
            raise Unsupported("tuple valued variable %s" % name)
        raise Unsupported("assignment of type %s to %s" % (ty, name))

    def block(self, stmts, env, k=None):
        """k: continuation at the fall-through point (env -> text), None = function end"""
        if not stmts:
            if k is None:
                raise Unsupported("function may fall off its end")
            return k(env)
        s, rest = stmts[0], stmts[1:]
        cont = lambda env2: self.block(rest, env2, k)
        if isinstance(s, ast.Return):
            if s.value is None or (isinstance(s.value, ast.Constant) and s.value.value is None):
                return self.ret(None, "none")
            t, ty = self.E_ret(s.value, env)
            return self.ret(t, ty)
        if isinstance(s, ast.Raise):
            if not self.partial:
                raise Unsupported("raise in a total function")
            return "None"
        if isinstance(s, ast.Pass):
            return cont(env)
        if isinstance(s, ast.Assert):
            if not self.partial:
                raise Unsupported("assert in a total function")
            if isinstance(s.test, ast.Constant) and s.test.value is False:
                return "None"
            t, ty = self.E(s.test, env)
            if ty != "bool":
                raise Unsupported("assert on non-boolean")
            return "if %s then\n%s\nelse None" % (t, cont(env))
        if isinstance(s, ast.For):
            # for i, n in enumerate(self.shape): assert c[i] < n
            if same([s], "for i, n in enumerate(self.shape):\n    assert c[i] < n") and self.partial \
                    and env.get("c", (None, None))[1] == "coord" and self.E(ast.parse("self.shape").body[0].value, env)[1] == "zlist":
                sh = self.E(ast.parse("self.shape").body[0].value, env)[0]
                return "if assert_all_lt %s %s then\n%s\nelse None" % (sh, env["c"][0], cont(env))
            raise Unsupported("for loop")
        if isinstance(s, ast.Assign) and len(s.targets) == 1:
            tg = s.targets[0]
            # v = round(u) ; if abs(u - v) > tol: raise
            if isinstance(tg, ast.Name) and isinstance(s.value, ast.Call) and self.name_of(s.value.func) == "round" \
                    and len(s.value.args) == 1 and isinstance(s.value.args[0], ast.Name) and rest \
                    and self.is_round_guard(rest[0], s.value.args[0].id, tg.id, env):
                u = s.value.args[0].id
                ut, uty = env[u]
                env = dict(env)
                if uty == "Z":
                    env[tg.id] = (ut, "Z")
                    return self.block(rest[1:], env, k)
                if uty == "half" and self.partial:
                    cn = self.local(tg.id)
                    env[tg.id] = (cn, "Z")
                    return "if %s mod 2 =? 0 then\nlet %s := %s / 2 in\n%s\nelse None" % (ut, cn, ut, self.block(rest[1:], env, k))
                raise Unsupported("round() of a %s value" % uty)
            if isinstance(tg, ast.Tuple):
                t, ty = self.E(s.value, env)
                env = dict(env)
                if ty == "pair" and len(tg.elts) == 2 and all(isinstance(n, ast.Name) for n in tg.elts):
                    env[tg.elts[0].id] = (t[0], "Z")
                    env[tg.elts[1].id] = (t[1], "Z")
                    return cont(env)
                raise Unsupported("tuple assignment")
            if isinstance(tg, ast.Name):
                t, ty = self.E(s.value, env)
                env = dict(env)
                pre = self.bind(env, tg.id, t, ty)
                return pre + cont(env)
            raise Unsupported("assignment target %s" % ast.unparse(tg))
        if isinstance(s, ast.AugAssign) and isinstance(s.target, ast.Name):
            new = ast.Assign(targets=[ast.Name(id=s.target.id, ctx=ast.Store())],
                             value=ast.BinOp(left=ast.Name(id=s.target.id, ctx=ast.Load()), op=s.op, right=s.value))
            return self.block([new] + rest, env, k)
        if isinstance(s, ast.If):
            # if conv == A: S1  ;  if conv == B: S2      (A != B the two members)  ->  if/else
            c1 = self.conv_test(s.test)
            if c1 is not None and not s.orelse and rest and isinstance(rest[0], ast.If) and not rest[0].orelse:
                c2 = self.conv_test(rest[0].test)
                if c2 is not None and {c1, c2} == set(self.conv.values()) and "convention" not in " ".join(self.assigned(s.body)):
                    merged = ast.If(test=s.test, body=s.body, orelse=rest[0].body)
                    return self.block([merged] + rest[1:], env, k)
            t, ty = self.E(s.test, env)
            if ty == "lin":
                raise Unsupported("float condition")
            if ty != "bool":
                raise Unsupported("if on non-boolean")
            fb, fe = self.falls(s.body), self.falls(s.orelse)
            if not rest and k is None:
                return "if %s then\n%s\nelse\n%s" % (t, self.block(s.body, dict(env), None), self.block(s.orelse, dict(env), None))
            if not fb and not fe:
                raise Unsupported("unreachable statements after if")
            if fb != fe:
                if fb:
                    return "if %s then\n%s\nelse\n%s" % (t, self.block(s.body, dict(env), cont), self.block(s.orelse, dict(env), None))
                return "if %s then\n%s\nelse\n%s" % (t, self.block(s.body, dict(env), None), self.block(s.orelse, dict(env), cont))
            if c1 is not None:
                # convention split: duplicate the continuation (variables may change representation)
                return "if %s then\n%s\nelse\n%s" % (t, self.block(s.body, dict(env), cont), self.block(s.orelse, dict(env), cont))
            names = sorted(set(self.assigned(s.body) + self.assigned(s.orelse)))
            self.nj += 1
            jn = "join%d" % self.nj
            seen = []

            def kj0(env2):
                for n in names:
                    if n not in env2:
                        raise Unsupported("variable %s may be unassigned after if" % n)
                seen.append([env2[n][1] for n in names])
                return ""

            nj0 = self.nj
            self.block(s.body, dict(env), kj0)
            self.block(s.orelse, dict(env), kj0)
            self.nj = nj0
            uni = []
            for col in zip(*seen):
                tys = set(col)
                if len(tys) == 1:
                    uni.append(col[0])
                elif tys == {"Z", "half"}:
                    uni.append("half")       # an integer-valued float joins a half-integer valued one
                else:
                    raise Unsupported("join variable types differ between branches: %s" % sorted(tys))
            if any(ty_ not in ("Z", "bool", "half", "r3half") for ty_ in uni):
                raise Unsupported("join variable of type %s" % uni)

            def kj(env2):
                vals = []
                for n, want in zip(names, uni):
                    v, ty_ = env2[n]
                    vals.append("(2 * %s)" % v if (ty_, want) == ("Z", "half") else v)
                return "(%s %s)" % (jn, " ".join(vals) if vals else "tt")

            tb = self.block(s.body, dict(env), kj)
            te = self.block(s.orelse, dict(env), kj)
            seen = [uni]
            env3 = dict(env)
            params = []
            for n, ty_ in zip(names, seen[0]):
                env3[n] = (self.local(n), ty_)
                params.append("(%s : %s)" % (self.local(n), "bool" if ty_ == "bool" else "Z"))
            if not params:
                params = ["(_ : unit)"]
            return "let %s := fun %s =>\n%s in\nif %s then\n%s\nelse\n%s" % (
                jn, " ".join(params), self.block(rest, env3, k), t, tb, te)
        raise Unsupported("statement %s" % type(s).__name__)

    def is_round_guard(self, st, u, v, env):
        if not (isinstance(st, ast.If) and not st.orelse and len(st.body) == 1 and isinstance(st.body[0], ast.Raise)):
            return False
        t = st.test
        if not (isinstance(t, ast.Compare) and len(t.ops) == 1 and isinstance(t.ops[0], ast.Gt)):
            return False
        if ast.dump(t.left) != ast.dump(ast.parse("abs(%s - %s)" % (u, v)).body[0].value):
            return False
        tol = t.comparators[0]
        if not isinstance(tol, ast.Name) or tol.id not in env or env[tol.id][1] != "lin":
            return False
        c = env[tol.id][0]
        return c.is_const() and c.cval()[1] == 0 and 0 < c.cval()[0] < Fraction(1, 4)

    def E_ret(self, e, env):
        return self.E(e, env)

    def translate(self, stmts):
        return self.block(list(stmts), dict(self.env0), None)


def indent(text, n=2):
    return "\n".join(" " * n + l for l in text.split("\n"))


def definition(name, params, rty, body):
    ps = " ".join("(%s : %s)" % p for p in params)
    return "Definition %s %s : %s :=\n%s.\n" % (name, ps, rty, indent(body))


# ------------------------------------------------------------------ per class
def gen_box_class(out, fn, cls, prefix):
    c = find_class(parse(fn), cls)
    sm = {"self.shape": ("shape", "zlist")}
    ns = find_func(c, "nsites")
    out.append(definition("gen_%s_nsites" % prefix, [("shape", "list Z")], "Z",
                          Fn({}, False, "Z", selfmap=sm).translate(nodoc(ns))))
    sm2 = dict(sm)
    sm2["self.nsites"] = ("(gen_%s_nsites shape)" % prefix, "Z")
    f = find_func(c, "index_to_coord")
    out.append(definition("gen_%s_index_to_coord" % prefix, [("shape", "list Z"), ("i", "Z")], "option coord",
                          Fn({"i": ("i", "Z")}, True, "coord", selfmap=sm2).translate(nodoc(f))))
    f = find_func(c, "coord_to_index")
    out.append(definition("gen_%s_coord_to_index" % prefix, [("shape", "list Z"), ("c", "coord")], "option Z",
                          Fn({"c": ("c", "coord")}, True, "Z", selfmap=sm2).translate(nodoc(f))))


def conv_members():
    tree = parse("shifted_lattice_convention.py")
    c = find_class(tree, "ShiftedLatticeConvention")
    mem = {}
    for s in nodoc(c):
        if isinstance(s, ast.Assign) and len(s.targets) == 1 and isinstance(s.targets[0], ast.Name) \
                and isinstance(s.value, ast.Constant):
            mem[s.targets[0].id] = s.value.value
        else:
            raise Unsupported("ShiftedLatticeConvention: unexpected member definition")
    if set(mem) != {"COLS_SHIFTED_UP", "ROWS_SHIFTED_LEFT"} or len(set(mem.values())) != 2:
        raise Unsupported("ShiftedLatticeConvention must have exactly the two distinct members COLS_SHIFTED_UP, ROWS_SHIFTED_LEFT")
    return {"ShiftedLatticeConvention.COLS_SHIFTED_UP": "up", "ShiftedLatticeConvention.ROWS_SHIFTED_LEFT": "(negb up)"}


SHAPE2 = {"self.shape": (("s0", "s1"), "shape2"), "self.shape[0]": ("s0", "Z"), "self.shape[1]": ("s1", "Z")}
P2 = [("s0", "Z"), ("s1", "Z")]


def gen_ofc(out):
    c = find_class(parse("odd_face_centered_lattice.py"), "OddFaceCenteredLattice")
    init = nodoc(find_func(c, "__init__"))
    if not same(init[:1], "if len(shape) != 2:\n    raise ValueError('currently only two-dimensional lattices supported')"):
        raise Unsupported("OddFaceCenteredLattice.__init__: 2-d check")
    if not same(init[-1:], "for i, n in enumerate(self.shape):\n    if n % 2 == 1 and self.pbc[i]:\n"
                           "        raise ValueError('each axis with periodic boundary conditions must have even dimension')"):
        raise Unsupported("OddFaceCenteredLattice.__init__: parity check of periodic axes")
    out.append("Definition gen_ofc_ctor_ok (s0 s1 : Z) (p0 p1 : bool) : bool :=\n"
               "  negb ((s0 mod 2 =? 1) && p0) && negb ((s1 mod 2 =? 1) && p1).\n")
    out.append(definition("gen_ofc_nsites", P2, "Z", Fn({}, False, "Z", selfmap=SHAPE2).translate(nodoc(find_func(c, "nsites")))))
    f = find_func(c, "index_to_coord")
    out.append(definition("gen_ofc_index_to_coord", P2 + [("i", "Z")], "option coord",
                          Fn({"i": ("i", "Z")}, True, "coord", selfmap=SHAPE2, scale=2).translate(nodoc(f))))
    # coord_to_index: dtype dispatch (matched), then the face branch on integers x, y
    b = nodoc(find_func(c, "coord_to_index"))
    head = ("idx = np.array(c)\n"
            "if np.issubdtype(idx.dtype, np.integer):\n    return int(np.ravel_multi_index(idx, self.shape))\n"
            "if idx.shape != (2,):\n    raise ValueError('multi-index must be a sequence of length 2')\n"
            "idx = np.round(idx - 0.5)\n"
            "x, y = int(idx[0]), int(idx[1])")
    if not same(b[:5], head):
        raise Unsupported("OddFaceCenteredLattice.coord_to_index: dtype dispatch / rounding prefix changed")
    out.append("Definition gen_ofc_vertex_to_index (s0 s1 : Z) (c : coord) : option Z := np_ravel [s0; s1] c.\n")
    out.append(definition("gen_ofc_face_to_index", P2 + [("x", "Z"), ("y", "Z")], "option Z",
                          Fn({"x": ("x", "Z"), "y": ("y", "Z"), "c": ("c_", "opaque")}, True, "Z", selfmap=SHAPE2).translate(strip_fstrings(b[5:]))))
    f = find_func(c, "edge_to_odd_face_index")
    env = {"i": (("ix", "iy"), "pair"), "j": (("jx", "jy"), "pair")}
    out.append(definition("gen_ofc_edge_to_face", P2 + [("ix", "Z"), ("iy", "Z"), ("jx", "Z"), ("jy", "Z")], "option Z",
                          Fn(env, True, "Z", selfmap=SHAPE2).translate(strip_fstrings(nodoc(f)))))
    # face loop of adjacency_matrix
    am = nodoc(find_func(c, "adjacency_matrix"))
    loops = [s for s in am if isinstance(s, ast.For) and ast.unparse(s.iter) == "range(self.shape[0] - 1)"]
    if len(loops) != 1 or ast.unparse(loops[0].target) != "x" or len(loops[0].body) != 1:
        raise Unsupported("OddFaceCenteredLattice.adjacency_matrix: face loop over x")
    ly = loops[0].body[0]
    if not (isinstance(ly, ast.For) and ast.unparse(ly.iter) == "range(self.shape[1] - 1)" and ast.unparse(ly.target) == "y"):
        raise Unsupported("OddFaceCenteredLattice.adjacency_matrix: face loop over y")
    k = am.index(loops[0])
    if not same(am[k - 1:k], "i = nverts") or not same(am[1:2], "nverts = math.prod(self.shape)"):
        raise Unsupported("OddFaceCenteredLattice.adjacency_matrix: face counter initialisation")
    body = ly.body
    if not (isinstance(body[0], ast.If) and same(body[0].body, "continue") and not body[0].orelse):
        raise Unsupported("face loop: skip test")
    env = {"x": ("x", "Z"), "y": ("y", "Z")}
    t, ty = Fn(env, False, "bool", selfmap=SHAPE2).E(body[0].test, env)
    out.append(definition("gen_ofc_skip", [("x", "Z"), ("y", "Z")], "bool", t))
    corners = []
    rest = body[1:]
    while len(rest) >= 3 and isinstance(rest[0], ast.Assign) and ast.unparse(rest[0].targets[0]) == "j":
        if not same(rest[1:3], "adj[i, j] = 1\nadj[j, i] = 1"):
            raise Unsupported("face loop: both directions must be written")
        t, ty = Fn(env, False, "Z", selfmap=SHAPE2).E(rest[0].value, env)
        corners.append(t)
        rest = rest[3:]
    if not same(rest, "i += 1") or len(corners) != 4:
        raise Unsupported("face loop: four corners then i += 1")
    out.append(definition("gen_ofc_corners", [("s1", "Z"), ("x", "Z"), ("y", "Z")], "list Z", "[" + "; ".join(corners) + "]"))


def strip_fstrings(stmts):
    """raise ValueError(f'...') -> raise ValueError()   (messages are irrelevant, f-strings mention other names)"""
    class T(ast.NodeTransformer):
        def visit_Raise(self, node):
            return ast.Raise(exc=None, cause=None)
    return [T().visit(ast.parse(ast.unparse(s)).body[0]) for s in stmts]


def gen_brick(out):
    c = find_class(parse("brick_lattice.py"), "BrickLattice")
    cm = conv_members()
    init = nodoc(find_func(c, "__init__"))
    need = ["self.shape = tuple(shape)", "self.convention = convention", "self.shape_square = self._shape_square",
            "self.nsites_square = self._nsites_square", "self.delete = delete"]
    have = [ast.unparse(s) for s in init]
    if any(n not in have for n in need) or not same(init[:1], "if len(shape) != 2:\n    raise NotImplementedError('Brick lattices require 2 dimensions, {len(shape)} were given')"):
        raise Unsupported("BrickLattice.__init__ changed")
    if not same(nodoc(find_func(c, "_nsites_square")), "return self.shape_square[0]*self.shape_square[1]"):
        raise Unsupported("BrickLattice._nsites_square changed")
    PU = [("up", "bool")] + P2
    sm = dict(SHAPE2)
    sm["self.delete"] = ("del", "bool")
    out.append(definition("gen_brick_shape_square", PU, "(Z * Z)%type",
                          Fn({}, False, "tuple:Z,Z", conv=cm, selfmap=sm).translate(nodoc(find_func(c, "_shape_square")))))
    out.append(definition("gen_brick_nsites", [("up", "bool"), ("del", "bool")] + P2, "Z",
                          Fn({}, False, "Z", conv=cm, selfmap=sm).translate(nodoc(find_func(c, "nsites")))))
    smq = dict(sm)
    smq.update({"self.shape_square": (("q0", "q1"), "shape2"), "self.shape_square[0]": ("q0", "Z"),
                "self.shape_square[1]": ("q1", "Z"), "self.nsites": ("(gen_brick_nsites up del s0 s1)", "Z")})
    pre = "let '(q0, q1) := gen_brick_shape_square up s0 s1 in\n"
    PUD = [("up", "bool"), ("del", "bool")] + P2
    out.append(definition("gen_brick_index_to_coord", PUD + [("i", "Z")], "option coord",
                          pre + Fn({"i": ("i", "Z")}, True, "coord", conv=cm, selfmap=smq).translate(nodoc(find_func(c, "index_to_coord")))))
    env = {"c": (("c0", "c1"), "pair"), "c[0]": ("c0", "Z"), "c[1]": ("c1", "Z")}
    out.append(definition("gen_brick_coord_to_index", PUD + [("c0", "Z"), ("c1", "Z")], "option (option Z)",
                          pre + Fn(env, True, "optZ", conv=cm, selfmap=smq).translate(nodoc(find_func(c, "coord_to_index")))))
    # adjacency_matrix: d_square / parity_shift_condition and the link filter
    am = nodoc(find_func(c, "adjacency_matrix"))
    if not (isinstance(am[0], ast.If) and isinstance(am[1], ast.If)):
        raise Unsupported("BrickLattice.adjacency_matrix: convention prefix")
    retn = ast.parse("return (d_square, parity_shift_condition)").body
    out.append(definition("gen_brick_dsq_psc", PU, "(Z * bool)%type",
                          Fn({}, False, "tuple:Z,bool", conv=cm, selfmap=sm).translate(am[:2] + retn)))
    tail = ("if self.delete:\n    adj = self._delete_extra_points(adj)\nelse:\n    adj = self._disconnect_extra_points(adj)\nreturn adj")
    if not same(am[-2:], tail):
        raise Unsupported("BrickLattice.adjacency_matrix: delete/disconnect dispatch")
    fors = [s for s in am if isinstance(s, ast.For)]
    if len(fors) != 1 or ast.unparse(fors[0].iter) != "range(self.ndim)" or ast.unparse(fors[0].target) != "d":
        raise Unsupported("BrickLattice.adjacency_matrix: loop over d")
    fs = fors[0].body
    if len(fs) != 1 or not isinstance(fs[0], ast.For) or ast.unparse(fs[0].iter) != "[-1, 1]" or ast.unparse(fs[0].target) != "s":
        raise Unsupported("BrickLattice.adjacency_matrix: loop over s")
    inner = fs[0].body
    cutcode = ("ids = np.roll(idx, s, axis=d)\n"
               "seld = (math.prod(self.shape_square[:d]), self.shape_square[d], math.prod(self.shape_square[d+1:]))\n"
               "idx_cut = idx.reshape(seld)\nids_cut = ids.reshape(seld)\n"
               "if s == 1:\n    idx_cut = idx_cut[:, 1:, :]\n    ids_cut = ids_cut[:, 1:, :]\n"
               "elif s == -1:\n    idx_cut = idx_cut[:, :-1, :]\n    ids_cut = ids_cut[:, :-1, :]\nelse:\n    assert False")
    if not same(inner[:5], cutcode):
        raise Unsupported("BrickLattice.adjacency_matrix: roll / open-boundary cut changed")
    sel = inner[5]
    if not (len(inner) == 6 and isinstance(sel, ast.If) and ast.unparse(sel.test) == "d == d_square"
            and same(sel.body, "for (i, j) in zip(idx_cut.reshape(-1), ids_cut.reshape(-1)):\n    adj[i, j] = 1")
            and len(sel.orelse) == 1 and isinstance(sel.orelse[0], ast.For)
            and ast.unparse(sel.orelse[0].iter) == "zip(idx_cut.reshape(-1), ids_cut.reshape(-1))"
            and ast.unparse(sel.orelse[0].target) == "(i, j)"):
        raise Unsupported("BrickLattice.adjacency_matrix: full axis / half axis selection")

    class W(ast.NodeTransformer):
        def visit_Assign(self, node):
            if ast.unparse(node) == "adj[i, j] = 1":
                return ast.Return(value=ast.Constant(value=True))
            raise Unsupported("link filter: unexpected assignment")
    fb = [W().visit(ast.parse(ast.unparse(s)).body[0]) for s in sel.orelse[0].body] + ast.parse("return False").body
    env = {"i": ("i", "Z"), "s": ("s", "Z"), "parity_shift_condition": ("psc", "bool")}
    out.append(definition("gen_brick_keep_link", [("psc", "bool"), ("q1", "Z"), ("s", "Z"), ("i", "Z")], "bool",
                          Fn(env, False, "bool", selfmap={"self.shape_square[1]": ("q1", "Z")}).translate(fb)))
    # positions removed / zeroed
    for meth, nm, pat in (("_delete_extra_points", "gen_brick_delete_positions", "del"),
                          ("_disconnect_extra_points", "gen_brick_disconnect_positions", "zero")):
        body = nodoc(find_func(c, meth))
        out.append(definition(nm, PU, "list Z",
                              pre.replace("up s0 s1", "up s0 s1") + positions(body, pat, cm, smq)))


def positions(stmts, pat, cm, sm):
    """the list of positions removed (np.delete on both axes) / zeroed (row and column), in order"""
    def rewrite(block):
        out = []
        i = 0
        while i < len(block):
            s = block[i]
            if isinstance(s, ast.If):
                out.append(ast.If(test=s.test, body=rewrite(s.body), orelse=rewrite(s.orelse)))
                i += 1
                continue
            if isinstance(s, ast.Return) and ast.unparse(s) == "return adj":
                out.append(ast.parse("return acc").body[0])
                i += 1
                continue
            if i + 1 < len(block):
                a, b = ast.unparse(s), ast.unparse(block[i + 1])
                p = None
                if pat == "del" and isinstance(s, ast.Assign) and isinstance(s.value, ast.Call) and len(s.value.args) == 3:
                    p = ast.unparse(s.value.args[1])
                    ok = a == "adj = np.delete(adj, %s, 0)" % p and b == "adj = np.delete(adj, %s, 1)" % p
                elif pat == "zero" and isinstance(s, ast.Assign) and isinstance(s.targets[0], ast.Subscript) \
                        and isinstance(s.targets[0].slice, ast.Tuple):
                    p = ast.unparse(s.targets[0].slice.elts[0])
                    ok = a == "adj[%s, :] = 0" % p and b == "adj[:, %s] = 0" % p
                else:
                    ok = False
                if ok:
                    out.append(ast.parse("acc = acc + [%s]" % p).body[0])
                    i += 2
                    continue
            raise Unsupported("extra points: unexpected statement %s" % ast.unparse(s))
        return out

    class F(Fn):
        def E(self, e, env):
            if isinstance(e, ast.BinOp) and isinstance(e.op, ast.Add) and isinstance(e.left, ast.Name) and e.left.id == "acc" \
                    and isinstance(e.right, ast.List) and len(e.right.elts) == 1:
                t, ty = Fn.E(self, e.right.elts[0], env)
                if ty != "Z":
                    raise Unsupported("position type")
                return "(%s ++ [%s])" % (env["acc"][0], t), "zlist"
            return Fn.E(self, e, env)

        def bind(self, env, name, text, ty):
            if name == "acc" and ty == "zlist":
                env["acc"] = ("v_acc", "zlist")
                return "let v_acc := %s in\n" % text
            return Fn.bind(self, env, name, text, ty)

        def block(self, stmts, env, k=None):
            # `acc` is the only join variable and it is a list
            return Fn.block(self, stmts, env, k)

    f = F({"acc": ("[]", "zlist")}, False, "zlist", conv=cm, selfmap=sm)
    # joins carry a list: patch the join typing by inlining (the bodies are tiny): duplicate continuations
    f_falls = Fn.falls

    def block(stmts, env, k=None):
        if stmts and isinstance(stmts[0], ast.If):
            s, rest = stmts[0], stmts[1:]
            t, ty = f.E(s.test, env)
            if ty != "bool":
                raise Unsupported("if on non-boolean")
            cont = lambda env2: block(rest, env2, k)
            return "if %s then\n%s\nelse\n%s" % (t, block(s.body, dict(env), cont), block(s.orelse, dict(env), cont))
        if not stmts:
            if k is None:
                raise Unsupported("falls off end")
            return k(env)
        s, rest = stmts[0], stmts[1:]
        if isinstance(s, ast.Return):
            t, ty = f.E(s.value, env)
            return t
        if isinstance(s, ast.Assign):
            t, ty = f.E(s.value, env)
            env = dict(env)
            pre = f.bind(env, "acc", t, ty)
            return pre + block(rest, env, k)
        raise Unsupported("extra points statement")
    return block(rewrite(stmts), {"acc": ("[]", "zlist")})


def gen_hex(out):
    c = find_class(parse("hexagonal_lattice.py"), "HexagonalLattice")
    cm = conv_members()
    if not same(nodoc(find_func(c, "equivalent_brick_lattice")),
                "return BrickLattice(shape=self.shape, pbc=self.pbc, delete=True, convention=self.convention)"):
        raise Unsupported("HexagonalLattice.equivalent_brick_lattice changed")
    if not same(nodoc(find_func(c, "adjacency_matrix")),
                "equiv_lattice = self.equivalent_brick_lattice()\nreturn equiv_lattice.adjacency_matrix()"):
        raise Unsupported("HexagonalLattice.adjacency_matrix changed")
    out.append(definition("gen_hex_nsites", P2, "Z", Fn({}, False, "Z", selfmap=SHAPE2).translate(nodoc(find_func(c, "nsites")))))
    b = nodoc(find_func(c, "index_to_coord"))
    if not same(b[:2], "equiv_lattice = self.equivalent_brick_lattice()\nsquare_coord = equiv_lattice.index_to_coord(i)"):
        raise Unsupported("HexagonalLattice.index_to_coord: delegation prefix changed")
    env = {"square_coord[0]": ("r", "Z"), "square_coord[1]": ("c", "Z")}
    out.append(definition("gen_hex_pos", [("up", "bool"), ("r", "Z"), ("c", "Z")], "coord",
                          Fn(env, False, "coord", conv=cm, selfmap=SHAPE2).translate(b[2:])))
    b = nodoc(find_func(c, "coord_to_index"))
    if not same(b[-2:], "equiv_lattice = self.equivalent_brick_lattice()\nreturn equiv_lattice.coord_to_index((int_x,int_y))"):
        raise Unsupported("HexagonalLattice.coord_to_index: delegation suffix changed")
    body = strip_fstrings(b[:-2]) + ast.parse("return (int_x, int_y)").body

    class H(Fn):
        pass
    # the float input: UP (x,y) = (a*sqrt3/2, b/2) ; LEFT (x,y) = (a/2, b*sqrt3/2): translate per convention
    for nm, upv, env in (("gen_hex_unpos_up", "true", {"c[0]": ("a", "r3half"), "c[1]": ("b", "half")}),
                         ("gen_hex_unpos_left", "false", {"c[0]": ("a", "half"), "c[1]": ("b", "r3half")})):
        conv = {"ShiftedLatticeConvention.COLS_SHIFTED_UP": upv, "ShiftedLatticeConvention.ROWS_SHIFTED_LEFT": "true" if upv == "false" else "false"}
        f = Fn(env, True, "tuple:Z,Z", conv=conv, selfmap=SHAPE2)
        sel = []
        for s in body:
            # keep only the branch of this convention (the other one would mis-type the float input)
            if isinstance(s, ast.If) and f.conv_test(s.test) is not None:
                if f.conv_test(s.test) == "true":
                    sel += s.body
                continue
            sel.append(s)
        out.append(definition(nm, [("a", "Z"), ("b", "Z")], "option (Z * Z)", f.translate(sel)))


# ------------------------------------------------------------------ np.roll adjacency loops (templates)
ROLL_CUT = ("seld = (math.prod(self.shape[:d]), self.shape[d], math.prod(self.shape[d + 1:]))\n"
            "idx_cut = idx.reshape(seld)\nids_cut = ids.reshape(seld)\n"
            "if s == 1:\n    idx_cut = idx_cut[:, 1:, :]\n    ids_cut = ids_cut[:, 1:, :]\n"
            "elif s == -1:\n    idx_cut = idx_cut[:, :-1, :]\n    ids_cut = ids_cut[:, :-1, :]\n"
            "else:\n    assert False\n")
WRITE_CUT = "for i, j in zip(idx_cut.reshape(-1), ids_cut.reshape(-1)):\n    adj[i, j] = 1\n"


def _ind(text, n):
    return "".join(" " * n + l + "\n" for l in text.splitlines())


def roll_loop(guard):
    """the axis loop of IntegerLattice.adjacency_matrix the model [int_pairs_g guard] was written from"""
    w = "if i != j:\n    adj[i, j] = 1\n" if guard else "adj[i, j] = 1\n"
    return ("for d in range(self.ndim):\n    for s in [-1, 1]:\n        ids = np.roll(idx, s, axis=d)\n"
            "        if self.pbc[d]:\n            for i, j in zip(idx.reshape(-1), ids.reshape(-1)):\n" + _ind(w, 16) +
            "        else:\n" + _ind(ROLL_CUT + WRITE_CUT, 12))


def tri_diag_loop():
    """the chord loop of the repaired TriangularLattice.adjacency_matrix ([tri_diag_g true])"""
    cut_next = ROLL_CUT.replace("self.shape[:d]", "self.shape[:d + 1]").replace("self.shape[d + 1:]", "self.shape[d + 2:]") \
                       .replace("self.shape[d],", "self.shape[d + 1],")
    cut_both = ("seld = (math.prod(self.shape[:d]), self.shape[d], self.shape[d + 1], math.prod(self.shape[d + 2:]))\n"
                "idx_cut = idx.reshape(seld)\nids_cut = ids.reshape(seld)\n"
                "if s == 1:\n    idx_cut = idx_cut[:, 1:, 1:, :]\n    ids_cut = ids_cut[:, 1:, 1:, :]\n"
                "elif s == -1:\n    idx_cut = idx_cut[:, :-1, :-1, :]\n    ids_cut = ids_cut[:, :-1, :-1, :]\n"
                "else:\n    assert False\n")
    return ("for d in range(self.ndim - 1):\n    for s in [-1, 1]:\n"
            "        ids = np.roll(idx, s, axis=0)\n        ids = np.roll(ids, s, axis=1)\n"
            "        if self.pbc[d] and self.pbc[d + 1]:\n"
            "            for i, j in zip(idx.reshape(-1), ids.reshape(-1)):\n                if i != j:\n                    adj[i, j] = 1\n"
            "        elif self.pbc[d]:\n" + _ind(cut_next + WRITE_CUT, 12) +
            "        else:\n            if self.pbc[d + 1]:\n" + _ind(ROLL_CUT, 16) +
            "            else:\n" + _ind(cut_both, 16) + _ind(WRITE_CUT, 12))


def gen_roll_templates(out):
    """IntegerLattice / TriangularLattice / the vertex part of OddFaceCenteredLattice: the adjacency loops are
    hand-modelled (int_pairs_g, tri_diag_g); the source must be the text they were written from, so that an
    edit that only shows on shapes beyond the correspondence run still breaks the tie"""
    head = "adj = np.zeros((self.nsites, self.nsites), dtype=int)\nidx = np.arange(self.nsites).reshape(self.shape)\n"
    c = find_class(parse("integer_lattice.py"), "IntegerLattice")
    if not same(nodoc(find_func(c, "adjacency_matrix")), head + roll_loop(True) + "return adj"):
        raise Unsupported("IntegerLattice.adjacency_matrix changed")
    c = find_class(parse("triangular_lattice.py"), "TriangularLattice")
    if not same(nodoc(find_func(c, "adjacency_matrix")), head + roll_loop(True) + tri_diag_loop() + "return adj"):
        raise Unsupported("TriangularLattice.adjacency_matrix changed")
    init = [ast.unparse(x) for x in nodoc(find_func(c, "__init__"))]
    if init[:2] != ["if len(shape) > 2:\n    raise NotImplementedError('Triangular lattices require at most 2 dimensions, {len(shape)} were given')",
                    "self.shape = tuple(shape)"]:
        raise Unsupported("TriangularLattice.__init__: at most two axes")
    c = find_class(parse("odd_face_centered_lattice.py"), "OddFaceCenteredLattice")
    am = nodoc(find_func(c, "adjacency_matrix"))
    if len(am) != 7 or not same(am[:4], "adj = np.zeros((self.nsites, self.nsites), dtype=int)\nnverts = math.prod(self.shape)\n"
                                        "idx = np.arange(nverts).reshape(self.shape)\n" + roll_loop(False)) \
            or not same(am[6:], "return adj"):
        raise Unsupported("OddFaceCenteredLattice.adjacency_matrix: vertex links changed")
    out.append("Definition gen_roll_templates_matched : bool := true.\n")


def gen_layered(out):
    c = find_class(parse("layered_lattice.py"), "LayeredLattice")
    if not same(nodoc(find_func(c, "nsites")), "return self.nlayers * self.base_lattice.nsites"):
        raise Unsupported("LayeredLattice.nsites changed")
    if not same(nodoc(find_func(c, "index_to_coord")),
                "assert i < self.nsites\n"
                "return (i // self.base_lattice.nsites,) + self.base_lattice.index_to_coord(i % self.base_lattice.nsites)"):
        raise Unsupported("LayeredLattice.index_to_coord changed")
    if not same(nodoc(find_func(c, "coord_to_index")),
                "assert c[0] < self.nlayers\n"
                "return c[0] * self.base_lattice.nsites + self.base_lattice.coord_to_index(c[1:])"):
        raise Unsupported("LayeredLattice.coord_to_index changed")
    if not same(nodoc(find_func(c, "adjacency_matrix")),
                "base_adj = self.base_lattice.adjacency_matrix()\n"
                "layneigh = np.identity(self.base_lattice.nsites, dtype=int)\n"
                "return np.block([i*[layneigh] + [base_adj] + (self.nlayers-i-1)*[layneigh] for i in range(self.nlayers)])"):
        raise Unsupported("LayeredLattice.adjacency_matrix changed")
    out.append("(* LayeredLattice: source matched against the templates the model was written from *)\n"
               "Definition gen_layer_nsites (nl bn : Z) : Z := nl * bn.\n"
               "Definition gen_layer_index_to_coord (nl bn : Z) (b : Z -> option coord) (i : Z) : option coord :=\n"
               "  if i <? gen_layer_nsites nl bn then option_map (cons (i / bn)) (b (i mod bn)) else None.\n"
               "Definition gen_layer_coord_to_index (nl bn : Z) (b : coord -> option (option Z)) (c : coord) : option (option Z) :=\n"
               "  match c with\n  | l :: c' => if l <? nl then match b c' with Some (Some k) => Some (Some (l * bn + k)) | _ => None end else None\n"
               "  | [] => None\n  end.\n"
               "(* block (a,b) of np.block: the base matrix on the diagonal, the identity elsewhere *)\n"
               "Definition gen_layer_block_is_base (a b : Z) : bool := a =? b.\n")


def gen_full_custom_adj(out):
    c = find_class(parse("fully_connected_lattice.py"), "FullyConnectedLattice")
    if not same(nodoc(find_func(c, "adjacency_matrix")),
                "adj = np.ones((self.nsites, self.nsites), dtype=int)\nfor n in range(self.nsites):\n    adj[n, n] = 0\nreturn adj"):
        raise Unsupported("FullyConnectedLattice.adjacency_matrix changed")
    c = find_class(parse("customized_lattice.py"), "CustomizedLattice")
    # the stored matrix itself or a copy of it: the same matrix value (whether the caller can reach the stored
    # array through the result is an aliasing question, decided by the history oracle of checks/C14.py)
    if not any(same(nodoc(find_func(c, "adjacency_matrix")), t) for t in
               ("return self.adj", "return self.adj.copy()", "return np.copy(self.adj)", "return np.array(self.adj)")):
        raise Unsupported("CustomizedLattice.adjacency_matrix changed")
    init = [ast.unparse(s) for s in nodoc(find_func(c, "__init__"))]
    need = ["self.shape = tuple(shape)", "self.adj = np.array(adj, dtype='bool')", "nsites = math.prod(self.shape)",
            "if self.adj.shape != (nsites, nsites):\n    raise ValueError('The given matrix adj has shape {self.adj.shape} instead of {(nsites,nsites)}.')",
            "if not np.array_equal(self.adj, self.adj.T):\n    raise ValueError('The adjacency matrix must be symmetric.')",
            "if not all((adj[i, i] == 0 for i in range(nsites))):\n    raise ValueError('The adjacency matrix must have a null diagonal')"]
    if init != need:
        raise Unsupported("CustomizedLattice.__init__ changed")
    out.append("Definition gen_full_custom_templates_matched : bool := true.\n")


def generate():
    out = ["(* generated by gen/lattice.py from %s*.py -- do not edit *)" % LDIR,
           "From Qib Require Import Lattice.LatModel.", "Local Open Scope Z_scope.", ""]
    gen_box_class(out, "integer_lattice.py", "IntegerLattice", "int")
    gen_box_class(out, "triangular_lattice.py", "TriangularLattice", "tri")
    gen_box_class(out, "fully_connected_lattice.py", "FullyConnectedLattice", "full")
    gen_box_class(out, "customized_lattice.py", "CustomizedLattice", "custom")
    gen_full_custom_adj(out)
    gen_roll_templates(out)
    gen_ofc(out)
    gen_brick(out)
    gen_hex(out)
    gen_layered(out)
    return "\n".join(out) + "\n"


if __name__ == "__main__":
    print(generate())
