"""T1 (composite part): regenerate Coq definitions from the COMPOSITE gate classes of
/repo/src/qib/operator/gates.py and from qUCC.as_matrix (ansatz.py).  Fail closed.

Extracted:
  ControlledGate.as_matrix      : initial value, loop bound and body of the control-index loop,
                                  the kron/diag placement expression
  ControlledGate / MultiplexedGate : num_wires, is_hermitian, particles expressions
  MultiplexedGate.__init__      : the refusal conditions (a guard that does not `raise` refuses nothing)
  MultiplexedGate.as_matrix     : block_diag of the targets' matrices
  BlockEncodingGate             : the np.block layout, is_hermitian answer, inverse method, per method;
                                  the argument of sqrtm; num_aux_qubits
  TimeEvolutionGate             : the argument of expm, inverse time, is_hermitian
  PrepareGate                   : x expression, sign flip / transpose logic, norm order, inverse flag
  GeneralGate                   : arguments of the two np.allclose tests, inverse matrix
  inverse() of every composite class : which bound-particle lists the returned gate gets
  qUCC.as_matrix                : every expm argument, the product in the 'sd' branch
  Circuit.inverse               : the gate list handed to Circuit(...) (reversed list of g.inverse())
Numpy expressions are translated to terms over the combinators of Qib.Gates.CompModel.
"""
import ast
from pyx import Unsupported, parse, find_class, find_func, body_nodoc

GATES = "src/qib/operator/gates.py"
ANSATZ = "src/qib/algorithms/vqe/ansatz/ansatz.py"
CIRCUIT = "src/qib/circuit/circuit.py"


def up(node):
    return ast.unparse(node)


def expect(node, text, where):
    got = up(node)
    if got != text:
        raise Unsupported("%s: expected `%s`, found `%s`" % (where, text, got))


def dotted(node):
    if isinstance(node, ast.Name):
        return node.id
    if isinstance(node, ast.Attribute):
        b = dotted(node.value)
        return None if b is None else b + "." + node.attr
    return None


# ----------------------------------------------------------------------------- integers / booleans
class IntTr:
    """Python int / bool expressions -> Coq Z / bool. env: dotted-name or unparsed text -> (coq, type)"""

    def __init__(self, env):
        self.env = dict(env)

    def expr(self, e):
        key = up(e)
        if key in self.env:
            return self.env[key]
        if isinstance(e, ast.Constant):
            v = e.value
            if isinstance(v, bool):
                return ("true" if v else "false"), "bool"
            if isinstance(v, int):
                return ("%d" % v if v >= 0 else "(%d)" % v), "Z"
            raise Unsupported("constant %r" % (v,))
        if isinstance(e, ast.UnaryOp) and isinstance(e.op, ast.USub):
            t, ty = self.expr(e.operand)
            if ty == "Z":
                return "(- %s)" % t, "Z"
        if isinstance(e, ast.UnaryOp) and isinstance(e.op, ast.Not):
            t, ty = self.expr(e.operand)
            if ty == "bool":
                return "(negb %s)" % t, "bool"
        if isinstance(e, ast.BinOp):
            a, ta = self.expr(e.left)
            b, tb = self.expr(e.right)
            if ta == "Z" and tb == "Z":
                op = type(e.op)
                if op in (ast.Add, ast.Sub, ast.Mult):
                    return "(%s %s %s)" % (a, {ast.Add: "+", ast.Sub: "-", ast.Mult: "*"}[op], b), "Z"
                if op is ast.LShift:
                    return "(Z.shiftl %s %s)" % (a, b), "Z"
                if op is ast.RShift:
                    return "(Z.shiftr %s %s)" % (a, b), "Z"
                if op is ast.Pow:
                    return "(%s ^ %s)" % (a, b), "Z"
                if op is ast.BitOr:
                    return "(Z.lor %s %s)" % (a, b), "Z"
            raise Unsupported("int operator in `%s`" % key)
        if isinstance(e, ast.Compare) and len(e.ops) == 1:
            a, ta = self.expr(e.left)
            b, tb = self.expr(e.comparators[0])
            if ta == "Z" and tb == "Z":
                op = type(e.ops[0])
                m = {ast.Eq: "(%s =? %s)", ast.NotEq: "(negb (%s =? %s))", ast.Lt: "(%s <? %s)",
                     ast.LtE: "(%s <=? %s)", ast.Gt: "(%s >? %s)", ast.GtE: "(%s >=? %s)"}.get(op)
                if m:
                    return m % (a, b), "bool"
            if ta == "bool" and tb == "bool" and isinstance(e.ops[0], ast.Eq):
                return "(Bool.eqb %s %s)" % (a, b), "bool"
            raise Unsupported("comparison `%s`" % key)
        if isinstance(e, ast.BoolOp):
            parts = [self.expr(v) for v in e.values]
            if any(t != "bool" for _, t in parts):
                raise Unsupported("boolean operator on non-booleans `%s`" % key)
            return "(" + (" && " if isinstance(e.op, ast.And) else " || ").join(p for p, _ in parts) + ")", "bool"
        if isinstance(e, ast.IfExp):
            c, tc = self.expr(e.test)
            a, ta = self.expr(e.body)
            b, tb = self.expr(e.orelse)
            if tc == "bool" and ta == tb:
                return "(if %s then %s else %s)" % (c, a, b), ta
        raise Unsupported("expression `%s`" % key)


# ----------------------------------------------------------------------------- matrices
DIM_OK = ("tgmat.shape[0]", "hmat.shape[0]", "mat.shape[0]")


class MatTr:
    """numpy matrix expressions -> terms over CompModel combinators.
    env: unparsed text -> (coq, type), type in mat | vec | scal | mats (list of matrices).
    nc: Coq term for the number of leading (control) wires used by kron / block_diag.
    n : Coq term for the size used by matrix products."""

    def __init__(self, env, nc=None, n=None):
        self.env, self.nc, self.n = dict(env), nc, n

    def expr(self, e):
        key = up(e)
        if key in self.env:
            return self.env[key]
        if isinstance(e, ast.Constant):
            v = e.value
            if isinstance(v, bool):
                raise Unsupported("boolean in matrix expression")
            if isinstance(v, int) and v in (0, 1):
                return ("1" if v else "0"), "scal"
            if isinstance(v, complex) and v == 1j:
                return "sI", "scal"
            raise Unsupported("constant %r in matrix expression" % (v,))
        if isinstance(e, ast.UnaryOp) and isinstance(e.op, ast.USub):
            t, ty = self.expr(e.operand)
            if ty == "mat":
                return "(mopp %s)" % t, "mat"
            if ty == "scal":
                return "(- %s)" % t, "scal"
            raise Unsupported("unary minus on %s" % ty)
        if isinstance(e, ast.BinOp):
            a, ta = self.expr(e.left)
            b, tb = self.expr(e.right)
            op = type(e.op)
            if op is ast.Mult:
                if ta == "scal" and tb == "scal":
                    return "(%s * %s)" % (a, b), "scal"
                if ta == "scal" and tb == "mat":
                    return "(mscal %s %s)" % (a, b), "mat"
                if ta == "mat" and tb == "scal":
                    return "(mscal %s %s)" % (b, a), "mat"
                if ta == "vec" and tb == "vec":
                    return "(fun b_ => %s b_ * %s b_)" % (a, b), "vec"
            if op is ast.Add and ta == tb == "mat":
                return "(madd %s %s)" % (a, b), "mat"
            if op is ast.Sub and ta == tb == "mat":
                return "(msub %s %s)" % (a, b), "mat"
            if op is ast.Sub and ta == "scal" and a == "1" and tb == "vec":
                return "(vcompl %s)" % b, "vec"
            if op is ast.MatMult and ta == tb == "mat":
                if self.n is None:
                    raise Unsupported("matrix product without a size")
                return "(mmul %s %s %s)" % (self.n, a, b), "mat"
            raise Unsupported("operator %s on %s,%s in `%s`" % (op.__name__, ta, tb, key))
        if isinstance(e, ast.Attribute) and e.attr == "T":
            inner = e.value
            if isinstance(inner, ast.Call) and not inner.args and not inner.keywords \
                    and isinstance(inner.func, ast.Attribute) and inner.func.attr in ("conj", "conjugate"):
                t, ty = self.expr(inner.func.value)
                if ty == "mat":
                    return "(madj %s)" % t, "mat"
            t, ty = self.expr(inner)
            if ty == "mat":
                return "(mtransp %s)" % t, "mat"
            raise Unsupported(".T on %s" % ty)
        if isinstance(e, ast.Call):
            fn = dotted(e.func)
            if e.keywords:
                raise Unsupported("keyword arguments in `%s`" % key)
            if fn == "np.kron" and len(e.args) == 2:
                a, ta = self.expr(e.args[0])
                b, tb = self.expr(e.args[1])
                if ta == tb == "mat" and self.nc is not None:
                    return "(kron %s %s %s)" % (self.nc, a, b), "mat"
            if fn == "np.diag" and len(e.args) == 1:
                a, ta = self.expr(e.args[0])
                if ta == "vec":
                    return "(mdiag %s)" % a, "mat"
            if fn == "np.identity" and len(e.args) == 1:
                if up(e.args[0]) in DIM_OK:
                    return "mid", "mat"
                raise Unsupported("np.identity of `%s`" % up(e.args[0]))
            if fn == "np.block" and len(e.args) == 1:
                rows = e.args[0]
                if isinstance(rows, ast.List) and len(rows.elts) == 2 and all(
                        isinstance(r, ast.List) and len(r.elts) == 2 for r in rows.elts):
                    parts = [self.expr(x) for r in rows.elts for x in r.elts]
                    if all(t == "mat" for _, t in parts):
                        return "(block2 %s)" % " ".join(p for p, _ in parts), "mat"
            if fn == "block_diag" and len(e.args) == 1 and isinstance(e.args[0], ast.Starred):
                a, ta = self.expr(e.args[0].value)
                if ta == "mats" and self.nc is not None:
                    return "(block_diag %s %s)" % (self.nc, a), "mat"
            raise Unsupported("call `%s`" % key)
        raise Unsupported("matrix expression `%s`" % key)


def returns_of_if_chain(stmts, where):
    """[If(test: self.method == BlockEncodingMethod.X) body..., ..., Raise] -> {X: body}"""
    out = {}
    for s in stmts:
        if isinstance(s, ast.If) and not s.orelse:
            t = s.test
            if not (isinstance(t, ast.Compare) and len(t.ops) == 1 and isinstance(t.ops[0], ast.Eq)
                    and up(t.left) == "self.method" and dotted(t.comparators[0]) is not None
                    and dotted(t.comparators[0]).startswith("BlockEncodingMethod.")):
                raise Unsupported("%s: unexpected test `%s`" % (where, up(t)))
            m = dotted(t.comparators[0]).split(".")[1]
            if m in out:
                raise Unsupported("%s: method %s tested twice" % (where, m))
            out[m] = s.body
        elif isinstance(s, ast.Raise):
            continue
        else:
            raise Unsupported("%s: unexpected statement `%s`" % (where, up(s)[:60]))
    if set(out) != {"Wx", "Wxi", "R"}:
        raise Unsupported("%s: methods %s" % (where, sorted(out)))
    return out


METH = {"Wx": "Wx", "Wxi": "Wxi", "R": "BR"}


def match3(fn_of_m, name, rty):
    return ("Definition %s (m : bemethod) : %s :=\n  match m with\n" % (name, rty)
            + "".join("  | %s => %s\n" % (METH[m], fn_of_m(m)) for m in ("Wx", "Wxi", "R")) + "  end.\n")


def analyse_inverse(stmts, where, plists):
    """Body of an inverse() method.  Returns (ctor, args, rebound) where rebound maps each
    attribute in `plists` (bound-particle lists of the class) to one of
      'kept'   - the returned gate gets the same list (set unconditionally, or under `if self.L:`)
      'dropped'- the returned gate is constructed without it
    or ('self', None, None) for `return self`."""
    if len(stmts) == 1 and isinstance(stmts[0], ast.Return):
        v = stmts[0].value
        if up(v) == "self":
            return "self", None, None
        if isinstance(v, ast.Call) and isinstance(v.func, ast.Name) and not v.keywords:
            return v.func.id, v.args, {p: "dropped" for p in plists}
        raise Unsupported("%s: return `%s`" % (where, up(v)))
    if not (len(stmts) >= 2 and isinstance(stmts[0], ast.Assign) and len(stmts[0].targets) == 1
            and isinstance(stmts[0].targets[0], ast.Name) and isinstance(stmts[0].value, ast.Call)
            and isinstance(stmts[0].value.func, ast.Name) and not stmts[0].value.keywords
            and isinstance(stmts[-1], ast.Return)):
        raise Unsupported("%s: unexpected shape of inverse()" % where)
    var = stmts[0].targets[0].id
    expect(stmts[-1].value, var, where)
    reb = {p: "dropped" for p in plists}
    for s in stmts[1:-1]:
        call = None
        if isinstance(s, ast.If) and not s.orelse and len(s.body) == 1 and isinstance(s.body[0], ast.Expr):
            guard = up(s.test)
            call = s.body[0].value
        elif isinstance(s, ast.Expr):
            guard = None
            call = s.value
        if not (isinstance(call, ast.Call) and isinstance(call.func, ast.Attribute)
                and up(call.func.value) == var and len(call.args) == 1 and not call.keywords):
            raise Unsupported("%s: unexpected statement `%s`" % (where, up(s)[:70]))
        arg = up(call.args[0])
        if not (arg.startswith("self.") and arg[5:] in plists):
            raise Unsupported("%s: setter argument `%s`" % (where, arg))
        if guard is not None and guard != arg:
            raise Unsupported("%s: guard `%s` of setter for `%s`" % (where, guard, arg))
        if call.func.attr != plists[arg[5:]]:
            raise Unsupported("%s: setter `%s` for `%s`" % (where, call.func.attr, arg))
        reb[arg[5:]] = "kept"
    return stmts[0].value.func.id, stmts[0].value.args, reb


def plist_def(name, state):
    return "Definition %s (ps : list nat) : list nat := %s.\n" % (name, "ps" if state == "kept" else "[]")


def generate(circuit=False):
    """circuit=True (property C03): also translate Circuit.inverse (circuit.py)"""
    tree = parse(GATES)
    out = ["(* generated by gen/gates_comp.py from %s and %s -- do not edit *)" % (GATES, ANSATZ),
           "From Qib Require Import Gates.CompModel.", "Section GenGatesComp.", "Context {K : Scalar}.",
           "Local Open Scope K_scope.", ""]

    # ====================================================================== ControlledGate
    cg = find_class(tree, "ControlledGate")
    b = [s for s in body_nodoc(find_func(cg, "as_matrix")) if not isinstance(s, ast.Assert)]
    if len(b) != 6:
        raise Unsupported("ControlledGate.as_matrix: %d statements" % len(b))
    expect(b[0], "tgmat = self.tgate.as_matrix()", "ControlledGate.as_matrix[0]")
    expect(b[1], "cidx = np.zeros(2 ** self.ncontrols)", "ControlledGate.as_matrix[1]")
    if not (isinstance(b[2], ast.Assign) and up(b[2].targets[0]) == "ic"):
        raise Unsupported("ControlledGate.as_matrix: expected `ic = <int>`")
    init, ty = IntTr({}).expr(b[2].value)
    if ty != "Z":
        raise Unsupported("ControlledGate.as_matrix: ic initial value")
    loop = b[3]
    if not (isinstance(loop, ast.For) and not loop.orelse and up(loop.target) == "j"):
        raise Unsupported("ControlledGate.as_matrix: expected `for j in ...`")
    expect(loop.iter, "range(self.ncontrols)", "ControlledGate.as_matrix loop bound")
    if not (len(loop.body) == 1 and isinstance(loop.body[0], ast.If) and not loop.body[0].orelse
            and len(loop.body[0].body) == 1 and isinstance(loop.body[0].body[0], ast.AugAssign)
            and up(loop.body[0].body[0].target) == "ic"):
        raise Unsupported("ControlledGate.as_matrix: loop body is not `if <test>: ic <op>= <expr>`")
    env = {"self.ncontrols": ("ncontrols", "Z"), "j": ("j", "Z"), "ic": ("ic", "Z"),
           "self.ctrl_state[j]": ("csj", "Z")}
    test, tty = IntTr(env).expr(loop.body[0].test)
    aug = loop.body[0].body[0]
    upd, uty = IntTr(env).expr(ast.BinOp(left=ast.Name(id="ic", ctx=ast.Load()), op=aug.op, right=aug.value))
    if tty != "bool" or uty != "Z":
        raise Unsupported("ControlledGate.as_matrix: loop body types")
    expect(b[4], "cidx[ic] = 1", "ControlledGate.as_matrix[4]")
    if not isinstance(b[5], ast.Return):
        raise Unsupported("ControlledGate.as_matrix: last statement is not a return")
    mat, mty = MatTr({"tgmat": ("tgmat", "mat"), "cidx": ("cidx", "vec")}, nc="nc").expr(b[5].value)
    if mty != "mat":
        raise Unsupported("ControlledGate.as_matrix: return type")
    out += ["(* ControlledGate.as_matrix *)",
            "Definition gen_ctrl_init : Z := %s%%Z." % init,
            "Definition gen_ctrl_step (ncontrols csj j ic : Z) : Z :=\n  (if %s then %s else ic)%%Z." % (test, upd),
            "Definition gen_ctrl_mat (nc : nat) (cidx : bits -> K) (tgmat : BMx K) : BMx K :=\n  %s." % mat, ""]

    def single_return(cls, fname):
        bb = body_nodoc(find_func(cls, fname))
        bb = [s for s in bb if not isinstance(s, ast.Assert)]
        if not (len(bb) == 1 and isinstance(bb[0], ast.Return)):
            raise Unsupported("%s.%s: not a single return" % (cls.name, fname))
        return bb[0].value

    nw, t = IntTr({"self.tgate.num_wires": ("tnw", "Z"), "self.ncontrols": ("ncontrols", "Z")}).expr(
        single_return(cg, "num_wires"))
    out.append("Definition gen_ctrl_num_wires (tnw ncontrols : Z) : Z := %s%%Z." % nw)
    h, t = IntTr({"self.tgate.is_hermitian()": ("th", "bool"), "self.ncontrols": ("ncontrols", "Z")}).expr(
        single_return(cg, "is_hermitian"))
    if t != "bool":
        raise Unsupported("ControlledGate.is_hermitian: type")
    out.append("Definition gen_ctrl_is_hermitian (th : bool) (ncontrols : Z) : bool := %s%%Z." % h)
    expect(single_return(cg, "particles"), "self.control_qubits + self.tgate.particles()", "ControlledGate.particles")
    out.append("Definition gen_ctrl_particles (cq tp : list nat) : list nat := cq ++ tp.")
    ctor, args, reb = analyse_inverse(body_nodoc(find_func(cg, "inverse")), "ControlledGate.inverse",
                                      {"control_qubits": "set_control"})
    if ctor != "ControlledGate" or [up(a) for a in args] != ["self.tgate.inverse()", "self.ncontrols", "self.ctrl_state"]:
        raise Unsupported("ControlledGate.inverse: constructs %s(%s)" % (ctor, ", ".join(up(a) for a in args or [])))
    out.append("(* inverse(): ControlledGate(self.tgate.inverse(), self.ncontrols, self.ctrl_state) *)")
    out.append(plist_def("gen_ctrl_inv_controls", reb["control_qubits"]))

    # ====================================================================== MultiplexedGate
    mg = find_class(tree, "MultiplexedGate")
    refusals = []
    saw_tgates = False
    for s in body_nodoc(find_func(mg, "__init__")):
        if isinstance(s, ast.If) and not s.orelse:
            raises = [x for x in s.body if isinstance(x, ast.Raise)]
            if len(s.body) == 1 and raises:
                refusals.append(s.test)
            elif len(s.body) == 1 and isinstance(s.body[0], ast.Assert):
                pass          # `assert <exception object>`: always true, refuses nothing
            else:
                raise Unsupported("MultiplexedGate.__init__: guard body `%s`" % up(s)[:80])
        elif isinstance(s, ast.Assign):
            if up(s) == "self.tgates = list(tgates)":
                saw_tgates = True
            elif up(s) not in ("self.ncontrols = ncontrols", "self.control_qubits = []"):
                raise Unsupported("MultiplexedGate.__init__: `%s`" % up(s))
        else:
            raise Unsupported("MultiplexedGate.__init__: statement `%s`" % up(s)[:80])
    if not saw_tgates:
        raise Unsupported("MultiplexedGate.__init__: tgates not stored")
    env = {"len(tgates)": ("ntargets", "Z"), "ncontrols": ("ncontrols", "Z"),
           "any((g.num_wires != tgates[0].num_wires for g in tgates))": ("(negb same_wires)", "bool")}
    rs = []
    for r in refusals:
        t, ty = IntTr(env).expr(r)
        if ty != "bool":
            raise Unsupported("MultiplexedGate.__init__: refusal test type")
        rs.append(t)
    out += ["", "(* MultiplexedGate *)",
            "Definition gen_mux_ctor_refuses (ntargets ncontrols : Z) (same_wires : bool) : bool :=\n  (%s)%%Z."
            % (" || ".join(rs) if rs else "false")]
    b = body_nodoc(find_func(mg, "as_matrix"))
    if len(b) != 2:
        raise Unsupported("MultiplexedGate.as_matrix: %d statements" % len(b))
    expect(b[0], "tgmat = [g.as_matrix() for g in self.tgates]", "MultiplexedGate.as_matrix[0]")
    if not isinstance(b[1], ast.Return):
        raise Unsupported("MultiplexedGate.as_matrix: no return")
    mat, mty = MatTr({"tgmat": ("tgmat", "mats")}, nc="nc").expr(b[1].value)
    out.append("Definition gen_mux_mat (nc : nat) (tgmat : list (BMx K)) : BMx K :=\n  %s." % mat)
    nw, t = IntTr({"self.tgates[0].num_wires": ("tnw0", "Z"), "self.ncontrols": ("ncontrols", "Z")}).expr(
        single_return(mg, "num_wires"))
    out.append("Definition gen_mux_num_wires (tnw0 ncontrols : Z) : Z := %s%%Z." % nw)
    hv = single_return(mg, "is_hermitian")
    if up(hv) == "all((g.is_hermitian() for g in self.tgates))":
        out.append("Definition gen_mux_is_hermitian (ths : list bool) (ncontrols : Z) : bool := forallb (fun x => x) ths.")
    else:
        h, t = IntTr({"self.ncontrols": ("ncontrols", "Z")}).expr(hv)
        if t != "bool":
            raise Unsupported("MultiplexedGate.is_hermitian")
        out.append("Definition gen_mux_is_hermitian (ths : list bool) (ncontrols : Z) : bool := %s%%Z." % h)
    ctor, args, reb = analyse_inverse(body_nodoc(find_func(mg, "inverse")), "MultiplexedGate.inverse",
                                      {"control_qubits": "set_control"})
    if ctor != "MultiplexedGate" or len(args) != 2 or up(args[1]) != "self.ncontrols":
        raise Unsupported("MultiplexedGate.inverse: constructs %s" % ctor)
    a0 = up(args[0])
    if a0 == "[g.inverse() for g in self.tgates]":
        invl = "map inv tgates"
    elif a0 in ("[g.inverse() for g in reversed(self.tgates)]", "[g.inverse() for g in self.tgates[::-1]]",
                "[g.inverse() for g in self.tgates][::-1]"):
        invl = "rev (map inv tgates)"
    else:
        raise Unsupported("MultiplexedGate.inverse: target list `%s`" % a0)
    out.append("Definition gen_mux_inv_targets {G} (inv : G -> G) (tgates : list G) : list G := %s." % invl)
    out.append(plist_def("gen_mux_inv_controls", reb["control_qubits"]))

    # ====================================================================== BlockEncodingGate
    be = find_class(tree, "BlockEncodingGate")
    b = body_nodoc(find_func(be, "as_matrix"))
    expect(b[0], "hmat = self.h.as_matrix().toarray()", "BlockEncodingGate.as_matrix[0]")
    if not (isinstance(b[1], ast.Assign) and up(b[1].targets[0]) == "sq1h" and isinstance(b[1].value, ast.Call)
            and dotted(b[1].value.func) == "sqrtm" and len(b[1].value.args) == 1 and not b[1].value.keywords):
        raise Unsupported("BlockEncodingGate.as_matrix: expected `sq1h = sqrtm(...)`")
    sarg, sty = MatTr({"hmat": ("hmat", "mat")}, n="n").expr(b[1].value.args[0])
    chain = returns_of_if_chain(b[2:], "BlockEncodingGate.as_matrix")
    lay = {}
    for m, body in chain.items():
        if not (len(body) == 1 and isinstance(body[0], ast.Return)):
            raise Unsupported("BlockEncodingGate.as_matrix[%s]: not a single return" % m)
        t, ty = MatTr({"hmat": ("hmat", "mat"), "sq1h": ("sq1h", "mat")}).expr(body[0].value)
        if ty != "mat":
            raise Unsupported("BlockEncodingGate.as_matrix[%s]: type" % m)
        lay[m] = t
    out += ["", "(* BlockEncodingGate *)",
            "Definition gen_benc_sqrtm_arg (n : nat) (hmat : BMx K) : BMx K :=\n  %s." % sarg,
            "Definition gen_benc_mat (m : bemethod) (hmat sq1h : BMx K) : BMx K :=\n  match m with\n"
            + "".join("  | %s => %s\n" % (METH[m], lay[m]) for m in ("Wx", "Wxi", "R")) + "  end."]
    chain = returns_of_if_chain(body_nodoc(find_func(be, "is_hermitian")), "BlockEncodingGate.is_hermitian")
    hv = {}
    for m, body in chain.items():
        if not (len(body) == 1 and isinstance(body[0], ast.Return) and isinstance(body[0].value, ast.Constant)
                and isinstance(body[0].value.value, bool)):
            raise Unsupported("BlockEncodingGate.is_hermitian[%s]" % m)
        hv[m] = "true" if body[0].value.value else "false"
    out.append(match3(lambda m: hv[m], "gen_benc_is_hermitian", "bool"))
    chain = returns_of_if_chain(find_func(be, "num_aux_qubits").body[1:], "BlockEncodingGate.num_aux_qubits")
    na = {}
    for m, body in chain.items():
        if not (len(body) == 1 and isinstance(body[0], ast.Return) and isinstance(body[0].value, ast.Constant)
                and isinstance(body[0].value.value, int)):
            raise Unsupported("BlockEncodingGate.num_aux_qubits[%s]" % m)
        na[m] = "%d%%nat" % body[0].value.value
    out.append(match3(lambda m: na[m], "gen_benc_num_aux", "nat"))
    chain = returns_of_if_chain(body_nodoc(find_func(be, "inverse")), "BlockEncodingGate.inverse")
    im, ia = {}, {}
    for m, body in chain.items():
        ctor, args, reb = analyse_inverse(body, "BlockEncodingGate.inverse[%s]" % m,
                                          {"auxiliary_qubits": "set_auxiliary_qubits"})
        if ctor == "self":
            im[m], ia[m] = METH[m], "kept"
        else:
            if not (ctor == "BlockEncodingGate" and len(args) == 2 and up(args[0]) == "self.h"
                    and (dotted(args[1]) or "").startswith("BlockEncodingMethod.")):
                raise Unsupported("BlockEncodingGate.inverse[%s]: constructs `%s`" % (m, ctor))
            tgt = dotted(args[1]).split(".")[1]
            if tgt not in METH:
                raise Unsupported("BlockEncodingGate.inverse[%s]: method %s" % (m, tgt))
            im[m], ia[m] = METH[tgt], reb["auxiliary_qubits"]
    out.append(match3(lambda m: im[m], "gen_benc_inv_method", "bemethod"))
    out.append("Definition gen_benc_inv_aux (m : bemethod) (ps : list nat) : list nat :=\n  match m with\n"
               + "".join("  | %s => %s\n" % (METH[m], "ps" if ia[m] == "kept" else "[]") for m in ("Wx", "Wxi", "R"))
               + "  end.\n")
    nwv = single_return_after(find_func(be, "num_wires"), "fields = self.h.fields()")
    expect(nwv, "sum((f.lattice.nsites for f in fields)) + self.num_aux_qubits", "BlockEncodingGate.num_wires")

    # ====================================================================== TimeEvolutionGate
    te = find_class(tree, "TimeEvolutionGate")
    b = body_nodoc(find_func(te, "as_matrix"))
    if len(b) != 2:
        raise Unsupported("TimeEvolutionGate.as_matrix: %d statements" % len(b))
    expect(b[0], "hmat = self.h.as_matrix().toarray()", "TimeEvolutionGate.as_matrix[0]")
    if not (isinstance(b[1], ast.Return) and isinstance(b[1].value, ast.Call) and dotted(b[1].value.func) == "expm"
            and len(b[1].value.args) == 1 and not b[1].value.keywords):
        raise Unsupported("TimeEvolutionGate.as_matrix: expected `return expm(<arg>)`")
    targ, tty = MatTr({"hmat": ("hmat", "mat"), "self.t": ("t", "scal")}).expr(b[1].value.args[0])
    if tty != "mat":
        raise Unsupported("TimeEvolutionGate.as_matrix: expm argument type")
    ctor, args, reb = analyse_inverse(body_nodoc(find_func(te, "inverse")), "TimeEvolutionGate.inverse", {})
    if not (ctor == "TimeEvolutionGate" and len(args) == 2 and up(args[0]) == "self.h"):
        raise Unsupported("TimeEvolutionGate.inverse: constructs `%s`" % ctor)
    it, ity = MatTr({"self.t": ("t", "scal")}).expr(args[1])
    if ity != "scal":
        raise Unsupported("TimeEvolutionGate.inverse: time argument")
    hv = single_return(te, "is_hermitian")
    if not (isinstance(hv, ast.Constant) and isinstance(hv.value, bool)):
        raise Unsupported("TimeEvolutionGate.is_hermitian: not a constant")
    out += ["(* TimeEvolutionGate *)",
            "Definition gen_tevo_arg (t : K) (hmat : BMx K) : BMx K :=\n  %s." % targ,
            "Definition gen_tevo_inv_t (t : K) : K := %s." % it,
            "Definition gen_tevo_is_hermitian : bool := %s." % ("true" if hv.value else "false"), ""]

    # ====================================================================== PrepareGate
    pg = find_class(tree, "PrepareGate")
    b = body_nodoc(find_func(pg, "as_matrix"))
    if len(b) != 5:
        raise Unsupported("PrepareGate.as_matrix: %d statements" % len(b))
    if not (isinstance(b[0], ast.Assign) and up(b[0].targets[0]) == "x"):
        raise Unsupported("PrepareGate.as_matrix: expected `x = ...`")
    xe, xty = MatTr({"np.sign(self.vec)": ("sg", "vec"), "np.sqrt(np.abs(self.vec))": ("sqrtabs", "vec")}).expr(b[0].value)
    if xty != "vec":
        raise Unsupported("PrepareGate.as_matrix: x is not a vector expression")
    expect(b[1], "Q = np.linalg.qr(x.reshape((-1, 1)), mode='complete')[0]", "PrepareGate.as_matrix[1]")
    expect(b[2], "if np.dot(x, Q[:, 0]) < 0:\n    Q[:, 0] = -Q[:, 0]", "PrepareGate.as_matrix[2]")
    if not (isinstance(b[3], ast.If) and not b[3].orelse and len(b[3].body) == 1 and isinstance(b[3].body[0], ast.Return)
            and isinstance(b[4], ast.Return)):
        raise Unsupported("PrepareGate.as_matrix: expected `if <flag>: return ..` / `return ..`")
    flag, fty = IntTr({"self.transpose": ("tr", "bool")}).expr(b[3].test)
    r1, t1 = MatTr({"Q": ("Q", "mat")}).expr(b[3].body[0].value)
    r2, t2 = MatTr({"Q": ("Q", "mat")}).expr(b[4].value)
    if fty != "bool" or t1 != "mat" or t2 != "mat":
        raise Unsupported("PrepareGate.as_matrix: types")
    init_src = up(find_func(pg, "__init__"))
    if "n = np.linalg.norm(vec, ord=1)" not in init_src or "vec /= n" not in init_src:
        raise Unsupported("PrepareGate.__init__: 1-norm normalisation not found")
    ctor, args, reb = analyse_inverse(body_nodoc(find_func(pg, "inverse")), "PrepareGate.inverse", {"qubits": "on"})
    if not (ctor == "PrepareGate" and len(args) == 3 and up(args[0]) == "self.vec" and up(args[1]) == "self.nqubits"):
        raise Unsupported("PrepareGate.inverse: constructs `%s`" % ctor)
    itr, ity = IntTr({"self.transpose": ("tr", "bool")}).expr(args[2])
    if ity != "bool":
        raise Unsupported("PrepareGate.inverse: transpose argument")
    hv = [s for s in body_nodoc(find_func(pg, "is_hermitian"))]
    if not (len(hv) == 1 and isinstance(hv[0], ast.Return) and isinstance(hv[0].value, ast.Constant)
            and isinstance(hv[0].value.value, bool)):
        raise Unsupported("PrepareGate.is_hermitian: not a constant")
    out += ["(* PrepareGate *)",
            "Definition gen_prep_x (sg sqrtabs : bits -> K) : bits -> K :=\n  %s." % xe,
            "Definition gen_prep_mat (Q0 : BMx K) (flip tr : bool) : BMx K :=\n"
            "  let Q := if flip then negcol0 Q0 else Q0 in\n  if %s then %s else %s." % (flag, r1, r2),
            "Definition gen_prep_inv_transpose (tr : bool) : bool := %s." % itr,
            plist_def("gen_prep_inv_qubits", reb["qubits"]),
            "Definition gen_prep_is_hermitian : bool := %s." % ("true" if hv[0].value.value else "false"), ""]

    # ====================================================================== GeneralGate
    gg = find_class(tree, "GeneralGate")
    tests = []
    for s in body_nodoc(find_func(gg, "__init__")):
        if isinstance(s, ast.If) and not s.orelse and len(s.body) == 1 and isinstance(s.body[0], ast.Raise):
            tests.append(s.test)
    if len(tests) != 2:
        raise Unsupported("GeneralGate.__init__: %d refusal tests" % len(tests))
    expect(tests[0], "mat.shape != (2 ** nwires, 2 ** nwires)", "GeneralGate.__init__ shape test")
    t = tests[1]
    if not (isinstance(t, ast.UnaryOp) and isinstance(t.op, ast.Not) and isinstance(t.operand, ast.Call)
            and dotted(t.operand.func) == "np.allclose" and len(t.operand.args) == 2 and not t.operand.keywords):
        raise Unsupported("GeneralGate.__init__: unitarity test `%s`" % up(t))
    ua, _ = MatTr({"mat": ("mat", "mat")}, n="n").expr(t.operand.args[0])
    ub, _ = MatTr({"mat": ("mat", "mat")}, n="n").expr(t.operand.args[1])
    hv = single_return(gg, "is_hermitian")
    if not (isinstance(hv, ast.Call) and dotted(hv.func) == "np.allclose" and len(hv.args) == 2 and not hv.keywords):
        raise Unsupported("GeneralGate.is_hermitian: `%s`" % up(hv))
    ha, _ = MatTr({"self.mat": ("mat", "mat")}).expr(hv.args[0])
    hb, _ = MatTr({"self.mat": ("mat", "mat")}).expr(hv.args[1])
    ctor, args, reb = analyse_inverse(body_nodoc(find_func(gg, "inverse")), "GeneralGate.inverse", {"prtcl": "on"})
    if not (ctor == "GeneralGate" and len(args) == 2 and up(args[1]) == "self.nwires"):
        raise Unsupported("GeneralGate.inverse: constructs `%s`" % ctor)
    im_, imty = MatTr({"self.mat": ("mat", "mat")}).expr(args[0])
    # the stored matrix itself, or a copy of it (both mean: the matrix the gate was given)
    am = up(single_return(gg, "as_matrix"))
    if am not in ("self.mat", "self.mat.copy()", "np.copy(self.mat)", "np.array(self.mat)"):
        raise Unsupported("GeneralGate.as_matrix: expected `self.mat` (or a copy of it), found `%s`" % am)
    out += ["(* GeneralGate *)",
            "Definition gen_general_unitary_test (n : nat) (mat : BMx K) : (BMx K * BMx K)%%type :=\n  (%s, %s)." % (ua, ub),
            "Definition gen_general_hermitian_test (mat : BMx K) : (BMx K * BMx K)%%type :=\n  (%s, %s)." % (ha, hb),
            "Definition gen_general_inv_mat (mat : BMx K) : BMx K := %s." % im_,
            plist_def("gen_general_inv_particles", reb["prtcl"]), ""]

    # ====================================================================== qUCC
    at = parse(ANSATZ)
    qf = find_func(find_class(at, "qUCC"), "as_matrix")
    calls = [n for n in ast.walk(qf) if isinstance(n, ast.Call) and dotted(n.func) == "expm"]
    if not calls:
        raise Unsupported("qUCC.as_matrix: no expm call")
    forms = set()
    for c in calls:
        if len(c.args) != 1 or c.keywords:
            raise Unsupported("qUCC.as_matrix: expm call shape")
        t, ty = MatTr({"T_mat": ("T_mat", "mat")}).expr(c.args[0])
        forms.add(t)
    if len(forms) != 1:
        raise Unsupported("qUCC.as_matrix: expm arguments differ: %s" % sorted(forms))
    rets = [n for n in ast.walk(qf) if isinstance(n, ast.Return)]
    kinds = []
    for r in rets:
        v = r.value
        if not (isinstance(v, ast.Call) and dotted(v.func) == "sparse.csr_matrix" and len(v.args) == 1):
            raise Unsupported("qUCC.as_matrix: return `%s`" % up(v))
        a = v.args[0]
        if isinstance(a, ast.Call) and dotted(a.func) == "expm":
            kinds.append("exp")
        elif up(a) == "U[0] @ U[1]":
            kinds.append("prod")
        else:
            raise Unsupported("qUCC.as_matrix: returns `%s`" % up(a))
    if "prod" in kinds:
        app = [n for n in ast.walk(qf) if isinstance(n, ast.Call) and up(n.func) == "U.append"]
        if not (len(app) == 1 and isinstance(app[0].args[0], ast.Call) and dotted(app[0].args[0].func) == "expm"):
            raise Unsupported("qUCC.as_matrix: U is not a list of expm results")
    out += ["(* qUCC.as_matrix: %d expm calls, all with this argument; returns: %s *)" % (len(calls), ",".join(kinds)),
            "Definition gen_qucc_arg (T_mat : BMx K) : BMx K :=\n  %s." % forms.pop(),
            "Definition gen_qucc_returns_products_of_expm : bool := true.", ""]

    # ====================================================================== Circuit.inverse (C03 only)
    if circuit:
        form, txt = circuit_inverse_form()
        out += ["(* Circuit.inverse: %s *)" % txt,
                "Definition gen_circuit_inverse {G} (ginv : G -> G) (gates : list G) : list G := %s." % form, ""]
    out.append("End GenGatesComp.")
    return "\n".join(out) + "\n"


CIRCUIT_INVERSE_FORMS = {
    "[g.inverse() for g in reversed(self.gates)]": "map ginv (rev gates)",
    "[g.inverse() for g in self.gates[::-1]]": "map ginv (rev gates)",
    "[g.inverse() for g in self.gates][::-1]": "rev (map ginv gates)",
    "list(reversed([g.inverse() for g in self.gates]))": "rev (map ginv gates)",
    "[g.inverse() for g in self.gates]": "map ginv gates",            # not reversed: the theorem no longer compiles
}


def circuit_inverse_form():
    """Circuit.inverse() must be `return Circuit(<list of g.inverse()>)`; returns (coq term, source text).
    Also asserts that the constructor stores the list it is given (`self.gates = list(gates)`) and that
    as_matrix iterates `self.gates` front to back multiplying from the left."""
    tree = parse(CIRCUIT)
    cc = find_class(tree, "Circuit")
    b = body_nodoc(find_func(cc, "inverse"))
    if not (len(b) == 1 and isinstance(b[0], ast.Return) and isinstance(b[0].value, ast.Call)
            and dotted(b[0].value.func) == "Circuit" and len(b[0].value.args) == 1 and not b[0].value.keywords):
        raise Unsupported("Circuit.inverse: not `return Circuit(<list>)`")
    txt = up(b[0].value.args[0])
    if txt not in CIRCUIT_INVERSE_FORMS:
        raise Unsupported("Circuit.inverse: gate list `%s`" % txt)
    init = up(find_func(cc, "__init__"))
    if "self.gates = list(gates)" not in init:
        raise Unsupported("Circuit.__init__: `self.gates = list(gates)` not found")
    am = up(find_func(cc, "as_matrix"))
    for need in ("for gate in self.gates:", "mat = gate.as_circuit_matrix(fields)", "mat = gate.as_circuit_matrix(fields) @ mat"):
        if need not in am:
            raise Unsupported("Circuit.as_matrix: `%s` not found" % need)
    return CIRCUIT_INVERSE_FORMS[txt], txt


def single_return_after(fn, first):
    b = body_nodoc(fn)
    if not (len(b) == 2 and up(b[0]) == first and isinstance(b[1], ast.Return)):
        raise Unsupported("%s: unexpected body" % fn.name)
    return b[1].value


if __name__ == "__main__":
    print(generate(circuit=True))
