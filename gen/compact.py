"""T5 (compact encoding part): regenerate Coq definitions from
  /repo/src/qib/lattice/odd_face_centered_lattice.py   and
  /repo/src/qib/transform/compact_encoding.py .

Extracted (fail-closed; anything outside the tiny statement/expression subset raises Unsupported):
  OddFaceCenteredLattice.nsites                 -> gen_nsites s0 s1 : Z
  OddFaceCenteredLattice.index_to_coord         -> gen_index_to_coord s0 s1 i : option coord
  OddFaceCenteredLattice.coord_to_index         -> gen_coord_to_index s0 s1 c : option Z
  OddFaceCenteredLattice.edge_to_odd_face_index -> gen_edge_face s0 s1 ix iy jx jy : option Z
  _encode_vertex_operator                       -> gen_vertex_desc j_idx : option pdesc
  _encode_edge_operator (decision tree)         -> gen_edge_desc i_idx j_idx f_idx ix iy jx jy : option pdesc
  compact_encode_field_operator                 -> the weight constants (as twice the constant, a Gaussian
                                                   integer), the initial identity coefficient, the list of
                                                   hopping strings (operand order, which vertex, weight),
                                                   after a strict structural check of the loops.

Conventions: `//` -> Z.div, `%` -> Z.modulo (both floor, like Python on ints and numpy int64),
`raise` / failing `assert` -> None, a function falling off its end -> Unsupported.
An `if` statement is translated by duplicating the continuation into both branches, so rebinding a
variable inside a branch (x -= 1) is ordinary `let` shadowing.
Types: 'Z', 'bool', 'pd' (Pauli-string descriptor: from_single_paulis arguments, q, later set_pauli
calls), 'coord'.  Letters are coded I=0, X=1, Y=2, Z=3.
"""
import ast, re
from pyx import Unsupported, parse, find_class, find_func, body_nodoc, zlit

F_LATT = "src/qib/lattice/odd_face_centered_lattice.py"
F_ENC = "src/qib/transform/compact_encoding.py"
LETTER = {"I": 0, "X": 1, "Y": 2, "Z": 3}
COQTY = {"Z": "Z", "bool": "bool", "pd": "pdesc", "coord": "coord"}


def find_module_func(tree, name):
    for n in tree.body:
        if isinstance(n, ast.FunctionDef) and n.name == name:
            return n
    raise Unsupported("function %s not found" % name)


class Fn:
    """Translate one function body to a Coq term of type `option <rty>`."""

    def __init__(self, env, rty, ret_hook=None, expr_hook=None, stmt_hook=None):
        self.env0 = dict(env)        # python name -> (coq text, type)
        self.rty = rty
        self.ret_hook = ret_hook     # optional: ast.Return value -> coq text (already wrapped in Some/None) or None
        self.expr_hook = expr_hook   # optional: (self, node, env) -> (text, ty) or None
        self.stmt_hook = stmt_hook   # optional: (self, stmt, env) -> ("let", name, text, ty) | ("skip",) | None
        self.fresh = 0
        self.guards = []             # divisors seen while translating the current statement

    def take(self):
        gs, self.guards = list(dict.fromkeys(self.guards)), []
        return gs

    @staticmethod
    def wrap(gs, term):
        """put the ZeroDivisionError guards of one statement in front of it"""
        for g in reversed(gs):
            term = "(if (%s =? 0) then None else %s)" % (g, term)
        return term

    # ---------------------------------------------------------------- expressions
    def key(self, node):
        if isinstance(node, ast.Name):
            return node.id
        try:
            return ast.unparse(node)
        except Exception:
            return None

    def expr(self, e, env):
        if self.expr_hook is not None:
            r = self.expr_hook(self, e, env)
            if r is not None:
                return r
        k = self.key(e)
        if k in env and isinstance(e, (ast.Name, ast.Attribute, ast.Subscript, ast.Call)):
            return env[k]
        if isinstance(e, ast.Name):
            raise Unsupported("unknown name %s" % e.id)
        if isinstance(e, ast.Constant):
            v = e.value
            if isinstance(v, bool):
                return ("true" if v else "false"), "bool"
            if isinstance(v, int):
                return zlit(v), "Z"
            raise Unsupported("constant %r" % (v,))
        if isinstance(e, ast.UnaryOp):
            t, ty = self.expr(e.operand, env)
            if isinstance(e.op, ast.USub) and ty == "Z":
                return "(- %s)" % t, "Z"
            if isinstance(e.op, ast.Not) and ty == "bool":
                return "(negb %s)" % t, "bool"
            raise Unsupported("unary %s on %s" % (type(e.op).__name__, ty))
        if isinstance(e, ast.BinOp):
            a, ta = self.expr(e.left, env)
            b, tb = self.expr(e.right, env)
            sym = {ast.Add: "+", ast.Sub: "-", ast.Mult: "*", ast.Mod: "mod", ast.FloorDiv: "/"}.get(type(e.op))
            if sym is None or ta != "Z" or tb != "Z":
                raise Unsupported("operator %s on %s,%s" % (type(e.op).__name__, ta, tb))
            if sym in ("mod", "/") and not (isinstance(e.right, ast.Constant) and isinstance(e.right.value, int)
                                            and e.right.value != 0):
                self.guards.append(b)      # ZeroDivisionError when the divisor is 0
            return "(%s %s %s)" % (a, sym, b), "Z"
        if isinstance(e, ast.Compare):
            if len(e.ops) != 1:
                raise Unsupported("chained comparison")
            a, ta = self.expr(e.left, env)
            b, tb = self.expr(e.comparators[0], env)
            if ta != "Z" or tb != "Z":
                raise Unsupported("comparison on %s,%s" % (ta, tb))
            op = type(e.ops[0])
            fmt = {ast.Eq: "(%s =? %s)", ast.NotEq: "(negb (%s =? %s))", ast.Lt: "(%s <? %s)",
                   ast.LtE: "(%s <=? %s)"}.get(op)
            if fmt:
                return fmt % (a, b), "bool"
            if op is ast.Gt:
                return "(%s <? %s)" % (b, a), "bool"
            if op is ast.GtE:
                return "(%s <=? %s)" % (b, a), "bool"
            raise Unsupported("comparison operator %s" % op.__name__)
        if isinstance(e, ast.BoolOp):
            parts = [self.expr(v, env) for v in e.values]
            if any(t != "bool" for _, t in parts):
                raise Unsupported("bool op on non-bool")
            sym = " && " if isinstance(e.op, ast.And) else " || "
            # python and/or are left-to-right with short circuit; on total boolean terms && / || agree
            out = parts[0][0]
            for p, _ in parts[1:]:
                out = "(%s%s%s)" % (out, sym, p)
            return out, "bool"
        if isinstance(e, ast.Call) and isinstance(e.func, ast.Name) and not e.keywords:
            args = [self.expr(a, env) for a in e.args]
            tys = [t for _, t in args]
            if e.func.id == "abs" and tys == ["Z"]:
                return "(Z.abs %s)" % args[0][0], "Z"
            if e.func.id == "min" and tys == ["Z", "Z"]:
                return "(Z.min %s %s)" % (args[0][0], args[1][0]), "Z"
            if e.func.id == "max" and tys == ["Z", "Z"]:
                return "(Z.max %s %s)" % (args[0][0], args[1][0]), "Z"
            if e.func.id == "int" and tys == ["Z"]:
                return args[0]
            raise Unsupported("call %s(%s)" % (e.func.id, ",".join(tys)))
        raise Unsupported("expression %s" % ast.unparse(e)[:80])

    # ---------------------------------------------------------------- statements
    def block(self, stmts, env):
        """Coq term of type option rty for the statement list (continuation = rest of the list).
        Divisions by a non-literal divisor met in a statement are guarded in front of that statement."""
        if self.guards:
            raise Unsupported("internal: unguarded division")
        if not stmts:
            raise Unsupported("control reaches the end of the function without return")
        s, rest = stmts[0], stmts[1:]
        if self.stmt_hook is not None:
            r = self.stmt_hook(self, s, env)
            if r is not None:
                if r[0] == "skip":
                    if self.take():
                        raise Unsupported("division in a skipped statement")
                    return self.block(rest, env)
                _, nm, t, ty = r
                return self.let(nm, t, ty, rest, env)
        if isinstance(s, ast.Expr) and isinstance(s.value, ast.Constant) and isinstance(s.value.value, str):
            return self.block(rest, env)
        if isinstance(s, ast.Return):
            if s.value is None:
                raise Unsupported("bare return")
            if self.ret_hook is not None:
                r = self.ret_hook(self, s.value, env)
                if r is not None:
                    return self.wrap(self.take(), r)
            t, ty = self.expr(s.value, env)
            if ty != self.rty:
                raise Unsupported("return type %s, expected %s" % (ty, self.rty))
            return self.wrap(self.take(), "Some %s" % t)
        if isinstance(s, ast.Raise):
            return "None"
        if isinstance(s, ast.Assert):
            t, ty = self.expr(s.test, env)
            gs = self.take()
            if ty != "bool":
                raise Unsupported("assert on non-bool")
            return self.wrap(gs, "(if %s then %s else None)" % (t, self.block(rest, env)))
        if isinstance(s, ast.Assign):
            if len(s.targets) != 1:
                raise Unsupported("multiple assignment targets")
            tg = s.targets[0]
            if isinstance(tg, ast.Name):
                t, ty = self.expr(s.value, env)
                return self.let(tg.id, t, ty, rest, env)
            if isinstance(tg, ast.Tuple) and isinstance(s.value, ast.Tuple) and len(tg.elts) == len(s.value.elts) \
                    and all(isinstance(x, ast.Name) for x in tg.elts):
                vals = [self.expr(v, env) for v in s.value.elts]     # evaluated before any binding
                gs = self.take()
                out_env = dict(env)
                text_open = ""
                for x, (t, ty) in zip(tg.elts, vals):
                    self.fresh += 1
                    nm = "%s_%d" % (x.id, self.fresh)
                    text_open += "(let %s := %s in " % (nm, t)
                    out_env[x.id] = (nm, ty)
                return self.wrap(gs, text_open + self.block(rest, out_env) + ")" * len(vals))
            raise Unsupported("assignment target %s" % ast.unparse(tg))
        if isinstance(s, ast.AugAssign) and isinstance(s.target, ast.Name):
            val = ast.BinOp(left=ast.Name(id=s.target.id, ctx=ast.Load()), op=s.op, right=s.value)
            t, ty = self.expr(val, env)
            return self.let(s.target.id, t, ty, rest, env)
        if isinstance(s, ast.If):
            t, ty = self.expr(s.test, env)
            gs = self.take()
            if ty != "bool":
                raise Unsupported("if on non-bool")
            return self.wrap(gs, "(if %s then %s else %s)" % (t, self.block(list(s.body) + rest, env),
                                                               self.block(list(s.orelse) + rest, env)))
        raise Unsupported("statement %s" % type(s).__name__)

    def let(self, pyname, text, ty, rest, env):
        """bind (the expression `text` has just been translated: its guards are pending)"""
        gs = self.take()
        self.fresh += 1
        nm = "%s_%d" % (pyname, self.fresh)
        env2 = dict(env)
        env2[pyname] = (nm, ty)
        return self.wrap(gs, "(let %s := %s in %s)" % (nm, text, self.block(rest, env2)))

    def function(self, stmts):
        return self.block(list(stmts), dict(self.env0))


def definition(name, params, rty, body):
    ps = " ".join("(%s : %s)" % (n, COQTY[t]) for n, t in params)
    return "Definition %s %s : option %s :=\n  %s.\n" % (name, ps, COQTY[rty], body)


def expect_text(node, text, where):
    """structural comparison with the statement/expression written as `text`"""
    want = ast.parse(text).body[0]
    if isinstance(want, ast.Expr) and not isinstance(node, ast.stmt):
        want = want.value
    if ast.dump(want) != ast.dump(node):
        raise Unsupported("%s: expected `%s`, found `%s`" % (where, text, ast.unparse(node)))


# ---------------------------------------------------------------------------------- lattice
SHAPE_ENV = {
    "self.shape[0]": ("s0", "Z"), "self.shape[1]": ("s1", "Z"),
    "math.prod(self.shape)": ("(s0 * s1)", "Z"),
}


def gen_lattice(out):
    tree = parse(F_LATT)
    cls = find_class(tree, "OddFaceCenteredLattice")
    # shape has exactly two entries (this is what makes math.prod(self.shape) = s0 * s1)
    init = body_nodoc(find_func(cls, "__init__"))
    if not any(isinstance(s, ast.If) and ast.unparse(s.test) == "len(shape) != 2"
               and len(s.body) == 1 and isinstance(s.body[0], ast.Raise) for s in init):
        raise Unsupported("__init__: the check `if len(shape) != 2: raise` is gone")
    if not any(ast.unparse(s) == "self.shape = tuple(shape)" for s in init):
        raise Unsupported("__init__: self.shape = tuple(shape) is gone")

    # nsites
    b = body_nodoc(find_func(cls, "nsites"))
    if len(b) != 1 or not isinstance(b[0], ast.Return):
        raise Unsupported("nsites: not a single return")
    t, ty = Fn(SHAPE_ENV, "Z").expr(b[0].value, dict(SHAPE_ENV))
    if ty != "Z":
        raise Unsupported("nsites: type")
    out.append("Definition gen_nsites (s0 s1 : Z) : Z :=\n  %s.\n" % t)

    # index_to_coord
    b = body_nodoc(find_func(cls, "index_to_coord"))
    env = dict(SHAPE_ENV)
    env["i"] = ("i", "Z")

    def ret_i2c(fn, v, env):
        u = ast.unparse(v)
        if u == "np.unravel_index(i, self.shape)":
            return "(np_unravel2 s0 s1 %s)" % env["i"][0]
        if isinstance(v, ast.Tuple) and len(v.elts) == 2:
            comps = []
            for el in v.elts:
                if not (isinstance(el, ast.BinOp) and isinstance(el.op, ast.Add)
                        and isinstance(el.right, ast.Constant) and el.right.value == 0.5):
                    raise Unsupported("index_to_coord: face coordinate is not `<int> + 0.5`")
                t, ty = fn.expr(el.left, env)
                if ty != "Z":
                    raise Unsupported("index_to_coord: face coordinate type")
                comps.append(t)
            return "Some (CHalf %s %s)" % tuple(comps)
        raise Unsupported("index_to_coord: return %s" % u)

    def stmt_i2c(fn, s, env):
        if isinstance(s, ast.Assert) and ast.unparse(s.test) == "len(self.shape) == 2":
            return ("skip",)
        return None

    fn = Fn(env, "coord", ret_hook=ret_i2c, stmt_hook=stmt_i2c)
    out.append(definition("gen_index_to_coord", [("s0", "Z"), ("s1", "Z"), ("i", "Z")], "coord", fn.function(b)))

    # coord_to_index: the dtype dispatch prologue is checked as text, the rest is translated
    b = body_nodoc(find_func(cls, "coord_to_index"))
    prologue = [
        "idx = np.array(c)",
        "if np.issubdtype(idx.dtype, np.integer):\n    return int(np.ravel_multi_index(idx, self.shape))",
        "if idx.shape != (2,):\n    raise ValueError('multi-index must be a sequence of length 2')",
        "idx = np.round(idx - 0.5)",
        "(x, y) = (int(idx[0]), int(idx[1]))",
    ]
    if len(b) <= len(prologue):
        raise Unsupported("coord_to_index: body too short")
    for s, txt in zip(b, prologue):
        expect_text(s, txt, "coord_to_index")
    env = dict(SHAPE_ENV)
    env["x"] = ("x", "Z")
    env["y"] = ("y", "Z")
    fn = Fn(env, "Z")
    face = fn.function(b[len(prologue):])
    out.append("Definition gen_coord_to_index (s0 s1 : Z) (c : coord) : option Z :=\n"
               "  match c with\n  | CInt a b => np_ravel2 s0 s1 a b\n  | CHalf x y => %s\n  end.\n" % face)

    # edge_to_odd_face_index
    b = body_nodoc(find_func(cls, "edge_to_odd_face_index"))
    expect_text(b[0], "(ix, iy) = i", "edge_to_odd_face_index")
    expect_text(b[1], "(jx, jy) = j", "edge_to_odd_face_index")
    env = dict(SHAPE_ENV)
    for v in ("ix", "iy", "jx", "jy"):
        env[v] = (v, "Z")
    fn = Fn(env, "Z")
    out.append(definition("gen_edge_face", [("s0", "Z"), ("s1", "Z"), ("ix", "Z"), ("iy", "Z"), ("jx", "Z"), ("jy", "Z")],
                          "Z", fn.function(b[2:])))


# ---------------------------------------------------------------------------------- encoder
def letter_arg(node, fn, env):
    """('X', i_idx) -> (code, coq index text)"""
    if not (isinstance(node, ast.Tuple) and len(node.elts) == 2 and isinstance(node.elts[0], ast.Constant)
            and node.elts[0].value in LETTER):
        raise Unsupported("single-Pauli argument %s" % ast.unparse(node))
    t, ty = fn.expr(node.elts[1], env)
    if ty != "Z":
        raise Unsupported("single-Pauli index type")
    return "(%d, %s)" % (LETTER[node.elts[0].value], t)


def pd_expr_hook(fn, e, env):
    """PauliString.from_single_paulis(latt.nsites, (L, idx)..., q=k)  ->  pdesc"""
    if isinstance(e, ast.Call) and ast.unparse(e.func) == "PauliString.from_single_paulis":
        if not e.args or ast.unparse(e.args[0]) != "latt.nsites":
            raise Unsupported("from_single_paulis: first argument is not latt.nsites")
        args = [letter_arg(a, fn, env) for a in e.args[1:]]
        q = "0"
        for kw in e.keywords:
            if kw.arg != "q":
                raise Unsupported("from_single_paulis: keyword %s" % kw.arg)
            q, ty = fn.expr(kw.value, env)
            if ty != "Z":
                raise Unsupported("from_single_paulis: q type")
        return "(mkdesc [%s] %s)" % ("; ".join(args), q), "pd"
    return None


def pd_stmt_hook(fn, s, env):
    """E.set_pauli(L, idx)  ->  rebinding of E"""
    if isinstance(s, ast.Expr) and isinstance(s.value, ast.Call) and isinstance(s.value.func, ast.Attribute) \
            and s.value.func.attr == "set_pauli" and isinstance(s.value.func.value, ast.Name):
        var = s.value.func.value.id
        if var not in env or env[var][1] != "pd" or len(s.value.args) != 2 or s.value.keywords:
            raise Unsupported("set_pauli call %s" % ast.unparse(s))
        a0, a1 = s.value.args
        if not (isinstance(a0, ast.Constant) and a0.value in LETTER):
            raise Unsupported("set_pauli letter")
        t, ty = fn.expr(a1, env)
        if ty != "Z":
            raise Unsupported("set_pauli index type")
        return ("let", var, "(desc_set %s %d %s)" % (env[var][0], LETTER[a0.value], t), "pd")
    return None


def const2(node):
    """numeric constant expression c with 2c a Gaussian integer -> (re, im) of 2c"""
    try:
        v = complex(ast.literal_eval(node))
    except Exception:
        try:
            v = complex(eval(compile(ast.Expression(node), "<const>", "eval"), {"__builtins__": {}}, {}))
        except Exception:
            raise Unsupported("weight constant %s" % ast.unparse(node))
    re2, im2 = 2 * v.real, 2 * v.imag
    if re2 != int(re2) or im2 != int(im2):
        raise Unsupported("weight constant %s is not a half-integer Gaussian number" % ast.unparse(node))
    return int(re2), int(im2)


def zi2(p):
    return "(%s, %s)" % (zlit(p[0]), zlit(p[1]))


def weight_of(node, idx_text, where):
    """<const> * term.coeffs[idx]  ->  twice the constant"""
    if not (isinstance(node, ast.BinOp) and isinstance(node.op, ast.Mult)
            and ast.unparse(node.right) == "term.coeffs[%s]" % idx_text):
        raise Unsupported("%s: weight `%s` is not <const> * term.coeffs[%s]" % (where, ast.unparse(node), idx_text))
    return const2(node.left)


def add_call(stmt, where):
    """pauliop.add_pauli_string(WeightedPauliString(P, W)) -> (P node, W node)"""
    if not (isinstance(stmt, ast.Expr) and isinstance(stmt.value, ast.Call)
            and ast.unparse(stmt.value.func) == "pauliop.add_pauli_string" and len(stmt.value.args) == 1
            and not stmt.value.keywords):
        raise Unsupported("%s: expected pauliop.add_pauli_string(...), found `%s`" % (where, ast.unparse(stmt)))
    w = stmt.value.args[0]
    if not (isinstance(w, ast.Call) and ast.unparse(w.func) == "WeightedPauliString" and len(w.args) == 2
            and not w.keywords):
        raise Unsupported("%s: argument is not WeightedPauliString(P, w)" % where)
    return w.args[0], w.args[1]


def gen_encoder(out):
    tree = parse(F_ENC)
    # vertex operator
    b = body_nodoc(find_module_func(tree, "_encode_vertex_operator"))
    if len(b) != 2:
        raise Unsupported("_encode_vertex_operator: expected two statements")
    expect_text(b[0], "j_idx = latt.coord_to_index(j)", "_encode_vertex_operator")
    fn = Fn({"j_idx": ("j_idx", "Z")}, "pd", expr_hook=pd_expr_hook, stmt_hook=pd_stmt_hook)
    out.append(definition("gen_vertex_desc", [("j_idx", "Z")], "pd", fn.function(b[1:])))

    # edge operator
    b = body_nodoc(find_module_func(tree, "_encode_edge_operator"))
    expect_text(b[0], "(ix, iy) = i", "_encode_edge_operator")
    expect_text(b[1], "(jx, jy) = j", "_encode_edge_operator")
    if not isinstance(b[2], ast.Assert):
        raise Unsupported("_encode_edge_operator: third statement is not the nearest-neighbour assert")
    expect_text(b[3], "i_idx = latt.coord_to_index(i)", "_encode_edge_operator")
    expect_text(b[4], "j_idx = latt.coord_to_index(j)", "_encode_edge_operator")
    expect_text(b[5], "f_idx = latt.edge_to_odd_face_index(i, j)", "_encode_edge_operator")
    names = ("i_idx", "j_idx", "f_idx", "ix", "iy", "jx", "jy")
    env = {v: (v, "Z") for v in names}
    fn = Fn(env, "pd", expr_hook=pd_expr_hook, stmt_hook=pd_stmt_hook)
    out.append(definition("gen_edge_desc", [(v, "Z") for v in names], "pd", fn.function([b[2]] + list(b[6:]))))

    # main loop: strict structural check, constants extracted
    f = find_module_func(tree, "compact_encode_field_operator")
    b = body_nodoc(f)
    texts = [ast.unparse(s) for s in b]
    for need in ("adj = latt_fermi.adjacency_matrix()",
                 "latt_enc = OddFaceCenteredLattice(latt_fermi.shape, pbc=False)",
                 "pauliop = PauliOperator()",
                 "return (pauliop, latt_enc)"):
        if need not in texts:
            raise Unsupported("compact_encode_field_operator: `%s` is gone" % need)
    guards = [s for s in b if isinstance(s, ast.If)]
    gtexts = [ast.unparse(s.test) for s in guards]
    for need in ("len(fields) != 1 or fields[0].ptype != ParticleType.FERMION",
                 "not isinstance(latt_fermi, IntegerLattice)", "latt_fermi.ndim != 2", "any(latt_fermi.pbc)"):
        if need not in gtexts:
            raise Unsupported("compact_encode_field_operator: guard `%s` is gone" % need)
    loops = [s for s in b if isinstance(s, ast.For)]
    if len(loops) != 1 or ast.unparse(loops[0].target) != "term" or ast.unparse(loops[0].iter) != "fieldop.terms" \
            or loops[0].orelse:
        raise Unsupported("compact_encode_field_operator: expected exactly `for term in fieldop.terms`")
    if b.index(loops[0]) != len(b) - 2:
        raise Unsupported("compact_encode_field_operator: statements between the term loop and the return")
    lb = loops[0].body
    if len(lb) != 1 or not isinstance(lb[0], ast.If):
        raise Unsupported("term loop: body is not a single if")
    top = lb[0]
    expect_text(top.test, "len(term.opdesc) == 2 and term.opdesc[0].otype == IFOType.FERMI_CREATE and "
                          "(term.opdesc[1].otype == IFOType.FERMI_ANNIHIL)", "term loop")
    if len(top.orelse) != 1 or not isinstance(top.orelse[0], ast.Raise):
        raise Unsupported("term loop: else branch is not a raise")
    tb = top.body
    if len(tb) != 6:
        raise Unsupported("term branch: expected 6 statements, found %d" % len(tb))
    try:
        expect_text(tb[0], "if not np.issubdtype(term.coeffs.dtype, float):\n    raise ValueError('only real coefficient "
                           "matrices for on-site and kinetic hopping term supported')", "term branch")
    except Unsupported:
        # the repaired form (proposed_fixes/C13-accept-integer-dtype-coefficients.diff)
        expect_text(tb[0], "if not np.isrealobj(term.coeffs):\n    raise ValueError('only real coefficient "
                           "matrices for on-site and kinetic hopping term supported')", "term branch")
    expect_text(tb[1], "if not np.allclose(term.coeffs, term.coeffs.T):\n    raise ValueError('only symmetric "
                       "coefficient matrices for on-site and kinetic hopping term supported')", "term branch")
    if not (isinstance(tb[2], ast.Assign) and ast.unparse(tb[2].targets[0]) == "id_coeff"
            and isinstance(tb[2].value, ast.Constant) and isinstance(tb[2].value.value, int)):
        raise Unsupported("term branch: id_coeff initialisation")
    out.append("Definition gen_id_init : Z := %s.\n" % zlit(tb[2].value.value))
    # on-site loop
    l1 = tb[3]
    if not (isinstance(l1, ast.For) and ast.unparse(l1.target) == "i"
            and ast.unparse(l1.iter) == "range(latt_fermi.nsites)" and not l1.orelse and len(l1.body) == 4):
        raise Unsupported("on-site loop header/length")
    expect_text(l1.body[0], "ic = latt_fermi.index_to_coord(i)", "on-site loop")
    expect_text(l1.body[1], "Vi = _encode_vertex_operator(latt_enc, ic)", "on-site loop")
    p, w = add_call(l1.body[2], "on-site loop")
    if ast.unparse(p) != "Vi":
        raise Unsupported("on-site loop: string is not Vi")
    out.append("Definition gen_w_vertex : Z * Z := %s.\n" % zi2(weight_of(w, "i, i", "on-site loop")))
    s = l1.body[3]
    if not (isinstance(s, ast.AugAssign) and isinstance(s.op, ast.Add) and ast.unparse(s.target) == "id_coeff"):
        raise Unsupported("on-site loop: id_coeff update")
    out.append("Definition gen_w_id : Z * Z := %s.\n" % zi2(weight_of(s.value, "i, i", "on-site loop")))
    # identity
    p, w = add_call(tb[4], "identity term")
    if ast.unparse(p) != "PauliString.identity(latt_enc.nsites)" or ast.unparse(w) != "id_coeff":
        raise Unsupported("identity term: not WeightedPauliString(PauliString.identity(latt_enc.nsites), id_coeff)")
    # hopping loops
    l2 = tb[5]
    if not (isinstance(l2, ast.For) and ast.unparse(l2.target) == "i"
            and ast.unparse(l2.iter) == "range(latt_fermi.nsites)" and not l2.orelse and len(l2.body) == 1):
        raise Unsupported("hopping loop: outer header")
    l3 = l2.body[0]
    if not (isinstance(l3, ast.For) and ast.unparse(l3.target) == "j"
            and ast.unparse(l3.iter) == "range(i + 1, latt_fermi.nsites)" and not l3.orelse):
        raise Unsupported("hopping loop: inner header")
    hb = l3.body
    fixed = ["if term.coeffs[i, j] == 0:\n    continue",
             "if adj[i, j] == 0:\n    raise ValueError('only direct neighbor hopping terms supported')",
             "ic = latt_fermi.index_to_coord(i)", "jc = latt_fermi.index_to_coord(j)",
             "E = _encode_edge_operator(latt_enc, ic, jc)",
             "Vi = _encode_vertex_operator(latt_enc, ic)", "Vj = _encode_vertex_operator(latt_enc, jc)"]
    if len(hb) < len(fixed) + 1:
        raise Unsupported("hopping loop: body too short")
    for s, txt in zip(hb, fixed):
        expect_text(s, txt, "hopping loop")
    OPER = {"E": 0, "Vi": 1, "Vj": 2}
    hops = []
    for s in hb[len(fixed):]:
        p, w = add_call(s, "hopping loop")
        if not (isinstance(p, ast.BinOp) and isinstance(p.op, ast.MatMult) and isinstance(p.left, ast.Name)
                and isinstance(p.right, ast.Name) and p.left.id in OPER and p.right.id in OPER):
            raise Unsupported("hopping loop: string `%s` is not a product of E, Vi, Vj" % ast.unparse(p))
        hops.append("(%d, %d, %s)" % (OPER[p.left.id], OPER[p.right.id], zi2(weight_of(w, "i, j", "hopping loop"))))
    out.append("Definition gen_hop : list (Z * Z * (Z * Z)) :=\n  [%s].\n" % "; ".join(hops))


def generate():
    out = ["(* generated by gen/compact.py from %s and %s -- do not edit *)" % (F_LATT, F_ENC),
           "From Qib Require Import Compact.CompactModel.", "Local Open Scope Z_scope.", ""]
    gen_lattice(out)
    gen_encoder(out)
    return "\n".join(out) + "\n"


if __name__ == "__main__":
    print(generate())
