"""T(C15): regenerate Coq definitions from the four model-Hamiltonian classes of /repo.

Translated (fail-closed: anything outside the tiny statement/expression subset raises
pyx.Unsupported, which ./check reports as a broken tie):

  ising_hamiltonian.py       IsingHamiltonian.as_pauli_operator  -> gen_ising_ops   (whole loop nest:
                             letters per convention, loop bounds, the adjacency test, the order and the
                             weights of the add_pauli_string calls), is_hermitian -> gen_ising_is_hermitian
  heisenberg_hamiltonian.py  HeisenbergHamiltonian.as_pauli_operator -> gen_heis_ops, is_hermitian
  fermi_hubbard_hamiltonian.py  as_field_operator -> gen_hub_kin / gen_hub_int / gen_hub_fop
                             (coefficient expressions, np.kron(np.identity(2), adj[:h,:h]), the index
                             tuples written into int_coeffs, loop bounds, operator patterns, term order)
  all three lattice models   __init__: fail-closed guard that the isinstance validations which make the couplings real
                             (Hubbard: also LayeredLattice with two layers when spinful) are present and the attributes are
                             stored unchanged (ctor_guard)
  molecular_hamiltonian.py   __init__ symmetry checks -> gen_mol_ctor (guards, transposition tuples),
                             is_hermitian -> gen_mol_is_hermitian, as_field_operator -> gen_mol_fop
                             (0.5 factor, the (0,1,3,2) transposition, patterns, term order)

Python state is threaded through one mutable variable per method (`op` resp. `int_coeffs`);
`for v in range(a, b)` becomes `for_range a b (fun v st => ...) st`.
"""
import ast
from pyx import Unsupported, parse, find_class, find_func, body_nodoc

F_ISING = "src/qib/operator/ising_hamiltonian.py"
F_HEIS = "src/qib/operator/heisenberg_hamiltonian.py"
F_HUB = "src/qib/operator/fermi_hubbard_hamiltonian.py"
F_MOL = "src/qib/operator/molecular_hamiltonian.py"

LETTER = {"I": "LI", "X": "LX", "Y": "LY", "Z": "LZ"}
OTYPE = {"FERMI_CREATE": "OC", "FERMI_ANNIHIL": "OA"}


def un(e):
    return ast.unparse(e)


def fail(msg, node=None):
    raise Unsupported(msg + (": " + un(node)[:120] if node is not None else ""))


class Env:
    """nat-valued names, letter-valued names, scalar-valued attribute names"""

    def __init__(self, nats, letters=(), scalars=None, vectors=None, adj="adj", neg_first=True):
        self.neg_first = neg_first             # shape of the adjacency test in the hand-written model of this method
        self.nats = set(nats)
        self.letters = set(letters)
        self.scalars = dict(scalars or {})     # 'self.J' -> coq name
        self.vectors = dict(vectors or {})     # 'self.J' -> coq name (3-tuples)
        self.adj = adj

    def child(self, nats=(), letters=()):
        e = Env(self.nats | set(nats), self.letters | set(letters), self.scalars, self.vectors, self.adj, self.neg_first)
        return e


def nat_expr(e, env):
    if isinstance(e, ast.Name) and e.id in env.nats:
        return e.id
    if isinstance(e, ast.Constant) and isinstance(e.value, int) and not isinstance(e.value, bool) and e.value >= 0:
        return "%d" % e.value
    if isinstance(e, ast.BinOp):
        a, b = nat_expr(e.left, env), nat_expr(e.right, env)
        if isinstance(e.op, ast.Add):
            return "(%s + %s)" % (a, b)
        if isinstance(e.op, ast.Mult):
            return "(%s * %s)" % (a, b)
        if isinstance(e.op, ast.FloorDiv):
            return "(%s / %s)" % (a, b)
        fail("integer operator", e)          # subtraction deliberately unsupported (truncation)
    fail("integer expression", e)


def scalar_expr(e, env):
    """K-valued expression"""
    u = un(e)
    if u in env.scalars:
        return env.scalars[u]
    if isinstance(e, ast.Subscript) and un(e.value) in env.vectors:
        return "(nth %s %s 0%%K)" % (nat_expr(e.slice, env), env.vectors[un(e.value)])
    if isinstance(e, ast.UnaryOp) and isinstance(e.op, ast.USub):
        return "(- %s)%%K" % scalar_expr(e.operand, env)
    if isinstance(e, ast.Constant) and isinstance(e.value, float) and e.value == 0.5:
        return "half"
    fail("scalar expression", e)


def adj_index(e, env):
    """adj[i, j] -> (i, j)"""
    if (isinstance(e, ast.Subscript) and isinstance(e.value, ast.Name) and e.value.id == env.adj
            and isinstance(e.slice, ast.Tuple) and len(e.slice.elts) == 2):
        return nat_expr(e.slice.elts[0], env), nat_expr(e.slice.elts[1], env)
    fail("adjacency access", e)


def bool_expr(e, env):
    """adj[i, j] == 0  /  adj[i, j] != 0   ->   (i, j, True iff the test holds when the entry is non-zero)"""
    if (isinstance(e, ast.Compare) and len(e.ops) == 1 and isinstance(e.comparators[0], ast.Constant)
            and e.comparators[0].value == 0 and not isinstance(e.comparators[0].value, bool)):
        i, j = adj_index(e.left, env)
        if isinstance(e.ops[0], ast.Eq):
            return i, j, False
        if isinstance(e.ops[0], ast.NotEq):
            return i, j, True
    fail("condition", e)


def when_adj(env, i, j, if_edge, if_not):
    """one canonical shape per method for `if adj[i,j] == 0: continue` / `if adj[i,j] != 0: ...` (both polarities of
    the Python test give the same term, so that an equivalent rewrite of the source still matches the model)"""
    if env.neg_first:
        return "if (negb (adj %s %s)) then %s else %s" % (i, j, if_not, if_edge)
    return "if (adj %s %s) then %s else %s" % (i, j, if_edge, if_not)


def range_bounds(call, env):
    if not (isinstance(call, ast.Call) and isinstance(call.func, ast.Name) and call.func.id == "range"
            and not call.keywords and 1 <= len(call.args) <= 2):
        fail("loop iterator", call)
    if len(call.args) == 1:
        return "0", nat_expr(call.args[0], env)
    return nat_expr(call.args[0], env), nat_expr(call.args[1], env)


# ---------------------------------------------------------------------------- Pauli-operator methods
def letter_expr(e, env):
    if isinstance(e, ast.Constant) and isinstance(e.value, str) and e.value in LETTER:
        return LETTER[e.value]
    if isinstance(e, ast.Name) and e.id in env.letters:
        return e.id
    fail("Pauli letter", e)


def add_string_call(stmt, env, st):
    """op.add_pauli_string(WeightedPauliString(PauliString.from_single_paulis(L, (A, i), ...), w))"""
    c = stmt.value
    ok = (isinstance(c, ast.Call) and un(c.func) == st + ".add_pauli_string" and len(c.args) == 1 and not c.keywords)
    if not ok:
        fail("statement", stmt)
    w = c.args[0]
    if not (isinstance(w, ast.Call) and un(w.func) == "WeightedPauliString" and len(w.args) == 2 and not w.keywords):
        fail("expected WeightedPauliString(string, weight)", w)
    ps, weight = w.args
    if not (isinstance(ps, ast.Call) and un(ps.func) == "PauliString.from_single_paulis" and len(ps.args) >= 2
            and not ps.keywords):
        fail("expected PauliString.from_single_paulis(L, ...)", ps)
    n = nat_expr(ps.args[0], env)
    items = []
    for a in ps.args[1:]:
        if not (isinstance(a, ast.Tuple) and len(a.elts) == 2):
            fail("expected (letter, site)", a)
        items.append("(%s, %s)" % (letter_expr(a.elts[0], env), nat_expr(a.elts[1], env)))
    return "add_pauli_string %s (fsp %s [%s], %s)" % (st, n, "; ".join(items), scalar_expr(weight, env))


def block(stmts, env, st, stmt_fn):
    """translate a statement list into an expression for the new value of the state `st`"""
    if not stmts:
        return st
    s, rest = stmts[0], stmts[1:]
    if isinstance(s, ast.For):
        if s.orelse:
            fail("for/else", s)
        if isinstance(s.target, ast.Name):
            a, b = range_bounds(s.iter, env)
            v = s.target.id
            body = block(s.body, env.child(nats=[v]), st, stmt_fn)
            cur = "for_range %s %s (fun %s %s => %s) %s" % (a, b, v, st, body, st)
        elif (isinstance(s.target, ast.Tuple) and len(s.target.elts) == 2
              and all(isinstance(t, ast.Name) for t in s.target.elts)
              and isinstance(s.iter, ast.Call) and un(s.iter.func) == "enumerate" and len(s.iter.args) == 1
              and isinstance(s.iter.args[0], ast.List)):
            k, g = s.target.elts[0].id, s.target.elts[1].id
            letters = [letter_expr(x, env) for x in s.iter.args[0].elts]
            body = block(s.body, env.child(nats=[k], letters=[g]), st, stmt_fn)
            cur = ("fold_left (fun %s kg => let %s := fst kg in let %s := snd kg in %s) "
                   "(combine (seq 0 %d) [%s]) %s" % (st, k, g, body, len(letters), "; ".join(letters), st))
        else:
            fail("loop target", s)
    elif isinstance(s, ast.If):
        i, j, pos = bool_expr(s.test, env)
        if len(s.body) == 1 and isinstance(s.body[0], ast.Continue) and not s.orelse:
            # `if c: continue` guards the rest of the loop body
            r = block(rest, env, st, stmt_fn)
            return when_adj(env, i, j, st, r) if pos else when_adj(env, i, j, r, st)
        if s.orelse:
            fail("if/else inside a loop", s)
        b = block(s.body, env, st, stmt_fn)
        cur = when_adj(env, i, j, b, st) if pos else when_adj(env, i, j, st, b)
    else:
        cur = stmt_fn(s, env, st)
    if not rest:
        return cur
    return "let %s := %s in %s" % (st, cur, block(rest, env, st, stmt_fn))


PRELUDE = ["latt = self.field.lattice", "L = latt.nsites", "adj = latt.adjacency_matrix()"]


def strip_prelude(stmts, extra=()):
    got = [un(s) for s in stmts[:3]]
    if got != PRELUDE:
        fail("method prelude is %r" % (got,))
    stmts = stmts[3:]
    for x in extra:
        if not stmts or un(stmts[0]) != x:
            fail("expected `%s`" % x, stmts[0] if stmts else None)
        stmts = stmts[1:]
    return stmts


def const_bool_method(cls, name):
    fn = find_func(cls, name)
    b = body_nodoc(fn)
    if len(b) == 1 and isinstance(b[0], ast.Return) and isinstance(b[0].value, ast.Constant) \
            and isinstance(b[0].value.value, bool):
        return "true" if b[0].value.value else "false"
    fail("%s: not a constant boolean" % name)


# ---------------------------------------------------------------------------- constructors
def ctor_guard(cls, real_tests, assigns):
    """__init__ must consist of `if ...: raise ValueError(...)` validations (possibly nested in `if`/`for`)
    followed by plain attribute assignments `self.x = x` (exactly `assigns`), and must contain every test in
    `real_tests` (the checks that make the couplings real numbers: the theorems' hypotheses sconj x = x)."""
    init = find_func(cls, "__init__")
    tests, tail = [], []

    def walk(stmts, top):
        for s_ in stmts:
            if isinstance(s_, ast.If) and not s_.orelse and len(s_.body) == 1 and isinstance(s_.body[0], ast.Raise):
                exc = s_.body[0].exc
                if not (isinstance(exc, ast.Call) and un(exc.func) == "ValueError"):
                    fail("constructor validation must raise ValueError", s_)
                tests.append(un(s_.test))
            elif isinstance(s_, ast.If) and not s_.orelse:
                walk(s_.body, False)
            elif isinstance(s_, ast.For) and not s_.orelse and isinstance(s_.target, ast.Name) \
                    and un(s_.iter).startswith("range("):
                walk(s_.body, False)
            elif isinstance(s_, ast.Assign) and top:
                tail.append(un(s_))
            elif isinstance(s_, ast.Expr) and isinstance(s_.value, ast.Constant) and isinstance(s_.value.value, str):
                continue          # comment-like string
            else:
                fail("constructor statement", s_)
    walk(body_nodoc(init), True)
    for t in real_tests:
        if t not in tests:
            fail("constructor of %s lacks the validation `if %s: raise ValueError`" % (cls.name, t))
    if tail != assigns:
        fail("constructor of %s: attribute assignments are %r" % (cls.name, tail))


def as_matrix_guard(cls, via):
    """as_matrix must be the matrix of the generated operator (nothing applied in between)"""
    b = [un(x) for x in body_nodoc(find_func(cls, "as_matrix"))]
    ok = [["return self.%s().as_matrix()" % via], ["op = self.%s()" % via, "return op.as_matrix()"]]
    if b not in ok:
        fail("%s.as_matrix is %r" % (cls.name, b))


def gen_ising(out):
    cls = find_class(parse(F_ISING), "IsingHamiltonian")
    ctor_guard(cls, ["not isinstance(%s, (int, float))" % x for x in "Jhg"] + ["not isinstance(convention, IsingConvention)"],
               ["self.field = field", "self.J = J", "self.h = h", "self.g = g", "self.convention = convention"])
    as_matrix_guard(cls, "as_pauli_operator")
    out.append("Definition gen_ising_is_hermitian : bool := %s." % const_bool_method(cls, "is_hermitian"))
    b = strip_prelude(body_nodoc(find_func(cls, "as_pauli_operator")),
                      ["assert adj.shape == (L, L)", "op = PauliOperator()"])
    # convention switch
    sw = b[0]
    ok = (isinstance(sw, ast.If) and un(sw.test) == "self.convention == IsingConvention.ISING_ZZ"
          and len(sw.body) == 2 and len(sw.orelse) == 2)
    if not ok:
        fail("convention switch", sw)

    def assigns(ss):
        d = {}
        for s in ss:
            if not (isinstance(s, ast.Assign) and len(s.targets) == 1 and isinstance(s.targets[0], ast.Name)):
                fail("convention branch", s)
            d[s.targets[0].id] = letter_expr(s.value, Env([]))
        return d
    zz, xx = assigns(sw.body), assigns(sw.orelse)
    if set(zz) != {"A", "B"} or set(xx) != {"A", "B"}:
        fail("convention switch must assign A and B", sw)
    if not (isinstance(b[-1], ast.Return) and un(b[-1].value) == "op"):
        fail("as_pauli_operator must return op", b[-1])
    env = Env(["L"], letters=["A", "B"], scalars={"self.J": "self_J", "self.h": "self_h", "self.g": "self_g"})
    body = block(b[1:-1], env, "op", add_string_call)
    out.append("Definition gen_ising_ops {K : Scalar} (L : nat) (adj : nat -> nat -> bool) "
               "(self_J self_h self_g : K) (zz : bool) : list (wstr (K:=K)) :=\n"
               "  let A := if zz then %s else %s in\n  let B := if zz then %s else %s in\n"
               "  let op := ([] : list (wstr (K:=K))) in\n  %s." % (zz["A"], xx["A"], zz["B"], xx["B"], body))


def gen_heis(out):
    cls = find_class(parse(F_HEIS), "HeisenbergHamiltonian")
    ctor_guard(cls, ["not (len(J) == 3 and len(h) == 3)", "not isinstance(J[i], (int, float))", "not isinstance(h[i], (int, float))"],
               ["self.field = field", "self.J = tuple(J)", "self.h = tuple(h)"])
    as_matrix_guard(cls, "as_pauli_operator")
    out.append("Definition gen_heis_is_hermitian : bool := %s." % const_bool_method(cls, "is_hermitian"))
    b = strip_prelude(body_nodoc(find_func(cls, "as_pauli_operator")),
                      ["assert adj.shape == (L, L)", "op = PauliOperator()"])
    if not (isinstance(b[-1], ast.Return) and un(b[-1].value) == "op"):
        fail("as_pauli_operator must return op", b[-1])
    env = Env(["L"], vectors={"self.J": "self_J", "self.h": "self_h"})
    body = block(b[:-1], env, "op", add_string_call)
    out.append("Definition gen_heis_ops {K : Scalar} (L : nat) (adj : nat -> nat -> bool) "
               "(self_J self_h : list K) : list (wstr (K:=K)) :=\n"
               "  let op := ([] : list (wstr (K:=K))) in\n  %s." % body)


# ---------------------------------------------------------------------------- field-operator methods
def pattern(e):
    """[IFODesc(self.field, IFOType.X), ...] -> [OC; OA; ...]"""
    if not isinstance(e, ast.List):
        fail("operator description list", e)
    items = []
    for d in e.elts:
        ok = (isinstance(d, ast.Call) and un(d.func) == "IFODesc" and len(d.args) == 2 and not d.keywords
              and un(d.args[0]) == "self.field" and isinstance(d.args[1], ast.Attribute)
              and un(d.args[1].value) == "IFOType" and d.args[1].attr in OTYPE)
        if not ok:
            fail("IFODesc", d)
        items.append(OTYPE[d.args[1].attr])
    return "[" + "; ".join(items) + "]"


def perm(args):
    """transpose((0,1,3,2)) or transpose(2,3,0,1) -> [0; 1; 3; 2]"""
    if len(args) == 1 and isinstance(args[0], ast.Tuple):
        args = args[0].elts
    vals = []
    for a in args:
        if not (isinstance(a, ast.Constant) and isinstance(a.value, int) and not isinstance(a.value, bool)):
            fail("transposition tuple", a)
        vals.append(a.value)
    if sorted(vals) != list(range(len(vals))):
        raise Unsupported("not a permutation: %r" % (vals,))
    return "[" + "; ".join("%d" % v for v in vals) + "]"


def tensor_expr(e, names):
    """names: python text -> coq tensor name"""
    u = un(e)
    if u in names:
        return names[u]
    if isinstance(e, ast.Attribute) and e.attr == "T":
        return "(tT %s)" % tensor_expr(e.value, names)
    if isinstance(e, ast.Call) and isinstance(e.func, ast.Attribute) and not e.keywords:
        if e.func.attr == "conj" and not e.args:
            return "(tconj %s)" % tensor_expr(e.func.value, names)
        if e.func.attr == "copy" and not e.args:       # a copy has the same value (values are immutable in the model)
            return tensor_expr(e.func.value, names)
        if e.func.attr == "transpose" and e.args:
            return "(ttranspose %s %s)" % (perm(e.args), tensor_expr(e.func.value, names))
    if isinstance(e, ast.BinOp) and isinstance(e.op, ast.Mult) and isinstance(e.left, ast.Constant) \
            and isinstance(e.left.value, float) and e.left.value == 0.5:
        return "(tscal half %s)" % tensor_expr(e.right, names)
    fail("tensor expression", e)


def term_ctor(stmt, names):
    """X = FieldOperatorTerm([...], coeffs) -> (name, coq record)"""
    ok = (isinstance(stmt, ast.Assign) and len(stmt.targets) == 1 and isinstance(stmt.targets[0], ast.Name)
          and isinstance(stmt.value, ast.Call) and un(stmt.value.func) == "FieldOperatorTerm"
          and len(stmt.value.args) == 2 and not stmt.value.keywords)
    if not ok:
        fail("term construction", stmt)
    pat, co = stmt.value.args
    if isinstance(co, ast.Call) and un(co.func) == "np.array" and len(co.args) == 1 and un(co.args[0]) in names \
            and names[un(co.args[0])].startswith("SCALAR:"):
        coef = "(fun _ => %s)" % names[un(co.args[0])][7:]
    else:
        coef = tensor_expr(co, names)
    return stmt.targets[0].id, "{| pat := %s; coef := %s |}" % (pattern(pat), coef)


def fop_return(stmt, terms):
    ok = (isinstance(stmt, ast.Return) and isinstance(stmt.value, ast.Call) and un(stmt.value.func) == "FieldOperator"
          and len(stmt.value.args) == 1 and isinstance(stmt.value.args[0], ast.List)
          and all(isinstance(x, ast.Name) and x.id in terms for x in stmt.value.args[0].elts))
    if not ok:
        fail("expected return FieldOperator([...])", stmt)
    return "[ " + ";\n    ".join(terms[x.id] for x in stmt.value.args[0].elts) + " ]"


def hub_kin_expr(e, env):
    """-self.t * adj   |   -self.t * np.kron(np.identity(2), adj[:(h), :(h)])"""
    if not (isinstance(e, ast.BinOp) and isinstance(e.op, ast.Mult)):
        fail("kinetic coefficients", e)
    c = scalar_expr(e.left, env)
    m = e.right
    if isinstance(m, ast.Name) and m.id == env.adj:
        return "mat2tensor (fun a b => (%s * kadj adj a b)%%K)" % c
    ok = (isinstance(m, ast.Call) and un(m.func) == "np.kron" and len(m.args) == 2 and not m.keywords
          and un(m.args[0]) == "np.identity(2)" and isinstance(m.args[1], ast.Subscript)
          and isinstance(m.args[1].value, ast.Name) and m.args[1].value.id == env.adj
          and isinstance(m.args[1].slice, ast.Tuple) and len(m.args[1].slice.elts) == 2
          and all(isinstance(s, ast.Slice) and s.lower is None and s.step is None and s.upper is not None
                  for s in m.args[1].slice.elts))
    if not ok:
        fail("kinetic coefficient matrix", m)
    h0, h1 = [nat_expr(s.upper, env) for s in m.args[1].slice.elts]
    if h0 != h1:
        fail("block slice is not square", m)
    return "mat2tensor (fun a b => (%s * kron_id2 %s (kadj adj) a b)%%K)" % (c, h0)


def tset_stmt(stmt, env, st):
    ok = (isinstance(stmt, ast.Assign) and len(stmt.targets) == 1 and isinstance(stmt.targets[0], ast.Subscript)
          and isinstance(stmt.targets[0].value, ast.Name) and stmt.targets[0].value.id == st
          and isinstance(stmt.targets[0].slice, ast.Tuple))
    if not ok:
        fail("statement", stmt)
    idx = [nat_expr(x, env) for x in stmt.targets[0].slice.elts]
    return "tset %s [%s] %s" % (st, "; ".join(idx), scalar_expr(stmt.value, env))


def gen_hubbard(out):
    cls = find_class(parse(F_HUB), "FermiHubbardHamiltonian")
    ctor_guard(cls, ["not isinstance(t, float)", "not isinstance(u, float)", "not isinstance(field.lattice, LayeredLattice)",
                     "field.lattice.nlayers != 2"],
               ["self.t = t", "self.u = u", "self.spin = spin", "self.field = field"])
    as_matrix_guard(cls, "as_field_operator")
    out.append("Definition gen_hub_is_hermitian : bool := %s." % const_bool_method(cls, "is_hermitian"))
    b = strip_prelude(body_nodoc(find_func(cls, "as_field_operator")))
    sw = b[0]
    if not (isinstance(sw, ast.If) and un(sw.test) == "self.spin" and sw.orelse):
        fail("spin switch", sw)
    env = Env(["L"], scalars={"self.t": "self_t", "self.u": "self_u"}, neg_first=False)

    def branch(ss, asserts):
        ss = list(ss)
        for a in asserts:
            if not ss or un(ss[0]) != a:
                fail("expected `%s`" % a, ss[0] if ss else None)
            ss = ss[1:]
        if not (len(ss) >= 2 and isinstance(ss[0], ast.Assign) and un(ss[0].targets[0]) == "kin_coeffs"):
            fail("expected kin_coeffs = ...", ss[0] if ss else None)
        kin = hub_kin_expr(ss[0].value, env)
        if un(ss[1]) != "int_coeffs = np.zeros((L, L, L, L))":
            fail("expected int_coeffs = np.zeros((L, L, L, L))", ss[1])
        return kin, block(ss[2:], env, "int_coeffs", tset_stmt)
    kin_s, int_s = branch(sw.body, ["assert L % 2 == 0"])
    kin_n, int_n = branch(sw.orelse, [])
    hdr = "{K : Scalar} (L : nat) (adj : nat -> nat -> bool)"
    out.append("Definition gen_hub_kin %s (self_t : K) (spin : bool) : tensor K :=\n"
               "  if spin then %s\n  else %s." % (hdr, kin_s, kin_n))
    out.append("Definition gen_hub_int %s (self_u : K) (spin : bool) : tensor K :=\n"
               "  if spin then\n    let int_coeffs := tzero in %s\n  else\n    let int_coeffs := tzero in %s."
               % (hdr, int_s, int_n))
    names = {"kin_coeffs": "(gen_hub_kin L adj self_t spin)", "int_coeffs": "(gen_hub_int L adj self_u spin)"}
    terms = {}
    for s in b[1:-1]:
        nm, rec = term_ctor(s, names)
        terms[nm] = rec
    out.append("Definition gen_hub_fop %s (self_t self_u : K) (spin : bool) : list (fterm K) :=\n  %s."
               % (hdr, fop_return(b[-1], terms)))


def gen_molecular(out):
    cls = find_class(parse(F_MOL), "MolecularHamiltonian")
    as_matrix_guard(cls, "as_field_operator")
    # ---- is_hermitian
    b = body_nodoc(find_func(cls, "is_hermitian"))
    if not (len(b) == 1 and isinstance(b[0], ast.Return)
            and un(b[0].value) == "MolecularHamiltonianSymmetry.HERMITIAN in self.symm"):
        fail("is_hermitian", b[0])
    out.append("Definition gen_mol_is_hermitian {K : Scalar} (H : molham K) : bool := m_herm H.")
    # ---- __init__
    init = find_func(cls, "__init__")
    if [a.arg for a in init.args.args] != ["self", "field", "c", "tkin", "vint", "symm"]:
        fail("__init__ signature")
    b = body_nodoc(init)
    expected_head = [
        "norbs = len(tkin)", "tkin = np.asarray(tkin)", "vint = np.asarray(vint)",
    ]
    # the coefficients may be converted with np.asarray (shares the caller's array) or np.array (private copy)
    if [un(s).replace("np.array(", "np.asarray(") for s in b[:3]] != expected_head:
        fail("__init__ head")
    checks = []          # (guard, coq condition meaning 'raise')
    tail = []
    names = {"tkin": "tkin", "vint": "vint"}
    rank = {"tkin": 2, "vint": 4}

    def raise_cond(s, guard):
        """if not X: raise ValueError(...)  /  if a != b: raise"""
        if not (isinstance(s, ast.If) and not s.orelse and len(s.body) == 1 and isinstance(s.body[0], ast.Raise)
                and un(s.body[0].exc.func) == "ValueError"):
            fail("symmetry check", s)
        t = s.test
        if isinstance(t, ast.UnaryOp) and isinstance(t.op, ast.Not):
            x = t.operand
            if un(x) == "isinstance(c, (int, float))":
                return "negb creal"
            if isinstance(x, ast.Call) and un(x.func) == "np.allclose" and len(x.args) == 2 and not x.keywords \
                    and un(x.args[0]) in rank:
                a = un(x.args[0])
                return "negb (teqb keq L %d %s %s)" % (rank[a], a, tensor_expr(x.args[1], names))
        fail("symmetry check condition", t)

    for s in b[3:]:
        u = un(s)
        if isinstance(s, ast.If) and isinstance(s.test, ast.Compare) and len(s.test.ops) == 1 \
                and isinstance(s.test.ops[0], ast.In) and un(s.test.comparators[0]) == "symm":
            flag = {"MolecularHamiltonianSymmetry.HERMITIAN": "herm",
                    "MolecularHamiltonianSymmetry.VARCHANGE": "varch"}.get(un(s.test.left))
            if flag is None or s.orelse:
                fail("symmetry guard", s)
            for c in s.body:
                checks.append("%s && %s" % (flag, raise_cond(c, flag)))
        elif isinstance(s, ast.If) and u.startswith("if field.lattice.nsites != norbs:"):
            checks.append("negb (Nat.eqb nsites L)")
        elif isinstance(s, ast.If) and (u.startswith("if tkin.shape != 2 * (norbs,):")
                                        or u.startswith("if vint.shape != 4 * (norbs,):")
                                        or u.startswith("if field.particle_type != ParticleType.FERMION:")):
            continue      # shape / particle-type validation: outside the model (tensors are total functions)
        elif isinstance(s, ast.Assign):
            tail.append(u)
        else:
            fail("__init__ statement", s)
    if tail != ["self.field = field", "self.c = c", "self.tkin = tkin", "self.vint = vint", "self.symm = symm"]:
        fail("__init__ attribute assignments: %r" % (tail,))
    # the nsites check comes before the symmetry checks in the source; keep source order
    body = "".join("    if %s then None else\n" % c for c in checks)
    out.append("Definition gen_mol_ctor {K : Scalar} (keq : K -> K -> bool) (L nsites : nat) (c : K) (creal : bool)\n"
               "    (tkin vint : tensor K) (herm varch : bool) : option (molham K) :=\n%s"
               "    Some {| m_c := c; m_t := tkin; m_v := vint; m_herm := herm; m_varch := varch |}." % body)
    # ---- as_field_operator
    b = body_nodoc(find_func(cls, "as_field_operator"))
    names = {"self.c": "SCALAR:(m_c H)", "self.tkin": "(m_t H)", "self.vint": "(m_v H)"}
    terms = {}
    for s in b[:-1]:
        nm, rec = term_ctor(s, names)
        terms[nm] = rec
    out.append("Definition gen_mol_fop {K : Scalar} (half : K) (H : molham K) : list (fterm K) :=\n  %s."
               % fop_return(b[-1], terms))


def generate():
    out = ["(* generated by gen/hamil.py from %s, %s, %s, %s -- do not edit *)" % (F_ISING, F_HEIS, F_HUB, F_MOL),
           "From Qib Require Import Hamil.HamilModel.", ""]
    gen_ising(out)
    gen_heis(out)
    gen_hubbard(out)
    gen_molecular(out)
    return "\n\n".join(out) + "\n"


if __name__ == "__main__":
    print(generate())
