"""Statement-by-statement translation of the LOOPS of SymbolicTensorNetwork (C07/C08) -> Run.GenTNLoops.

    src/qib/tensor_network/symbolic_network.py
        SymbolicTensorNetwork._rename_tensor, rename_tensor, rename_bond, merge_tensors, merge_bonds, get_bond_axes,
        transpose, merge;  SymbolicTensor.transpose

Every statement of these method bodies is translated by a fail-closed walk over the Python `ast`
(anything outside the small statement language below raises Unsupported, which the check reports as a
broken tie).  The result is one Gallina function per method,

    gen_<method> (self : net) <arguments> : option net            (None = ValueError / KeyError / IndexError / AssertionError / RuntimeError)
    gen_get_bond_axes (self : net) (bid : Z) : option (list Z)    (Python integers)

and coq/props/C08.v / C07.v prove  gen_merge = TNModel.merge,  gen_get_bond_axes = TNModel.get_bond_axes, ... for all
arguments:  gen_* = Qib.TN.TNLoops.lit_* by reflexivity, where lit_* is a static copy of what this translator prints for
the current source (`python gen/tnloops.py lit`), and lit_* = model is proved once in coq/theories/TN/TNLoops.v.
So the invariant and value theorems about the model are theorems about the methods as they read now.

Statement language (state = the four dictionaries self.tensors, self.bonds, other.tensors, other.bonds as the
association lists sT sB oT oB, local values, and ALIASES = local names bound to an object stored in a dictionary):

    x = D[k]                         alias x -> (D, k):   match dget k D with None => None | Some x => ...
    x = D.pop(k)                     detached value x:    match dget k D ... ; let D := dpop k D
    D[k] = x                         let D := dset k x D          (x becomes an alias of (D, k))
    D.update(D2)                     let D := dupdate D D2
    x.f = e / x.f += e / x.f[i] = e / x.f.sort() / x.f.append(e) / x.f.remove(e)
                                     let x := set_f x ... ; an alias is written back to its dictionary (let D := dset k x D)
                                     lazily: before D is read or changed in any other way, at the end of the enclosing
                                     loop body / branch / method.  A snapshot that may be out of date (D was changed
                                     through a method call, a pop/update/store or another alias) is fetched again
                                     before its next use (reference semantics; KeyError = None).
    v = e / v += e / v -= e / v.remove(e) / v[i] = e
                                     local integers and integer lists (expressions: gen/tn.py class X, plus l[:i],
                                     n * [c], l.count(x)); v[i] = e is checked against len(v) (IndexError = None)
    v = L[i]   f(.., L[i], ..)   `if .. L[i] ..: raise`
                                     match nth_error L i with None => None | Some .. (IndexError), unless i is the
                                     variable of the enclosing `for i in range(len(L))`
    for v in <list>: body            match ofold (fun <changed state> v => body; Some <changed state>) <list> <state> with ...
                                     (lists: integer lists, range(len(L)), the join list, a shared-key set);
                                     `break`: a flag in the loop state; the statements behind an `if` that may break, and
                                     every later round, are skipped once it is set
    if c: raise .. / assert c / if c: return / if c: body      (`if a or b: raise` = `if a: raise; if b: raise`)
    self.m(args) / other.m(args)     match gen_m (mkN T B) args with None => None | Some r => let T := tensors r in let B := bonds r in
    D[k].transpose(axes)             the method of the stored tensor
    self.num_open_axes / .shape      match num_open_axes (mkN sT sB) with ...   (RuntimeError = None), read where the code reads it
    s = A.keys() & B.keys()          the iteration order of this Python set is an INPUT (ordT / ordB):
                                     if negb (is_shared_order ord (dkeys A) (dkeys B)) then None else ...
    other = copy.deepcopy(other)     nothing (the model is value-based: `other` is never shared with the caller)
    return self / return v

Pinned, not translated: the five statements of merge's leg-count refusal (ast equality with gen/tn.py MERGE_LEGS_GUARD;
they stand for TNModel.joins_starve), the defaults `join_axes=None` / `axes=None`.
"""
import ast as _ast
import copy as _copy
import pyx as _pyx
from tn import X, _u, _Unsupported, _expect, _fn, SN_PATH, MERGE_LEGS_GUARD

_DICTS = {"self.tensors": ("sT", "tensor"), "self.bonds": ("sB", "bond"),
          "other.tensors": ("oT", "tensor"), "other.bonds": ("oB", "bond")}
_DORDER = ["sT", "sB", "oT", "oB"]
_DTYPE = {"sT": "tdict", "sB": "bdict", "oT": "tdict", "oB": "bdict"}
_OBJ = {"self": ("sT", "sB"), "other": ("oT", "oB")}
# (object type, field) -> (getter, setter, type of the field)
_FIELDS = {("tensor", "tid"): ("t_id", "set_tid", "Z"), ("tensor", "shape"): ("t_shape", "set_shape", "nlist"),
           ("tensor", "bids"): ("t_bids", "set_bids", "zlist"), ("bond", "bid"): ("b_id", "set_bid", "Z"),
           ("bond", "tids"): ("b_tids", "set_btids", "zlist")}
# methods of SymbolicTensorNetwork that may be called on self / other, with the types of their arguments
_METHODS = {"_rename_tensor": ("rename_tensor_priv", ["Z", "Z"]), "rename_bond": ("rename_bond", ["Z", "Z"]),
            "merge_tensors": ("merge_tensors", ["Z", "Z"]), "merge_bonds": ("merge_bonds", ["Z", "Z"])}
# properties of SymbolicTensorNetwork (RuntimeError = None when the virtual tensor is missing)
_PROPS = {"num_open_axes": ("num_open_axes", "nat"), "shape": ("shape", "nlist")}
_COQTYPE = {"Z": "Z", "nat": "nat", "zlist": "list Z", "nlist": "list nat", "joins": "list (nat * nat)"}


class XL(X):
    """X + what the loops need: l[:i], n * [c], l.count(x) as a Python int"""

    def sub(self, **more):
        e = dict(self.env)
        e.update(more)
        return XL(e, self.nonneg)

    def e(self, n):
        if _u(n) in self.env:
            return self.env[_u(n)]
        if isinstance(n, _ast.Subscript) and isinstance(n.slice, _ast.Slice) and n.slice.lower is None and n.slice.step is None \
                and n.slice.upper is not None:
            c, t = self.e(n.value)
            u, tu = self.fix(self.e(n.slice.upper), "nat")
            if t in ("zlist", "nlist") and tu == "nat":
                return "(firstn %s %s)" % (u, c), t
            raise _Unsupported("slice " + _u(n))
        if isinstance(n, _ast.BinOp) and isinstance(n.op, _ast.Mult) and isinstance(n.right, _ast.List) and len(n.right.elts) == 1:
            k, tk = self.fix(self.e(n.left), "nat")
            v, tv = self.fix(self.e(n.right.elts[0]), "Z")
            if tk == "nat" and tv == "Z":
                return "(repeat %s %s)" % (v, k), "zlist"
            raise _Unsupported("list repetition " + _u(n))
        if isinstance(n, _ast.Call) and isinstance(n.func, _ast.Attribute) and n.func.attr == "count" and len(n.args) == 1:
            c, t = X.e(self, n)
            return "(Z.of_nat %s)" % c, "Z"
        return X.e(self, n)


class _Alias:
    def __init__(self, d, key, ty, var):
        self.d, self.key, self.ty, self.var = d, key, ty, var
        self.dirty = False      # the snapshot has been changed and not yet written back
        self.stale = False      # the dictionary may have changed behind the snapshot


class _Cx:
    def __init__(self):
        self.vals = {}          # python name -> (coq text, type)
        self.aliases = {}       # python name -> _Alias
        self.inrange = set()    # (source of a list expression, loop variable) with variable in range(len(list))
        self.pairs = set()      # names of loop variables over the join list
        self.nonneg = ()        # comprehension variables of type Z known to be >= 0 (behind transpose's permutation test)

    def copy(self):
        return _copy.deepcopy(self)


def _v(name):
    return "v_" + name


class Loops:
    def __init__(self, objs=("self",), prefix="gen_"):
        self.objs = objs
        self.prefix = prefix
        self.frames = []
        self.tmp = 0

    # ------------------------------------------------------------------ emission
    def emit(self, o, c=""):
        self.frames.append((o, c))

    def sub_block(self, cx, stmts, tail):
        saved, self.frames = self.frames, []
        self.tails = getattr(self, "tails", []) + [tail]
        for k, st in enumerate(stmts):
            if isinstance(st, _ast.Break):
                _expect(k == len(stmts) - 1, "statements behind `break`")
            self.stmt(cx, st)
        self.tails = self.tails[:-1]
        t = tail(cx)
        text = "".join(o for o, _ in self.frames) + t + "".join(c for _, c in reversed(self.frames))
        self.frames = saved
        return text

    def fresh(self, base):
        self.tmp += 1
        return "%s_%d" % (base, self.tmp)

    # ------------------------------------------------------------------ aliases
    def flush(self, cx, d=None, keep=()):
        for name, a in cx.aliases.items():
            if a.dirty and (d is None or a.d == d) and name not in keep:
                self.emit("let %s := dset %s %s %s in\n" % (a.d, a.key, a.var, a.d))
                a.dirty = False

    def changed(self, cx, d, but=None):
        """the dictionary d is about to be changed other than through the alias `but`"""
        for name, a in cx.aliases.items():
            if a.d == d and name != but:
                if a.dirty:
                    self.emit("let %s := dset %s %s %s in\n" % (a.d, a.key, a.var, a.d))
                    a.dirty = False
                a.stale = True

    def refetch(self, cx, name):
        a = cx.aliases[name]
        self.flush(cx, a.d)
        self.emit("match dget %s %s with None => None | Some %s =>\n" % (a.key, a.d, a.var), " end")
        a.stale, a.dirty = False, False

    # ------------------------------------------------------------------ expressions
    def env(self, cx):
        e = {}
        for py, (d, _) in _DICTS.items():
            if py.split(".")[0] in self.objs:
                e[py] = (d, _DTYPE[d])
        for name, (c, t) in cx.vals.items():
            e[name] = (c, t)
        for name, a in cx.aliases.items():
            e[name] = (a.var, a.ty)
        for name in cx.pairs:
            e[name + "[0]"] = ("(fst %s)" % _v(name), "nat")
            e[name + "[1]"] = ("(snd %s)" % _v(name), "nat")
        return e

    def prepare(self, cx, node):
        """fetch again every out-of-date alias the expression reads; dictionaries it reads must be current"""
        for n in _ast.walk(node):
            if isinstance(n, _ast.Name) and n.id in cx.aliases and cx.aliases[n.id].stale:
                self.refetch(cx, n.id)
            if isinstance(n, _ast.Attribute) and _u(n) in _DICTS:
                self.flush(cx, _DICTS[_u(n)][0])

    def check_subscripts(self, cx, node, inside=False, done=()):
        if _u(node) in done:
            return
        for n in _ast.iter_child_nodes(node):
            self.check_subscripts(cx, n, inside or isinstance(node, (_ast.ListComp, _ast.GeneratorExp)), done)
        if isinstance(node, _ast.Subscript) and not inside and not isinstance(node.slice, _ast.Slice):
            if isinstance(node.value, _ast.Name) and node.value.id in cx.pairs and _u(node.slice) in ("0", "1"):
                return
            if (_u(node.value), _u(node.slice)) in cx.inrange:
                return
            raise _Unsupported("subscript that may raise IndexError inside an expression: " + _u(node))

    def expr(self, cx, node, want=None, hoist=False):
        self.prepare(cx, node)
        extra = {}
        if hoist:
            self.hoist(cx, node, extra)
        self.check_subscripts(cx, node, done=extra)
        env = self.env(cx)
        env.update(extra)
        x = XL(env, nonneg=cx.nonneg)
        c, t = x.fix(x.e(node), want)
        return c, t

    def hoist(self, cx, node, extra):
        """reads that may raise, in evaluation order: the properties num_open_axes / shape (RuntimeError without a virtual
        tensor) and L[i] (IndexError); each becomes a `match ... with None => None` in front of the expression"""
        if isinstance(node, (_ast.ListComp, _ast.GeneratorExp, _ast.BoolOp, _ast.IfExp)):
            return        # not evaluated unconditionally / not once: left to X (BoolOp is split by the caller)
        for ch in _ast.iter_child_nodes(node):
            self.hoist(cx, ch, extra)
        key = _u(node)
        if key in extra:
            return
        if isinstance(node, _ast.Attribute) and isinstance(node.value, _ast.Name) and node.value.id in self.objs \
                and node.attr in _PROPS:
            T, B = _OBJ[node.value.id]
            self.flush(cx, T)
            f, ty = _PROPS[node.attr]
            tmp = self.fresh("p")
            self.emit("match %s (mkN %s %s) with None => None | Some %s =>\n" % (f, T, B, tmp), " end")
            extra[key] = (tmp, ty)
        elif isinstance(node, _ast.Subscript) and not isinstance(node.slice, _ast.Slice) \
                and not (isinstance(node.value, _ast.Name) and node.value.id in cx.pairs) \
                and (_u(node.value), _u(node.slice)) not in cx.inrange:
            env = self.env(cx)
            env.update(extra)
            x = XL(env)
            lc, lt = x.e(node.value)
            ic, it = x.fix(x.e(node.slice), "nat")
            _expect(lt in ("zlist", "nlist") and it == "nat", "indexing %s by %s: %s" % (lt, it, key))
            tmp = self.fresh("x")
            self.emit("match nth_error %s %s with None => None | Some %s =>\n" % (lc, ic, tmp), " end")
            extra[key] = (tmp, "Z" if lt == "zlist" else "nat")

    def arg(self, cx, node, want):
        """an expression in argument / right-hand-side position: L[i] is read with nth_error"""
        c, t = self.expr(cx, node, want, hoist=True)
        return c, t

    # ------------------------------------------------------------------ what a block does to the state
    def analyse(self, cx, stmts):
        touched, direct, written, assigned, used, created = set(), set(), [], [], set(), {}

        def note(lst, x):
            if x not in lst:
                lst.append(x)

        def walk(sts):
            for st in sts:
                for n in _ast.walk(st):
                    if isinstance(n, _ast.Attribute) and _u(n) in _DICTS:
                        touched.add(_DICTS[_u(n)][0])
                    if isinstance(n, _ast.Name):
                        used.add(n.id)
                    if isinstance(n, _ast.Call) and isinstance(n.func, _ast.Attribute):
                        f = n.func
                        if isinstance(f.value, _ast.Name) and f.value.id in _OBJ and f.attr in _METHODS:
                            touched.update(_OBJ[f.value.id])
                            direct.update(_OBJ[f.value.id])
                        if f.attr in ("pop", "update") and _u(f.value) in _DICTS:
                            direct.add(_DICTS[_u(f.value)][0])
                if isinstance(st, _ast.Assign) and len(st.targets) == 1:
                    t = st.targets[0]
                    if isinstance(t, _ast.Name):
                        if isinstance(st.value, _ast.Subscript) and _u(st.value.value) in _DICTS:
                            created[t.id] = _DICTS[_u(st.value.value)][0]
                        else:
                            note(assigned, t.id)
                    elif isinstance(t, _ast.Subscript) and _u(t.value) in _DICTS:
                        direct.add(_DICTS[_u(t.value)][0])
                    elif isinstance(t, _ast.Subscript) and isinstance(t.value, _ast.Name):
                        note(assigned, t.value.id)
                    elif isinstance(t, _ast.Attribute) and isinstance(t.value, _ast.Name):
                        note(written, t.value.id)
                    elif isinstance(t, _ast.Subscript) and isinstance(t.value, _ast.Attribute) and isinstance(t.value.value, _ast.Name):
                        note(written, t.value.value.id)
                    else:
                        raise _Unsupported("assignment target " + _u(t))
                elif isinstance(st, _ast.AugAssign):
                    t = st.target
                    if isinstance(t, _ast.Name):
                        note(assigned, t.id)
                    elif isinstance(t, _ast.Attribute) and isinstance(t.value, _ast.Name):
                        note(written, t.value.id)
                    else:
                        raise _Unsupported("augmented assignment target " + _u(t))
                elif isinstance(st, _ast.Expr) and isinstance(st.value, _ast.Call) and isinstance(st.value.func, _ast.Attribute) \
                        and st.value.func.attr in ("sort", "append", "remove"):
                    o = st.value.func.value
                    if isinstance(o, _ast.Name):
                        note(assigned, o.id)
                    elif isinstance(o, _ast.Attribute) and isinstance(o.value, _ast.Name):
                        note(written, o.value.id)
                    else:
                        raise _Unsupported("list method on " + _u(o))
                elif isinstance(st, _ast.For):
                    _expect(not st.orelse, "for-else")
                    walk(st.body)
                elif isinstance(st, _ast.If):
                    walk(st.body)
                    walk(st.orelse)
                elif isinstance(st, _ast.Break):
                    note(assigned, "__brk__")
        walk(stmts)
        mutated = set(direct)
        carried = []
        for a in written:
            if a in created:
                mutated.add(created[a])
            elif a in cx.aliases:
                if cx.aliases[a].d in touched:
                    mutated.add(cx.aliases[a].d)
                else:
                    carried.append(a)
            elif a in cx.vals and cx.vals[a][1] in ("tensor", "bond"):
                note(assigned, a)
            else:
                raise _Unsupported("write through unknown object " + a)
        locs = [n for n in assigned if n in cx.vals]
        return touched, mutated, carried, locs, used

    def enter(self, cx, body):
        """bring the aliases into the state a nested block (loop body / branch) expects; returns the state variables"""
        touched, mutated, carried, locs, used = self.analyse(cx, body)
        for name, a in cx.aliases.items():
            if a.d in touched:
                if a.dirty:
                    self.emit("let %s := dset %s %s %s in\n" % (a.d, a.key, a.var, a.d))
                    a.dirty = False
                a.stale = True
            elif name in used and a.stale:
                self.refetch(cx, name)
        state = [d for d in _DORDER if d in mutated] + [cx.aliases[a].var for a in carried] + [cx.vals[n][0] for n in locs]
        return state, carried

    @staticmethod
    def coqtype(cx, var):
        if var in _DTYPE:
            return "dict tensor" if _DTYPE[var] == "tdict" else "dict bond"
        for a in cx.aliases.values():
            if a.var == var:
                return a.ty
        for c, t in cx.vals.values():
            if c == var:
                return {"bool": "bool", "tensor": "tensor", "bond": "bond"}.get(t) or _COQTYPE[t]
        raise _Unsupported("type of the state variable " + var)

    @staticmethod
    def pat(state, lam):
        if not state:
            return "_"
        if len(state) == 1:
            return state[0]
        return ("'(%s)" if lam else "(%s)") % ", ".join(state)

    @staticmethod
    def tup(state):
        if not state:
            return "tt"
        if len(state) == 1:
            return state[0]
        return "(%s)" % ", ".join(state)

    def nested(self, cx, body, carried, state, extra=None):
        """translate a nested block; it ends by writing back what it changed and returning the state"""
        bcx = cx.copy()
        if extra:
            extra(bcx)
        # what is already changed outside (on a dictionary the block does not touch) is written back outside
        keep = list(carried) + [name for name, a in cx.aliases.items() if a.dirty]

        def tail(c):
            self.flush(c, keep=keep)
            return "Some %s" % self.tup(state)
        text = self.sub_block(bcx, body, tail)
        return text

    def leave(self, cx, carried):
        for a in carried:
            cx.aliases[a].dirty = True

    # ------------------------------------------------------------------ statements
    def stmt(self, cx, st):
        if isinstance(st, str):      # a pinned block, already Coq text
            if st == "":             # mark: behind transpose's permutation test
                cx.nonneg = ("ax",)
                return
            self.flush(cx)
            self.emit(st)
            return
        src = _u(st).split("\n")[0]
        self.emit("(* %s *)\n" % src.replace("(*", "( *").replace("*)", "* )"))
        if isinstance(st, _ast.Break):
            _expect("__brk__" in cx.vals, "`break` outside a loop")
            self.emit("let %s := true in\n" % cx.vals["__brk__"][0])
            return
        if isinstance(st, _ast.If):
            self.if_stmt(cx, st)
            if _has_break(st.body):
                # the rest of the enclosing block is skipped once the loop is left
                tail = self.tails[-1]
                done = self.sub_block(cx.copy(), [], tail)
                self.emit("if %s then %s else\n" % (cx.vals["__brk__"][0], done))
            return
        if isinstance(st, _ast.Assert):
            c, t = self.expr(cx, st.test, hoist=True)
            _expect(t == "bool", "assert of " + t)
            self.emit("if negb %s then None else\n" % c)
            return
        if isinstance(st, _ast.For):
            return self.for_stmt(cx, st)
        if isinstance(st, _ast.Assign) and len(st.targets) == 1:
            return self.assign(cx, st.targets[0], st.value)
        if isinstance(st, _ast.AugAssign) and isinstance(st.op, _ast.Sub) and isinstance(st.target, _ast.Name):
            t = st.target
            _expect(t.id in cx.vals and cx.vals[t.id][1] == "Z", "-= on " + t.id)
            c, ty = self.expr(cx, _ast.BinOp(left=t, op=_ast.Sub(), right=st.value))
            _expect(ty == "Z", "type of %s changes" % t.id)
            self.emit("let %s := %s in\n" % (cx.vals[t.id][0], c))
            return
        if isinstance(st, _ast.AugAssign) and isinstance(st.op, _ast.Add):
            t = st.target
            if isinstance(t, _ast.Name):
                _expect(t.id in cx.vals and cx.vals[t.id][1] in ("Z", "nat"), "+= on " + t.id)
                c, ty = self.expr(cx, _ast.BinOp(left=t, op=_ast.Add(), right=st.value))
                _expect(ty == cx.vals[t.id][1], "type of %s changes" % t.id)
                self.emit("let %s := %s in\n" % (cx.vals[t.id][0], c))
                return
            if isinstance(t, _ast.Attribute) and isinstance(t.value, _ast.Name):
                oty = self.objtype(cx, t.value.id)
                get, _, fty = self.field(oty, t.attr)
                _expect(fty in ("zlist", "nlist"), "+= on field " + t.attr)
                c, ty = self.expr(cx, st.value)
                _expect(ty == fty, "+= %s to %s" % (ty, fty))
                return self.write(cx, t.value.id, t.attr, lambda var: "(%s %s ++ %s)" % (get, var, c))
        if isinstance(st, _ast.Expr) and isinstance(st.value, _ast.Call):
            return self.call_stmt(cx, st.value)
        raise _Unsupported("statement: " + src)

    def objtype(self, cx, name):
        if name in cx.aliases:
            return cx.aliases[name].ty
        if name in cx.vals and cx.vals[name][1] in ("tensor", "bond"):
            return cx.vals[name][1]
        raise _Unsupported("%s is not a tensor / bond object" % name)

    @staticmethod
    def field(oty, attr):
        if (oty, attr) not in _FIELDS:
            raise _Unsupported("field %s of %s" % (attr, oty))
        return _FIELDS[(oty, attr)]

    def write(self, cx, name, attr, newval, opt=False):
        """name.attr := newval(var);  opt: newval is an option (None = ValueError)"""
        oty = self.objtype(cx, name)
        _, setter, _ = self.field(oty, attr)
        if name in cx.aliases:
            a = cx.aliases[name]
            if a.stale:
                self.refetch(cx, name)
            self.changed(cx, a.d, but=name)
            var = a.var
        else:
            var = cx.vals[name][0]
        if opt:
            tmp = self.fresh("l")
            self.emit("match %s with None => None | Some %s =>\n" % (newval(var), tmp), " end")
            self.emit("let %s := %s %s %s in\n" % (var, setter, var, tmp))
        else:
            self.emit("let %s := %s %s %s in\n" % (var, setter, var, newval(var)))
        if name in cx.aliases:
            cx.aliases[name].dirty = True

    def assign(self, cx, t, v):
        # D[k] = x
        if isinstance(t, _ast.Subscript) and _u(t.value) in _DICTS:
            d, ty = _DICTS[_u(t.value)]
            _expect(isinstance(v, _ast.Name) and v.id in cx.vals and cx.vals[v.id][1] == ty, "stored value must be a detached %s" % ty)
            k, kt = self.expr(cx, t.slice, "Z")
            _expect(kt == "Z", "dictionary key of type " + kt)
            self.changed(cx, d)
            var = cx.vals.pop(v.id)[0]
            self.emit("let %s := dset %s %s %s in\n" % (d, k, var, d))
            cx.aliases[v.id] = _Alias(d, k, ty, var)
            return
        # x.f = e
        if isinstance(t, _ast.Attribute) and isinstance(t.value, _ast.Name):
            oty = self.objtype(cx, t.value.id)
            _, _, fty = self.field(oty, t.attr)
            if isinstance(v, _ast.Call) and _u(v.func) == "tuple" and len(v.args) == 1 and isinstance(v.args[0], _ast.GeneratorExp):
                v = _ast.ListComp(elt=v.args[0].elt, generators=v.args[0].generators)
            c, ty = self.expr(cx, v, fty if fty in ("Z", "nat") else None)
            _expect(ty == fty, "field %s of type %s assigned a %s" % (t.attr, fty, ty))
            return self.write(cx, t.value.id, t.attr, lambda var: c)
        # x.f[i] = e
        if isinstance(t, _ast.Subscript) and isinstance(t.value, _ast.Attribute) and isinstance(t.value.value, _ast.Name):
            name, attr = t.value.value.id, t.value.attr
            _expect((_u(t.value), _u(t.slice)) in cx.inrange, "item assignment outside `for i in range(len(...))`: " + _u(t))
            oty = self.objtype(cx, name)
            get, _, fty = self.field(oty, attr)
            _expect(fty == "zlist", "item assignment on " + fty)
            i, it = self.expr(cx, t.slice, "nat")
            c, ty = self.expr(cx, v, "Z")
            _expect(it == "nat" and ty == "Z", "item assignment types")
            return self.write(cx, name, attr, lambda var: "(set_nth %s %s (%s %s))" % (i, c, get, var))
        # l[i] = e on a local list (IndexError = None)
        if isinstance(t, _ast.Subscript) and isinstance(t.value, _ast.Name) and t.value.id in cx.vals \
                and cx.vals[t.value.id][1] in ("zlist", "nlist"):
            var, lt = cx.vals[t.value.id]
            i, it = self.expr(cx, t.slice, "nat")
            c, ty = self.expr(cx, v, "Z" if lt == "zlist" else "nat")
            if lt == "zlist" and ty == "nat":
                c, ty = "(Z.of_nat %s)" % c, "Z"
            _expect(it == "nat" and (ty == "Z") == (lt == "zlist"), "item assignment %s[%s] = %s" % (lt, it, ty))
            self.emit("if negb (Nat.ltb %s (length %s)) then None else\n" % (i, var))
            self.emit("let %s := set_nth %s %s %s in\n" % (var, i, c, var))
            return
        _expect(isinstance(t, _ast.Name), "assignment target " + _u(t))
        name = t.id
        _expect(name not in cx.aliases or True, "")
        # x = D[k]  /  x = D.pop(k)
        if isinstance(v, _ast.Subscript) and _u(v.value) in _DICTS:
            d, ty = _DICTS[_u(v.value)]
            k, kt = self.expr(cx, v.slice, "Z")
            _expect(kt == "Z", "dictionary key of type " + kt)
            self.flush(cx, d)
            cx.vals.pop(name, None)
            var = _v(name)
            self.emit("match dget %s %s with None => None | Some %s =>\n" % (k, d, var), " end")
            cx.aliases[name] = _Alias(d, k, ty, var)
            return
        if isinstance(v, _ast.Call) and isinstance(v.func, _ast.Attribute) and v.func.attr == "pop" and _u(v.func.value) in _DICTS \
                and len(v.args) == 1 and not v.keywords:
            d, ty = _DICTS[_u(v.func.value)]
            k, kt = self.expr(cx, v.args[0], "Z")
            _expect(kt == "Z", "dictionary key of type " + kt)
            self.changed(cx, d)
            cx.aliases.pop(name, None)
            var = _v(name)
            self.emit("match dget %s %s with None => None | Some %s =>\n" % (k, d, var), " end")
            self.emit("let %s := dpop %s %s in\n" % (d, k, d))
            cx.vals[name] = (var, ty)
            return
        _expect(name not in cx.aliases, "re-binding of the object name " + name)
        # other = copy.deepcopy(other)
        if name == "other" and _u(v) == "copy.deepcopy(other)":
            return
        # s = A.keys() & B.keys()
        if isinstance(v, _ast.BinOp) and isinstance(v.op, _ast.BitAnd):
            tab = {"self.tensors.keys() & other.tensors.keys()": ("ordT", "sT", "oT"),
                   "self.bonds.keys() & other.bonds.keys()": ("ordB", "sB", "oB")}
            _expect(_u(v) in tab, "set intersection " + _u(v))
            o, a, b = tab[_u(v)]
            self.flush(cx, a)
            self.flush(cx, b)
            self.emit("if negb (is_shared_order %s (dkeys %s) (dkeys %s)) then None else\n" % (o, a, b))
            cx.vals[name] = (o, "zlist")
            self.setvars = getattr(self, "setvars", set()) | {name}
            return
        # plain value
        c, ty = self.arg(cx, v, cx.vals[name][1] if name in cx.vals else None)
        _expect(ty in ("Z", "nat", "zlist", "nlist"), "value of type %s assigned to %s" % (ty, name))
        if name in cx.vals:
            _expect(cx.vals[name][1] == ty, "type of %s changes from %s to %s" % (name, cx.vals[name][1], ty))
        self.emit("let %s := %s in\n" % (_v(name), c))
        cx.vals[name] = (_v(name), ty)

    def call_stmt(self, cx, call):
        f = call.func
        _expect(isinstance(f, _ast.Attribute) and not call.keywords, "call " + _u(call))
        # D.update(D2)
        if f.attr == "update" and _u(f.value) in _DICTS and len(call.args) == 1 and _u(call.args[0]) in _DICTS:
            d, ty = _DICTS[_u(f.value)]
            d2, ty2 = _DICTS[_u(call.args[0])]
            _expect(ty == ty2, "update of a %s dictionary by a %s dictionary" % (ty, ty2))
            self.flush(cx, d2)
            self.changed(cx, d)
            self.emit("let %s := dupdate %s %s in\n" % (d, d, d2))
            return
        # D[k].transpose(axes): the method of the stored tensor
        if isinstance(f.value, _ast.Subscript) and _u(f.value.value) in _DICTS and f.attr == "transpose" and len(call.args) == 1:
            d, ty = _DICTS[_u(f.value.value)]
            _expect(ty == "tensor", "transpose of a " + ty)
            k, kt = self.expr(cx, f.value.slice, "Z")
            a, at = self.expr(cx, call.args[0])
            _expect(kt == "Z" and at == "zlist", "D[k].transpose(axes) argument types")
            self.changed(cx, d)
            t, t2 = self.fresh("t"), self.fresh("t")
            self.emit("match dget %s %s with None => None | Some %s =>\n" % (k, d, t), " end")
            self.emit("match %stensor_transpose %s %s with None => None | Some %s =>\n" % (self.prefix, t, a, t2), " end")
            self.emit("let %s := dset %s %s %s in\n" % (d, k, t2, d))
            return
        # self.m(args) / other.m(args)
        if isinstance(f.value, _ast.Name) and f.value.id in _OBJ and f.attr in _METHODS:
            _expect(f.value.id in self.objs, "method call on " + f.value.id)
            g, tys = _METHODS[f.attr]
            _expect(len(call.args) == len(tys), "arguments of " + f.attr)
            args = []
            for a, ty in zip(call.args, tys):
                c, t = self.arg(cx, a, ty)
                _expect(t == ty, "argument %s of %s has type %s" % (_u(a), f.attr, t))
                args.append(c)
            T, B = _OBJ[f.value.id]
            self.changed(cx, T)
            self.changed(cx, B)
            r = self.fresh("r")
            self.emit("match %s%s (mkN %s %s) %s with None => None | Some %s =>\n" % (self.prefix, g, T, B, " ".join(args), r), " end")
            self.emit("let %s := tensors %s in let %s := bonds %s in\n" % (T, r, B, r))
            return
        # l.remove(x) on a local list
        if isinstance(f.value, _ast.Name) and f.attr == "remove" and len(call.args) == 1:
            name = f.value.id
            _expect(name in cx.vals and cx.vals[name][1] in ("zlist", "nlist"), "remove on " + name)
            lt = cx.vals[name][1]
            c, t = self.expr(cx, call.args[0], "Z" if lt == "zlist" else "nat")
            _expect((t == "Z") == (lt == "zlist"), "remove of %s from %s" % (t, lt))
            var = cx.vals[name][0]
            self.emit("match %s %s %s with None => None | Some %s =>\n" % ("zremove1" if lt == "zlist" else "nremove1", c, var, var), " end")
            return
        # x.f.sort() / x.f.append(e) / x.f.remove(e)
        if isinstance(f.value, _ast.Attribute) and isinstance(f.value.value, _ast.Name):
            name, attr = f.value.value.id, f.value.attr
            oty = self.objtype(cx, name)
            get, _, fty = self.field(oty, attr)
            _expect(fty == "zlist", "%s on a field of type %s" % (f.attr, fty))
            if f.attr == "sort" and not call.args:
                return self.write(cx, name, attr, lambda var: "(zsort (%s %s))" % (get, var))
            if f.attr == "append" and len(call.args) == 1:
                c, t = self.expr(cx, call.args[0], "Z")
                _expect(t == "Z", "append of " + t)
                return self.write(cx, name, attr, lambda var: "(%s %s ++ [%s])" % (get, var, c))
            if f.attr == "remove" and len(call.args) == 1:
                c, t = self.expr(cx, call.args[0], "Z")
                _expect(t == "Z", "remove of " + t)
                return self.write(cx, name, attr, lambda var: "zremove1 %s (%s %s)" % (c, get, var), opt=True)
        raise _Unsupported("call statement " + _u(call))

    def if_stmt(self, cx, st):
        _expect(not st.orelse, "if-else: " + _u(st.test))
        body = st.body
        if len(body) == 1 and isinstance(body[0], _ast.Raise):
            # `if a or b: raise` is `if a: raise` followed by `if b: raise` (b is not evaluated when a holds)
            tests = st.test.values if isinstance(st.test, _ast.BoolOp) and isinstance(st.test.op, _ast.Or) else [st.test]
            for tst in tests:
                c, t = self.expr(cx, tst, hoist=True)
                _expect(t == "bool", "condition of type " + t)
                self.emit("if %s then None else\n" % c)
            return
        c, t = self.expr(cx, st.test, hoist=True)
        _expect(t == "bool", "condition of type " + t)
        if len(body) == 1 and isinstance(body[0], _ast.Return) and body[0].value is None:
            ret = self.sub_block(cx.copy(), [], self.ret)
            self.emit("if %s then %s else\n" % (c, ret))
            return
        state, carried = self.enter(cx, body)
        _expect(state, "branch without effect: " + _u(st.test))
        text = self.nested(cx, body, carried, state)
        self.emit("match (if %s then\n%s\n else Some %s) with None => None | Some %s =>\n" % (c, text, self.tup(state), self.pat(state, False)), " end")
        self.leave(cx, carried)

    def for_stmt(self, cx, st):
        _expect(isinstance(st.target, _ast.Name), "loop target " + _u(st.target))
        var = st.target.id
        _expect(var not in cx.vals and var not in cx.aliases, "loop variable %s shadows a local" % var)
        it = st.iter
        rng = None
        if isinstance(it, _ast.Name) and it.id in cx.vals and cx.vals[it.id][1] == "joins":
            ic, et = cx.vals[it.id][0], "pair"
        else:
            ic, ity = self.expr(cx, it)
            _expect(ity in ("zlist", "nlist"), "loop over " + ity)
            et = "Z" if ity == "zlist" else "nat"
            if isinstance(it, _ast.Call) and _u(it.func) == "range" and len(it.args) == 1 and isinstance(it.args[0], _ast.Call) \
                    and _u(it.args[0].func) == "len" and len(it.args[0].args) == 1:
                rng = _u(it.args[0].args[0])
        # the list a loop runs over must not be changed by the loop (Python would see the change)
        for n in _ast.walk(_ast.Module(body=st.body, type_ignores=[])):
            if isinstance(n, _ast.Call) and isinstance(n.func, _ast.Attribute) and n.func.attr in ("append", "remove", "sort", "pop") \
                    and (_u(n.func.value) == _u(it) or (rng is not None and _u(n.func.value) == rng and n.func.attr != "sort")):
                raise _Unsupported("the loop changes the list it runs over: " + _u(n))
            if isinstance(n, (_ast.Assign, _ast.AugAssign)):
                for t in (n.targets if isinstance(n, _ast.Assign) else [n.target]):
                    if _u(t) == _u(it) or (rng is not None and _u(t) == rng):
                        raise _Unsupported("the loop re-binds the list it runs over: " + _u(n))
        brk = None
        if _has_break(st.body):
            _expect("__brk__" not in cx.vals, "`break` in a loop nested in a loop with `break`")
            brk = self.fresh("brk")
            self.emit("let %s := false in\n" % brk)
            cx.vals["__brk__"] = (brk, "bool")
        state, carried = self.enter(cx, st.body)

        def extra(b):
            if et == "pair":
                b.pairs.add(var)
            else:
                b.vals[var] = (_v(var), et)
            if rng is not None:
                b.inrange.add((rng, var))
        text = self.nested(cx, st.body, carried, state, extra)
        if brk:
            text = "if %s then Some %s else\n%s" % (brk, self.tup(state), text)
        init = self.tup(state)
        lam = self.pat(state, True) if state else "(_ : unit)"
        if len(state) > 1:
            lam = "'(%s : %s)" % (self.pat(state, False), " * ".join(self.coqtype(cx, v) for v in state))
        self.emit("match ofold (fun %s %s =>\n%s) %s %s with None => None | Some %s =>\n"
                  % (lam, _v(var), text, ic, init, self.pat(state, False)), " end")
        if brk:
            del cx.vals["__brk__"]
        self.leave(cx, carried)

    # ------------------------------------------------------------------ methods
    def ret(self, cx):
        self.flush(cx)
        return "Some (mkN sT sB)"

    def method(self, name, params, stmts, cx=None, pre="", returns=None):
        cx = cx or _Cx()
        for p, ty in params:
            if p not in cx.vals:
                cx.vals[p] = (_v(p), ty)
        stmts = list(stmts)
        if stmts and isinstance(stmts[-1], _ast.Return) and _u(stmts[-1]) == "return self":
            stmts = stmts[:-1]
        elif stmts and isinstance(stmts[-1], _ast.Return) and isinstance(stmts[-1].value, _ast.Name) and returns is not None:
            rname = stmts[-1].value.id
            stmts = stmts[:-1]

            def ret(c, rname=rname):
                _expect(not any(a.dirty for a in c.aliases.values()), "a method returning a value must not change the network")
                _expect(rname in c.vals and c.vals[rname][1] == returns, "returned value %s is not a %s" % (rname, returns))
                return "Some %s" % c.vals[rname][0]
            self.ret = ret
        for n in _ast.walk(_ast.Module(body=stmts, type_ignores=[])):
            if isinstance(n, _ast.Return) and n.value is not None:
                raise _Unsupported("return of a value inside " + name)
        self.frames = []
        body = self.sub_block(cx, stmts, self.ret)
        return body


def _has_break(stmts):
    """a `break` of THIS loop (not of a loop nested in stmts)"""
    for st in stmts:
        if isinstance(st, _ast.Break):
            return True
        if isinstance(st, _ast.If) and (_has_break(st.body) or _has_break(st.orelse)):
            return True
    return False


def _params(fn, tys):
    args = [a.arg for a in fn.args.args]
    _expect(args[0] == "self" and len(args) == len(tys) + 1 and not fn.args.vararg and not fn.args.kwarg and not fn.args.kwonlyargs,
            "signature of " + fn.name)
    return list(zip(args[1:], tys))


HEADER = ["(* generated by gen/tnloops.py from %s - do not edit *)" % SN_PATH,
          "From Qib Require Import TN.TNGenBase TN.TNLoopsBase.", "Local Open Scope Z_scope.", ""]


def programs(prefix):
    """the translated methods as Coq definitions <prefix><method>"""
    tree = _pyx.parse(SN_PATH)
    STN = _pyx.find_class(tree, "SymbolicTensorNetwork")
    out = []
    # ------------------------------------------------------------------ the four helpers
    for py in ("_rename_tensor", "rename_bond", "merge_tensors", "merge_bonds"):
        fn = _fn(STN, py)
        g, tys = _METHODS[py]
        ps = _params(fn, tys)
        body = Loops(prefix=prefix).method(py, ps, _pyx.body_nodoc(fn))
        out.append("Definition %s%s (self : net) %s : option net :=\nlet sT := tensors self in let sB := bonds self in\n%s.\n"
                   % (prefix, g, " ".join("(%s : %s)" % (_v(p), _COQTYPE[t]) for p, t in ps), body))
    # ------------------------------------------------------------------ get_bond_axes (returns the list of axes; Python ints, -1 = not found)
    fn = _fn(STN, "get_bond_axes")
    ps = _params(fn, ["Z"])
    body = Loops(prefix=prefix).method("get_bond_axes", ps, _pyx.body_nodoc(fn), returns="zlist")
    out.append("Definition %sget_bond_axes (self : net) %s : option (list Z) :=\nlet sT := tensors self in let sB := bonds self in\n%s.\n"
               % (prefix, " ".join("(%s : %s)" % (_v(p), _COQTYPE[t]) for p, t in ps), body))
    # ------------------------------------------------------------------ the public rename_tensor
    fn = _fn(STN, "rename_tensor")
    ps = _params(fn, ["Z", "Z"])
    body = Loops(prefix=prefix).method("rename_tensor", ps, _pyx.body_nodoc(fn))
    out.append("Definition %srename_tensor (self : net) %s : option net :=\nlet sT := tensors self in let sB := bonds self in\n%s.\n"
               % (prefix, " ".join("(%s : %s)" % (_v(p), _COQTYPE[t]) for p, t in ps), body))
    # ------------------------------------------------------------------ SymbolicTensor.transpose / SymbolicTensorNetwork.transpose
    ST = _pyx.find_class(tree, "SymbolicTensor")
    fn = _fn(ST, "transpose")
    tb = _pyx.body_nodoc(fn)
    _expect([a.arg for a in fn.args.args] == ["self", "axes"] and len(fn.args.defaults) == 1 and _u(fn.args.defaults[0]) == "None",
            "signature of SymbolicTensor.transpose")
    # the default (axes=None -> reversed range) is pinned; the model takes explicit axes
    _expect(isinstance(tb[0], _ast.If) and _u(tb[0].test) == "axes is None" and not tb[0].orelse
            and [_u(x) for x in tb[0].body] == ["axes = list(reversed(range(self.ndim)))"], "default axes of SymbolicTensor.transpose")
    _expect(_u(tb[-1]) == "return self", "SymbolicTensor.transpose must end with `return self`")
    guard = [i for i, st in enumerate(tb) if isinstance(st, _ast.If) and _u(st.test) == "sorted(axes) != list(range(self.ndim))"]
    _expect(len(guard) == 1, "permutation test of SymbolicTensor.transpose")
    lp = Loops(objs=(), prefix=prefix)
    cx = _Cx()
    cx.vals["self"] = ("v_self", "tensor")
    cx.vals["axes"] = ("v_axes", "zlist")
    lp.frames = []
    saved = lp.ret
    lp.ret = lambda c: "Some v_self"
    # behind the permutation test every entry of axes lies in range(ndim): `l[ax]` is the ax-th entry (no negative index)
    front = lp_front = tb[1:guard[0] + 1]
    back = tb[guard[0] + 1:-1]

    class _Mark(str):
        pass
    body = lp.method("SymbolicTensor.transpose", [], list(front) + [_Mark("")] + list(back), cx)
    out.append("Definition %stensor_transpose (v_self : tensor) (v_axes : list Z) : option tensor :=\n%s.\n" % (prefix, body))
    fn = _fn(STN, "transpose")
    _expect([a.arg for a in fn.args.args] == ["self", "axes"] and len(fn.args.defaults) == 1 and _u(fn.args.defaults[0]) == "None",
            "signature of SymbolicTensorNetwork.transpose")
    cx = _Cx()
    cx.vals["axes"] = ("v_axes", "zlist")
    body = Loops(prefix=prefix).method("transpose", [], _pyx.body_nodoc(fn), cx)
    out.append("Definition %stranspose (self : net) (v_axes : list Z) : option net :=\nlet sT := tensors self in let sB := bonds self in\n%s.\n"
               % (prefix, body))
    # ------------------------------------------------------------------ merge
    mg = _fn(STN, "merge")
    args = [a.arg for a in mg.args.args]
    _expect(args == ["self", "other", "join_axes"] and len(mg.args.defaults) == 1 and _u(mg.args.defaults[0]) == "None", "signature of merge")
    mb = _pyx.body_nodoc(mg)
    _expect(isinstance(mb[0], _ast.If) and _u(mb[0].test) == "join_axes is None" and not mb[0].orelse
            and [_u(s) for s in mb[0].body] == ["join_axes = []"], "default of join_axes")
    cut = [i for i, s in enumerate(mb) if _u(s) == "num_open_axes_orig = self.num_open_axes"]
    _expect(len(cut) == 1, "merge must read `num_open_axes_orig = self.num_open_axes` exactly once")
    # the validation part mb[1:cut] is pinned / translated by gen/tn.py generate() (GenTN): one loop of three guards, then the five
    # statements of the leg-count refusal; nothing in it changes state
    _expect(cut[0] == 7, "merge's validation part must be the guard loop and the five statements of the leg-count refusal")
    cx = _Cx()
    cx.vals["join_axes"] = ("v_join_axes", "joins")
    cx.vals["num_open_axes_orig"] = ("v_num_open_axes_orig", "nat")
    body = Loops(objs=("self", "other"), prefix=prefix).method("merge", [], mb[cut[0] + 1:], cx)
    sig = "(self other : net) (v_join_axes : list (nat * nat)) (ordT ordB : list Z) : option net :=\n" \
          "let sT := tensors self in let sB := bonds self in let oT := tensors other in let oB := bonds other in\n"
    out.append("(* the statements of merge behind `num_open_axes_orig = self.num_open_axes` *)\n"
               "Definition %smerge_changes (v_num_open_axes_orig : nat) %s%s.\n" % (prefix, sig, body))
    # the whole method: the validation loop, the leg-count refusal (five statements PINNED by ast equality with
    # gen/tn.py MERGE_LEGS_GUARD - the raise message is free -, model: TNModel.joins_starve), then everything else
    want = _ast.parse(MERGE_LEGS_GUARD).body
    got = mb[2:7]

    def norm(st):
        st = _copy.deepcopy(st)
        for n in _ast.walk(st):
            if isinstance(n, _ast.Raise):
                n.exc = _ast.Name(id="ValueError")
        return _ast.dump(st)
    _expect(len(got) == len(want) and all(norm(g) == norm(w) for g, w in zip(got, want)),
            "the leg-count refusal of merge is not the pinned text (gen/tn.py MERGE_LEGS_GUARD)")
    pinned = "(* nets = (self, other) ... if num_legs - len(axes) < 2: raise ValueError   [five statements, pinned] *)\n" \
             "if joins_starve (mkN sT sB) (mkN oT oB) v_join_axes then None else\n"
    cx = _Cx()
    cx.vals["join_axes"] = ("v_join_axes", "joins")
    body = Loops(objs=("self", "other"), prefix=prefix).method("merge", [], [mb[1], pinned] + mb[7:], cx)
    out.append("Definition %smerge %s%s.\n" % (prefix, sig, body))
    return out


def generate_loops():
    return "\n".join(list(HEADER) + programs("gen_"))


if __name__ == "__main__":
    import sys
    print("\n".join(programs("lit_")) if sys.argv[1:] == ["lit"] else generate_loops())
