(** A scalar instance that satisfies the laws AND has a half element: Gaussian rationals over
    the canonical rationals Qc.  Used only for the non-vacuity examples of C11/C12
    (the hypothesis  h + h = 1  is satisfiable). *)
From Qib Require Export Base.Scalar.
From Coq Require Import QArith Qcanon.

Definition QcI : Scalar := {|
  T := (Qc * Qc)%type;
  s0 := (Q2Qc 0, Q2Qc 0); s1 := (Q2Qc 1, Q2Qc 0); sI := (Q2Qc 0, Q2Qc 1);
  sadd := fun a b => (fst a + fst b, snd a + snd b)%Qc;
  smul := fun a b => (fst a * fst b - snd a * snd b, fst a * snd b + snd a * fst b)%Qc;
  ssub := fun a b => (fst a - fst b, snd a - snd b)%Qc;
  sopp := fun a => (- fst a, - snd a)%Qc;
  sconj := fun a => (fst a, - snd a)%Qc |}.

Lemma QcI_laws : ScalarLaws QcI.
Proof.
  constructor.
  - constructor; intros;
      repeat match goal with x : T QcI |- _ => destruct x end;
      cbv [QcI T sadd smul ssub sopp s0 s1 fst snd]; f_equal; ring.
  - intros [a b] [c d]; cbv [QcI T sadd smul ssub sopp sconj s0 s1 sI fst snd]; f_equal; ring.
  - intros [a b] [c d]; cbv [QcI T sadd smul ssub sopp sconj s0 s1 sI fst snd]; f_equal; ring.
  - intros [a b]; cbv [QcI T sadd smul ssub sopp sconj s0 s1 sI fst snd]; f_equal; ring.
  - cbv [QcI T sconj s0 fst snd]. f_equal; ring.
  - cbv [QcI T sconj s1 fst snd]. f_equal; ring.
  - cbv [QcI T sconj sopp sI fst snd]. f_equal; ring.
  - intros [a b]; cbv [QcI T sconj fst snd]; f_equal; ring.
  - cbv [QcI T smul sopp sI s1 fst snd]. f_equal; ring.
Qed.

Definition qc_half : QcI := (Q2Qc (1 # 2), Q2Qc 0).
Lemma qc_half_ok : sadd qc_half qc_half = s1 :> QcI.
Proof.
  cbv [QcI T sadd s1 qc_half fst snd]. f_equal; apply Qc_is_canon; reflexivity.
Qed.

Definition qci_eqb (a b : QcI) : bool := Qc_eq_bool (fst a) (fst b) && Qc_eq_bool (snd a) (snd b).
Lemma qci_eqb_eq a b : qci_eqb a b = true -> a = b.
Proof.
  destruct a as [a1 a2], b as [b1 b2]. unfold qci_eqb. cbn [fst snd]. intros H.
  apply andb_true_iff in H. destruct H as [H1 H2].
  apply Qc_eq_bool_correct in H1. apply Qc_eq_bool_correct in H2. congruence.
Qed.
