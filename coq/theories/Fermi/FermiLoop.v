(** Generic facts about the accumulation loops of FieldOperator.as_matrix and of the two encoders,
    used by the property files to show that the loop TRANSLATED from the source on every run
    (gen/fermi.py: iteration over terms, over np.nditer's multi-indices, the zero-skip test, the
    order of the factors in `fstring = fstring @ ...`, `op += coeff * fstring`) computes the model. *)
From Qib Require Export Fermi.FermiEnc.

Section Loop.
  Context {K : Scalar} {L : ScalarLaws K}.
  Local Open Scope K_scope.
  Add Ring KringFL : (s_ring K L).

  (** two folds with pointwise equal bodies (on the elements of the list) *)
  Lemma fold_left_ext_in {A B} (f g : A -> B -> A) (l : list B) :
    (forall a x, In x l -> f a x = g a x) -> forall a, fold_left f l a = fold_left g l a.
  Proof.
    induction l as [|x l IH]; intros H a; cbn [fold_left]; [reflexivity|].
    rewrite (H a x (or_introl eq_refl)). apply IH. intros; apply H; right; assumption.
  Qed.

  (** a fold whose body adds [g a] to the accumulator, read at one matrix entry *)
  Lemma fold_left_madd {A} (F : BMx K -> A -> BMx K) (g : A -> BMx K) (l : list A) r c :
    (forall acc a, In a l -> F acc a r c = acc r c + g a r c) ->
    forall acc, fold_left F l acc r c = acc r c + lsum (map (fun a => g a r c) l).
  Proof.
    induction l as [|a l IH]; intros H acc; cbn [fold_left map].
    - rewrite lsum_nil. ring.
    - rewrite IH by (intros; apply H; right; assumption).
      rewrite (H acc a (or_introl eq_refl)), lsum_cons. ring.
  Qed.

  (** `fstring = fstring @ ld(o)` over the operators of one index = the model's accumulation *)
  Lemma fold_left_oprod n (g : BMx K -> ifo -> BMx K) (ld : ifo -> BMx K) ops :
    (forall acc o, g acc o = mmul n acc (ld o)) ->
    forall acc, fold_left g ops acc = oprod_from n ld acc ops.
  Proof.
    intros H. induction ops as [|o ops IH]; intros acc; cbn [fold_left oprod_from]; [reflexivity|].
    rewrite H. apply IH.
  Qed.

  Lemma combine_valid n (pat : list bool) : forall idx (o : ifo), Forall (fun j => (j < n)%nat) idx ->
    In o (combine pat idx) -> (snd o < n)%nat.
  Proof.
    induction pat as [|p pat IH]; intros [|j idx] o H Hin; cbn [combine] in Hin; try contradiction.
    inversion H; subst. destruct Hin as [<-|Hin]; [assumption|]. eapply IH; eassumption.
  Qed.

  (** two ladder families that agree on the valid sites give the same products on valid indices *)
  Lemma oprod_from_valid_ext n (ld ld' : ifo -> BMx K) pat idx :
    (forall o, (snd o < n)%nat -> meq n (ld' o) (ld o)) ->
    Forall (fun j => (j < n)%nat) idx ->
    meq n (oprod_from n ld' mid (combine pat idx)) (oprod_from n ld mid (combine pat idx)).
  Proof.
    intros H Hv. rewrite !oprod_from_mid. apply oprod_ext. intros o Ho.
    apply H. eapply combine_valid; eassumption.
  Qed.

  (** The whole loop.  [Fterm] is the body of `for term in self.terms`; the hypothesis is what has to be
      shown about the translated text: at every entry it adds  sum_idx coeff(idx) * fstring(idx). *)
  Theorem loop_is_op_matrix n (ld ld' : ifo -> BMx K) (Fterm : BMx K -> term K -> BMx K) :
    (forall o, (snd o < n)%nat -> meq n (ld' o) (ld o)) ->
    (forall acc t r c, length r = n -> length c = n ->
        Fterm acc t r c
        = acc r c + lsum (map (fun idx => tcf t idx * oprod_from n ld' mid (combine (tpat t) idx) r c)
                              (all_idx n (length (tpat t))))) ->
    forall terms, meq n (fold_left Fterm terms mzero) (op_matrix_gen (oprod_from n ld mid) n terms).
  Proof.
    intros Hld HF terms r c Hr Hc.
    rewrite (fold_left_madd Fterm (term_matrix_gen (oprod_from n ld mid) n) terms r c).
    - unfold mzero, op_matrix_gen. induction terms as [|t ts IH]; cbn [map fold_right].
      + rewrite lsum_nil. ring.
      + rewrite lsum_cons. rewrite <- IH. ring.
    - intros acc t _. rewrite (HF acc t r c Hr Hc). f_equal.
      unfold term_matrix_gen. rewrite isum_all_idx. apply lsum_map_ext. intros idx Hin.
      destruct (all_idx_valid n _ idx Hin) as [_ Hv].
      rewrite (oprod_from_valid_ext n ld ld' (tpat t) idx Hld Hv r c Hr Hc). reflexivity.
  Qed.
End Loop.

(** ------------------------------------------------------------------------------------------
    Bridging regenerated bit-list expressions (`i*[0] + [1] + (L-i-1)*[1]`, possibly under an
    `if`) to the hand-written tables, by their entries: two lists are equal when they have the
    same length and the same k-th entry for every k.  The tactic does not look at HOW the lists
    are written, so an algebraically equivalent rewrite of the source (`(i+1)*[0]`, a condition
    `i > 0` with swapped branches, reordered statements) still goes through. *)
Lemma nth_app_if {A} (l l' : list A) d k :
  nth k (l ++ l') d = if (k <? length l)%nat then nth k l d else nth (k - length l) l' d.
Proof.
  destruct (Nat.ltb_spec k (length l)); [apply app_nth1|apply app_nth2]; assumption.
Qed.
Lemma nth_repeat_if {A} (x : A) m d k : nth k (repeat x m) d = if (k <? m)%nat then x else d.
Proof.
  revert k; induction m as [|m IH]; intros [|k]; cbn [repeat nth]; try reflexivity.
  rewrite IH. reflexivity.
Qed.
Lemma nth_cons_if {A} (x : A) l d k :
  nth k (x :: l) d = if (k =? 0)%nat then x else nth (k - 1) l d.
Proof. destruct k; cbn [nth Nat.eqb]; [reflexivity|]. replace (Datatypes.S k - 1)%nat with k by lia. reflexivity. Qed.
Lemma nth_nil_any {A} (d : A) k : nth k [] d = d.
Proof. destruct k; reflexivity. Qed.
Lemma bits_eq_nth (l l' : list bool) :
  length l = length l' -> (forall k, (k < length l)%nat -> nth k l false = nth k l' false) -> l = l'.
Proof. intros Hl H. apply (nth_ext l l' false false Hl H). Qed.
Lemma pstr_eq z x q z' x' q' : z = z' -> x = x' -> q = q' ->
  {| pz := z; px := x; pq := q |} = {| pz := z'; px := x'; pq := q' |}.
Proof. intros -> -> ->. reflexivity. Qed.

Ltac split_conds :=
  repeat match goal with
         | |- context [Z.eqb ?a ?b] => destruct (Z.eqb_spec a b)
         | |- context [Z.ltb ?a ?b] => destruct (Z.ltb_spec a b)
         | |- context [Z.leb ?a ?b] => destruct (Z.leb_spec a b)
         | |- context [Nat.eqb ?a ?b] => destruct (Nat.eqb_spec a b)
         | |- context [Nat.ltb ?a ?b] => destruct (Nat.ltb_spec a b)
         | |- context [Nat.leb ?a ?b] => destruct (Nat.leb_spec a b)
         end; cbn [negb].
Ltac bitlist_len := rewrite ?app_length, ?repeat_length; cbn [length].
Ltac bitlist_eq :=
  apply bits_eq_nth;
  [ bitlist_len; lia
  | let k := fresh "k" in let Hk := fresh "Hk" in
    intros k Hk; revert Hk; bitlist_len; intros Hk;
    repeat (rewrite ?nth_app_if, ?nth_repeat_if, ?nth_cons_if, ?nth_nil_any; bitlist_len);
    split_conds; first [reflexivity | exfalso; lia] ].
(** a pair of Pauli strings given by bit-list expressions and constants *)
Ltac tab_bridge :=
  cbv zeta; split_conds;
  (apply f_equal2; apply pstr_eq; first [reflexivity | bitlist_eq | exfalso; lia]).
