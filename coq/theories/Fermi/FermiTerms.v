(** C10, second half: ordered products, term and operator matrices; adjoint / sum / product of
    field operators; the Hermitian flag.  Everything here is generic in the family of ladder
    matrices [ld] (so it applies to the reference operators and to the encoded ones). *)
From Qib Require Export Fermi.FermiProofs.

Section Terms.
  Context {K : Scalar} {L : ScalarLaws K}.
  Local Open Scope K_scope.
  Add Ring KringFT : (s_ring K L).

  (** right-nested ordered product *)
  Fixpoint oprod (n : nat) (ld : ifo -> BMx K) (ops : list ifo) : BMx K :=
    match ops with
    | [] => mid
    | o :: rest => mmul n (ld o) (oprod n ld rest)
    end.

  Global Instance oprod_from_proper n ld :
    Proper (meq n ==> eq ==> meq n) (oprod_from (K:=K) n ld).
  Proof.
    intros A A' HA ops ops' <-. revert A A' HA.
    induction ops as [|o ops IH]; intros A A' HA; cbn [oprod_from]; [exact HA|].
    apply IH. rewrite HA. reflexivity.
  Qed.

  Lemma oprod_from_eq n ld ops : forall acc,
    meq (K:=K) n (oprod_from n ld acc ops) (mmul n acc (oprod n ld ops)).
  Proof.
    induction ops as [|o ops IH]; intros acc; cbn [oprod_from oprod].
    - rewrite mmul_id_r. reflexivity.
    - rewrite IH. apply mmul_assoc.
  Qed.
  Lemma oprod_from_mid n ld ops : meq (K:=K) n (oprod_from n ld mid ops) (oprod n ld ops).
  Proof. rewrite oprod_from_eq. apply mmul_id_l. Qed.

  Lemma oprod_app n ld a b :
    meq (K:=K) n (oprod n ld (a ++ b)) (mmul n (oprod n ld a) (oprod n ld b)).
  Proof.
    induction a as [|o a IH]; cbn [app oprod].
    - rewrite mmul_id_l. reflexivity.
    - rewrite IH. symmetry. apply mmul_assoc.
  Qed.

  Lemma oprod_ext n ld ld' ops :
    (forall o, In o ops -> meq (K:=K) n (ld o) (ld' o)) ->
    meq n (oprod n ld ops) (oprod n ld' ops).
  Proof.
    induction ops as [|o ops IH]; intros H; cbn [oprod]; [reflexivity|].
    rewrite (H o) by (left; reflexivity). rewrite IH; [reflexivity|].
    intros; apply H; right; assumption.
  Qed.

  Lemma oprod_adj n ld ops :
    (forall o, meq (K:=K) n (madj (ld o)) (ld (ifo_adj o))) ->
    meq n (madj (oprod n ld ops)) (oprod n ld (rev (map ifo_adj ops))).
  Proof.
    intros H. induction ops as [|o ops IH]; cbn [oprod map rev].
    - apply madj_mid.
    - rewrite madj_mmul, oprod_app, IH, H. cbn [oprod]. rewrite mmul_id_r. reflexivity.
  Qed.

  (** a scalar in front of every factor comes out as a power *)
  Lemma oprod_scal n (h : K) ld ops :
    meq n (oprod n (fun o => mscal h (ld o)) ops) (mscal (spow h (length ops)) (oprod n ld ops)).
  Proof.
    induction ops as [|o ops IH]; cbn [oprod length spow].
    - rewrite mscal_one. reflexivity.
    - rewrite IH, mmul_mscal_l, mmul_mscal_r, mscal_mscal. reflexivity.
  Qed.

  (** product of reference ladder operators = composed signed partial permutation *)
  Theorem oprod_mono n ops : forall r c, length r = n -> length c = n ->
    oprod n (lad (K:=K) n) ops r c = mono (act_ops ops c) r.
  Proof.
    induction ops as [|o ops IH]; intros r c Hr Hc; cbn [oprod act_ops].
    - unfold mono, mid, sgnb. reflexivity.
    - unfold mmul.
      transitivity (bsum n (fun k => lad (K:=K) n o r k * mono (act_ops ops c) k)).
      { apply bsum_ext. intros k Hk. rewrite IH by assumption. reflexivity. }
      destruct (act_ops ops c) as [[s b]|] eqn:E.
      + assert (Hb : length b = n) by (apply act_ops_length in E; congruence).
        transitivity (bsum n (fun k => (lad (K:=K) n o r k * sgnb s) * (if beq k b then 1 else 0))).
        { apply bsum_ext. intros k _. cbn [mono]. destruct (beq k b); ring. }
        rewrite (bsum_delta_r n b (fun k => lad (K:=K) n o r k * sgnb s) Hb).
        rewrite lad_mono by assumption.
        destruct (act1 (fst o) (snd o) b) as [[s' b']|]; cbn [mono]; [|ring].
        unfold sgnb. destruct (beq r b'), s, s'; cbn [xorb]; ring.
      + apply bsum_zero. intros k _. cbn [mono]. ring.
  Qed.
  Definition fast_oprod (ops : list ifo) : BMx K := fun r c => mono (act_ops ops c) r.
  Corollary oprod_from_fast n ops :
    meq (K:=K) n (oprod_from n (lad n) mid ops) (fast_oprod ops).
  Proof. rewrite oprod_from_mid. intros r c Hr Hc. apply oprod_mono; assumption. Qed.

  (* ---------------------------------------------------------------- list helpers *)
  Lemma combine_app_eq {A B} (a a' : list A) (b b' : list B) : length a = length b ->
    combine (a ++ a') (b ++ b') = combine a b ++ combine a' b'.
  Proof.
    revert b; induction a as [|x a IH]; intros [|y b] H; try discriminate; [reflexivity|].
    cbn in H. injection H as H. cbn. f_equal. apply IH; assumption.
  Qed.
  Lemma combine_rev {A B} (a : list A) : forall (b : list B), length a = length b ->
    combine (rev a) (rev b) = rev (combine a b).
  Proof.
    induction a as [|x a IH]; intros [|y b] H; try discriminate; [reflexivity|].
    cbn in H. injection H as H. cbn [rev combine].
    rewrite combine_app_eq by (rewrite !rev_length; assumption). rewrite IH by assumption. reflexivity.
  Qed.
  Lemma map_adj_combine pat : forall idx,
    map ifo_adj (combine pat idx) = combine (map negb pat) idx.
  Proof.
    induction pat as [|p pat IH]; intros [|j idx]; try reflexivity.
    cbn [combine map]. rewrite IH. reflexivity.
  Qed.

  (* ---------------------------------------------------------------- term matrices *)
  Lemma term_matrix_gen_ext opr opr' n t :
    (forall idx, valid_idx n (length (tpat t)) idx ->
       meq (K:=K) n (opr (combine (tpat t) idx)) (opr' (combine (tpat t) idx))) ->
    meq n (term_matrix_gen opr n t) (term_matrix_gen opr' n t).
  Proof.
    intros H r c Hr Hc. unfold term_matrix_gen. apply isum_ext. intros idx Hv.
    rewrite (H idx Hv r c Hr Hc). reflexivity.
  Qed.
  Lemma op_matrix_gen_ext opr opr' n op :
    (forall t, In t op -> meq (K:=K) n (term_matrix_gen opr n t) (term_matrix_gen opr' n t)) ->
    meq n (op_matrix_gen opr n op) (op_matrix_gen opr' n op).
  Proof.
    induction op as [|t op IH]; intros H r c Hr Hc; [reflexivity|].
    unfold op_matrix_gen in *. cbn [fold_right].
    rewrite (H t (or_introl eq_refl) r c Hr Hc). f_equal.
    apply IH; [|assumption|assumption]. intros; apply H; right; assumption.
  Qed.

  Lemma op_matrix_gen_nil opr n : meq (K:=K) n (op_matrix_gen opr n []) mzero.
  Proof. intros r c _ _. reflexivity. Qed.
  Lemma op_matrix_gen_cons opr n t op :
    meq (K:=K) n (op_matrix_gen opr n (t :: op)) (madd (term_matrix_gen opr n t) (op_matrix_gen opr n op)).
  Proof. intros r c _ _. reflexivity. Qed.
  Lemma op_matrix_gen_app opr n a b :
    meq (K:=K) n (op_matrix_gen opr n (a ++ b)) (madd (op_matrix_gen opr n a) (op_matrix_gen opr n b)).
  Proof.
    induction a as [|t a IH]; cbn [app].
    - rewrite op_matrix_gen_nil, madd_zero_l. reflexivity.
    - rewrite !op_matrix_gen_cons, IH, madd_assoc. reflexivity.
  Qed.

  Section Generic.
    Variable n : nat.
    Variable ld : ifo -> BMx K.
    Let TM := term_matrix_gen (oprod_from n ld mid) n.
    Let OM := op_matrix_gen (oprod_from n ld mid) n.

    (** the term matrix, with the right-nested product *)
    Lemma TM_oprod t r c : length r = n -> length c = n ->
      TM t r c = isum n (length (tpat t)) (fun idx => tcf t idx * oprod n ld (combine (tpat t) idx) r c).
    Proof.
      intros Hr Hc. unfold TM, term_matrix_gen. apply isum_ext. intros idx _.
      rewrite (oprod_from_mid n ld _ r c Hr Hc). reflexivity.
    Qed.

    (* ---------- adjoint ---------- *)
    Hypothesis Hadj : forall o, meq n (madj (ld o)) (ld (ifo_adj o)).

    Theorem term_adjoint t : meq n (TM (tadj t)) (madj (TM t)).
    Proof.
      intros r c Hr Hc. unfold madj. rewrite !TM_oprod by assumption.
      cbn [tadj tpat tcf]. rewrite map_length, rev_length.
      set (k := length (tpat t)).
      rewrite isum_conj.
      rewrite <- (isum_rev n k (fun idx => (tcf t (rev idx))^* *
                                   oprod n ld (combine (map negb (rev (tpat t))) idx) r c)).
      apply isum_ext. intros idx [Hl _]. cbv beta.
      rewrite rev_involutive, (conj_mul K L). f_equal.
      rewrite map_rev, combine_rev by (rewrite map_length; fold k; congruence).
      rewrite <- map_adj_combine.
      symmetry. exact (oprod_adj n ld (combine (tpat t) idx) Hadj r c Hr Hc).
    Qed.

    Theorem op_adjoint op : meq n (OM (op_adj op)) (madj (OM op)).
    Proof.
      unfold OM, op_adj. induction op as [|t op IH]; cbn [map].
      - rewrite op_matrix_gen_nil, madj_mzero. reflexivity.
      - rewrite !op_matrix_gen_cons, madj_madd, IH. fold TM. rewrite term_adjoint. reflexivity.
    Qed.

    (* ---------- sum ---------- *)
    Theorem op_sum a b : meq n (OM (op_add a b)) (madd (OM a) (OM b)).
    Proof. apply op_matrix_gen_app. Qed.

    (* ---------- product ---------- *)
    Theorem term_product t1 t2 : meq n (TM (tmul t1 t2)) (mmul n (TM t1) (TM t2)).
    Proof.
      intros r c Hr Hc. rewrite TM_oprod by assumption.
      cbn [tmul tpat tcf]. rewrite app_length.
      set (k1 := length (tpat t1)). set (k2 := length (tpat t2)).
      rewrite isum_app.
      unfold mmul.
      (* right-hand side: pull both index sums out of the matrix product *)
      transitivity (isum n k1 (fun a => isum n k2 (fun b =>
          tcf t1 a * tcf t2 b * bsum n (fun m => oprod n ld (combine (tpat t1) a) r m
                                                  * oprod n ld (combine (tpat t2) b) m c)))).
      { apply isum_ext. intros a [Ha _]. apply isum_ext. intros b [Hb _]. cbv beta.
        rewrite firstn_app_len, skipn_app_len by (fold k1; congruence). f_equal.
        rewrite combine_app_eq by (fold k1; congruence).
        exact (oprod_app n ld _ _ r c Hr Hc). }
      symmetry.
      transitivity (bsum n (fun m => isum n k1 (fun a => isum n k2 (fun b =>
          tcf t1 a * tcf t2 b * (oprod n ld (combine (tpat t1) a) r m
                                 * oprod n ld (combine (tpat t2) b) m c))))).
      { apply bsum_ext. intros m Hm. rewrite !TM_oprod by assumption. fold k1 k2.
        rewrite <- isum_scal_r. apply isum_ext. intros a _. cbv beta.
        rewrite <- isum_scal. apply isum_ext. intros b _. ring. }
      rewrite <- isum_bsum. apply isum_ext. intros a _. cbv beta.
      rewrite <- isum_bsum. apply isum_ext. intros b _. cbv beta.
      apply bsum_scal.
    Qed.

    Lemma op_product_term t b : meq n (OM (map (tmul t) b)) (mmul n (TM t) (OM b)).
    Proof.
      unfold OM. induction b as [|t2 b IH]; cbn [map].
      - rewrite op_matrix_gen_nil, mmul_zero_r. reflexivity.
      - rewrite !op_matrix_gen_cons, mmul_madd_r, IH. fold TM. rewrite term_product. reflexivity.
    Qed.
    Theorem op_product a b : meq n (OM (op_mul a b)) (mmul n (OM a) (OM b)).
    Proof.
      unfold OM, op_mul. induction a as [|t a IH]; cbn [flat_map].
      - rewrite op_matrix_gen_nil, mmul_zero_l. reflexivity.
      - rewrite op_matrix_gen_app, op_matrix_gen_cons, mmul_madd_l, IH.
        fold OM TM. rewrite op_product_term. reflexivity.
    Qed.

    (* ---------- Hermitian flag (exact comparison) ---------- *)
    Lemma pat_sym_spec pat : pat_sym pat = true -> map negb (rev pat) = pat.
    Proof.
      unfold pat_sym. intros H. rewrite forallb_forall in H.
      apply (nth_ext _ _ false false); [rewrite map_length, rev_length; reflexivity|].
      intros i Hi. rewrite map_length, rev_length in Hi.
      change false with (negb true) at 1. rewrite map_nth, rev_nth by assumption.
      specialize (H i ltac:(apply in_seq; lia)). apply Bool.eqb_prop in H. rewrite H.
      replace (length pat - 1 - i)%nat with (length pat - Datatypes.S i)%nat by lia.
      f_equal. apply nth_indep. lia.
    Qed.

    Theorem herm_flag_sound close t :
      (forall a b : K, close a b = true -> a = b) ->
      herm_flag close n t = true -> hermitian n (TM t).
    Proof.
      intros Hclose H. unfold herm_flag in H. apply andb_true_iff in H. destruct H as [Hp Hc].
      apply pat_sym_spec in Hp. rewrite forallb_forall in Hc.
      unfold hermitian. rewrite <- term_adjoint.
      intros r c Hr Hcc. unfold TM, term_matrix_gen. cbn [tadj tpat tcf]. rewrite Hp.
      rewrite !isum_all_idx. apply lsum_map_ext. intros idx Hin.
      rewrite <- (Hclose _ _ (Hc idx Hin)). reflexivity.
    Qed.
  End Generic.

  (* ---------------------------------------------------------------- the reference operators *)
  Theorem ref_term_adjoint n t : meq (K:=K) n (term_matrix n (tadj t)) (madj (term_matrix n t)).
  Proof. apply term_adjoint. intros o. apply lad_adj. Qed.
  Theorem ref_op_adjoint n op : meq (K:=K) n (op_matrix n (op_adj op)) (madj (op_matrix n op)).
  Proof. apply op_adjoint. intros o. apply lad_adj. Qed.
  Theorem ref_op_sum n a b : meq (K:=K) n (op_matrix n (op_add a b)) (madd (op_matrix n a) (op_matrix n b)).
  Proof. apply op_sum. Qed.
  Theorem ref_term_product n t1 t2 :
    meq (K:=K) n (term_matrix n (tmul t1 t2)) (mmul n (term_matrix n t1) (term_matrix n t2)).
  Proof. apply term_product. Qed.
  Theorem ref_op_product n a b :
    meq (K:=K) n (op_matrix n (op_mul a b)) (mmul n (op_matrix n a) (op_matrix n b)).
  Proof. apply op_product. Qed.
  Theorem ref_herm_flag n close t :
    (forall a b : K, close a b = true -> a = b) ->
    herm_flag close n t = true -> hermitian n (term_matrix n t).
  Proof. apply herm_flag_sound. intros o. apply lad_adj. Qed.

  (** the fast evaluator used by the correspondence run computes the same matrix *)
  Theorem fast_op_matrix n op : meq (K:=K) n (op_matrix n op) (op_matrix_gen fast_oprod n op).
  Proof.
    apply op_matrix_gen_ext. intros t _. apply term_matrix_gen_ext. intros idx _.
    apply oprod_from_fast.
  Qed.
End Terms.
