(** Linear algebra over [meq n] used by the Fermi development: setoid instances, bilinearity
    of [mmul], algebra of the "one more Kronecker factor" constructor [cons_mat],
    sums over multi-indices. *)
From Qib Require Export Fermi.FermiModel Pauli.PauliProofs2.
From Coq Require Export Setoid Morphisms.

Section Alg.
  Context {K : Scalar} {L : ScalarLaws K}.
  Local Open Scope K_scope.
  Add Ring KringFA : (s_ring K L).

  (* ---------------------------------------------------------------- setoid structure *)
  Global Instance meq_equiv n : Equivalence (meq (K:=K) n).
  Proof.
    split; [intro; apply meq_refl | intros ? ?; apply meq_sym | intros ? ? ?; apply meq_trans].
  Qed.
  Global Instance mmul_proper n : Proper (meq n ==> meq n ==> meq n) (mmul (K:=K) n).
  Proof. intros A A' HA B B' HB. apply mmul_meq; assumption. Qed.
  Global Instance madd_proper n : Proper (meq n ==> meq n ==> meq n) (madd (K:=K)).
  Proof. intros A A' HA B B' HB r c Hr Hc. unfold madd. rewrite HA, HB by assumption. reflexivity. Qed.
  Global Instance mscal_proper n : Proper (eq ==> meq n ==> meq n) (mscal (K:=K)).
  Proof. intros a a' <- A A' HA r c Hr Hc. unfold mscal. rewrite HA by assumption. reflexivity. Qed.
  Global Instance madj_proper n : Proper (meq n ==> meq n) (madj (K:=K)).
  Proof. intros A A' HA. apply madj_meq; assumption. Qed.

  (* ---------------------------------------------------------------- pointwise algebra *)
  Lemma madd_comm n (A B : BMx K) : meq n (madd A B) (madd B A).
  Proof. intros r c _ _. unfold madd. ring. Qed.
  Lemma madd_assoc n (A B C : BMx K) : meq n (madd (madd A B) C) (madd A (madd B C)).
  Proof. intros r c _ _. unfold madd. ring. Qed.
  Lemma madd_zero_l n (A : BMx K) : meq n (madd mzero A) A.
  Proof. intros r c _ _. unfold madd, mzero. ring. Qed.
  Lemma madd_zero_r n (A : BMx K) : meq n (madd A mzero) A.
  Proof. intros r c _ _. unfold madd, mzero. ring. Qed.
  Lemma mscal_one n (A : BMx K) : meq n (mscal 1 A) A.
  Proof. intros r c _ _. unfold mscal. ring. Qed.
  Lemma mscal_zero n (A : BMx K) : meq n (mscal 0 A) mzero.
  Proof. intros r c _ _. unfold mscal, mzero. ring. Qed.
  Lemma mscal_mzero n a : meq (K:=K) n (mscal a mzero) mzero.
  Proof. intros r c _ _. unfold mscal, mzero. ring. Qed.
  Lemma mscal_mscal n a b (A : BMx K) : meq n (mscal a (mscal b A)) (mscal (a * b) A).
  Proof. intros r c _ _. unfold mscal. ring. Qed.
  Lemma mscal_madd n a (A B : BMx K) : meq n (mscal a (madd A B)) (madd (mscal a A) (mscal a B)).
  Proof. intros r c _ _. unfold mscal, madd. ring. Qed.
  Lemma mscal_add_l n a b (A : BMx K) : meq n (mscal (a + b) A) (madd (mscal a A) (mscal b A)).
  Proof. intros r c _ _. unfold mscal, madd. ring. Qed.

  (* ---------------------------------------------------------------- bilinearity of mmul *)
  Lemma mmul_madd_l n (A B C : BMx K) :
    meq n (mmul n (madd A B) C) (madd (mmul n A C) (mmul n B C)).
  Proof.
    intros r c _ _. unfold mmul, madd. rewrite <- bsum_add_fn.
    apply bsum_ext. intros k _. ring.
  Qed.
  Lemma mmul_madd_r n (A B C : BMx K) :
    meq n (mmul n A (madd B C)) (madd (mmul n A B) (mmul n A C)).
  Proof.
    intros r c _ _. unfold mmul, madd. rewrite <- bsum_add_fn.
    apply bsum_ext. intros k _. ring.
  Qed.
  Lemma mmul_mscal_l n a (A B : BMx K) : meq n (mmul n (mscal a A) B) (mscal a (mmul n A B)).
  Proof.
    intros r c _ _. unfold mmul, mscal. rewrite <- bsum_scal.
    apply bsum_ext. intros k _. ring.
  Qed.
  Lemma mmul_mscal_r n a (A B : BMx K) : meq n (mmul n A (mscal a B)) (mscal a (mmul n A B)).
  Proof.
    intros r c _ _. unfold mmul, mscal. rewrite <- bsum_scal.
    apply bsum_ext. intros k _. ring.
  Qed.
  Lemma mmul_zero_l n (A : BMx K) : meq n (mmul n mzero A) mzero.
  Proof. intros r c _ _. unfold mmul, mzero. apply bsum_zero. intros; ring. Qed.
  Lemma mmul_zero_r n (A : BMx K) : meq n (mmul n A mzero) mzero.
  Proof. intros r c _ _. unfold mmul, mzero. apply bsum_zero. intros; ring. Qed.

  Lemma madj_madd n (A B : BMx K) : meq n (madj (madd A B)) (madd (madj A) (madj B)).
  Proof. intros r c _ _. unfold madj, madd. apply (conj_add K L). Qed.
  Lemma madj_mscal n a (A : BMx K) : meq n (madj (mscal a A)) (mscal (a^*) (madj A)).
  Proof. intros r c _ _. unfold madj, mscal. apply (conj_mul K L). Qed.
  Lemma madj_mzero n : meq (K:=K) n (madj mzero) mzero.
  Proof. intros r c _ _. unfold madj, mzero. apply (conj_0 K L). Qed.

  (* ---------------------------------------------------------------- 2x2 factors *)
  Definition m2eq (f g : M2 (K:=K)) : Prop := forall r c, f r c = g r c.
  Definition m2mul (f g : M2 (K:=K)) : M2 := fun r c => f r false * g false c + f r true * g true c.
  Definition m2add (f g : M2 (K:=K)) : M2 := fun r c => f r c + g r c.
  Definition m2adj (f : M2 (K:=K)) : M2 := fun r c => (f c r)^*.
  Definition m2zero : M2 (K:=K) := fun _ _ => 0.
  Definition m2opp (f : M2 (K:=K)) : M2 := fun r c => - f r c.
  (** csr([[0,1],[0,0]]) = U^dagger and |1><1| *)
  Definition sD2 : M2 (K:=K) := fun r c => if negb r && c then 1 else 0.
  Definition sN2 : M2 (K:=K) := fun r c => if r && c then 1 else 0.

  Global Instance m2eq_equiv : Equivalence m2eq.
  Proof.
    split; [intros f r c; reflexivity | intros f g H r c; symmetry; apply H
           | intros f g h H1 H2 r c; rewrite H1; apply H2].
  Qed.
  Global Instance cons_mat_proper n : Proper (m2eq ==> meq n ==> meq (Datatypes.S n)) (cons_mat (K:=K)).
  Proof.
    intros f f' Hf A A' HA r c Hr Hc.
    destruct r as [|rb r]; [discriminate|]. destruct c as [|cb c]; [discriminate|].
    injection Hr as Hr. injection Hc as Hc. cbn [cons_mat]. rewrite Hf, HA by assumption. reflexivity.
  Qed.

  Lemma cons_mmul n f g (A B : BMx K) :
    meq (Datatypes.S n) (mmul (Datatypes.S n) (cons_mat f A) (cons_mat g B))
        (cons_mat (m2mul f g) (mmul n A B)).
  Proof.
    intros r c Hr Hc.
    destruct r as [|rb r]; [discriminate|]. destruct c as [|cb c]; [discriminate|].
    unfold mmul at 1. rewrite bsum_S. cbn [cons_mat]. unfold m2mul, mmul.
    transitivity (f rb false * g false cb * bsum n (fun k => A r k * B k c)
                  + f rb true * g true cb * bsum n (fun k => A r k * B k c)); [|ring].
    rewrite <- !bsum_scal. f_equal; apply bsum_ext; intros k _; ring.
  Qed.
  Lemma cons_madd_l n f g (A : BMx K) :
    meq n (madd (cons_mat f A) (cons_mat g A)) (cons_mat (m2add f g) A).
  Proof. intros r c _ _. unfold madd, m2add. destruct r, c; cbn [cons_mat]; ring. Qed.
  Lemma cons_madd_r n f (A B : BMx K) :
    meq n (madd (cons_mat f A) (cons_mat f B)) (cons_mat f (madd A B)).
  Proof. intros r c _ _. unfold madd. destruct r, c; cbn [cons_mat]; ring. Qed.
  Lemma cons_zero_l n (A : BMx K) : meq n (cons_mat m2zero A) mzero.
  Proof. intros r c _ _. unfold m2zero, mzero. destruct r, c; cbn [cons_mat]; ring. Qed.
  Lemma cons_zero_r n f : meq (K:=K) n (cons_mat f mzero) mzero.
  Proof. intros r c _ _. unfold mzero. destruct r, c; cbn [cons_mat]; ring. Qed.
  Lemma cons_madj n f (A : BMx K) : meq n (madj (cons_mat f A)) (cons_mat (m2adj f) (madj A)).
  Proof.
    intros r c _ _. unfold madj, m2adj.
    destruct r, c; cbn [cons_mat]; rewrite ?(conj_0 K L), ?(conj_mul K L); reflexivity.
  Qed.
  Lemma cons_mid n : meq (K:=K) (Datatypes.S n) (cons_mat sI2 mid) mid.
  Proof.
    intros r c Hr Hc. destruct r as [|rb r]; [discriminate|]. destruct c as [|cb c]; [discriminate|].
    cbn [cons_mat]. unfold sI2, mid. cbn [beq]. destruct (Bool.eqb rb cb), (beq r c); cbn [andb]; ring.
  Qed.
  Lemma nil_mid : meq (K:=K) 0 nil_mat mid.
  Proof. intros r c Hr Hc. destruct r, c; try discriminate. reflexivity. Qed.

  (* ---------------------------------------------------------------- sums over indices *)
  Lemma nsum_ext n (f g : nat -> K) : (forall j, (j < n)%nat -> f j = g j) -> nsum n f = nsum n g.
  Proof. intros H. apply lsum_map_ext. intros j Hj. apply H. apply in_seq in Hj. lia. Qed.
  Lemma nsum_add n (f g : nat -> K) : nsum n (fun j => f j + g j) = nsum n f + nsum n g.
  Proof. apply lsum_map_add. Qed.
  Lemma nsum_scal n a (f : nat -> K) : nsum n (fun j => a * f j) = a * nsum n f.
  Proof. apply lsum_map_scal. Qed.
  Lemma nsum_scal_r n a (f : nat -> K) : nsum n (fun j => f j * a) = nsum n f * a.
  Proof. apply lsum_map_scal_r. Qed.
  Lemma nsum_conj n (f : nat -> K) : (nsum n f)^* = nsum n (fun j => (f j)^*).
  Proof. apply lsum_map_conj. Qed.
  Lemma nsum_swap m n (f : nat -> nat -> K) :
    nsum m (fun a => nsum n (fun b => f a b)) = nsum n (fun b => nsum m (fun a => f a b)).
  Proof. apply lsum_map_swap. Qed.
  Lemma nsum_bsum m n (f : nat -> bits -> K) :
    nsum m (fun a => bsum n (fun b => f a b)) = bsum n (fun b => nsum m (fun a => f a b)).
  Proof. apply lsum_map_swap. Qed.
  Lemma nsum_zero n (f : nat -> K) : (forall j, (j < n)%nat -> f j = 0) -> nsum n f = 0.
  Proof. intros H. apply lsum_map_zero. intros j Hj. apply H. apply in_seq in Hj. lia. Qed.

  Definition valid_idx (n k : nat) (idx : list nat) : Prop :=
    length idx = k /\ Forall (fun j => (j < n)%nat) idx.

  Lemma isum_ext n k : forall (f g : list nat -> K),
    (forall idx, valid_idx n k idx -> f idx = g idx) -> isum n k f = isum n k g.
  Proof.
    induction k as [|k IH]; intros f g H; cbn [isum].
    - apply H. split; [reflexivity|constructor].
    - apply nsum_ext. intros j Hj. apply IH. intros idx [Hl Hf]. apply H.
      split; [cbn; congruence|constructor; assumption].
  Qed.
  Lemma isum_add n k : forall (f g : list nat -> K),
    isum n k (fun idx => f idx + g idx) = isum n k f + isum n k g.
  Proof.
    induction k as [|k IH]; intros f g; cbn [isum]; [reflexivity|].
    rewrite <- nsum_add. apply nsum_ext. intros j _. apply IH.
  Qed.
  Lemma isum_scal n k a : forall (f : list nat -> K),
    isum n k (fun idx => a * f idx) = a * isum n k f.
  Proof.
    induction k as [|k IH]; intros f; cbn [isum]; [reflexivity|].
    rewrite <- nsum_scal. apply nsum_ext. intros j _. apply IH.
  Qed.
  Lemma isum_scal_r n k a : forall (f : list nat -> K),
    isum n k (fun idx => f idx * a) = isum n k f * a.
  Proof.
    induction k as [|k IH]; intros f; cbn [isum]; [reflexivity|].
    rewrite <- nsum_scal_r. apply nsum_ext. intros j _. apply IH.
  Qed.
  Lemma isum_conj n k : forall (f : list nat -> K),
    (isum n k f)^* = isum n k (fun idx => (f idx)^*).
  Proof.
    induction k as [|k IH]; intros f; cbn [isum]; [reflexivity|].
    rewrite nsum_conj. apply nsum_ext. intros j _. apply IH.
  Qed.
  Lemma isum_zero n k : forall (f : list nat -> K),
    (forall idx, valid_idx n k idx -> f idx = 0) -> isum n k f = 0.
  Proof.
    intros f H. rewrite (isum_ext n k f (fun _ => 0) H).
    clear f H. induction k as [|k IH]; cbn [isum]; [reflexivity|].
    apply nsum_zero. intros; apply IH.
  Qed.
  Lemma isum_nsum n k m : forall (f : list nat -> nat -> K),
    isum n k (fun idx => nsum m (fun j => f idx j)) = nsum m (fun j => isum n k (fun idx => f idx j)).
  Proof.
    induction k as [|k IH]; intros f; cbn [isum]; [reflexivity|].
    rewrite nsum_swap. apply nsum_ext. intros j _. apply IH.
  Qed.
  Lemma isum_bsum n k m : forall (f : list nat -> bits -> K),
    isum n k (fun idx => bsum m (fun b => f idx b)) = bsum m (fun b => isum n k (fun idx => f idx b)).
  Proof.
    induction k as [|k IH]; intros f; cbn [isum]; [reflexivity|].
    rewrite <- nsum_bsum. apply nsum_ext. intros j _. apply IH.
  Qed.
  Lemma isum_swap n k k' : forall (f : list nat -> list nat -> K),
    isum n k (fun a => isum n k' (fun b => f a b)) = isum n k' (fun b => isum n k (fun a => f a b)).
  Proof.
    induction k' as [|k' IH]; intros f; cbn [isum]; [reflexivity|].
    rewrite isum_nsum. apply nsum_ext. intros j _. apply IH.
  Qed.

  (** multi-indices of length k1 + k2 split into a prefix and a suffix *)
  Lemma isum_app n k1 k2 : forall (f : list nat -> K),
    isum n (k1 + k2) f = isum n k1 (fun a => isum n k2 (fun b => f (a ++ b))).
  Proof.
    induction k1 as [|k1 IH]; intros f; cbn [Nat.add isum]; [reflexivity|].
    apply nsum_ext. intros j _. apply IH.
  Qed.
  (** ... enumerating the LAST index in the outer sum *)
  Lemma isum_snoc n k : forall (f : list nat -> K),
    isum n (Datatypes.S k) f = nsum n (fun j => isum n k (fun idx => f (idx ++ [j]))).
  Proof.
    intros f. replace (Datatypes.S k) with (k + 1)%nat by lia. rewrite isum_app.
    cbn [isum]. apply isum_nsum.
  Qed.
  (** the sum over all multi-indices is invariant under reversing the index *)
  Lemma isum_rev n k : forall (f : list nat -> K),
    isum n k (fun idx => f (rev idx)) = isum n k f.
  Proof.
    induction k as [|k IH]; intros f; [reflexivity|].
    rewrite (isum_snoc n k f). cbn [isum]. apply nsum_ext. intros j _.
    cbn [rev]. apply (IH (fun idx => f (idx ++ [j]))).
  Qed.

  (** isum enumerates [all_idx] *)
  Lemma isum_all_idx n k : forall (f : list nat -> K),
    isum n k f = lsum (map f (all_idx n k)).
  Proof.
    induction k as [|k IH]; intros f; cbn [isum all_idx].
    - cbn. ring.
    - unfold nsum. induction (seq 0 n) as [|j l IHl]; [reflexivity|].
      cbn [map flat_map]. rewrite lsum_cons, map_app, lsum_app, IHl. f_equal.
      rewrite map_map. apply IH.
  Qed.
  Lemma all_idx_valid n k idx : In idx (all_idx n k) -> valid_idx n k idx.
  Proof.
    revert idx; induction k as [|k IH]; intros idx H; cbn [all_idx] in H.
    - destruct H as [<-|[]]. split; [reflexivity|constructor].
    - apply in_flat_map in H. destruct H as [j [Hj H]]. apply in_map_iff in H.
      destruct H as [idx' [<- H]]. apply IH in H. destruct H as [Hl Hf].
      apply in_seq in Hj. split; [cbn; congruence|constructor; [lia|assumption]].
  Qed.
End Alg.
