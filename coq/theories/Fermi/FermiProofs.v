(** C10: the reference ladder operators of FieldOperator.as_matrix satisfy the canonical
    anticommutation relations for every number of sites; vacuum; number operators;
    monomial (signed partial permutation) form. *)
From Qib Require Export Fermi.FermiAlg.

Section Proofs.
  Context {K : Scalar} {L : ScalarLaws K}.
  Local Open Scope K_scope.
  Add Ring KringFP : (s_ring K L).

  (** annihilation operator written directly (proved equal to clist[i].conj().T below) *)
  Fixpoint amat (n i : nat) : BMx K :=
    match n with
    | O => mzero
    | Datatypes.S n' =>
      match i with
      | O => cons_mat sD2 (zstring n')
      | Datatypes.S i' => cons_mat sI2 (amat n' i')
      end
    end.

  (* ---------------------------------------------------------------- 2x2 facts *)
  Ltac m2 := intros r c; destruct r, c;
    cbv [m2mul m2add m2adj m2zero m2opp sI2 sZ2 sU2 sD2 sN2 Bool.eqb andb negb];
    rewrite ?(conj_opp K L), ?(conj_1 K L), ?(conj_0 K L); ring.

  Lemma adj_U : m2eq (K:=K) (m2adj sU2) sD2. Proof. m2. Qed.
  Lemma adj_D : m2eq (K:=K) (m2adj sD2) sU2. Proof. m2. Qed.
  Lemma adj_I : m2eq (K:=K) (m2adj sI2) sI2. Proof. m2. Qed.
  Lemma adj_Z : m2eq (K:=K) (m2adj sZ2) sZ2. Proof. m2. Qed.
  Lemma mul_ZZ : m2eq (K:=K) (m2mul sZ2 sZ2) sI2. Proof. m2. Qed.
  Lemma mul_I_l f : m2eq (K:=K) (m2mul sI2 f) f. Proof. m2. Qed.
  Lemma mul_I_r f : m2eq (K:=K) (m2mul f sI2) f. Proof. m2. Qed.
  Lemma acomm_ZU : m2eq (K:=K) (m2add (m2mul sZ2 sU2) (m2mul sU2 sZ2)) m2zero. Proof. m2. Qed.
  Lemma acomm_ZD : m2eq (K:=K) (m2add (m2mul sZ2 sD2) (m2mul sD2 sZ2)) m2zero. Proof. m2. Qed.
  Lemma acomm_DU : m2eq (K:=K) (m2add (m2mul sD2 sU2) (m2mul sU2 sD2)) sI2. Proof. m2. Qed.
  Lemma acomm_UU : m2eq (K:=K) (m2add (m2mul sU2 sU2) (m2mul sU2 sU2)) m2zero. Proof. m2. Qed.
  Lemma acomm_DD : m2eq (K:=K) (m2add (m2mul sD2 sD2) (m2mul sD2 sD2)) m2zero. Proof. m2. Qed.
  Lemma mul_UD : m2eq (K:=K) (m2mul sU2 sD2) sN2. Proof. m2. Qed.

  Ltac size0 := let r := fresh "r" in let c := fresh "c" in
    intros r c ? ?; destruct r, c; try discriminate;
    cbv [mmul madd madj mzero mid nil_mat zstring cmat amat bsum all_bits map lsum fold_right beq];
    rewrite ?(conj_1 K L), ?(conj_0 K L); try ring.

  (* ---------------------------------------------------------------- the Z string *)
  Lemma zstring_adj n : meq (K:=K) n (madj (zstring n)) (zstring n).
  Proof.
    induction n as [|n IH]; [size0|].
    cbn [zstring]. rewrite cons_madj, IH, adj_Z. reflexivity.
  Qed.

  Lemma zstring_sq n : meq (K:=K) n (mmul n (zstring n) (zstring n)) mid.
  Proof.
    induction n as [|n IH]; [size0|].
    cbn [zstring]. rewrite cons_mmul, IH, mul_ZZ. apply cons_mid.
  Qed.

  Lemma amat_adj n : forall i, meq (K:=K) n (madj (cmat n i)) (amat n i).
  Proof.
    induction n as [|n IH]; intros i; [size0|].
    destruct i as [|i]; cbn [cmat amat]; rewrite cons_madj.
    - rewrite zstring_adj, adj_U. reflexivity.
    - rewrite IH, adj_I. reflexivity.
  Qed.
  Lemma cmat_adj n i : meq (K:=K) n (madj (amat n i)) (cmat n i).
  Proof. rewrite <- amat_adj. apply madj_invol. Qed.

  (** the Z string anticommutes with every ladder operator *)
  Lemma zstring_cmat n : forall j,
    meq (K:=K) n (madd (mmul n (zstring n) (cmat n j)) (mmul n (cmat n j) (zstring n))) mzero.
  Proof.
    induction n as [|n IH]; intros j.
    - cbn [cmat]. rewrite mmul_zero_r, mmul_zero_l. apply madd_zero_l.
    - destruct j as [|j]; cbn [zstring cmat]; rewrite !cons_mmul.
      + rewrite cons_madd_l, acomm_ZU. apply cons_zero_l.
      + rewrite mul_I_l, mul_I_r, cons_madd_r, IH. apply cons_zero_r.
  Qed.
  Lemma zstring_amat n : forall j,
    meq (K:=K) n (madd (mmul n (zstring n) (amat n j)) (mmul n (amat n j) (zstring n))) mzero.
  Proof.
    induction n as [|n IH]; intros j.
    - cbn [amat]. rewrite mmul_zero_r, mmul_zero_l. apply madd_zero_l.
    - destruct j as [|j]; cbn [zstring amat]; rewrite !cons_mmul.
      + rewrite cons_madd_l, acomm_ZD. apply cons_zero_l.
      + rewrite mul_I_l, mul_I_r, cons_madd_r, IH. apply cons_zero_r.
  Qed.

  (* ---------------------------------------------------------------- CAR *)
  Definition delta_mat (i j : nat) : BMx K := if Nat.eqb i j then mid else mzero.

  Lemma car_ac n : forall i j, (i < n)%nat -> (j < n)%nat ->
    meq (K:=K) n (madd (mmul n (amat n i) (cmat n j)) (mmul n (cmat n j) (amat n i))) (delta_mat i j).
  Proof.
    induction n as [|n IH]; intros i j Hi Hj; [lia|].
    destruct i as [|i], j as [|j]; cbn [amat cmat]; rewrite !cons_mmul; unfold delta_mat; cbn [Nat.eqb].
    - rewrite zstring_sq, cons_madd_l, acomm_DU. apply cons_mid.
    - rewrite mul_I_l, mul_I_r, cons_madd_r, zstring_cmat. apply cons_zero_r.
    - rewrite mul_I_l, mul_I_r, cons_madd_r, (madd_comm n (mmul n (amat n i) (zstring n))), zstring_amat.
      apply cons_zero_r.
    - rewrite mul_I_l, cons_madd_r, (IH i j) by lia. unfold delta_mat.
      destruct (Nat.eqb i j); [apply cons_mid|apply cons_zero_r].
  Qed.

  Lemma car_cc n : forall i j,
    meq (K:=K) n (madd (mmul n (cmat n i) (cmat n j)) (mmul n (cmat n j) (cmat n i))) mzero.
  Proof.
    induction n as [|n IH]; intros i j.
    - cbn [cmat]. rewrite mmul_zero_r. apply madd_zero_l.
    - destruct i as [|i], j as [|j]; cbn [cmat]; rewrite !cons_mmul.
      + rewrite cons_madd_l, acomm_UU. apply cons_zero_l.
      + rewrite mul_I_l, mul_I_r, cons_madd_r, zstring_cmat. apply cons_zero_r.
      + rewrite mul_I_l, mul_I_r, cons_madd_r, (madd_comm n (mmul n (cmat n i) (zstring n))), zstring_cmat.
        apply cons_zero_r.
      + rewrite mul_I_l, cons_madd_r, IH. apply cons_zero_r.
  Qed.

  Lemma car_aa n : forall i j,
    meq (K:=K) n (madd (mmul n (amat n i) (amat n j)) (mmul n (amat n j) (amat n i))) mzero.
  Proof.
    induction n as [|n IH]; intros i j.
    - cbn [amat]. rewrite mmul_zero_r. apply madd_zero_l.
    - destruct i as [|i], j as [|j]; cbn [amat]; rewrite !cons_mmul.
      + rewrite cons_madd_l, acomm_DD. apply cons_zero_l.
      + rewrite mul_I_l, mul_I_r, cons_madd_r, zstring_amat. apply cons_zero_r.
      + rewrite mul_I_l, mul_I_r, cons_madd_r, (madd_comm n (mmul n (amat n i) (zstring n))), zstring_amat.
        apply cons_zero_r.
      + rewrite mul_I_l, cons_madd_r, IH. apply cons_zero_r.
  Qed.

  (* ---------------------------------------------------------------- in terms of [lad] *)
  Lemma lad_create n i : meq (K:=K) n (lad n (true, i)) (cmat n i).
  Proof. reflexivity. Qed.
  Lemma lad_annihil n i : meq (K:=K) n (lad n (false, i)) (amat n i).
  Proof. unfold lad; cbn [fst snd]. apply amat_adj. Qed.

  Lemma lad_adj n o : meq (K:=K) n (madj (lad n o)) (lad n (ifo_adj o)).
  Proof.
    destruct o as [[|] i]; unfold lad, ifo_adj; cbn [fst snd negb].
    - reflexivity.
    - apply madj_invol.
  Qed.

  (** {a_i, a_j^dagger} = delta_ij *)
  Theorem CAR_annihil_create n i j : (i < n)%nat -> (j < n)%nat ->
    meq (K:=K) n (madd (mmul n (lad n (false, i)) (lad n (true, j)))
                       (mmul n (lad n (true, j)) (lad n (false, i)))) (delta_mat i j).
  Proof. intros Hi Hj. rewrite lad_annihil, lad_create. apply car_ac; assumption. Qed.
  (** {a_i, a_j} = 0 and {a_i^dagger, a_j^dagger} = 0 *)
  Theorem CAR_same_kind n kind i j :
    meq (K:=K) n (madd (mmul n (lad n (kind, i)) (lad n (kind, j)))
                       (mmul n (lad n (kind, j)) (lad n (kind, i)))) mzero.
  Proof.
    destruct kind.
    - rewrite !lad_create. apply car_cc.
    - rewrite !lad_annihil. apply car_aa.
  Qed.

  (* ---------------------------------------------------------------- vacuum *)
  Lemma amat_vacuum n : forall i r, length r = n -> amat n i r (zeros n) = 0.
  Proof.
    induction n as [|n IH]; intros i r Hr; [reflexivity|].
    destruct r as [|rb r]; [discriminate|]. injection Hr as Hr.
    destruct i as [|i]; cbn [amat zeros cons_mat].
    - unfold sD2. destruct rb; cbn; ring.
    - rewrite IH by assumption. ring.
  Qed.
  (** a_i |0...0> = 0: the column of a_i at the all-empty state vanishes *)
  Theorem annihil_vacuum n i r : length r = n -> lad (K:=K) n (false, i) r (zeros n) = 0.
  Proof.
    intros Hr. rewrite (lad_annihil n i r (zeros n) Hr (zeros_length n)). apply amat_vacuum; assumption.
  Qed.

  (* ---------------------------------------------------------------- number operators *)
  Definition occ_mat (i : nat) : BMx K := fun r c =>
    if beq r c then (if nth i r false then 1 else 0) else 0.

  Lemma number_rec n : forall i, (i < n)%nat ->
    meq (K:=K) n (mmul n (cmat n i) (amat n i)) (occ_mat i).
  Proof.
    induction n as [|n IH]; intros i Hi; [lia|].
    destruct i as [|i]; cbn [cmat amat]; rewrite cons_mmul.
    - rewrite zstring_sq, mul_UD. intros r c Hr Hc.
      destruct r as [|rb r]; [discriminate|]. destruct c as [|cb c]; [discriminate|].
      cbn [cons_mat]. unfold occ_mat, sN2, mid. cbn [beq nth].
      destruct rb, cb, (beq r c); cbn; ring.
    - rewrite mul_I_l, (IH i) by lia. intros r c Hr Hc.
      destruct r as [|rb r]; [discriminate|]. destruct c as [|cb c]; [discriminate|].
      cbn [cons_mat]. unfold occ_mat, sI2. cbn [beq nth].
      destruct (Bool.eqb rb cb), (beq r c), (nth i r false); cbn; ring.
  Qed.
  (** a_i^dagger a_i is diagonal in the computational basis with entry b_i *)
  Theorem number_operator n i : (i < n)%nat ->
    meq (K:=K) n (mmul n (lad n (true, i)) (lad n (false, i))) (occ_mat i).
  Proof. intros Hi. rewrite lad_annihil, lad_create. apply number_rec; assumption. Qed.

  (* ---------------------------------------------------------------- monomial form *)
  Definition parity (b : bits) : bool := fold_right xorb false b.
  Definition sgnb (s : bool) : K := if s then - (1) else 1.
  (** c_i|b> = [b_i = 0] (-1)^(sum_{j>i} b_j) |b + e_i>,  a_i|b> = [b_i = 1] (same sign) |b - e_i> *)
  Fixpoint act1 (create : bool) (i : nat) (b : bits) : option (bool * bits) :=
    match b with
    | [] => None
    | x :: b' =>
      match i with
      | O => if Bool.eqb x create then None else Some (parity b', create :: b')
      | Datatypes.S i' =>
        match act1 create i' b' with
        | Some (s, b'') => Some (s, x :: b'')
        | None => None
        end
      end
    end.
  Definition mono (x : option (bool * bits)) (r : bits) : K :=
    match x with
    | Some (s, b) => if beq r b then sgnb s else 0
    | None => 0
    end.

  Lemma zstring_entry n : forall r c, length r = n -> length c = n ->
    zstring n r c = if beq r c then sgnb (parity c) else 0.
  Proof.
    induction n as [|n IH]; intros r c Hr Hc.
    - destruct r, c; try discriminate. reflexivity.
    - destruct r as [|rb r]; [discriminate|]. destruct c as [|cb c]; [discriminate|].
      injection Hr as Hr. injection Hc as Hc. cbn [zstring cons_mat]. rewrite IH by assumption.
      cbn [beq parity fold_right]. fold (parity c).
      unfold sZ2, sgnb. destruct rb, cb, (beq r c), (parity c); cbn; ring.
  Qed.

  Lemma act1_length create i : forall b s b', act1 create i b = Some (s, b') -> length b' = length b.
  Proof.
    induction i as [|i IH]; intros b s b' H; destruct b as [|x b]; cbn [act1] in H; try discriminate.
    - destruct (Bool.eqb x create); [discriminate|]. injection H as _ <-. reflexivity.
    - destruct (act1 create i b) as [[s0 b0]|] eqn:E; [|discriminate].
      injection H as _ <-. cbn. f_equal. eapply IH; eassumption.
  Qed.

  Lemma cmat_mono n : forall i r c, length r = n -> length c = n ->
    cmat n i r c = mono (act1 true i c) r.
  Proof.
    induction n as [|n IH]; intros i r c Hr Hc.
    - destruct r, c; try discriminate. destruct i; reflexivity.
    - destruct r as [|rb r]; [discriminate|]. destruct c as [|cb c]; [discriminate|].
      injection Hr as Hr. injection Hc as Hc.
      destruct i as [|i]; cbn [cmat cons_mat act1].
      + rewrite zstring_entry by assumption. unfold sU2.
        destruct cb; cbn [Bool.eqb mono beq]; [destruct rb; cbn; ring|].
        destruct rb; cbn [Bool.eqb andb negb]; [|ring]. destruct (beq r c); ring.
      + rewrite IH by assumption. destruct (act1 true i c) as [[s b]|]; cbn [mono beq]; [|ring].
        unfold sI2. destruct (Bool.eqb rb cb), (beq r b); cbn [andb]; ring.
  Qed.
  Lemma amat_mono n : forall i r c, length r = n -> length c = n ->
    amat n i r c = mono (act1 false i c) r.
  Proof.
    induction n as [|n IH]; intros i r c Hr Hc.
    - destruct r, c; try discriminate. destruct i; reflexivity.
    - destruct r as [|rb r]; [discriminate|]. destruct c as [|cb c]; [discriminate|].
      injection Hr as Hr. injection Hc as Hc.
      destruct i as [|i]; cbn [amat cons_mat act1].
      + rewrite zstring_entry by assumption. unfold sD2.
        destruct cb; cbn [Bool.eqb mono beq]; [|destruct rb; cbn; ring].
        destruct rb; cbn [Bool.eqb andb negb]; [ring|]. destruct (beq r c); ring.
      + rewrite IH by assumption. destruct (act1 false i c) as [[s b]|]; cbn [mono beq]; [|ring].
        unfold sI2. destruct (Bool.eqb rb cb), (beq r b); cbn [andb]; ring.
  Qed.
  (** every ladder matrix is the signed partial permutation [act1] *)
  Theorem lad_mono n o r c : length r = n -> length c = n ->
    lad (K:=K) n o r c = mono (act1 (fst o) (snd o) c) r.
  Proof.
    intros Hr Hc. destruct o as [[|] i]; cbn [fst snd].
    - apply cmat_mono; assumption.
    - rewrite (lad_annihil n i r c Hr Hc). apply amat_mono; assumption.
  Qed.

  (** action of an ordered product on a basis state: rightmost operator first *)
  Fixpoint act_ops (ops : list ifo) (c : bits) : option (bool * bits) :=
    match ops with
    | [] => Some (false, c)
    | o :: rest =>
      match act_ops rest c with
      | Some (s, b) =>
        match act1 (fst o) (snd o) b with
        | Some (s', b') => Some (xorb s s', b')
        | None => None
        end
      | None => None
      end
    end.
  Lemma act_ops_length ops : forall c s b, act_ops ops c = Some (s, b) -> length b = length c.
  Proof.
    induction ops as [|o ops IH]; intros c s b H; cbn [act_ops] in H.
    - injection H as _ <-. reflexivity.
    - destruct (act_ops ops c) as [[s0 b0]|] eqn:E; [|discriminate].
      destruct (act1 (fst o) (snd o) b0) as [[s1 b1]|] eqn:E1; [|discriminate].
      injection H as _ <-. apply act1_length in E1. rewrite E1. eapply IH; eassumption.
  Qed.
End Proofs.
