(** Case type and checker for the C10/C11/C12 correspondence runs (evaluated by vm_compute on
    exact Gaussian rationals).  Coefficient tensors arrive as flat row-major lists. *)
From Qib Require Export Fermi.FermiTerms Base.Inst Pauli.PauliCheck.
From Coq Require Import QArith.

Definition QQ := (Q * Q)%type.
(** short literals for the generated case files *)
Definition qz (a b : Z) : QI := (inject_Z a, inject_Z b).
Definition q0 : QI := qz 0 0.
Definition qmat_eqb (a b : list (list QQ)) : bool := list_eqb (list_eqb qi_eqb) a b.

(** a term as the harness writes it: operator pattern and the flattened coefficient array *)
Definition cterm := (list bool * list QI)%type.
Definition flat (n : nat) (idx : list nat) : nat := fold_left (fun acc j => (acc * n + j)%nat) idx 0%nat.
Definition mkterm (n : nat) (t : cterm) : term QI :=
  {| tpat := fst t; tcf := fun idx => (nth (flat n idx) (snd t) (s0 (s:=QI)) : QI) |}.
Definition tabulate (n : nat) (t : term QI) : cterm :=
  (tpat t, map (tcf t) (all_idx n (length (tpat t)))).
Definition cterm_eqb (a b : cterm) : bool :=
  list_eqb Bool.eqb (fst a) (fst b) && list_eqb qi_eqb (snd a) (snd b).

Definition isz_q (w : QI) : bool := qi_eqb w (s0 (s:=QI)).
(** |w| <= tol, decided exactly as |w|^2 <= tol^2 *)
Definition negl_q (tol : Q) (w : QI) : bool :=
  Qle_bool (fst w * fst w + snd w * snd w) (tol * tol).

Inductive fcase :=
| CLad (n i : nat) (create : bool) (m : list (list QQ))           (* clist[i] / alist[i] *)
| CMat (n : nat) (op : list cterm) (m : list (list QQ))           (* FieldOperator.as_matrix, fast evaluator *)
| CMatDef (n : nat) (op : list cterm) (m : list (list QQ))        (* ... the defining nested sums, small sizes *)
| CAdj (n : nat) (op : list cterm) (r : list cterm)               (* adjoint() *)
| CMul (n : nat) (a b : list cterm) (r : list cterm)              (* A @ B *)
| CAdd (n : nat) (a b : list cterm) (r : list cterm)              (* A + B *)
| CHerm (n : nat) (t : cterm) (flag : bool)                       (* FieldOperatorTerm.is_hermitian *)
| CEnc (parity : bool) (n : nat) (op : list cterm) (r : list (P3 * QQ))   (* encoder output *)
| CEncMat (parity : bool) (n : nat) (op : list cterm) (m : list (list QQ)). (* its as_matrix() *)

Section Check.
  Variables PJ PP : encparams QI.     (* Jordan-Wigner / parity parameters (regenerated) *)
  Variable tolJ tolP : Q.

  Definition run_enc (parity : bool) (n : nat) (op : list cterm) : list (wstr (K:=QI)) :=
    if parity then encode PP isz_q (negl_q tolP) n (map (mkterm n) op)
    else encode PJ isz_q (negl_q tolJ) n (map (mkterm n) op).

  Definition fcheck (c : fcase) : bool :=
    match c with
    | CLad n i create m => qmat_eqb (dense n (lad (K:=QI) n (create, i))) m
    | CMat n op m => qmat_eqb (dense n (op_matrix_gen (K:=QI) fast_oprod n (map (mkterm n) op))) m
    | CMatDef n op m => qmat_eqb (dense n (op_matrix (K:=QI) n (map (mkterm n) op))) m
    | CAdj n op r => list_eqb cterm_eqb (map (tabulate n) (op_adj (map (mkterm n) op))) r
    | CMul n a b r => list_eqb cterm_eqb (map (tabulate n) (op_mul (map (mkterm n) a) (map (mkterm n) b))) r
    | CAdd n a b r => list_eqb cterm_eqb (map (tabulate n) (op_add (map (mkterm n) a) (map (mkterm n) b))) r
    | CHerm n t flag => Bool.eqb (herm_flag qi_eqb n (mkterm n t)) flag
    | CEnc parity n op r =>
        list_eqb (fun u v => p3_eqb (fst u) (fst v) && qi_eqb (snd u) (snd v))
                 (map (fun w => (un (fst w), snd w)) (run_enc parity n op)) r
    | CEncMat parity n op m => qmat_eqb (dense n (opmatrix (run_enc parity n op))) m
    end.

  Definition fbad_cases (cs : list (nat * fcase)) : list nat :=
    map fst (filter (fun c => negb (fcheck (snd c))) cs).
End Check.
