(** Executable model of qib.operator.field_operator (single fermionic field) and of the
    Jordan-Wigner / parity encoders (qib.transform.{jordan_wigner,parity}_encoding).
    No proofs here.  Built on the C09 Pauli-string model.

    Conventions: a matrix on n sites is [BMx K] (site 0 first = most significant bit = first
    Kronecker factor, exactly as field_operator.py builds [clist] with sparse.kron).
    An individual field operator is [(is_create, site)]; a term is an operator pattern
    together with a coefficient tensor, represented as a function from multi-indices
    (one site index per operator of the pattern) to K. *)
From Qib Require Export Pauli.PauliModel.

Section FermiModel.
  Context {K : Scalar}.
  Local Open Scope K_scope.

  (* ---------------------------------------------------------------- 2x2 site factors *)
  Definition M2 := bool -> bool -> K.
  (** sparse.identity(2), csr([[1,0],[0,-1]]), csr([[0,0],[1,0]]) of FieldOperator.as_matrix *)
  Definition sI2 : M2 := fun r c => if Bool.eqb r c then 1 else 0.
  Definition sZ2 : M2 := fun r c => if Bool.eqb r c then (if r then - (1) else 1) else 0.
  Definition sU2 : M2 := fun r c => if r && negb c then 1 else 0.

  (** kron(f, A): one more Kronecker factor in front *)
  Definition cons_mat (f : M2) (A : BMx K) : BMx K := fun r c =>
    match r, c with
    | rb :: r', cb :: c' => f rb cb * A r' c'
    | _, _ => 0
    end.
  (** sparse.identity(1) *)
  Definition nil_mat : BMx K := fun r c => match r, c with [], [] => 1 | _, _ => 0 end.

  (** Z (x) ... (x) Z on n sites *)
  Fixpoint zstring (n : nat) : BMx K :=
    match n with O => nil_mat | Datatypes.S n' => cons_mat sZ2 (zstring n') end.

  (** clist[i] on n sites: I on sites < i, U on site i, Z on sites > i
      (the sign string sits on the LATER sites).  Zero when i >= n (the code would raise). *)
  Fixpoint cmat (n i : nat) : BMx K :=
    match n with
    | O => mzero
    | Datatypes.S n' =>
      match i with
      | O => cons_mat sU2 (zstring n')
      | Datatypes.S i' => cons_mat sI2 (cmat n' i')
      end
    end.

  (** individual field operator: (is_create, site) *)
  Definition ifo := (bool * nat)%type.
  Definition ifo_adj (o : ifo) : ifo := (negb (fst o), snd o).
  (** clist[j] resp. alist[j] = clist[j].conj().T *)
  Definition lad (n : nat) (o : ifo) : BMx K :=
    if fst o then cmat n (snd o) else madj (cmat n (snd o)).

  (* ---------------------------------------------------------------- ordered products *)
  (** fstring = identity; for each operator: fstring = fstring @ op   (generic in the
      family of ladder matrices, so that it is shared with the encoded operators) *)
  Fixpoint oprod_from (n : nat) (ld : ifo -> BMx K) (acc : BMx K) (ops : list ifo) : BMx K :=
    match ops with
    | [] => acc
    | o :: rest => oprod_from n ld (mmul n acc (ld o)) rest
    end.

  (* ---------------------------------------------------------------- sums over multi-indices *)
  Definition nsum (n : nat) (f : nat -> K) : K := lsum (map f (seq 0 n)).
  (** sum over all multi-indices in {0..n-1}^k *)
  Fixpoint isum (n k : nat) (f : list nat -> K) : K :=
    match k with
    | O => f []
    | Datatypes.S k' => nsum n (fun j => isum n k' (fun idx => f (j :: idx)))
    end.
  (** the multi-indices in np.nditer (C / row-major) order: first index slowest *)
  Fixpoint all_idx (n k : nat) : list (list nat) :=
    match k with
    | O => [[]]
    | Datatypes.S k' => flat_map (fun j => map (cons j) (all_idx n k')) (seq 0 n)
    end.

  (* ---------------------------------------------------------------- terms and operators *)
  Record term := { tpat : list bool; tcf : list nat -> K }.

  (** matrix of a term, generic in the "ordered product" function *)
  Definition term_matrix_gen (opr : list ifo -> BMx K) (n : nat) (t : term) : BMx K := fun r c =>
    isum n (length (tpat t)) (fun idx => tcf t idx * opr (combine (tpat t) idx) r c).
  Definition op_matrix_gen (opr : list ifo -> BMx K) (n : nat) (op : list term) : BMx K := fun r c =>
    fold_right (fun t acc => term_matrix_gen opr n t r c + acc) 0 op.

  (** FieldOperator.as_matrix: coefficient-weighted sum of ordered products of clist/alist *)
  Definition term_matrix (n : nat) : term -> BMx K := term_matrix_gen (oprod_from n (lad n) mid) n.
  Definition op_matrix (n : nat) : list term -> BMx K := op_matrix_gen (oprod_from n (lad n) mid) n.

  (** FieldOperatorTerm.adjoint: reversed, flipped operators; coeffs.conj().T (all axes reversed) *)
  Definition tadj (t : term) : term :=
    {| tpat := map negb (rev (tpat t)); tcf := fun idx => (tcf t (rev idx))^* |}.
  (** FieldOperatorTerm.__matmul__: concatenated patterns, outer product of the coefficients *)
  Definition tmul (t1 t2 : term) : term :=
    {| tpat := tpat t1 ++ tpat t2;
       tcf := fun idx => tcf t1 (firstn (length (tpat t1)) idx) * tcf t2 (skipn (length (tpat t1)) idx) |}.
  (** FieldOperator.adjoint / __add__ / __matmul__ *)
  Definition op_adj (op : list term) : list term := map tadj op.
  Definition op_add (a b : list term) : list term := a ++ b.
  Definition op_mul (a b : list term) : list term := flat_map (fun t1 => map (tmul t1) b) a.

  (** FieldOperatorTerm.is_hermitian: operator pattern check as the code writes it, then a
      comparison of coeffs with coeffs.conj().T.  [close] stands for the entry test of
      np.allclose (approximate in the code; the theorems assume it is exact equality). *)
  Definition pat_sym (pat : list bool) : bool :=
    let n := length pat in
    forallb (fun i => Bool.eqb (nth i pat false) (negb (nth (n - 1 - i) pat false))) (seq 0 n).
  Definition herm_flag (close : K -> K -> bool) (n : nat) (t : term) : bool :=
    pat_sym (tpat t) &&
    forallb (fun idx => close (tcf t idx) ((tcf t (rev idx))^*)) (all_idx n (length (tpat t))).

  (* ---------------------------------------------------------------- encoders *)
  (** table of the two Pauli strings per ladder operator: kind -> L -> site -> (first, second) *)
  Definition ltab := bool -> nat -> nat -> (pstr * pstr)%type.

  Definition pident (n : nat) : pstr := {| pz := repeat false n; px := repeat false n; pq := 0 |}.

  (** pstrings = [ps @ two[0] for ps in pstrings] + [ps @ two[1] for ps in pstrings] *)
  Definition expand_step (two : pstr * pstr) (pstrings : list pstr) : list pstr :=
    map (fun ps => pmul ps (fst two)) pstrings ++ map (fun ps => pmul ps (snd two)) pstrings.
  Definition expand (tab : ltab) (n : nat) (ops : list ifo) : list pstr :=
    fold_left (fun acc o => expand_step (tab (fst o) n (snd o)) acc) ops [pident n].

  Fixpoint spow (h : K) (k : nat) : K :=
    match k with O => 1 | Datatypes.S k' => h * spow h k' end.

  (** sign = ps.refactor_sign(); pauliop.add_pauli_string(WeightedPauliString(ps, sign * weight)) *)
  Definition add_signed (w : K) (acc : list wstr) (ps : pstr) : list wstr :=
    add_pauli_string acc (snd (refactor_sign ps), mipz (fst (refactor_sign ps)) * w).

  Record encparams := {
    ep_tab : ltab;                 (* the za/zb/x lists and q constants of the source *)
    ep_weight : nat -> K -> K;     (* weight = 0.5 ** len(term.opdesc) * coeff *)
    ep_keepdim : bool              (* whether an empty result gets a zero-weight identity string *)
  }.

  Definition enc_coeff (P : encparams) (n : nat) (pat : list bool) (acc : list wstr)
             (idx : list nat) (coeff : K) : list wstr :=
    fold_left (add_signed (ep_weight P (length pat) coeff)) (expand (ep_tab P) n (combine pat idx)) acc.

  (** [isz] is the test "coeff == 0" *)
  Definition enc_term (P : encparams) (isz : K -> bool) (n : nat) (acc : list wstr) (t : term) : list wstr :=
    fold_left (fun acc idx => if isz (tcf t idx) then acc else enc_coeff P n (tpat t) acc idx (tcf t idx))
              (all_idx n (length (tpat t))) acc.

  Definition enc_raw (P : encparams) (isz : K -> bool) (n : nat) (op : list term) : list wstr :=
    fold_left (enc_term P isz n) op [].

  Definition enc_dim (P : encparams) (n : nat) (raw : list (wstr (K:=K))) : list (wstr (K:=K)) :=
    match raw with
    | [] => if ep_keepdim P then [(pident n, 0)] else []
    | _ :: _ => raw
    end.

  (** the whole encoder; [negl] is the predicate |w| <= 1e-14 of remove_zero_weight_strings *)
  Definition encode (P : encparams) (isz negl : K -> bool) (n : nat) (op : list term) : list wstr :=
    remove_zero_weight_strings negl (enc_dim P n (enc_raw P isz n op)).

  (** the strings remove_zero_weight_strings drops (same scan as rzws_aux) *)
  Fixpoint rzws_dropped (negl : K -> bool) (rev_op : list wstr) (len : nat) : list wstr :=
    match rev_op with
    | [] => []
    | w :: rest =>
      if negl (snd w) && Nat.ltb 1 len then w :: rzws_dropped negl rest (len - 1)
      else rzws_dropped negl rest len
    end.
  Definition dropped_strings (negl : K -> bool) (op : list wstr) : list wstr :=
    rzws_dropped negl (rev op) (length op).

  (** the encoded ladder operator: half * (first string + second string) *)
  Definition enc_lad (tab : ltab) (h : K) (n : nat) (o : ifo) : BMx K := fun r c =>
    h * (pmatrix (fst (tab (fst o) n (snd o))) r c + pmatrix (snd (tab (fst o) n (snd o))) r c).
End FermiModel.

Arguments term K : clear implicits.
Arguments encparams K : clear implicits.

(** The string tables as the two encoders write them (hand copy; the property files prove
    that the tables regenerated from the source on every run are equal to these). *)
Definition jw_za (L i : nat) : list bool := repeat false i ++ [false] ++ repeat true (L - i - 1).
Definition jw_zb (L i : nat) : list bool := repeat false i ++ [true] ++ repeat true (L - i - 1).
Definition jw_x (L i : nat) : list bool := repeat false i ++ [true] ++ repeat false (L - i - 1).
Definition jw_tab : ltab := fun kind L i =>
  ({| pz := jw_za L i; px := jw_x L i; pq := 0 |},
   {| pz := jw_zb L i; px := jw_x L i; pq := if kind then 1 else 3 |}).

Definition par_za (L i : nat) : list bool :=
  if Nat.eqb i 0 then repeat false L else repeat false (i - 1) ++ [true] ++ repeat false (L - i).
Definition par_zb (L i : nat) : list bool := repeat false i ++ [true] ++ repeat false (L - i - 1).
Definition par_x (L i : nat) : list bool := repeat false i ++ [true] ++ repeat true (L - i - 1).
Definition par_tab : ltab := fun kind L i =>
  ({| pz := par_za L i; px := par_x L i; pq := 0 |},
   {| pz := par_zb L i; px := par_x L i; pq := if kind then 1 else 3 |}).
