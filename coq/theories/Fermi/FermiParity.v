(** C12: the parity-encoded ladder operators  A_i = h (P_i + i Q_i),  A_i^dagger = h (P_i - i Q_i)
    with  P_i = Z_{i-1} X_i X_{>i},  Q_i = Y_i X_{>i}  (the strings parity_encoding.py writes)
    satisfy the canonical anticommutation relations for every number of sites; vacuum;
    occupation number = h (1 - Z_{i-1} Z_i).  [h] is a half element: h + h = 1.
    Proved from the C09 product law: the 2L strings P_i, Q_i pairwise anticommute (symplectic
    form computed on the list expressions) and square to one. *)
From Qib Require Export Fermi.FermiEnc.

Section Parity.
  Context {K : Scalar} {L : ScalarLaws K}.
  Local Open Scope K_scope.
  Add Ring KringFPa : (s_ring K L).

  (* ---------------------------------------------------------------- list facts *)
  Definition b2nat (b : bool) : nat := if b then 1%nat else 0%nat.

  Lemma dotb_unit (x : list bool) : forall j m,
    dotb x (repeat false j ++ true :: repeat false m) = b2nat (nth j x false).
  Proof.
    induction x as [|b x IH]; intros j m.
    - destruct j; reflexivity.
    - destruct j as [|j]; cbn [repeat app dotb nth].
      + rewrite dotb_zeros_r, andb_true_r. destruct b; reflexivity.
      + rewrite IH, andb_false_r. reflexivity.
  Qed.

  Lemma nth_repeat_lt {A} (a d : A) m : forall k, (k < m)%nat -> nth k (repeat a m) d = a.
  Proof.
    induction m as [|m IH]; intros k Hk; [lia|]. destruct k as [|k]; [reflexivity|].
    cbn [repeat nth]. apply IH. lia.
  Qed.
  Lemma nth_ones i : forall m j, (j < i + Datatypes.S m)%nat ->
    nth j (repeat false i ++ true :: repeat true m) false = Nat.leb i j.
  Proof.
    induction i as [|i IH]; intros m j Hj.
    - cbn [repeat app Nat.leb]. destruct j as [|j]; [reflexivity|].
      cbn [nth]. apply nth_repeat_lt. cbn in Hj. lia.
    - destruct j as [|j]; [reflexivity|]. cbn [repeat app nth Nat.leb]. apply IH. cbn in Hj. lia.
  Qed.

  Lemma bxor_self (l : list bool) : bxor l l = repeat false (length l).
  Proof. induction l as [|b l IH]; [reflexivity|]. rewrite bxor_cons, IH, xorb_nilpotent. reflexivity. Qed.

  Lemma dot_x_zb n i j : (i < n)%nat -> (j < n)%nat ->
    dotb (par_x n i) (par_zb n j) = b2nat (Nat.leb i j).
  Proof.
    intros Hi Hj. unfold par_x, par_zb. cbn [app]. rewrite dotb_unit, nth_ones by lia. reflexivity.
  Qed.
  Lemma dot_x_za n i j : (i < n)%nat -> (j < n)%nat ->
    dotb (par_x n i) (par_za n j) = b2nat (Nat.ltb i j).
  Proof.
    intros Hi Hj. unfold par_x, par_za. destruct j as [|j].
    - cbn [Nat.eqb]. rewrite dotb_zeros_r. destruct i; reflexivity.
    - cbn [Nat.eqb app]. rewrite Nat.sub_succ, Nat.sub_0_r, dotb_unit, nth_ones by lia. reflexivity.
  Qed.

  (* ---------------------------------------------------------------- the 2L strings *)
  Definition parP (n i : nat) : pstr := {| pz := par_za n i; px := par_x n i; pq := 0 |}.
  Definition parQ (n i : nat) : pstr := {| pz := par_zb n i; px := par_x n i; pq := 0 |}.

  Lemma par_za_length n i : (i < n)%nat -> length (par_za n i) = n.
  Proof.
    intros Hi. unfold par_za. destruct i as [|i]; cbn [Nat.eqb].
    - apply repeat_length.
    - rewrite !app_length, !repeat_length. cbn [length]. lia.
  Qed.
  Lemma par_zb_length n i : (i < n)%nat -> length (par_zb n i) = n.
  Proof. intros Hi. unfold par_zb. rewrite !app_length, !repeat_length. cbn [length]. lia. Qed.
  Lemma par_x_length n i : (i < n)%nat -> length (par_x n i) = n.
  Proof. intros Hi. unfold par_x. rewrite !app_length, !repeat_length. cbn [length]. lia. Qed.

  Lemma parP_wf n i : (i < n)%nat -> wfp n (parP n i).
  Proof. intros Hi. split; [apply par_za_length|apply par_x_length]; assumption. Qed.
  Lemma parQ_wf n i : (i < n)%nat -> wfp n (parQ n i).
  Proof. intros Hi. split; [apply par_zb_length|apply par_x_length]; assumption. Qed.
  Lemma par_tab_wf kind n i : (i < n)%nat ->
    wfp n (fst (par_tab kind n i)) /\ wfp n (snd (par_tab kind n i)).
  Proof. intros Hi. split; [apply (parP_wf n i Hi)|apply (parQ_wf n i Hi)]. Qed.

  Lemma pmatrix_q z x q r c :
    pmatrix {| pz := z; px := x; pq := q |} r c
    = mipz q * pmatrix {| pz := z; px := x; pq := 0 |} r c :> K.
  Proof. unfold pmatrix. cbn [pz px pq]. rewrite !mipz_add, mipz_0. ring. Qed.

  Definition Pm (n i : nat) : BMx K := pmatrix (parP n i).
  Definition Qm (n i : nat) : BMx K := pmatrix (parQ n i).

  Lemma par_enc_annihil n (h : K) i :
    meq n (enc_lad par_tab h n (false, i)) (fun r c => h * Pm n i r c + (h * sI) * Qm n i r c).
  Proof.
    intros r c _ _. unfold enc_lad, par_tab, Pm, Qm, parP, parQ. cbn [fst snd].
    rewrite (pmatrix_q (par_zb n i)), mipz_3. ring.
  Qed.
  Lemma par_enc_create n (h : K) i :
    meq n (enc_lad par_tab h n (true, i)) (fun r c => h * Pm n i r c + (h * - sI) * Qm n i r c).
  Proof.
    intros r c _ _. unfold enc_lad, par_tab, Pm, Qm, parP, parQ. cbn [fst snd].
    rewrite (pmatrix_q (par_zb n i)), mipz_1. ring.
  Qed.

  (* ---------------------------------------------------------------- Pauli anticommutation *)
  Lemma panti n p p' r c : wfp n p -> wfp n p' -> length r = n -> length c = n ->
    Nat.odd (dotb (px p) (pz p') + dotb (px p') (pz p)) = true ->
    mmul n (pmatrix p) (pmatrix p') r c + mmul n (pmatrix p') (pmatrix p) r c = 0 :> K.
  Proof.
    intros W W' Hr Hc Ho. rewrite !(mmul_pmatrix n) by assumption.
    rewrite (bxor_comm (pz p')), (bxor_comm (px p')).
    assert (S : sgn (dotb (px p) (pz p')) = - sgn (dotb (px p') (pz p)) :> K).
    { unfold sgn. rewrite <- Nat.negb_even, Nat.even_add in Ho.
      destruct (Nat.even (dotb (px p) (pz p'))), (Nat.even (dotb (px p') (pz p)));
        try discriminate; ring. }
    rewrite S. ring.
  Qed.

  Lemma psq n p r c : wfp n p -> pq p = 0%Z -> length r = n -> length c = n ->
    mmul n (pmatrix p) (pmatrix p) r c = mid r c :> K.
  Proof.
    intros [Hz Hx] Hq Hr Hc. rewrite (mmul_pmatrix n) by (try split; assumption).
    rewrite !bxor_self, Hz, Hx, zx_mat_ident, Hq by assumption.
    rewrite Z.add_0_l, (dotb_comm (px p)).
    transitivity (mipz (dotz (pz p) (px p) + dotz (pz p) (px p)) * sgn (dotb (pz p) (px p)) * mid r c : K).
    { rewrite mipz_add. ring. }
    unfold dotz. replace (Z.of_nat (dotb (pz p) (px p)) + Z.of_nat (dotb (pz p) (px p)))%Z
      with (2 * Z.of_nat (dotb (pz p) (px p)))%Z by lia.
    rewrite mipz_2k, sgn_sq. ring.
  Qed.

  (** the Majorana relations of the 2L parity strings *)
  Lemma par_PP n i j r c : (i < n)%nat -> (j < n)%nat -> i <> j -> length r = n -> length c = n ->
    mmul n (Pm n i) (Pm n j) r c + mmul n (Pm n j) (Pm n i) r c = 0.
  Proof.
    intros Hi Hj Hne Hr Hc. apply panti; try assumption; try (apply parP_wf; assumption).
    cbn [parP px pz]. rewrite !dot_x_za by assumption.
    destruct (Nat.ltb_spec i j), (Nat.ltb_spec j i); try lia; reflexivity.
  Qed.
  Lemma par_QQ n i j r c : (i < n)%nat -> (j < n)%nat -> i <> j -> length r = n -> length c = n ->
    mmul n (Qm n i) (Qm n j) r c + mmul n (Qm n j) (Qm n i) r c = 0.
  Proof.
    intros Hi Hj Hne Hr Hc. apply panti; try assumption; try (apply parQ_wf; assumption).
    cbn [parQ px pz]. rewrite !dot_x_zb by assumption.
    destruct (Nat.leb_spec i j), (Nat.leb_spec j i); try lia; reflexivity.
  Qed.
  Lemma par_PQ n i j r c : (i < n)%nat -> (j < n)%nat -> length r = n -> length c = n ->
    mmul n (Pm n i) (Qm n j) r c + mmul n (Qm n j) (Pm n i) r c = 0.
  Proof.
    intros Hi Hj Hr Hc. apply panti; try assumption; try (apply parP_wf; assumption);
      try (apply parQ_wf; assumption).
    cbn [parP parQ px pz]. rewrite dot_x_zb, dot_x_za by assumption.
    destruct (Nat.leb_spec i j), (Nat.ltb_spec j i); try lia; reflexivity.
  Qed.
  Lemma par_PP_sq n i r c : (i < n)%nat -> length r = n -> length c = n ->
    mmul n (Pm n i) (Pm n i) r c = mid r c.
  Proof. intros Hi Hr Hc. apply psq; try assumption; [apply parP_wf; assumption|reflexivity]. Qed.
  Lemma par_QQ_sq n i r c : (i < n)%nat -> length r = n -> length c = n ->
    mmul n (Qm n i) (Qm n i) r c = mid r c.
  Proof. intros Hi Hr Hc. apply psq; try assumption; [apply parQ_wf; assumption|reflexivity]. Qed.

  Lemma mmul_lin22 n a1 a2 b1 b2 (A1 A2 B1 B2 : BMx K) r c :
    mmul n (fun r c => a1 * A1 r c + a2 * A2 r c) (fun r c => b1 * B1 r c + b2 * B2 r c) r c
    = a1 * b1 * mmul n A1 B1 r c + a1 * b2 * mmul n A1 B2 r c
      + a2 * b1 * mmul n A2 B1 r c + a2 * b2 * mmul n A2 B2 r c.
  Proof.
    unfold mmul. rewrite <- !bsum_scal, <- !bsum_add_fn. apply bsum_ext. intros k _. ring.
  Qed.

  Lemma add_zero_opp (a b : K) : a + b = 0 -> b = - a.
  Proof. intros H. transitivity (a + b - a); [ring|]. rewrite H. ring. Qed.

  (* ---------------------------------------------------------------- CAR *)
  Section WithHalf.
    Variable h : K.
    Hypothesis Hh : h + h = 1.
    Variable n : nat.
    Local Notation EL := (enc_lad par_tab h n).

    Lemma half_conj : h^* = h.
    Proof.
      assert (Hc : h^* + h^* = 1) by (rewrite <- (conj_add K L), Hh; apply (conj_1 K L)).
      transitivity (h^* * (h + h)); [rewrite Hh; ring|].
      transitivity (h * (h^* + h^*)); [ring|]. rewrite Hc. ring.
    Qed.

    (** {A_i, A_j^dagger} = delta_ij *)
    Theorem par_CAR_annihil_create i j : (i < n)%nat -> (j < n)%nat ->
      meq n (madd (mmul n (EL (false, i)) (EL (true, j))) (mmul n (EL (true, j)) (EL (false, i))))
            (delta_mat i j).
    Proof.
      intros Hi Hj. pose proof (I_sq K L) as I2.
      rewrite (par_enc_annihil n h i), (par_enc_create n h j).
      intros r c Hr Hc. unfold madd. rewrite !mmul_lin22. unfold delta_mat.
      destruct (Nat.eqb_spec i j) as [<-|Hne].
      - rewrite !par_PP_sq, !par_QQ_sq by assumption.
        rewrite (add_zero_opp _ _ (par_PQ n i i r c Hi Hi Hr Hc)).
        set (x := mmul n (Pm n i) (Qm n i) r c). set (m := mid r c).
        transitivity ((h + h) * (h + h) * m); [ring [I2]|]. rewrite Hh. ring.
      - rewrite (add_zero_opp _ _ (par_PP n i j r c Hi Hj Hne Hr Hc)).
        rewrite (add_zero_opp _ _ (par_QQ n i j r c Hi Hj Hne Hr Hc)).
        rewrite (add_zero_opp _ _ (par_PQ n i j r c Hi Hj Hr Hc)).
        rewrite (add_zero_opp _ _ (par_PQ n j i r c Hj Hi Hr Hc)).
        unfold mzero. ring [I2].
    Qed.

    (** {A_i, A_j} = 0 and {A_i^dagger, A_j^dagger} = 0 (also for i = j) *)
    Theorem par_CAR_same_kind kind i j : (i < n)%nat -> (j < n)%nat ->
      meq n (madd (mmul n (EL (kind, i)) (EL (kind, j))) (mmul n (EL (kind, j)) (EL (kind, i)))) mzero.
    Proof.
      intros Hi Hj. pose proof (I_sq K L) as I2.
      destruct kind;
        [rewrite (par_enc_create n h i), (par_enc_create n h j)
        |rewrite (par_enc_annihil n h i), (par_enc_annihil n h j)];
        intros r c Hr Hc; unfold madd; rewrite !mmul_lin22; unfold mzero;
        (destruct (Nat.eq_dec i j) as [<-|Hne];
         [ rewrite !par_PP_sq, !par_QQ_sq by assumption;
           rewrite (add_zero_opp _ _ (par_PQ n i i r c Hi Hi Hr Hc)); ring [I2]
         | rewrite (add_zero_opp _ _ (par_PP n i j r c Hi Hj Hne Hr Hc));
           rewrite (add_zero_opp _ _ (par_QQ n i j r c Hi Hj Hne Hr Hc));
           rewrite (add_zero_opp _ _ (par_PQ n i j r c Hi Hj Hr Hc));
           rewrite (add_zero_opp _ _ (par_PQ n j i r c Hj Hi Hr Hc)); ring [I2] ]).
    Qed.

    (** the creation operator is the adjoint of the annihilation operator *)
    Theorem par_enc_adj o : (snd o < n)%nat -> meq n (madj (EL o)) (EL (ifo_adj o)).
    Proof.
      intros Ho. destruct o as [kind i]. cbn [snd] in Ho. unfold ifo_adj. cbn [fst snd].
      pose proof (conj_I K L) as CI.
      assert (HP : forall r c, length r = n -> length c = n -> (Pm n i c r)^* = Pm n i r c).
      { intros r c Hr Hc. exact (pherm_sound n (parP n i) eq_refl r c Hr Hc). }
      assert (HQ : forall r c, length r = n -> length c = n -> (Qm n i c r)^* = Qm n i r c).
      { intros r c Hr Hc. exact (pherm_sound n (parQ n i) eq_refl r c Hr Hc). }
      destruct kind; cbn [negb];
        [rewrite (par_enc_create n h i), (par_enc_annihil n h i)
        |rewrite (par_enc_annihil n h i), (par_enc_create n h i)];
        intros r c Hr Hc; unfold madj;
        rewrite (conj_add K L), !(conj_mul K L), ?(conj_opp K L), CI, half_conj, HP, HQ by assumption; ring.
    Qed.

    (* ---------------------------------------------------------------- vacuum *)
    Lemma zx_mat_col0 (z : list bool) : forall m x r, length z = m -> length x = m -> length r = m ->
      zx_mat z x r (zeros m) = if beq r x then sgn (dotb z x) else 0 :> K.
    Proof.
      induction z as [|zb z IH]; intros m [|xb x] [|rb r] Hz Hx Hr; subst m; try discriminate.
      - reflexivity.
      - cbn in Hx, Hr. injection Hx as Hx. injection Hr as Hr.
        cbn [length zeros zx_mat beq dotb]. rewrite IH by congruence. rewrite sgn_add.
        unfold zx_entry. destruct zb, xb, rb, (beq r x); cbn; ring.
    Qed.

    (** A_i |0...0> = 0 *)
    Theorem par_vacuum i r : (i < n)%nat -> length r = n -> EL (false, i) r (zeros n) = 0.
    Proof.
      intros Hi Hr. unfold enc_lad, par_tab, pmatrix. cbn [fst snd pz px pq].
      rewrite !(zx_mat_col0 _ n) by (try apply par_za_length; try apply par_zb_length; try apply par_x_length; assumption).
      destruct (beq r (par_x n i)); [|ring].
      unfold dotz. rewrite (dotb_comm (par_za n i)), (dotb_comm (par_zb n i)).
      rewrite dot_x_za, dot_x_zb by assumption. rewrite Nat.ltb_irrefl, Nat.leb_refl.
      cbn [b2nat]. replace (mipz (3 + Z.of_nat 1)) with (1 : K) by reflexivity.
      replace (mipz (0 + Z.of_nat 0)) with (1 : K) by reflexivity. cbn. ring.
    Qed.

    (* ---------------------------------------------------------------- occupation number *)
    Definition parZZ (i : nat) : pstr :=
      {| pz := bxor (par_za n i) (par_zb n i); px := repeat false n; pq := 0 |}.

    Lemma par_PQ_string i : (i < n)%nat ->
      pmul (parP n i) (parQ n i)
      = {| pz := bxor (par_za n i) (par_zb n i); px := repeat false n; pq := 3 |}.
    Proof.
      intros Hi. unfold pmul, qprod, dotz, parP, parQ. cbn [pz px pq].
      rewrite !bxor_self, !par_x_length by assumption. f_equal.
      rewrite dotb_zeros_r.
      rewrite (dotb_comm (par_za n i)), (dotb_comm (par_zb n i)).
      rewrite dot_x_za, !dot_x_zb by assumption. rewrite Nat.ltb_irrefl, Nat.leb_refl. reflexivity.
    Qed.

    (** the string of the occupation number has Z exactly on sites i-1 and i *)
    Lemma nth_bxor (a : list bool) : forall b k, length a = length b ->
      nth k (bxor a b) false = xorb (nth k a false) (nth k b false).
    Proof.
      induction a as [|x a IH]; intros [|y b] k H; try discriminate; [destruct k; reflexivity|].
      cbn in H. injection H as H. rewrite bxor_cons. destruct k; [reflexivity|]. cbn [nth]. apply IH; assumption.
    Qed.
    Lemma nth_unit j : forall m k, nth k (repeat false j ++ true :: repeat false m) false = Nat.eqb k j.
    Proof.
      induction j as [|j IH]; intros m k.
      - destruct k as [|k]; [reflexivity|]. cbn [repeat app nth Nat.eqb].
        revert k. induction m as [|m IHm]; intros [|k]; try reflexivity. apply IHm.
      - destruct k as [|k]; [reflexivity|]. cbn [repeat app nth Nat.eqb]. apply IH.
    Qed.
    Lemma nth_zeros m : forall k, nth k (repeat false m) false = false.
    Proof. induction m as [|m IH]; intros [|k]; try reflexivity. apply IH. Qed.

    Lemma parZZ_nth i k : (i < n)%nat -> (k < n)%nat ->
      nth k (pz (parZZ i)) false = (Nat.eqb (Datatypes.S k) i || Nat.eqb k i).
    Proof.
      intros Hi Hk. cbn [parZZ pz].
      rewrite nth_bxor by (rewrite par_za_length, par_zb_length by assumption; reflexivity).
      unfold par_za, par_zb. cbn [app]. rewrite nth_unit.
      destruct i as [|i]; cbn [Nat.eqb].
      - rewrite nth_zeros. destruct (Nat.eqb k 0); reflexivity.
      - rewrite Nat.sub_succ, Nat.sub_0_r, nth_unit.
        destruct (Nat.eqb_spec k i), (Nat.eqb_spec k (Datatypes.S i)); try lia; reflexivity.
    Qed.

    (** A_i^dagger A_i = h (1 - Z_{i-1} Z_i)   (h (1 - Z_0) for i = 0) *)
    Theorem par_number i : (i < n)%nat ->
      meq n (mmul n (EL (true, i)) (EL (false, i)))
            (fun r c => h * (mid r c - pmatrix (parZZ i) r c)).
    Proof.
      intros Hi. pose proof (I_sq K L) as I2.
      rewrite (par_enc_annihil n h i), (par_enc_create n h i).
      intros r c Hr Hc. rewrite mmul_lin22.
      rewrite par_PP_sq, par_QQ_sq by assumption.
      rewrite (add_zero_opp _ _ (par_PQ n i i r c Hi Hi Hr Hc)).
      assert (E : mmul n (Pm n i) (Qm n i) r c = sI * pmatrix (parZZ i) r c).
      { unfold Pm, Qm.
        rewrite <- (pmul_matrix n _ _ (parP_wf n i Hi) (parQ_wf n i Hi) r c Hr Hc).
        rewrite par_PQ_string by assumption. unfold parZZ. rewrite pmatrix_q, mipz_3. reflexivity. }
      rewrite E. set (zz := pmatrix (parZZ i) r c). set (m := mid r c).
      transitivity ((h + h) * h * (m - zz)); [ring [I2]|]. rewrite Hh. ring.
    Qed.

    (** ... read entrywise: diagonal, entry [r_{i-1} xor r_i] - qubit i stores the parity of
        the occupations of sites 0..i *)
    Lemma zx_mat_diag (z : list bool) : forall m r c, length z = m -> length r = m -> length c = m ->
      zx_mat z (repeat false m) r c = if beq r c then sgn (dotb z r) else 0 :> K.
    Proof.
      induction z as [|zb z IH]; intros m [|rb r] [|cb c] Hz Hr Hc; subst m; try discriminate.
      - reflexivity.
      - cbn in Hr, Hc. injection Hr as Hr. injection Hc as Hc.
        cbn [length repeat zx_mat beq dotb]. rewrite IH by congruence. rewrite sgn_add.
        unfold zx_entry. destruct zb, rb, cb, (beq r c); cbn; ring.
    Qed.

    Lemma dotb_bxor_even (u : list bool) : forall v r, length u = length v ->
      Nat.even (dotb (bxor u v) r)
      = Bool.eqb (Nat.even (dotb u r)) (Nat.even (dotb v r)).
    Proof.
      induction u as [|a u IH]; intros [|b v] r H; try discriminate; [reflexivity|].
      cbn in H. injection H as H. destruct r as [|rb r]; [reflexivity|].
      rewrite bxor_cons. cbn [dotb]. rewrite !Nat.even_add, IH by assumption.
      destruct a, b, rb, (Nat.even (dotb u r)), (Nat.even (dotb v r)); reflexivity.
    Qed.

    Definition prev_bit (i : nat) (r : bits) : bool :=
      match i with O => false | Datatypes.S i' => nth i' r false end.

    Theorem par_number_entry i r c : (i < n)%nat -> length r = n -> length c = n ->
      h * (mid r c - pmatrix (parZZ i) r c)
      = if beq r c then (if xorb (prev_bit i r) (nth i r false) then 1 else 0) else 0.
    Proof.
      intros Hi Hr Hc. unfold pmatrix, parZZ. cbn [pz px pq].
      assert (Hl : length (bxor (par_za n i) (par_zb n i)) = n)
        by (apply bxor_len; [apply par_za_length|apply par_zb_length]; assumption).
      rewrite (zx_mat_diag _ n) by assumption.
      unfold dotz. rewrite dotb_zeros_r. replace (mipz (0 + Z.of_nat 0)) with (1 : K) by reflexivity.
      unfold mid. destruct (beq r c); [|ring].
      unfold sgn. rewrite dotb_bxor_even by (rewrite par_za_length, par_zb_length by assumption; reflexivity).
      assert (Eb : dotb (par_zb n i) r = b2nat (nth i r false)).
      { rewrite dotb_comm. unfold par_zb. cbn [app]. apply dotb_unit. }
      assert (Ea : dotb (par_za n i) r = b2nat (prev_bit i r)).
      { rewrite dotb_comm. unfold par_za. destruct i as [|i]; cbn [Nat.eqb prev_bit].
        - apply dotb_zeros_r.
        - cbn [app]. rewrite Nat.sub_succ, Nat.sub_0_r. apply dotb_unit. }
      rewrite Ea, Eb.
      destruct (prev_bit i r), (nth i r false); cbn [b2nat Nat.even Bool.eqb xorb].
      - ring.
      - transitivity (h + h); [ring|exact Hh].
      - transitivity (h + h); [ring|exact Hh].
      - ring.
    Qed.
  End WithHalf.
End Parity.
