(** The product expansion shared by the Jordan-Wigner and the parity encoder, for every table of
    two Pauli strings per ladder operator, and C11: with the Jordan-Wigner table the encoded
    operator has the matrix of the field operator. *)
From Qib Require Export Fermi.FermiTerms.

Section Enc.
  Context {K : Scalar} {L : ScalarLaws K}.
  Local Open Scope K_scope.
  Add Ring KringFE : (s_ring K L).

  (* ---------------------------------------------------------------- small Pauli facts *)
  Lemma mipz_1 : mipz 1 = - sI :> K. Proof. reflexivity. Qed.
  Lemma mipz_3 : mipz 3 = sI :> K. Proof. reflexivity. Qed.
  Lemma mipz_2 : mipz 2 = - (1) :> K. Proof. reflexivity. Qed.

  Lemma dotb_zeros_r (a : list bool) : forall m, dotb a (repeat false m) = 0%nat.
  Proof.
    induction a as [|x a IH]; intros [|m]; try reflexivity.
    cbn [repeat dotb]. rewrite IH, andb_false_r. reflexivity.
  Qed.
  Lemma dotb_zeros_l (a : list bool) m : dotb (repeat false m) a = 0%nat.
  Proof. rewrite dotb_comm. apply dotb_zeros_r. Qed.

  Lemma zx_mat_ident n : forall r c, length r = n -> length c = n ->
    zx_mat (repeat false n) (repeat false n) r c = mid r c :> K.
  Proof.
    induction n as [|n IH]; intros r c Hr Hc.
    - destruct r, c; try discriminate. reflexivity.
    - destruct r as [|rb r]; [discriminate|]. destruct c as [|cb c]; [discriminate|].
      injection Hr as Hr. injection Hc as Hc. cbn [repeat zx_mat]. rewrite IH by assumption.
      unfold mid, zx_entry. cbn [beq xorb andb].
      replace (xorb cb false) with cb by (destruct cb; reflexivity).
      destruct (Bool.eqb rb cb), (beq r c); cbn; ring.
  Qed.

  Lemma pident_wf n : wfp n (pident n).
  Proof. split; cbn; apply repeat_length. Qed.
  Lemma pident_matrix n : meq (K:=K) n (pmatrix (pident n)) mid.
  Proof.
    intros r c Hr Hc. unfold pmatrix, pident. cbn [pz px pq].
    unfold dotz. rewrite dotb_zeros_r, zx_mat_ident by assumption. cbn. ring.
  Qed.

  (* ---------------------------------------------------------------- sums of strings *)
  Definition psum (l : list pstr) : BMx K := fun r c => lsum (map (fun p => pmatrix p r c) l).
  Lemma psum_nil n : meq n (psum []) mzero.
  Proof. intros r c _ _. reflexivity. Qed.
  Lemma psum_cons n p l : meq n (psum (p :: l)) (madd (pmatrix p) (psum l)).
  Proof. intros r c _ _. reflexivity. Qed.
  Lemma psum_app n a b : meq n (psum (a ++ b)) (madd (psum a) (psum b)).
  Proof. intros r c _ _. unfold psum, madd. rewrite map_app, lsum_app. reflexivity. Qed.

  Definition good (n : nat) (p : pstr) : Prop := wfp n p /\ (0 <= pq p < 4)%Z.
  Lemma good_pident n : good n (pident n).
  Proof. split; [apply pident_wf|cbn; lia]. Qed.
  Lemma good_pmul n p a : good n p -> wfp n a -> good n (pmul p a).
  Proof.
    intros [W _] Wa. split; [apply pmul_wf; assumption|].
    cbn [pmul pq]. apply Z.mod_pos_bound. lia.
  Qed.

  Lemma psum_map_pmul n a l : wfp n a -> Forall (good n) l ->
    meq n (psum (map (fun ps => pmul ps a) l)) (mmul n (psum l) (pmatrix a)).
  Proof.
    intros Wa. induction l as [|p l IH]; intros Hl; cbn [map].
    - rewrite psum_nil, mmul_zero_l. reflexivity.
    - inversion Hl as [|? ? [Wp _] Hl']; subst.
      rewrite !psum_cons, mmul_madd_l, IH by assumption.
      rewrite (pmul_matrix n p a Wp Wa). reflexivity.
  Qed.

  Lemma expand_step_good n two l : wfp n (fst two) -> wfp n (snd two) -> Forall (good n) l ->
    Forall (good n) (expand_step two l).
  Proof.
    intros Wa Wb Hl. unfold expand_step. apply Forall_app. split; apply Forall_map;
      (eapply Forall_impl; [|exact Hl]); intros p Hp; apply good_pmul; assumption.
  Qed.
  Lemma expand_step_psum n two l : wfp n (fst two) -> wfp n (snd two) -> Forall (good n) l ->
    meq n (psum (expand_step two l)) (mmul n (psum l) (madd (pmatrix (fst two)) (pmatrix (snd two)))).
  Proof.
    intros Wa Wb Hl. unfold expand_step.
    rewrite psum_app, !psum_map_pmul, mmul_madd_r by assumption. reflexivity.
  Qed.

  (** k operators expand into 2^k strings *)
  Lemma expand_length (tab : ltab) n ops : length (expand tab n ops) = (2 ^ length ops)%nat.
  Proof.
    unfold expand.
    assert (G : forall (acc : list pstr),
               length (fold_left (fun acc o => expand_step (tab (fst o) n (snd o)) acc) ops acc)
               = (2 ^ length ops * length acc)%nat).
    { induction ops as [|o ops IH]; intros acc; cbn [fold_left length]; [cbn; lia|].
      rewrite IH. unfold expand_step. rewrite app_length, !map_length. cbn [Nat.pow]. lia. }
    rewrite G. cbn. lia.
  Qed.

  (* ---------------------------------------------------------------- generic encoder *)
  Section Generic.
    Variable P : encparams K.
    Variable n : nat.
    Variable h : K.
    Variables isz negl : K -> bool.
    Hypothesis Htab : forall kind i, (i < n)%nat ->
      wfp n (fst (ep_tab P kind n i)) /\ wfp n (snd (ep_tab P kind n i)).
    Hypothesis Hweight : forall k c, ep_weight P k c = spow h k * c.
    Hypothesis Hisz : forall c, isz c = true -> c = 0.

    Local Notation tab := (ep_tab P).
    (** the two strings of one ladder operator, added *)
    Definition lad2 (o : ifo) : BMx K :=
      madd (pmatrix (fst (tab (fst o) n (snd o)))) (pmatrix (snd (tab (fst o) n (snd o)))).
    Let EL := enc_lad tab h n.

    Lemma enc_lad_lad2 o : meq n (EL o) (mscal h (lad2 o)).
    Proof. intros r c _ _. reflexivity. Qed.

    Definition valid_ops (ops : list ifo) : Prop := Forall (fun o => (snd o < n)%nat) ops.

    Lemma valid_ops_combine pat idx : Forall (fun j => (j < n)%nat) idx -> valid_ops (combine pat idx).
    Proof.
      revert idx; induction pat as [|p pat IH]; intros [|j idx] H; cbn [combine]; try constructor.
      - inversion H; subst. assumption.
      - inversion H; subst. apply IH. assumption.
    Qed.

    Lemma expand_fold ops : forall acc, valid_ops ops -> Forall (good n) acc ->
      Forall (good n) (fold_left (fun acc o => expand_step (tab (fst o) n (snd o)) acc) ops acc) /\
      meq n (psum (fold_left (fun acc o => expand_step (tab (fst o) n (snd o)) acc) ops acc))
            (oprod_from n lad2 (psum acc) ops).
    Proof.
      induction ops as [|o ops IH]; intros acc Hv Hacc; cbn [fold_left oprod_from].
      - split; [assumption|reflexivity].
      - inversion Hv as [|? ? Ho Hv']; subst.
        destruct (Htab (fst o) (snd o) Ho) as [Wa Wb].
        destruct (IH (expand_step (tab (fst o) n (snd o)) acc) Hv'
                     (expand_step_good n _ acc Wa Wb Hacc)) as [G E].
        split; [exact G|]. rewrite E.
        rewrite (expand_step_psum n _ acc Wa Wb Hacc). reflexivity.
    Qed.

    Lemma expand_good ops : valid_ops ops -> Forall (good n) (expand tab n ops).
    Proof.
      intros Hv. apply expand_fold; [assumption|]. constructor; [apply good_pident|constructor].
    Qed.
    (** the 2^k strings of one coefficient add up to the ordered product of the 2x ladder sums *)
    Lemma expand_psum ops : valid_ops ops -> meq n (psum (expand tab n ops)) (oprod n lad2 ops).
    Proof.
      intros Hv. unfold expand.
      rewrite (proj2 (expand_fold ops [pident n] Hv
                        ltac:(constructor; [apply good_pident|constructor]))).
      rewrite psum_cons, psum_nil, madd_zero_r, pident_matrix. apply oprod_from_mid.
    Qed.

    Lemma add_signed_matrix (w : K) (acc : list (wstr (K:=K))) ps r c : (0 <= pq ps < 4)%Z ->
      opmatrix (add_signed w acc ps) r c = opmatrix acc r c + w * pmatrix ps r c.
    Proof.
      intros Hq. unfold add_signed. rewrite add_pauli_string_matrix. unfold wmatrix. cbn [fst snd].
      destruct (refactor_sign_ok (K:=K) ps r c Hq) as [E _]. rewrite <- E. ring.
    Qed.
    Lemma fold_add_signed (w : K) l : forall (acc : list (wstr (K:=K))) r c, Forall (good n) l ->
      opmatrix (fold_left (add_signed w) l acc) r c = opmatrix acc r c + w * psum l r c.
    Proof.
      induction l as [|p l IH]; intros acc r c Hl; cbn [fold_left].
      - unfold psum. cbn. ring.
      - inversion Hl as [|? ? [_ Hq] Hl']; subst.
        rewrite IH, add_signed_matrix by assumption. unfold psum. cbn [map]. rewrite lsum_cons. ring.
    Qed.

    (** one coefficient: coeff * (ordered product of the encoded ladder operators) is added *)
    Lemma enc_coeff_matrix pat acc idx coeff r c :
      length idx = length pat -> Forall (fun j => (j < n)%nat) idx -> length r = n -> length c = n ->
      opmatrix (enc_coeff P n pat acc idx coeff) r c
      = opmatrix acc r c + coeff * oprod n EL (combine pat idx) r c.
    Proof.
      intros Hl Hv Hr Hc. unfold enc_coeff.
      pose proof (valid_ops_combine pat idx Hv) as Hops.
      rewrite fold_add_signed by (apply expand_good; assumption).
      rewrite (expand_psum _ Hops r c Hr Hc), Hweight. f_equal.
      rewrite (oprod_ext n EL (fun o => mscal h (lad2 o)) _ (fun o _ => enc_lad_lad2 o) r c Hr Hc).
      rewrite (oprod_scal n h lad2 _ r c Hr Hc). unfold mscal.
      unfold ifo. rewrite combine_length, Hl, Nat.min_id. ring.
    Qed.

    Let TM := term_matrix_gen (oprod_from n EL mid) n.
    Let OM := op_matrix_gen (oprod_from n EL mid) n.

    Lemma enc_term_fold t l : forall acc r c, length r = n -> length c = n ->
      (forall idx, In idx l -> valid_idx n (length (tpat t)) idx) ->
      opmatrix (fold_left (fun acc idx => if isz (tcf t idx) then acc
                                          else enc_coeff P n (tpat t) acc idx (tcf t idx)) l acc) r c
      = opmatrix acc r c
        + lsum (map (fun idx => tcf t idx * oprod n EL (combine (tpat t) idx) r c) l).
    Proof.
      induction l as [|idx l IH]; intros acc r c Hr Hc Hv; cbn [fold_left map].
      - rewrite lsum_nil. ring.
      - rewrite IH by (try assumption; intros; apply Hv; right; assumption).
        rewrite lsum_cons. destruct (Hv idx (or_introl eq_refl)) as [Hl Hf].
        destruct (isz (tcf t idx)) eqn:E.
        + apply Hisz in E. rewrite E. ring.
        + rewrite enc_coeff_matrix by assumption. ring.
    Qed.

    Lemma enc_term_matrix acc t r c : length r = n -> length c = n ->
      opmatrix (enc_term P isz n acc t) r c = opmatrix acc r c + TM t r c.
    Proof.
      intros Hr Hc. unfold enc_term.
      rewrite enc_term_fold by (try assumption; intros; apply all_idx_valid; assumption).
      f_equal. unfold TM. rewrite (TM_oprod n EL t r c Hr Hc). symmetry. apply isum_all_idx.
    Qed.

    Lemma enc_raw_fold op : forall acc r c, length r = n -> length c = n ->
      opmatrix (fold_left (enc_term P isz n) op acc) r c = opmatrix acc r c + OM op r c.
    Proof.
      induction op as [|t op IH]; intros acc r c Hr Hc; cbn [fold_left].
      - unfold OM, op_matrix_gen. cbn. ring.
      - rewrite IH, enc_term_matrix by assumption. unfold OM, op_matrix_gen. cbn [fold_right].
        fold (op_matrix_gen (oprod_from n EL mid) n op r c). unfold TM. ring.
    Qed.

    Lemma enc_raw_matrix op : meq n (opmatrix (enc_raw P isz n op)) (OM op).
    Proof.
      intros r c Hr Hc. unfold enc_raw. rewrite enc_raw_fold by assumption.
      rewrite opmatrix_nil. ring.
    Qed.

    Lemma enc_dim_matrix raw r c : opmatrix (enc_dim P n raw) r c = opmatrix raw r c.
    Proof.
      unfold enc_dim. destruct raw as [|w raw]; [|reflexivity].
      destruct (ep_keepdim P); [|reflexivity].
      unfold opmatrix. cbn [fold_right]. unfold wmatrix. cbn [fst snd]. ring.
    Qed.

    (** what remove_zero_weight_strings drops *)
    Lemma rzws_split ng rop : forall len r c,
      opmatrix (rzws_aux ng rop len) r c + opmatrix (rzws_dropped ng rop len) r c
      = opmatrix (K:=K) rop r c.
    Proof.
      induction rop as [|w rop IH]; intros len r c; cbn [rzws_aux rzws_dropped].
      - rewrite !opmatrix_nil. ring.
      - destruct (ng (snd w) && Nat.ltb 1 len);
          [rewrite !opmatrix_cons, <- (IH (len - 1)%nat r c)|rewrite !opmatrix_cons, <- (IH len r c)]; ring.
    Qed.
    Lemma rzws_dropped_negl ng (rop : list (wstr (K:=K))) : forall len,
      Forall (fun w => ng (snd w) = true) (rzws_dropped ng rop len).
    Proof.
      induction rop as [|w rop IH]; intros len; cbn [rzws_dropped]; [constructor|].
      destruct (ng (snd w) && Nat.ltb 1 len) eqn:E; [|apply IH].
      apply andb_true_iff in E. constructor; [apply E|apply IH].
    Qed.

    (** Main theorem, arbitrary pruning predicate: the encoded operator plus the strings that
        were pruned (all of them with negligible weight) is the coefficient-weighted sum of
        ordered products of the encoded ladder operators. *)
    Theorem encode_matrix_pruned op :
      meq n (madd (opmatrix (encode P isz negl n op))
                  (opmatrix (dropped_strings negl (enc_dim P n (enc_raw P isz n op)))))
            (OM op)
      /\ Forall (fun w => negl (snd w) = true)
                (dropped_strings negl (enc_dim P n (enc_raw P isz n op))).
    Proof.
      split; [|apply rzws_dropped_negl].
      intros r c Hr Hc. unfold madd, encode, dropped_strings, remove_zero_weight_strings.
      rewrite opmatrix_rev, rzws_split, opmatrix_rev, enc_dim_matrix.
      apply enc_raw_matrix; assumption.
    Qed.

    (** ... and when only exact zeros are pruned the matrices are equal *)
    Theorem encode_matrix_exact op : (forall w, negl w = true -> w = 0) ->
      meq n (opmatrix (encode P isz negl n op)) (OM op).
    Proof.
      intros Hn r c Hr Hc. unfold encode.
      rewrite (remove_zero_weight_strings_matrix negl Hn), enc_dim_matrix.
      apply enc_raw_matrix; assumption.
    Qed.
  End Generic.

  (* ---------------------------------------------------------------- Jordan-Wigner table *)
  Lemma letters_zstring m : forall r c, length r = m -> length c = m ->
    letters_mat (repeat true m) (repeat false m) r c = zstring m r c :> K.
  Proof.
    induction m as [|m IH]; intros r c Hr Hc.
    - destruct r, c; try discriminate. reflexivity.
    - destruct r as [|rb r]; [discriminate|]. destruct c as [|cb c]; [discriminate|].
      injection Hr as Hr. injection Hc as Hc.
      cbn [repeat letters_mat zstring cons_mat]. rewrite IH by assumption. reflexivity.
  Qed.

  Lemma jw_strings_create i : forall m r c, length r = (i + Datatypes.S m)%nat -> length c = (i + Datatypes.S m)%nat ->
    letters_mat (repeat false i ++ false :: repeat true m) (repeat false i ++ true :: repeat false m) r c
    + mipz 1 * letters_mat (repeat false i ++ true :: repeat true m) (repeat false i ++ true :: repeat false m) r c
    = cmat (i + Datatypes.S m) i r c + cmat (i + Datatypes.S m) i r c :> K.
  Proof.
    pose proof (I_sq K L) as I2.
    induction i as [|i IH]; intros m r c Hr Hc;
      (destruct r as [|rb r]; [discriminate|]); (destruct c as [|cb c]; [discriminate|]);
      injection Hr as Hr; injection Hc as Hc.
    - cbn [Nat.add repeat app letters_mat cmat cons_mat]. rewrite !letters_zstring by assumption.
      rewrite mipz_1. unfold letter_entry, sU2. destruct rb, cb; cbn; ring [I2].
    - cbn [Nat.add repeat app letters_mat cmat cons_mat].
      transitivity (sI2 rb cb * (cmat (i + Datatypes.S m) i r c + cmat (i + Datatypes.S m) i r c) : K); [|ring].
      rewrite <- (IH m r c Hr Hc). unfold letter_entry, sI2. destruct (Bool.eqb rb cb); ring.
  Qed.
  Lemma jw_strings_annihil i : forall m r c, length r = (i + Datatypes.S m)%nat -> length c = (i + Datatypes.S m)%nat ->
    letters_mat (repeat false i ++ false :: repeat true m) (repeat false i ++ true :: repeat false m) r c
    + mipz 3 * letters_mat (repeat false i ++ true :: repeat true m) (repeat false i ++ true :: repeat false m) r c
    = amat (i + Datatypes.S m) i r c + amat (i + Datatypes.S m) i r c :> K.
  Proof.
    pose proof (I_sq K L) as I2.
    induction i as [|i IH]; intros m r c Hr Hc;
      (destruct r as [|rb r]; [discriminate|]); (destruct c as [|cb c]; [discriminate|]);
      injection Hr as Hr; injection Hc as Hc.
    - cbn [Nat.add repeat app letters_mat amat cons_mat]. rewrite !letters_zstring by assumption.
      rewrite mipz_3. unfold letter_entry, sD2. destruct rb, cb; cbn; ring [I2].
    - cbn [Nat.add repeat app letters_mat amat cons_mat].
      transitivity (sI2 rb cb * (amat (i + Datatypes.S m) i r c + amat (i + Datatypes.S m) i r c) : K); [|ring].
      rewrite <- (IH m r c Hr Hc). unfold letter_entry, sI2. destruct (Bool.eqb rb cb); ring.
  Qed.

  Lemma site_split n i : (i < n)%nat -> n = (i + Datatypes.S (n - i - 1))%nat.
  Proof. lia. Qed.

  Lemma jw_tab_wf kind n i : (i < n)%nat ->
    wfp n (fst (jw_tab kind n i)) /\ wfp n (snd (jw_tab kind n i)).
  Proof.
    intros Hi. unfold jw_tab, wfp, jw_za, jw_zb, jw_x. cbn [fst snd pz px].
    rewrite !app_length, !repeat_length. cbn [length]. lia.
  Qed.

  (** first string + second string = 2 x the reference ladder matrix, for every L and site *)
  Theorem jw_two_strings kind n i : (i < n)%nat ->
    meq (K:=K) n (madd (pmatrix (fst (jw_tab kind n i))) (pmatrix (snd (jw_tab kind n i))))
                 (madd (lad n (kind, i)) (lad n (kind, i))).
  Proof.
    intros Hi r c Hr Hc. unfold madd. rewrite !pmatrix_kron.
    unfold jw_tab, jw_za, jw_zb, jw_x. cbn [fst snd pz px pq].
    set (m := (n - i - 1)%nat). cbn [app].
    rewrite mipz_0.
    rewrite (site_split n i Hi) in Hr, Hc. fold m in Hr, Hc.
    destruct kind.
    - rewrite (lad_create n i r c) by (rewrite (site_split n i Hi); assumption).
      rewrite (site_split n i Hi) at 1 2. fold m.
      rewrite <- (jw_strings_create i m r c Hr Hc). ring.
    - rewrite (lad_annihil n i r c) by (rewrite (site_split n i Hi); assumption).
      rewrite (site_split n i Hi) at 1 2. fold m.
      rewrite <- (jw_strings_annihil i m r c Hr Hc). ring.
  Qed.

  (** with a half element, the encoded Jordan-Wigner ladder operator IS the reference one *)
  Theorem jw_enc_lad (h : K) n o : h + h = 1 -> (snd o < n)%nat ->
    meq n (enc_lad jw_tab h n o) (lad n o).
  Proof.
    intros Hh Ho r c Hr Hc. unfold enc_lad.
    pose proof (jw_two_strings (fst o) n (snd o) Ho r c Hr Hc) as E. unfold madd in E.
    rewrite E. destruct o as [kind i]. cbn [fst snd].
    transitivity ((h + h) * lad n (kind, i) r c); [ring|]. rewrite Hh. ring.
  Qed.

  (** C11 core: the Jordan-Wigner encoded operator has the matrix of the field operator *)
  Section JW.
    Variable P : encparams K.
    Variable n : nat.
    Variable h : K.
    Variables isz negl : K -> bool.
    Hypothesis Hh : h + h = 1.
    Hypothesis Htab : forall kind i, (i < n)%nat -> ep_tab P kind n i = jw_tab kind n i.
    Hypothesis Hweight : forall k c, ep_weight P k c = spow h k * c.
    Hypothesis Hisz : forall c, isz c = true -> c = 0.

    Lemma jw_OM op :
      meq n (op_matrix_gen (oprod_from n (enc_lad (ep_tab P) h n) mid) n op) (op_matrix n op).
    Proof.
      apply op_matrix_gen_ext. intros t _. apply term_matrix_gen_ext. intros idx [_ Hv].
      rewrite !oprod_from_mid. apply oprod_ext. intros o Ho.
      assert (Hs : (snd o < n)%nat).
      { pose proof (valid_ops_combine n (tpat t) idx Hv) as F. unfold valid_ops in F.
        rewrite Forall_forall in F. apply F. exact Ho. }
      rewrite <- (jw_enc_lad h n o Hh Hs). intros r c _ _. unfold enc_lad. rewrite !(Htab (fst o) (snd o) Hs). reflexivity.
    Qed.

    Lemma jw_Htab : forall kind i, (i < n)%nat ->
      wfp n (fst (ep_tab P kind n i)) /\ wfp n (snd (ep_tab P kind n i)).
    Proof. intros kind i Hi. rewrite (Htab kind i Hi). apply jw_tab_wf; assumption. Qed.

    Theorem jw_encode_pruned op :
      meq n (madd (opmatrix (encode P isz negl n op))
                  (opmatrix (dropped_strings negl (enc_dim P n (enc_raw P isz n op)))))
            (op_matrix n op)
      /\ Forall (fun w => negl (snd w) = true)
                (dropped_strings negl (enc_dim P n (enc_raw P isz n op))).
    Proof.
      destruct (encode_matrix_pruned P n h isz negl jw_Htab Hweight Hisz op) as [E F].
      split; [|exact F]. rewrite E. apply jw_OM.
    Qed.
    Theorem jw_encode_exact op : (forall w, negl w = true -> w = 0) ->
      meq n (opmatrix (encode P isz negl n op)) (op_matrix n op).
    Proof.
      intros Hn. rewrite (encode_matrix_exact P n h isz negl jw_Htab Hweight Hisz op Hn).
      apply jw_OM.
    Qed.
  End JW.
End Enc.
