(** Proofs about the factor word of EigenvalueTransformation (every sequence length) and
    about matrices that preserve the auxiliary-|0> block. *)
From Qib Require Export Qubitization.QubitProofs.
Local Open Scope Z_scope.

(* ------------------------------------------------------------------ the defining word *)
Lemma alt_word_plus2 len : 0 <= len ->
  alt_word (len + 2) = alt_word len ++ [LP len; LU true; LP (len + 1); LU false].
Proof.
  intros H. unfold alt_word.
  assert (E : zrange 0 (len + 2) = zrange 0 len ++ [len; len + 1]).
  { replace (len + 2) with (len + 1 + 1) by lia.
    rewrite (zrange_snoc 0 (len + 1)), (zrange_snoc 0 len) by lia.
    rewrite <- app_assoc. reflexivity. }
  rewrite E. rewrite !flat_map_app. cbn [flat_map app].
  f_equal.
  - apply flat_map_ext. intros k.
    replace (len + 2 - 1 - k) with (len - 1 - k + 2 * 1) by lia. rewrite Z.odd_add_mul_2. reflexivity.
  - replace (len + 2 - 1 - len) with 1 by lia. replace (len + 2 - 1 - (len + 1)) with 0 by lia.
    reflexivity.
Qed.

Lemma even_mod2 len : Z.even len = (len mod 2 =? 0).
Proof.
  rewrite Zmod_even. destruct (Z.even len); reflexivity.
Qed.

Definition pair_body (st i : Z) : list letter :=
  [LP (2 * i - st); LU true; LP (2 * i + 1 - st); LU false].

(** even length 2d: pairs i = 0 .. d-1 *)
Lemma even_word (d : nat) :
  flat_map (pair_body 0) (zrange 0 (Z.of_nat d)) = alt_word (2 * Z.of_nat d).
Proof.
  induction d as [|d IH]; [reflexivity|].
  replace (Z.of_nat (Datatypes.S d)) with (Z.of_nat d + 1) by lia.
  rewrite zrange_snoc by lia. rewrite flat_map_app, IH.
  replace (2 * (Z.of_nat d + 1)) with (2 * Z.of_nat d + 2) by lia.
  rewrite alt_word_plus2 by lia. f_equal. cbn [flat_map app]. unfold pair_body. rewrite app_nil_r.
  repeat (f_equal; try lia).
Qed.

(** odd length 2d+1: P(th_0) U, then pairs i = 1 .. d *)
Lemma odd_word (d : nat) :
  [LP 0; LU false] ++ flat_map (pair_body 1) (zrange 1 (Z.of_nat d + 1))
  = alt_word (2 * Z.of_nat d + 1).
Proof.
  induction d as [|d IH]; [reflexivity|].
  replace (Z.of_nat (Datatypes.S d)) with (Z.of_nat d + 1) by lia.
  rewrite zrange_snoc by lia. rewrite flat_map_app, app_assoc, IH.
  replace (2 * (Z.of_nat d + 1) + 1) with (2 * Z.of_nat d + 1 + 2) by lia.
  rewrite alt_word_plus2 by lia. f_equal. cbn [flat_map app]. unfold pair_body. rewrite app_nil_r.
  repeat (f_equal; try lia).
Qed.

(** what has to be true of the definitions regenerated from the (repaired) source *)
Definition evt_src_ok (s : evt_src) : Prop :=
  (forall len, 0 <= len -> ev_even s len = Z.even len) /\
  (forall len, 0 <= len -> Z.even len = true -> 2 * ev_dim_even s len = len) /\
  ev_start_even s = 0 /\ ev_prefix_even s = [] /\
  (forall len, 0 <= len -> Z.even len = false -> 2 * ev_dim_odd s len + 1 = len) /\
  ev_start_odd s = 1 /\ ev_prefix_odd s = [LP 0; LU false] /\
  (forall st d, ev_lo s st d = st) /\ (forall st d, ev_hi s st d = d + st) /\
  (forall i st, ev_body s i st = pair_body st i).

Theorem evt_ops_alt s len : evt_src_ok s -> 0 <= len -> evt_ops s len = alt_word len.
Proof.
  intros (He & Hde & Hse & Hpe & Hdo & Hso & Hpo & Hlo & Hhi & Hb) Hlen.
  unfold evt_ops. rewrite He by assumption. rewrite Hlo, Hhi.
  destruct (Z.even len) eqn:E.
  - specialize (Hde len Hlen E). rewrite Hse, Hpe. cbn [app].
    set (d := ev_dim_even s len) in *.
    rewrite (flat_map_ext _ (pair_body 0)) by (intros; apply Hb).
    replace (d + 0) with (Z.of_nat (Z.to_nat d)) by lia. rewrite even_word. f_equal. lia.
  - specialize (Hdo len Hlen E). rewrite Hso, Hpo.
    set (d := ev_dim_odd s len) in *.
    rewrite (flat_map_ext _ (pair_body 1)) by (intros; apply Hb).
    replace (d + 1) with (Z.of_nat (Z.to_nat d) + 1) by lia. rewrite odd_word. f_equal. lia.
Qed.

(** prepending every factor and reading the gate list back to front gives the same word *)
Lemma fold_prepend (ops acc : list letter) :
  fold_left (fun a l => l :: a) ops acc = rev ops ++ acc.
Proof.
  revert acc. induction ops as [|l ops IH]; intros acc; [reflexivity|].
  cbn [fold_left rev]. rewrite IH, <- app_assoc. reflexivity.
Qed.

Theorem circ_gates_word s len : gates_word (evt_circ_gates s len) = evt_ops s len.
Proof.
  unfold gates_word, evt_circ_gates. rewrite fold_prepend, app_nil_r. apply rev_involutive.
Qed.

(** every angle is used exactly once, in order; the encoding is applied len times *)
Definition angles (w : list letter) : list Z :=
  flat_map (fun l => match l with LP k => [k] | LU _ => [] end) w.
Definition encodings (w : list letter) : list bool :=
  flat_map (fun l => match l with LP _ => [] | LU i => [i] end) w.

Lemma angles_alt len : angles (alt_word len) = zrange 0 len.
Proof.
  unfold alt_word, angles. induction (zrange 0 len) as [|k l IH]; [reflexivity|].
  cbn [flat_map app]. rewrite IH. reflexivity.
Qed.

Lemma encodings_alt len : encodings (alt_word len) = map (fun k => Z.odd (len - 1 - k)) (zrange 0 len).
Proof.
  unfold alt_word, encodings. induction (zrange 0 len) as [|k l IH]; [reflexivity|].
  cbn [flat_map app map]. rewrite IH. reflexivity.
Qed.

Lemma zrange_length lo hi : length (zrange lo hi) = Z.to_nat (hi - lo).
Proof. unfold zrange. rewrite map_length, seq_length. reflexivity. Qed.

Lemma encodings_count len : length (encodings (alt_word len)) = Z.to_nat len.
Proof. rewrite encodings_alt, map_length, zrange_length. f_equal. lia. Qed.

(** the unrepaired loop bound drops the last pair of every odd length >= 3 *)
Theorem unrepaired_odd (d : nat) :
  evt_ops evt_src_unrepaired (2 * Z.of_nat (Datatypes.S d) + 1) = alt_word (2 * Z.of_nat d + 1).
Proof.
  unfold evt_ops. cbn [evt_src_unrepaired ev_even ev_dim_even ev_dim_odd ev_start_even ev_start_odd
    ev_prefix_even ev_prefix_odd ev_lo ev_hi ev_body].
  replace ((2 * Z.of_nat (Datatypes.S d) + 1) mod 2 =? 0) with false
    by (symmetry; apply Z.eqb_neq; rewrite Z.add_comm, Z.mul_comm, Z.mod_add by lia; discriminate).
  replace ((2 * Z.of_nat (Datatypes.S d) + 1 - 1) / 2) with (Z.of_nat d + 1)
    by (replace (2 * Z.of_nat (Datatypes.S d) + 1 - 1) with ((Z.of_nat d + 1) * 2) by lia;
        rewrite Z.div_mul by lia; reflexivity).
  rewrite <- odd_word. reflexivity.
Qed.

Theorem unrepaired_even len : 0 <= len -> Z.even len = true ->
  evt_ops evt_src_unrepaired len = alt_word len.
Proof.
  intros Hlen E. unfold evt_ops. cbn [evt_src_unrepaired ev_even ev_dim_even ev_dim_odd ev_start_even
    ev_start_odd ev_prefix_even ev_prefix_odd ev_lo ev_hi ev_body].
  apply Z.even_spec in E. destruct E as [d ->].
  replace (2 * d mod 2 =? 0) with true
    by (symmetry; apply Z.eqb_eq; rewrite Z.mul_comm, Z.mod_mul by lia; reflexivity).
  rewrite (Z.mul_comm 2 d), Z.div_mul by lia. cbn [app].
  transitivity (flat_map (pair_body 0) (zrange 0 (Z.of_nat (Z.to_nat d)))).
  { replace (Z.of_nat (Z.to_nat d)) with d by lia. reflexivity. }
  rewrite (even_word (Z.to_nat d)). f_equal. lia.
Qed.

(* ------------------------------------------------------------------ matrices: the auxiliary-|0> block *)
Section Block.
  Context {K : Scalar} {L : ScalarLaws K}.
  Local Open Scope K_scope.
  Add Ring KringEvt : (s_ring K L).

  (** A (on 1+m wires, wire 0 = auxiliary qubit) maps |0>|c> to |0> (M |c>) *)
  Definition blk0 (m : nat) (A M : BMx K) : Prop :=
    forall r c, length r = m -> length c = m ->
      A (false :: r) (false :: c) = M r c /\ A (true :: r) (false :: c) = 0.

  Lemma blk0_mid m : blk0 m mid mid.
  Proof. intros r c _ _. unfold mid. cbn [beq Bool.eqb andb]. split; reflexivity. Qed.

  Lemma blk0_mmul m A B M N : blk0 m A M -> blk0 m B N ->
    blk0 m (mmul (Datatypes.S m) A B) (mmul m M N).
  Proof.
    intros HA HB r c Hr Hc. unfold mmul. rewrite !bsum_S. cbv beta. split.
    - transitivity (bsum m (fun k => M r k * N k c) + bsum m (fun k => 0)).
      + f_equal; apply bsum_ext; intros k Hk.
        * rewrite (proj1 (HA r k Hr Hk)), (proj1 (HB k c Hk Hc)). reflexivity.
        * rewrite (proj2 (HB k c Hk Hc)). ring.
      + rewrite (bsum_zero m (fun _ => 0)) by reflexivity. ring.
    - transitivity ((bsum m (fun k => 0) + bsum m (fun k => 0)) : K).
      + f_equal; apply bsum_ext; intros k Hk.
        * rewrite (proj2 (HA r k Hr Hk)). ring.
        * rewrite (proj2 (HB k c Hk Hc)). ring.
      + rewrite (bsum_zero m (fun _ => 0)) by reflexivity. ring.
  Qed.

  Lemma blk0_meq m A M M' : blk0 m A M -> meq m M M' -> blk0 m A M'.
  Proof. intros H E r c Hr Hc. destruct (H r c Hr Hc) as [H1 H2]. rewrite <- E by assumption. auto. Qed.

  (** a gate that does not touch the auxiliary wire *)
  Lemma blk0_kron_id m (U : BMx K) : blk0 m (kron 1 mid U) U.
  Proof.
    intros r c _ _. unfold kron, mid. cbn [firstn skipn beq Bool.eqb andb]. split; ring.
  Qed.

  (** a gate on (auxiliary, encoding register) extended by the identity on w system wires *)
  Lemma blk0_kron_r n w (A M : BMx K) : blk0 n A M ->
    blk0 (n + w) (kron (Datatypes.S n) A mid) (kron n M mid).
  Proof.
    intros H r c Hr Hc. unfold kron. cbn [firstn skipn].
    destruct (split_bits n w r Hr) as [Hr1 _]. destruct (split_bits n w c Hc) as [Hc1 _].
    destruct (H (firstn n r) (firstn n c) Hr1 Hc1) as [H1 H2]. rewrite H1, H2. split; ring.
  Qed.

  Theorem word_blk0 m (Pc Pm : Z -> BMx K) (Uc Uic Um Uim : BMx K) :
    (forall k, blk0 m (Pc k) (Pm k)) -> blk0 m Uc Um -> blk0 m Uic Uim ->
    forall w, blk0 m (word_mx (Datatypes.S m) Pc Uc Uic w) (word_mx m Pm Um Uim w).
  Proof.
    intros HP HU HUi w. induction w as [|l w IH]; [apply blk0_mid|].
    cbn [word_mx]. apply blk0_mmul; [|exact IH].
    destruct l as [k|[|]]; cbn [letter_mx]; auto.
  Qed.

  Lemma word_mx_meq n (P P' : Z -> BMx K) (U U' Ui Ui' : BMx K) :
    (forall k, meq n (P k) (P' k)) -> meq n U U' -> meq n Ui Ui' ->
    forall w, meq n (word_mx n P U Ui w) (word_mx n P' U' Ui' w).
  Proof.
    intros HP HU HUi w. induction w as [|l w IH]; [apply meq_refl|].
    cbn [word_mx]. apply mmul_meq; [|exact IH]. destruct l as [k|[|]]; cbn [letter_mx]; auto.
  Qed.

  (** the phase-shift circuit of the auxiliary method has the defining matrix on the
      auxiliary-|0> block (u = exp(i theta)) *)
  Theorem aux_blk0 (u : K) n : u * u^* = 1 ->
    blk0 n (circuit_mx (Datatypes.S n) (upow_q 0 u) (aux_circuit ideal_aux n)) (shift_spec u).
  Proof.
    intros Hu r c Hr Hc. split.
    - rewrite (aux_matrix u n (false :: r) c) by (cbn; congruence).
      unfold shift_spec. cbn [beq Bool.eqb andb]. reflexivity.
    - rewrite (aux_matrix u n (true :: r) c) by (cbn; congruence). reflexivity.
  Qed.

  (** the same for any phase function (ph q = exp(i q theta)) *)
  Theorem aux_blk0_char (ph : Q -> K) n : character ph ->
    blk0 n (circuit_mx (Datatypes.S n) ph (aux_circuit ideal_aux n)) (shift_spec (ph 1%Q)).
  Proof.
    intros H r c Hr Hc. split.
    - rewrite (aux_matrix_char ph n (false :: r) c) by (try assumption; cbn; congruence).
      unfold shift_spec. cbn [beq Bool.eqb andb]. reflexivity.
    - rewrite (aux_matrix_char ph n (true :: r) c) by (try assumption; cbn; congruence). reflexivity.
  Qed.

  (** The whole circuit of the eigenvalue transformation, closed form (no hypotheses about the
      gate groups): n encoding qubits, w system wires, U / Ui ANY matrices on the n + w wires
      of the block encoding (so all three encoding methods), one phase function per angle.
      Auxiliary method: wire 0 = auxiliary qubit; every phase-shift group is the gate product
      MCX Rz MCX of the source (x) identity on the system, every block-encoding gate is
      identity on the auxiliary qubit (x) U.  On the auxiliary-|0> block the circuit is the
      product of the same word with the defining phase shifts exp(i th_k (2|0><0| - 1)) (x) 1. *)
  Theorem evt_aux_circuit_blk0 (phs : Z -> Q -> K) n w (U Ui : BMx K) wd :
    (forall k, character (phs k)) ->
    blk0 (n + w)
      (word_mx (Datatypes.S (n + w))
         (fun k => kron (Datatypes.S n) (circuit_mx (Datatypes.S n) (phs k) (aux_circuit ideal_aux n)) mid)
         (kron 1 mid U) (kron 1 mid Ui) wd)
      (word_mx (n + w) (fun k => kron n (shift_spec (phs k 1%Q)) mid) U Ui wd).
  Proof.
    intros H. apply word_blk0.
    - intros k. apply blk0_kron_r, aux_blk0_char, H.
    - apply blk0_kron_id.
    - apply blk0_kron_id.
  Qed.

  (** c-phase method (no auxiliary qubit): the two products are equal outright *)
  Theorem evt_cphase_circuit_meq (phs : Z -> Q -> K) n w (U Ui : BMx K) wd :
    (1 <= n)%nat -> (forall k, character (phs k)) ->
    meq (n + w)
      (word_mx (n + w) (fun k => kron n (circuit_mx n (phs k) (cphase_circuit ideal_cphase n)) mid) U Ui wd)
      (word_mx (n + w) (fun k => kron n (shift_spec (phs k 1%Q)) mid) U Ui wd).
  Proof.
    intros Hn H. apply word_mx_meq; try apply meq_refl.
    intros k. apply kron_meq; [apply cphase_matrix_char; [apply H|exact Hn]|apply meq_refl].
  Qed.
End Block.
