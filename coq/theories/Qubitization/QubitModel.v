(** Executable model of qib.algorithms.qubitization
    (ProjectorControlledPhaseShift.as_circuit, EigenvalueTransformation.as_matrix/as_circuit).
    No proofs here.

    Phase-shift circuits are lists of gates whose angles are RATIONAL MULTIPLES OF theta
    (the coefficient in Q is what the translator reads off the source).  Every gate is a
    monomial operator on bit strings: |b> -> phase(b) |perm(b)> ; Rz / controlled-Rz / global
    phase are diagonal, the multi-controlled X is a permutation.

    The eigenvalue transformation is modelled as the WORD of factors its loops produce
    (P(theta_k), U, U^-1), read with the translated loop bounds and index expressions. *)
From Qib Require Export Base.BMx.
From Coq Require Export QArith.
Local Open Scope Z_scope.

(* ------------------------------------------------------------------ integer ranges *)
(** Python's range(lo, hi) *)
Definition zrange (lo hi : Z) : list Z :=
  map (fun k => lo + Z.of_nat k) (seq 0 (Z.to_nat (hi - lo))).

(* ------------------------------------------------------------------ gates *)
(** a control is (wire, required bit); all circuits of this module use required bit 0 *)
Definition ctrl := (nat * bool)%type.

Inductive pgate :=
| GRz (coef : Q) (tgt : nat)                         (* Rz(coef * theta) on wire tgt *)
| GCRz (cs : list ctrl) (coef : Q) (tgt : nat)       (* ControlledGate(RzGate(coef*theta)) *)
| GMCX (cs : list ctrl) (tgt : nat)                  (* ControlledGate(PauliXGate) *)
| GPhase (coef : Q) (wires : list nat).              (* PhaseFactorGate(coef * theta, nwires) *)

Definition active (cs : list ctrl) (b : bits) : bool :=
  forallb (fun c => Bool.eqb (nth (fst c) b false) (snd c)) cs.

Fixpoint flip (t : nat) (b : bits) : bits :=
  match b, t with
  | [], _ => []
  | x :: b', O => negb x :: b'
  | x :: b', Datatypes.S t' => x :: flip t' b'
  end.

(** Rz(alpha) = diag(exp(-i alpha/2), exp(+i alpha/2)): phase in units of theta *)
Definition rzq (c : Q) (x : bool) : Q := if x then (c / 2)%Q else (- (c / 2))%Q.

Definition gate_perm (g : pgate) (b : bits) : bits :=
  match g with
  | GMCX cs t => if active cs b then flip t b else b
  | _ => b
  end.

Definition gate_phq (g : pgate) (b : bits) : Q :=
  match g with
  | GRz c t => rzq c (nth t b false)
  | GCRz cs c t => if active cs b then rzq c (nth t b false) else 0%Q
  | GMCX _ _ => 0%Q
  | GPhase c _ => c
  end.

(** running a circuit (first gate of the list is applied first) on a basis state *)
Fixpoint run_bits (gs : list pgate) (b : bits) : bits :=
  match gs with
  | [] => b
  | g :: rest => run_bits rest (gate_perm g b)
  end.
Fixpoint run_phq (gs : list pgate) (b : bits) : Q :=
  match gs with
  | [] => 0%Q
  | g :: rest => (gate_phq g b + run_phq rest (gate_perm g b))%Q
  end.

(* ------------------------------------------------------------------ what the translator extracts *)
(** ProjectorControlledPhaseShift.as_circuit, method "c-phase" *)
Record cphase_src := {
  cp_max_den : Z -> Z;           (* size_enc |-> max_den *)
  cp_first_coef : Z -> Q;        (* max_den |-> coefficient of theta in the first RzGate *)
  cp_first_tgt : Z;              (* index into encoding_qubits *)
  cp_lo : Z;                     (* loop: range(lo, hi size_enc) *)
  cp_hi : Z -> Z;
  cp_loop_coef : Z -> Z -> Q;    (* max_den, i |-> coefficient of theta *)
  cp_loop_tgt : Z -> Z;          (* i |-> index of the target qubit *)
  cp_loop_nctrl : Z -> Z;        (* i |-> number of controls = len of ctrl_state slice = len of control slice *)
  cp_glob_coef : Z -> Q          (* max_den |-> coefficient of theta in the PhaseFactorGate *)
}.
(** method "auxiliary": [mcx; Rz(coef*theta) on the auxiliary qubit; mcx] *)
Record aux_src := {
  ax_rz_coef : Q;
  ax_order : list nat             (* 0 = multi_cnot, 1 = RzGate : order of the append_gate calls *)
}.

Definition ctrl_list (off m : nat) : list ctrl := map (fun j => ((off + j)%nat, false)) (seq 0 m).

(** wires of the c-phase circuit: encoding qubit j = wire j *)
Definition cphase_circuit (s : cphase_src) (n : nat) : list pgate :=
  let md := cp_max_den s (Z.of_nat n) in
  GRz (Qred (cp_first_coef s md)) (Z.to_nat (cp_first_tgt s))
  :: map (fun i => GCRz (ctrl_list 0 (Z.to_nat (cp_loop_nctrl s i)))
                        (Qred (cp_loop_coef s md i)) (Z.to_nat (cp_loop_tgt s i)))
         (zrange (cp_lo s) (cp_hi s (Z.of_nat n)))
  ++ [GPhase (Qred (cp_glob_coef s md)) (seq 0 n)].

(** wires of the auxiliary circuit: auxiliary qubit = wire 0, encoding qubit j = wire 1+j *)
Definition aux_circuit (s : aux_src) (n : nat) : list pgate :=
  map (fun k => match k with
                | O => GMCX (ctrl_list 1 n) 0
                | _ => GRz (Qred (ax_rz_coef s)) 0
                end) (ax_order s).

(* ------------------------------------------------------------------ matrices *)
Section Mx.
  Context {K : Scalar}.
  Local Open Scope K_scope.

  Fixpoint kpow (u : K) (k : nat) : K :=
    match k with O => 1 | Datatypes.S k' => u * kpow u k' end.
  (** u^z for a unit-modulus u: negative powers through the conjugate *)
  Definition upow (u : K) (z : Z) : K :=
    kpow u (Z.to_nat z) * kpow (u^*) (Z.to_nat (- z)).

  (** q * 2^md as an integer, if it is one *)
  Definition qunits (md : Z) (q : Q) : option Z :=
    let r := Qred (q * inject_Z (2 ^ md)) in
    if Pos.eqb (Qden r) 1 then Some (Qnum r) else None.
  (** exp(i q theta) when u = exp(i theta / 2^md); 0 when q*2^md is not an integer *)
  Definition upow_q (md : Z) (u : K) (q : Q) : K :=
    match qunits md q with Some z => upow u z | None => 0 end.

  Definition gate_mx (ph : Q -> K) (g : pgate) : BMx K :=
    fun r c => if beq r (gate_perm g c) then ph (gate_phq g c) else 0.

  (** first gate applied first = rightmost factor *)
  Fixpoint circuit_mx (n : nat) (ph : Q -> K) (gs : list pgate) : BMx K :=
    match gs with
    | [] => mid
    | g :: rest => mmul n (circuit_mx n ph rest) (gate_mx ph g)
    end.

  Fixpoint run_phK (ph : Q -> K) (gs : list pgate) (b : bits) : K :=
    match gs with
    | [] => 1
    | g :: rest => ph (gate_phq g b) * run_phK ph rest (gate_perm g b)
    end.

  Definition all_false (b : bits) : bool := forallb negb b.

  (** exp(i theta (2|0..0><0..0| - 1)) with v = exp(i theta) *)
  Definition shift_spec (v : K) : BMx K :=
    fun r c => if beq r c then (if all_false c then v else v^*) else 0.
End Mx.

(** ProjectorControlledPhaseShift.as_matrix:  expm(1j * theta * (a * |0..0><0..0| + b * identity)).
    The translator reads a and b; the argument of expm is diagonal, so the matrix is
    diag(exp(i theta (a + b)), exp(i theta b), ..., exp(i theta b))  (expm of a diagonal
    matrix = diagonal of the exponentials: background; [ph q] stands for exp(i q theta)). *)
Record pmat_src := { pm_proj : Q; pm_id : Q }.
Definition pmat_mx {K : Scalar} (ph : Q -> K) (s : pmat_src) : BMx K :=
  fun r c => if beq r c then ph (if all_false c then (pm_proj s + pm_id s)%Q else pm_id s) else s0.

(* ------------------------------------------------------------------ eigenvalue transformation *)
Inductive letter :=
| LP (k : Z)         (* phase shift with angle theta_seq[k] (kron identity on the system) *)
| LU (inv : bool).   (* block encoding (false) / its inverse (true) *)

Record evt_src := {
  ev_even : Z -> bool;               (* len |-> the test of the if *)
  ev_dim_even : Z -> Z;  ev_start_even : Z;  ev_prefix_even : list letter;
  ev_dim_odd : Z -> Z;   ev_start_odd : Z;   ev_prefix_odd : list letter;
  ev_lo : Z -> Z -> Z;               (* start, dim |-> range(lo, hi) *)
  ev_hi : Z -> Z -> Z;
  ev_body : Z -> Z -> list letter    (* i, start |-> factors in the order the statements produce them *)
}.

(** the sequence of factors the code produces, in program order *)
Definition evt_ops (s : evt_src) (len : Z) : list letter :=
  let dim := if ev_even s len then ev_dim_even s len else ev_dim_odd s len in
  let start := if ev_even s len then ev_start_even s else ev_start_odd s in
  (if ev_even s len then ev_prefix_even s else ev_prefix_odd s)
  ++ flat_map (fun i => ev_body s i start) (zrange (ev_lo s start dim) (ev_hi s start dim)).

(** as_matrix: matrix = matrix @ factor  -> left-to-right product in program order *)
Definition evt_mat_word (s : evt_src) (len : Z) : list letter := evt_ops s len.
(** as_circuit: every factor is PREPENDED to the gate list (first gate applied first) *)
Definition evt_circ_gates (s : evt_src) (len : Z) : list letter :=
  fold_left (fun acc l => l :: acc) (evt_ops s len) [].
(** matrix of a gate list = last gate ... first gate: left-to-right factors *)
Definition gates_word (gs : list letter) : list letter := rev gs.

(** the defining alternating product for len angles:
    P(th_0) U^{+-} P(th_1) U^{-+} ... P(th_{len-1}) U   (the last factor is always U) *)
Definition alt_word (len : Z) : list letter :=
  flat_map (fun k => [LP k; LU (Z.odd (len - 1 - k))]) (zrange 0 len).

(** the code before the repair of the odd-length loop bound: range(start, dim) *)
Definition evt_src_unrepaired : evt_src := {|
  ev_even := fun len => len mod 2 =? 0;
  ev_dim_even := fun len => len / 2; ev_start_even := 0; ev_prefix_even := [];
  ev_dim_odd := fun len => (len - 1) / 2; ev_start_odd := 1; ev_prefix_odd := [LP 0; LU false];
  ev_lo := fun start dim => start;
  ev_hi := fun start dim => dim;
  ev_body := fun i start => [LP (2 * i - start); LU true; LP (2 * i + 1 - start); LU false] |}.

Section Word.
  Context {K : Scalar}.
  (** matrix of a word, given the matrices of the letters *)
  Definition letter_mx (P : Z -> BMx K) (U Ui : BMx K) (l : letter) : BMx K :=
    match l with LP k => P k | LU false => U | LU true => Ui end.
  Fixpoint word_mx (n : nat) (P : Z -> BMx K) (U Ui : BMx K) (w : list letter) : BMx K :=
    match w with
    | [] => mid
    | l :: rest => mmul n (letter_mx P U Ui l) (word_mx n P U Ui rest)
    end.
End Word.
