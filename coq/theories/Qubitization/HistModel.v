(** State-machine model of the two qubitization classes as OBJECTS WITH SETTABLE PARAMETERS
    (no proofs here).

    ProjectorControlledPhaseShift:  parameters theta, encoding qubits, auxiliary qubits, method;
      setters set_theta / set_encoding_qubits / set_auxiliary_qubits / set_method (their bodies
      are regenerated from the source: [pcps_setters]); getters as_circuit / as_matrix are pure
      functions of the CURRENT parameters ([pview]).
    EigenvalueTransformation:  parameters theta_seq, the processing object (shared, by
      reference), the auxiliary qubits of the block encoding; setters regenerated from the
      source ([evt_setters]); getters as_matrix / as_circuit are functions of the current
      parameters and, as in the code, LEAVE processing.theta = the last angle they used
      ([egeff]); the third getter is processing.as_circuit() called by the user on the shared object.

    Wires: a qubit is its wire number in the field list of the caller.  Angles of handed-out
    circuits are ABSOLUTE rationals (coefficient read from the source times the current theta). *)
From Qib Require Export Qubitization.QubitModel Qubitization.HistGeneric.
Local Open Scope Z_scope.

(* ------------------------------------------------------------------ ProjectorControlledPhaseShift *)
Record pstate := {
  ps_theta : Q;
  ps_enc : list nat;        (* self.encoding_qubits *)
  ps_aux : list nat;        (* self.auxiliary_qubits *)
  ps_auxm : bool            (* self.method == "auxiliary" *)
}.
Definition upd_theta (t : Q) (st : pstate) : pstate :=
  {| ps_theta := t; ps_enc := ps_enc st; ps_aux := ps_aux st; ps_auxm := ps_auxm st |}.
Definition upd_enc (ws : list nat) (st : pstate) : pstate :=
  {| ps_theta := ps_theta st; ps_enc := ws; ps_aux := ps_aux st; ps_auxm := ps_auxm st |}.
Definition upd_aux (ws : list nat) (st : pstate) : pstate :=
  {| ps_theta := ps_theta st; ps_enc := ps_enc st; ps_aux := ws; ps_auxm := ps_auxm st |}.
Definition upd_method (m : bool) (st : pstate) : pstate :=
  {| ps_theta := ps_theta st; ps_enc := ps_enc st; ps_aux := ps_aux st; ps_auxm := m |}.

(** the bodies of the four setters, as the translator reads them *)
Record pcps_setters := {
  st_theta : Q -> pstate -> pstate;
  st_enc : list nat -> pstate -> pstate;
  st_aux : list nat -> pstate -> pstate;
  st_method : bool -> pstate -> pstate
}.
Inductive psetter :=
| SetTheta (t : Q) | SetEnc (ws : list nat) | SetAux (ws : list nat) | SetMethod (aux : bool).
Definition pset (g : pcps_setters) (s : psetter) : pstate -> pstate :=
  match s with
  | SetTheta t => st_theta g t
  | SetEnc ws => st_enc g ws
  | SetAux ws => st_aux g ws
  | SetMethod m => st_method g m
  end.

(** what the setters are expected to be *)
Definition ideal_pcps_setters : pcps_setters := {|
  st_theta := upd_theta;
  st_enc := upd_enc;
  st_aux := fun ws st => if ps_auxm st then upd_aux ws st else st;
  st_method := fun m st => if m then upd_method m st else upd_aux [] (upd_method m st) |}.

Definition scale_gate (t : Q) (g : pgate) : pgate :=
  match g with
  | GRz c w => GRz (Qred (t * c)) w
  | GCRz cs c w => GCRz cs (Qred (t * c)) w
  | GMCX cs w => GMCX cs w
  | GPhase c ws => GPhase (Qred (t * c)) ws
  end.
Definition relabel_gate (f : nat -> nat) (g : pgate) : pgate :=
  let fc := map (fun c : ctrl => (f (fst c), snd c)) in
  match g with
  | GRz c w => GRz c (f w)
  | GCRz cs c w => GCRz (fc cs) c (f w)
  | GMCX cs w => GMCX (fc cs) (f w)
  | GPhase c ws => GPhase c (map f ws)
  end.

(** the circuit on the canonical wires of QubitModel (c-phase: encoding qubit j = wire j;
    auxiliary: auxiliary qubit = wire 0, encoding qubit j = wire 1 + j), angles relative to theta *)
Definition pcanon (sc : cphase_src) (sa : aux_src) (st : pstate) : list pgate :=
  if ps_auxm st then aux_circuit sa (length (ps_enc st)) else cphase_circuit sc (length (ps_enc st)).
(** the same with absolute angles *)
Definition pcanon_abs (sc : cphase_src) (sa : aux_src) (st : pstate) : list pgate :=
  map (scale_gate (ps_theta st)) (pcanon sc sa st).
(** canonical wire |-> wire of the bound qubit *)
Definition pwire (st : pstate) (w : nat) : nat :=
  if ps_auxm st then nth w (hd O (ps_aux st) :: ps_enc st) O else nth w (ps_enc st) O.
(** as_circuit() *)
Definition pcircuit (sc : cphase_src) (sa : aux_src) (st : pstate) : list pgate :=
  map (relabel_gate (pwire st)) (pcanon_abs sc sa st).

Inductive pgetter := PGCircuit | PGMatrix.
Inductive pvalue :=
| PVCircuit (gs : list pgate)
| PVMatrix (theta : Q) (n : nat).      (* as_matrix(): pmat_mx for this angle on n = len(projection_state) qubits *)
Definition pview (sc : cphase_src) (sa : aux_src) (g : pgetter) (st : pstate) : pvalue :=
  match g with
  | PGCircuit => PVCircuit (pcircuit sc sa st)
  | PGMatrix => PVMatrix (ps_theta st) (length (ps_enc st))
  end.
Definition pgeff (g : pgetter) (st : pstate) : pstate := st.    (* the getters store nothing *)

(* ------------------------------------------------------------------ EigenvalueTransformation *)
Record estate := {
  es_seq : list Q;          (* self.theta_seq *)
  es_proc : pstate;         (* self.processing (the caller's object, shared) *)
  es_benc : list nat        (* self.block_encoding.auxiliary_qubits *)
}.
Definition upd_seq (l : list Q) (st : estate) : estate :=
  {| es_seq := l; es_proc := es_proc st; es_benc := es_benc st |}.
Definition upd_proc (p : pstate) (st : estate) : estate :=
  {| es_seq := es_seq st; es_proc := p; es_benc := es_benc st |}.
Definition upd_benc (ws : list nat) (st : estate) : estate :=
  {| es_seq := es_seq st; es_proc := es_proc st; es_benc := ws |}.

Record evt_setters := {
  et_seq : list Q -> estate -> estate;
  et_enc : list nat -> estate -> estate;
  et_anc : list nat -> estate -> estate;
  et_method : bool -> estate -> estate
}.
Inductive esetter :=
| ESetSeq (l : list Q) | ESetEnc (ws : list nat) | ESetAnc (ws : list nat) | ESetMethod (aux : bool)
| EProcTheta (t : Q).       (* the user calls set_theta on the shared processing object *)
Definition eset (gp : pcps_setters) (g : evt_setters) (s : esetter) : estate -> estate :=
  match s with
  | ESetSeq l => et_seq g l
  | ESetEnc ws => et_enc g ws
  | ESetAnc ws => et_anc g ws
  | ESetMethod m => et_method g m
  | EProcTheta t => fun st => upd_proc (st_theta gp t (es_proc st)) st
  end.
Definition ideal_evt_setters (gp : pcps_setters) : evt_setters := {|
  et_seq := upd_seq;
  et_enc := fun ws st => upd_benc ws (upd_proc (st_enc gp ws (es_proc st)) st);
  et_anc := fun ws st => upd_proc (st_aux gp ws (es_proc st)) st;
  et_method := fun m st => upd_proc (st_method gp m (es_proc st)) st |}.

(** a word with the angle VALUES in place of the indices into theta_seq *)
Inductive vletter := VP (theta : Q) | VU (inv : bool).
Definition angle_at (l : list Q) (k : Z) : Q := nth (Z.to_nat k) l 0%Q.
Definition vword (l : list Q) (w : list letter) : list vletter :=
  map (fun x => match x with LP k => VP (angle_at l k) | LU b => VU b end) w.

(** gates of the circuit of the eigenvalue transformation *)
Inductive egate :=
| EG (g : pgate)                         (* a gate of a phase-shift group *)
| EU (inv : bool) (enc : list nat).      (* the block encoding gate (or its inverse) with its auxiliary qubits *)
Definition ecircuit (sc : cphase_src) (sa : aux_src) (se : evt_src) (st : estate) : list egate :=
  flat_map (fun x => match x with
                     | LP k => map EG (pcircuit sc sa (upd_theta (angle_at (es_seq st) k) (es_proc st)))
                     | LU b => [EU b (es_benc st)]
                     end)
           (evt_circ_gates se (Z.of_nat (length (es_seq st)))).

Inductive egetter := EGMatrix | EGCircuit | EGProcCircuit.
Inductive evalue :=
| EVMatrix (w : list vletter) (n : nat)  (* as_matrix(): the product along w, phase shifts on n qubits *)
| EVCircuit (gs : list egate)
| EVProc (gs : list pgate).              (* processing.as_circuit() *)
Definition eview (sc : cphase_src) (sa : aux_src) (sm sc' : evt_src) (g : egetter) (st : estate) : evalue :=
  match g with
  | EGMatrix => EVMatrix (vword (es_seq st) (evt_mat_word sm (Z.of_nat (length (es_seq st))))) (length (ps_enc (es_proc st)))
  | EGCircuit => EVCircuit (ecircuit sc sa sc' st)
  | EGProcCircuit => EVProc (pcircuit sc sa (es_proc st))
  end.
(** the last angle index a getter hands to processing.set_theta (program order) *)
Fixpoint last_lp (w : list letter) : option Z :=
  match w with
  | [] => None
  | LP k :: r => match last_lp r with Some j => Some j | None => Some k end
  | LU _ :: r => last_lp r
  end.
Definition egeff (gp : pcps_setters) (sm sc' : evt_src) (g : egetter) (st : estate) : estate :=
  let after se :=
    match last_lp (evt_ops se (Z.of_nat (length (es_seq st)))) with
    | Some k => upd_proc (st_theta gp (angle_at (es_seq st) k) (es_proc st)) st
    | None => st
    end in
  match g with
  | EGMatrix => after sm
  | EGCircuit => after sc'
  | EGProcCircuit => st
  end.
