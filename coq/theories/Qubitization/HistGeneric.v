(** Objects with settable parameters and getters, over HISTORIES of calls.  Definitions only
    (proofs: HistGenericProofs.v).  Used by C19 (ProjectorControlledPhaseShift,
    EigenvalueTransformation) and C20 (VQE, PauliOperator).

    Reference semantics: a getter is a pure function [view] of the CURRENT parameters; the list
    of values the getters of a history return is [handed].

    Implementation semantics: Python hands out REFERENCES.  An implementation [impl] has an
    internal state (parameters and whatever it caches privately), and its getter returns an
    ADDRESS into a heap of value cells which it may also rewrite.  What the caller holds at the
    end of a history is the CONTENT AT THE END of the cells whose addresses it was given
    ([observed]) - so "a circuit obtained earlier still denotes what it denoted when it was
    obtained" is a statement about [observed], and an implementation that hands out a cached
    object and updates it in place ([reuse_impl]) is expressible and violates it. *)
From Coq Require Import List Arith.
Import ListNotations.

Section Generic.
  Variables P Sg G V : Type.       (* parameters, setter calls, getter names, values *)
  Variable set : Sg -> P -> P.     (* what a setter call does to the parameters *)
  Variable view : G -> P -> V.     (* as_circuit / as_matrix / run ... as a function of the parameters *)
  Variable geff : G -> P -> P.     (* what a getter call does to the parameters (EigenvalueTransformation's
                                      getters leave the angle of the shared phase-shift object changed) *)

  Inductive call := CSet (s : Sg) | CGet (g : G).

  (** the parameters at the moment of each getter call, in order *)
  Fixpoint handed_states (p : P) (cs : list call) : list (G * P) :=
    match cs with
    | [] => []
    | CSet s :: r => handed_states (set s p) r
    | CGet g :: r => (g, p) :: handed_states (geff g p) r
    end.
  (** the values the getter calls return *)
  Definition handed (p : P) (cs : list call) : list V :=
    map (fun gp => view (fst gp) (snd gp)) (handed_states p cs).
  (** the parameters after the history *)
  Fixpoint final (p : P) (cs : list call) : P :=
    match cs with
    | [] => p
    | CSet s :: r => final (set s p) r
    | CGet g :: r => final (geff g p) r
    end.

  (* ---------------------------------------------------------------- implementations with a heap *)
  Record impl := {
    ist : Type;                                       (* internal state *)
    i_set : Sg -> ist -> ist;
    i_get : G -> ist -> list V -> ist * list V * nat; (* internal state, heap |-> new ones, returned address *)
    i_abs : ist -> P                                  (* the parameters an internal state stands for *)
  }.
  Record world (I : impl) := { w_int : ist I; w_heap : list V; w_out : list nat }.
  Arguments w_int {I} _.
  Arguments w_heap {I} _.
  Arguments w_out {I} _.
  Arguments Build_world {I} _ _ _.

  Definition istep (I : impl) (w : world I) (c : call) : world I :=
    match c with
    | CSet s => {| w_int := i_set I s (w_int w); w_heap := w_heap w; w_out := w_out w |}
    | CGet g => let r := i_get I g (w_int w) (w_heap w) in
              {| w_int := fst (fst r); w_heap := snd (fst r); w_out := w_out w ++ [snd r] |}
    end.
  Definition irun (I : impl) (cs : list call) (w : world I) : world I := fold_left (istep I) cs w.
  Definition start (I : impl) (i : ist I) : world I := {| w_int := i; w_heap := []; w_out := [] |}.
  (** what the caller sees, at the end, in the objects it was handed during the history *)
  Definition observed (I : impl) (w : world I) : list (option V) := map (nth_error (w_heap w)) (w_out w).

  (** a getter that builds a NEW object from the current parameters, leaves the objects handed
      out before alone and does not change the parameters; setters change the parameters as
      [set] says (and have no access to the heap) *)
  (** [faithful]: the getter builds a NEW object from the current parameters, leaves the objects
      handed out before alone and changes the parameters only as [geff] says *)
  Record faithful (I : impl) : Prop := {
    f_set : forall s i, i_abs I (i_set I s i) = set s (i_abs I i);
    f_get : forall g i h, exists i', i_get I g i h = (i', h ++ [view g (i_abs I i)], length h)
                                     /\ i_abs I i' = geff g (i_abs I i)
  }.

  (** the implementation without private state *)
  Definition fresh_impl : impl := {|
    ist := P;
    i_set := set;
    i_get := fun g p h => (geff g p, h ++ [view g p], length h);
    i_abs := fun p => p |}.

  (** an implementation that keeps the object it built and, on later calls, overwrites it in
      place and hands out the same address again *)
  Fixpoint replace_nth (k : nat) (v : V) (l : list V) : list V :=
    match l, k with
    | [], _ => []
    | _ :: l', O => v :: l'
    | x :: l', Datatypes.S k' => x :: replace_nth k' v l'
    end.
  Definition reuse_impl : impl := {|
    ist := (P * option nat)%type;
    i_set := fun s i => (set s (fst i), snd i);
    i_get := fun g i h => match snd i with
                          | Some a => ((geff g (fst i), snd i), replace_nth a (view g (fst i)) h, a)
                          | None => ((geff g (fst i), Some (length h)), h ++ [view g (fst i)], length h)
                          end;
    i_abs := fun i => fst i |}.

  (** which of the two the source is (decided by the translator) *)
  Inductive getter_kind := GFresh | GReuse.
  Definition kind_impl (k : getter_kind) : impl := match k with GFresh => fresh_impl | GReuse => reuse_impl end.
  Definition kind_start (k : getter_kind) (p : P) : world (kind_impl k) :=
    match k with GFresh => start fresh_impl p | GReuse => start reuse_impl (p, None) end.
End Generic.

Arguments w_int {P Sg G V I} _.
Arguments w_heap {P Sg G V I} _.
Arguments w_out {P Sg G V I} _.
Arguments CSet {Sg G} s.
Arguments CGet {Sg G} g.
Arguments handed_states {P Sg G} set geff p cs.
Arguments handed {P Sg G V} set view geff p cs.
Arguments final {P Sg G} set geff p cs.
Arguments istep {P Sg G V} I w c.
Arguments irun {P Sg G V} I cs w.
Arguments start {P Sg G V} I i.
Arguments observed {P Sg G V I} w.
Arguments faithful {P Sg G V} set view geff I.
Arguments fresh_impl {P Sg G V} set view geff.
Arguments reuse_impl {P Sg G V} set view geff.
Arguments kind_impl {P Sg G V} set view geff k.
Arguments kind_start {P Sg G V} set view geff k p.
Arguments replace_nth {V} k v l.
