(** Case type and checker for the HISTORY part of the C19 correspondence run (vm_compute).
    A case is a whole history on one object (initial parameters, list of setter / getter calls)
    together with what the harness reads, AT THE END of the history, from every object a
    getter handed out.  The model side is [handed]: the value of each getter call for the
    parameters current at that call. *)
From Qib Require Export Qubitization.HistModel Qubitization.QubitCheck.
Local Open Scope Z_scope.

Fixpoint all2 {A B} (f : A -> B -> bool) (a : list A) (b : list B) : bool :=
  match a, b with
  | [], [] => true
  | x :: a', y :: b' => f x y && all2 f a' b'
  | _, _ => false
  end.

Inductive pobs :=
| POCircuit (gs : list pgate)                       (* gates with their ABSOLUTE angles (exact rationals) and wires *)
| POMatrix (theta : Q) (u : F.FI) (dg : list F.FI). (* the harness's record of the angle at the call, u = exp(i theta),
                                                       and the diagonal of the matrix as it is at the end *)
Inductive eobs :=
| EOCircuit (gs : list egate)
| EOProc (gs : list pgate)
| EOMatrix.                                         (* compared numerically by the numpy oracles only *)

Inductive hcase :=
| HPhase (st0 : pstate) (cs : list (call psetter pgetter)) (obs : list pobs)
| HEvt (isR : bool) (st0 : estate) (cs : list (call esetter egetter)) (obs : list eobs).

Definition pobs_ok (sp : pmat_src) (v : pvalue) (o : pobs) : bool :=
  match v, o with
  | PVCircuit gs, POCircuit gs' => list_eqb pgate_eqb gs gs'
  | PVMatrix t n, POMatrix t' u dg =>
      Qeq_bool t t' &&
      list_eqb (F.fi_close tol) (map (fun c => pmat_mx (K:=F.FI) (upow_q 0 u) sp c c) (all_bits n)) dg
  | _, _ => false
  end.

Definition egate_eqb (isR : bool) (a b : egate) : bool :=
  match a, b with
  | EG g, EG g' => pgate_eqb g g'
  | EU i e, EU i' e' => (isR || Bool.eqb i i') && list_eqb Nat.eqb e e'
  | _, _ => false
  end.
Definition eobs_ok (isR : bool) (v : evalue) (o : eobs) : bool :=
  match v, o with
  | EVCircuit gs, EOCircuit gs' => list_eqb (egate_eqb isR) gs gs'
  | EVProc gs, EOProc gs' => list_eqb pgate_eqb gs gs'
  | EVMatrix _ _, EOMatrix => true
  | _, _ => false
  end.

Definition hcheck (sc : cphase_src) (sa : aux_src) (sm se : evt_src) (sp : pmat_src)
           (gp : pcps_setters) (ge : evt_setters) (c : hcase) : bool :=
  match c with
  | HPhase st0 cs obs => all2 (pobs_ok sp) (handed (pset gp) (pview sc sa) pgeff st0 cs) obs
  | HEvt isR st0 cs obs =>
      all2 (eobs_ok isR) (handed (eset gp ge) (eview sc sa sm se) (egeff gp sm se) st0 cs) obs
  end.

Definition bad_hist_cases (sc : cphase_src) (sa : aux_src) (sm se : evt_src) (sp : pmat_src)
           (gp : pcps_setters) (ge : evt_setters) (cs : list (nat * hcase)) : list nat :=
  map fst (filter (fun c => negb (hcheck sc sa sm se sp gp ge (snd c))) cs).
