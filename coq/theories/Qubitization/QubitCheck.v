(** Case type and checker for the C19 correspondence run (evaluated with vm_compute).
    The checker is parametric in the definitions regenerated from the source. *)
From Qib Require Export Qubitization.QubitModel Base.Inst.
From Coq Require PrimFloat.
Local Open Scope Z_scope.

Definition ctrl_eqb (a b : ctrl) : bool := Nat.eqb (fst a) (fst b) && Bool.eqb (snd a) (snd b).

Definition pgate_eqb (a b : pgate) : bool :=
  match a, b with
  | GRz c t, GRz c' t' => Qeq_bool c c' && Nat.eqb t t'
  | GCRz cs c t, GCRz cs' c' t' => list_eqb ctrl_eqb cs cs' && Qeq_bool c c' && Nat.eqb t t'
  | GMCX cs t, GMCX cs' t' => list_eqb ctrl_eqb cs cs' && Nat.eqb t t'
  | GPhase c ws, GPhase c' ws' => Qeq_bool c c' && list_eqb Nat.eqb ws ws'
  | _, _ => false
  end.

(** for the R block encoding U = U^-1, so the inverse flag is not observable *)
Definition letter_eqb (isR : bool) (a b : letter) : bool :=
  match a, b with
  | LP k, LP k' => Z.eqb k k'
  | LU i, LU i' => isR || Bool.eqb i i'
  | _, _ => false
  end.

Inductive qcase :=
| CGates (aux : bool) (n : nat) (gs : list pgate)
    (* the gate list of ProjectorControlledPhaseShift.as_circuit(): kinds, wires, controls,
       angle/theta as exact rationals *)
| CMono (aux : bool) (n : nat) (md : Z) (u : F.FI) (cols : list (nat * F.FI))
    (* the matrix of that circuit, column by column: (row of the non-zero entry, entry) *)
| CEvtCirc (len : Z) (isR : bool) (gs : list letter)
    (* the gate list of EigenvalueTransformation.as_circuit(), one letter per phase-shift
       group / block-encoding gate, first applied first *)
| CGateMx (wires : nat) (md : Z) (u : F.FI) (g : pgate) (cols : list (nat * F.FI))
    (* ONE gate of a phase-shift circuit (as the implementation built it, in the terms of CGates)
       and the matrix the implementation gives a circuit consisting of that gate alone, column
       by column: ties the gate semantics of the model (Rz half angles, control states, X flip,
       global phase, wire embedding) gate by gate, not only through whole-circuit products *)
| CPmat (n : nat) (u : F.FI) (dg : list F.FI).
    (* the diagonal of ProjectorControlledPhaseShift.as_matrix() (off-diagonal entries are checked
       to vanish by the harness), u = exp(i theta) *)

Module QT.
  Import PrimFloat.
  Definition tol : float := 0x1p-38%float.
End QT.
Definition tol := QT.tol.

Definition the_circuit (sc : cphase_src) (sa : aux_src) (aux : bool) (n : nat) : list pgate :=
  if aux then aux_circuit sa n else cphase_circuit sc n.

Definition check (sc : cphase_src) (sa : aux_src) (se : evt_src) (sp : pmat_src) (c : qcase) : bool :=
  match c with
  | CGates aux n gs => list_eqb pgate_eqb (the_circuit sc sa aux n) gs
  | CMono aux n md u cols =>
      let gs := the_circuit sc sa aux n in
      let wires := if aux then Datatypes.S n else n in
      list_eqb (fun m o => Nat.eqb (fst m) (fst o) && F.fi_close tol (snd m) (snd o))
               (map (fun c => (b2n (run_bits gs c), run_phK (K:=F.FI) (upow_q md u) gs c)) (all_bits wires))
               cols
  | CEvtCirc len isR gs => list_eqb (letter_eqb isR) (evt_circ_gates se len) gs
  | CGateMx wires md u g cols =>
      list_eqb (fun m o => Nat.eqb (fst m) (fst o) && F.fi_close tol (snd m) (snd o))
               (map (fun c => (b2n (gate_perm g c), upow_q (K:=F.FI) md u (gate_phq g c))) (all_bits wires))
               cols
  | CPmat n u dg =>
      list_eqb (F.fi_close tol) (map (fun c => pmat_mx (K:=F.FI) (upow_q 0 u) sp c c) (all_bits n)) dg
  end.

Definition bad_cases (sc : cphase_src) (sa : aux_src) (se : evt_src) (sp : pmat_src) (cs : list (nat * qcase)) : list nat :=
  map fst (filter (fun c => negb (check sc sa se sp (snd c))) cs).

(** printing words for the harness *)
Definition letter_code (l : letter) : Z :=
  match l with LP k => k | LU false => -1 | LU true => -2 end.
