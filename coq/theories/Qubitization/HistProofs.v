(** Histories on ProjectorControlledPhaseShift / EigenvalueTransformation objects:
    what every getter call of ANY history returns is the circuit / matrix of the parameters
    current at that call, these parameters are what the most recent setter calls said, and the
    circuit has the defining matrix for THAT angle.  (The heap side - values handed out earlier
    are unaffected by later calls - is HistGenericProofs.) *)
From Qib Require Export Qubitization.HistModel Qubitization.HistGenericProofs Qubitization.EvtProofs.
Local Open Scope Z_scope.

(* ------------------------------------------------------------------ absolute angles *)
Lemma rzq_scale t c x : (rzq (Qred (t * c)) x == t * rzq c x)%Q.
Proof. unfold rzq. destruct x; rewrite Qred_correct; field. Qed.

Lemma gate_phq_scale t g b : (gate_phq (scale_gate t g) b == t * gate_phq g b)%Q.
Proof.
  destruct g as [c w|cs c w|cs w|c ws]; cbn [scale_gate gate_phq].
  - apply rzq_scale.
  - destruct (active cs b); [apply rzq_scale|ring].
  - ring.
  - apply Qred_correct.
Qed.

Lemma gate_perm_scale t g b : gate_perm (scale_gate t g) b = gate_perm g b.
Proof. destruct g; reflexivity. Qed.

Lemma run_bits_scale t gs : forall b, run_bits (map (scale_gate t) gs) b = run_bits gs b.
Proof. induction gs as [|g gs IH]; intros b; cbn [map run_bits]; [reflexivity|]. rewrite gate_perm_scale. apply IH. Qed.

Section Scale.
  Context {K : Scalar} {L : ScalarLaws K}.
  Local Open Scope K_scope.
  Add Ring KringHist : (s_ring K L).

  (** if ph q = exp(i q) then q |-> ph (t q) is the phase function of the angle t *)
  Lemma character_scale (ph : Q -> K) (t : Q) : character ph -> character (fun q => ph (t * q)%Q).
  Proof.
    intros H. split.
    - intros q q' E. apply (ch_proper ph H). rewrite E. reflexivity.
    - rewrite <- (ch_0 ph H). apply (ch_proper ph H). ring.
    - intros a b. rewrite <- (ch_add ph H). apply (ch_proper ph H). ring.
    - intros a. rewrite <- (ch_opp ph H). apply (ch_proper ph H). ring.
  Qed.

  Lemma character_scale_1 (ph : Q -> K) (t : Q) : character ph -> ph (t * 1)%Q = ph t.
  Proof. intros H. apply (ch_proper ph H). ring. Qed.

  Lemma run_phK_scale (ph : Q -> K) t gs : character ph ->
    forall b, run_phK ph (map (scale_gate t) gs) b = run_phK (fun q => ph (t * q)%Q) gs b.
  Proof.
    intros H. induction gs as [|g gs IH]; intros b; cbn [map run_phK]; [reflexivity|].
    rewrite gate_perm_scale, IH. f_equal. apply (ch_proper ph H). apply gate_phq_scale.
  Qed.

  (** a circuit with absolute angles c*t under the unit phase function = the circuit with the
      coefficients c under the phase function of the angle t *)
  Lemma circuit_mx_scale (ph : Q -> K) t n gs : character ph ->
    forall r c, length r = n -> length c = n ->
      circuit_mx n ph (map (scale_gate t) gs) r c = circuit_mx n (fun q => ph (t * q)%Q) gs r c.
  Proof.
    intros H r c Hr Hc. rewrite !circuit_mx_mono by assumption.
    rewrite run_bits_scale, run_phK_scale by assumption. reflexivity.
  Qed.

  (* ---------------------------------------------------------------- the circuit of one state *)
  (** c-phase method, n >= 1 encoding qubits: the circuit handed out for the state [st] is
      exp(i theta (2|0..0><0..0| - 1)) for theta = ps_theta st *)
  Theorem pcanon_abs_cphase (ph : Q -> K) st : character ph ->
    ps_auxm st = false -> (1 <= length (ps_enc st))%nat ->
    meq (length (ps_enc st))
        (circuit_mx (length (ps_enc st)) ph (pcanon_abs ideal_cphase ideal_aux st))
        (shift_spec (ph (ps_theta st))).
  Proof.
    intros H Hm Hn r c Hr Hc. unfold pcanon_abs, pcanon. rewrite Hm.
    rewrite circuit_mx_scale by assumption.
    rewrite (cphase_matrix_char (fun q => ph (ps_theta st * q)%Q) _ (character_scale ph _ H) Hn r c Hr Hc).
    rewrite character_scale_1 by assumption. reflexivity.
  Qed.

  (** auxiliary method: the same on the auxiliary-|0> block, auxiliary qubit returned to |0> *)
  Theorem pcanon_abs_aux (ph : Q -> K) st : character ph -> ps_auxm st = true ->
    blk0 (length (ps_enc st))
         (circuit_mx (Datatypes.S (length (ps_enc st))) ph (pcanon_abs ideal_cphase ideal_aux st))
         (shift_spec (ph (ps_theta st))).
  Proof.
    intros H Hm r c Hr Hc. unfold pcanon_abs, pcanon. rewrite Hm.
    rewrite !circuit_mx_scale by (try assumption; cbn [length]; congruence).
    destruct (aux_blk0_char (fun q => ph (ps_theta st * q)%Q) (length (ps_enc st))
                            (character_scale ph _ H) r c Hr Hc) as [E1 E2].
    rewrite E1, E2, character_scale_1 by assumption. split; reflexivity.
  Qed.
End Scale.

(* ------------------------------------------------------------------ setters *)
Definition pcps_setters_ok (g : pcps_setters) : Prop :=
  forall s st, pset g s st = pset ideal_pcps_setters s st.

Lemma ideal_pset_theta s st :
  ps_theta (pset ideal_pcps_setters s st) = match s with SetTheta t => t | _ => ps_theta st end.
Proof.
  destruct s as [t|ws|ws|m]; cbn [pset ideal_pcps_setters st_theta st_enc st_aux st_method]; try reflexivity.
  - destruct (ps_auxm st); reflexivity.
  - destruct m; reflexivity.
Qed.

Lemma ideal_pset_enc s st :
  ps_enc (pset ideal_pcps_setters s st) = match s with SetEnc ws => ws | _ => ps_enc st end.
Proof.
  destruct s as [t|ws|ws|m]; cbn [pset ideal_pcps_setters st_theta st_enc st_aux st_method]; try reflexivity.
  - destruct (ps_auxm st); reflexivity.
  - destruct m; reflexivity.
Qed.

(** the angle / the encoding qubits the most recent setter call said, at each getter call *)
Fixpoint theta_trace (t : Q) (cs : list (call psetter pgetter)) : list Q :=
  match cs with
  | [] => []
  | CSet (SetTheta t') :: r => theta_trace t' r
  | CSet _ :: r => theta_trace t r
  | CGet _ :: r => t :: theta_trace t r
  end.
Fixpoint enc_trace (e : list nat) (cs : list (call psetter pgetter)) : list (list nat) :=
  match cs with
  | [] => []
  | CSet (SetEnc e') :: r => enc_trace e' r
  | CSet _ :: r => enc_trace e r
  | CGet _ :: r => e :: enc_trace e r
  end.

Theorem pcps_theta_trace g : pcps_setters_ok g -> forall cs st,
  map (fun gp => ps_theta (snd gp)) (handed_states (pset g) pgeff st cs) = theta_trace (ps_theta st) cs.
Proof.
  intros H. induction cs as [|[s|q] cs IH]; intros st; cbn [handed_states map theta_trace snd].
  - reflexivity.
  - rewrite IH, H, ideal_pset_theta. destruct s; reflexivity.
  - unfold pgeff at 1. rewrite IH. reflexivity.
Qed.

Theorem pcps_enc_trace g : pcps_setters_ok g -> forall cs st,
  map (fun gp => ps_enc (snd gp)) (handed_states (pset g) pgeff st cs) = enc_trace (ps_enc st) cs.
Proof.
  intros H. induction cs as [|[s|q] cs IH]; intros st; cbn [handed_states map enc_trace snd].
  - reflexivity.
  - rewrite IH, H, ideal_pset_enc. destruct s; reflexivity.
  - unfold pgeff at 1. rewrite IH. reflexivity.
Qed.

(* ------------------------------------------------------------------ eigenvalue transformation *)
Definition evt_setters_ok (gp : pcps_setters) (g : evt_setters) : Prop :=
  forall s st, eset gp g s st = eset gp (ideal_evt_setters gp) s st.

Lemma ideal_eset_seq gp s st :
  es_seq (eset gp (ideal_evt_setters gp) s st) = match s with ESetSeq l => l | _ => es_seq st end.
Proof. destruct s; reflexivity. Qed.

Lemma egeff_seq gp sm sc g st : es_seq (egeff gp sm sc g st) = es_seq st.
Proof.
  destruct g; cbn [egeff]; try reflexivity.
  - destruct (last_lp _); reflexivity.
  - destruct (last_lp _); reflexivity.
Qed.

Fixpoint seq_trace (l : list Q) (cs : list (call esetter egetter)) : list (list Q) :=
  match cs with
  | [] => []
  | CSet (ESetSeq l') :: r => seq_trace l' r
  | CSet _ :: r => seq_trace l r
  | CGet _ :: r => l :: seq_trace l r
  end.

(** the angle sequence at each getter call is what the most recent set_theta_seq said -
    in particular it is not disturbed by the getters' own calls of processing.set_theta *)
Theorem evt_seq_trace gp g sm sc : evt_setters_ok gp g -> forall cs st,
  map (fun x => es_seq (snd x)) (handed_states (eset gp g) (egeff gp sm sc) st cs) = seq_trace (es_seq st) cs.
Proof.
  intros H. induction cs as [|[s|q] cs IH]; intros st; cbn [handed_states map seq_trace snd].
  - reflexivity.
  - rewrite IH, H, ideal_eset_seq. destruct s; reflexivity.
  - rewrite IH, egeff_seq. reflexivity.
Qed.

Lemma upd_theta_twice a t p : upd_theta a (upd_theta t p) = upd_theta a p.
Proof. reflexivity. Qed.

(** as_matrix / as_circuit of the eigenvalue transformation do not depend on the angle the
    shared phase-shift object happens to hold (every use is preceded by set_theta) *)
Theorem eview_independent_of_processing_theta sc sa sm sc' g t st : g <> EGProcCircuit ->
  eview sc sa sm sc' g (upd_proc (upd_theta t (es_proc st)) st) = eview sc sa sm sc' g st.
Proof.
  intros Hg. destruct g; [reflexivity|reflexivity|congruence].
Qed.

(** the factor word of as_matrix with the angle values filled in is the alternating word of
    the CURRENT sequence *)
Theorem vword_alt s l : evt_src_ok s -> (1 <= length l)%nat ->
  vword l (evt_mat_word s (Z.of_nat (length l))) = vword l (alt_word (Z.of_nat (length l))).
Proof. intros H Hl. unfold evt_mat_word. rewrite evt_ops_alt by (try assumption; lia). reflexivity. Qed.

Section VWord.
  Context {K : Scalar}.
  (** matrix of a word of values, given the phase shift as a function of the angle *)
  Fixpoint vword_mx (n : nat) (P : Q -> BMx K) (U Ui : BMx K) (w : list vletter) : BMx K :=
    match w with
    | [] => mid
    | VP t :: r => mmul n (P t) (vword_mx n P U Ui r)
    | VU false :: r => mmul n U (vword_mx n P U Ui r)
    | VU true :: r => mmul n Ui (vword_mx n P U Ui r)
    end.
  Lemma vword_mx_word n P U Ui l w :
    vword_mx n P U Ui (vword l w) = word_mx n (fun k => P (angle_at l k)) U Ui w.
  Proof.
    induction w as [|[k|[|]] w IH]; cbn [vword map vword_mx word_mx letter_mx]; [reflexivity| | |];
      fold (vword l w); rewrite IH; reflexivity.
  Qed.
End VWord.
