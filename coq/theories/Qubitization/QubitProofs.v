(** Proofs about the phase-shift circuits of Qubitization.QubitModel, for every number of
    encoding qubits. *)
From Qib Require Export Qubitization.QubitModel.
From Coq Require Qcanon.
Local Open Scope Z_scope.

(* ------------------------------------------------------------------ lists / bits *)
Lemma forallb_map' {A B} (f : B -> bool) (g : A -> B) l :
  forallb f (map g l) = forallb (fun x => f (g x)) l.
Proof. induction l as [|x l IH]; cbn; [reflexivity|]. rewrite IH. reflexivity. Qed.

Lemma forallb_ext' {A} (f g : A -> bool) l :
  (forall x, f x = g x) -> forallb f l = forallb g l.
Proof. intros H. induction l as [|x l IH]; cbn; [reflexivity|]. rewrite H, IH. reflexivity. Qed.

Lemma nth_skipn' {A} off : forall (b : list A) j d, nth j (skipn off b) d = nth (off + j) b d.
Proof.
  induction off as [|off IH]; intros b j d; [reflexivity|].
  destruct b as [|x b]; [destruct j; reflexivity|]. cbn. apply IH.
Qed.

Lemma flip_length t : forall b, length (flip t b) = length b.
Proof.
  induction t as [|t IH]; intros [|x b]; cbn; try reflexivity. rewrite IH. reflexivity.
Qed.

Lemma gate_perm_length g b : length (gate_perm g b) = length b.
Proof. destruct g; cbn; try reflexivity. destruct (active cs b); [apply flip_length|reflexivity]. Qed.

Lemma run_bits_length gs : forall b, length (run_bits gs b) = length b.
Proof. induction gs as [|g gs IH]; intros b; cbn; [reflexivity|]. rewrite IH. apply gate_perm_length. Qed.

(** "the first m bits are 0" *)
Definition zeros_upto (m : nat) (b : bits) : bool :=
  forallb (fun j => negb (nth j b false)) (seq 0 m).

Lemma active_ctrl_list off m b : active (ctrl_list off m) b = zeros_upto m (skipn off b).
Proof.
  unfold active, ctrl_list, zeros_upto. rewrite forallb_map'. apply forallb_ext'.
  intros j. cbn [fst snd]. rewrite nth_skipn'. destruct (nth (off + j) b false); reflexivity.
Qed.

Lemma zeros_upto_S m b : zeros_upto (Datatypes.S m) b = zeros_upto m b && negb (nth m b false).
Proof.
  unfold zeros_upto. rewrite seq_S, forallb_app. cbn. rewrite andb_true_r. reflexivity.
Qed.

Lemma zeros_upto_all b : zeros_upto (length b) b = forallb negb b.
Proof.
  unfold zeros_upto. induction b as [|x b IH]; [reflexivity|].
  cbn [length]. rewrite <- cons_seq, <- seq_shift. cbn [forallb nth]. rewrite forallb_map'.
  cbn [nth]. rewrite IH. reflexivity.
Qed.

(* ------------------------------------------------------------------ integer ranges *)
Lemma zrange_snoc lo hi : lo <= hi -> zrange lo (hi + 1) = zrange lo hi ++ [hi].
Proof.
  intros H. unfold zrange.
  replace (Z.to_nat (hi + 1 - lo)) with (Datatypes.S (Z.to_nat (hi - lo))) by lia.
  rewrite seq_S, map_app. cbn. do 2 f_equal. lia.
Qed.

Lemma zrange_empty lo : zrange lo lo = [].
Proof. unfold zrange. rewrite Z.sub_diag. reflexivity. Qed.

Lemma zrange_nat lo (m : nat) :
  zrange lo (lo + Z.of_nat m) = map (fun k => lo + Z.of_nat k) (seq 0 m).
Proof. unfold zrange. replace (Z.to_nat (lo + Z.of_nat m - lo)) with m by lia. reflexivity. Qed.

Lemma zrange_in lo hi i : In i (zrange lo hi) -> lo <= i < hi.
Proof.
  unfold zrange. intros H. apply in_map_iff in H. destruct H as [k [<- H]].
  apply in_seq in H. lia.
Qed.

(* ------------------------------------------------------------------ rational phases, in units of 1/2^md *)
Definition q2 (z : Z) : Q := inject_Z (2 ^ z).
Definition zq (md z : Z) : Q := (inject_Z z / q2 md)%Q.

Lemma q2_nz z : 0 <= z -> ~ (q2 z == 0)%Q.
Proof.
  unfold q2. intros Hz H. unfold Qeq in H. cbn [Qnum Qden inject_Z] in H.
  pose proof (Z.pow_pos_nonneg 2 z ltac:(lia) Hz). lia.
Qed.

Lemma q2_add a b : 0 <= a -> 0 <= b -> (q2 (a + b) == q2 a * q2 b)%Q.
Proof. intros. unfold q2. rewrite Z.pow_add_r by assumption. rewrite inject_Z_mult. reflexivity. Qed.

Lemma zq_add md a b : 0 <= md -> (zq md a + zq md b == zq md (a + b))%Q.
Proof. intros H. unfold zq. rewrite inject_Z_plus. field. apply q2_nz; assumption. Qed.

Lemma zq_opp md a : 0 <= md -> (- zq md a == zq md (- a))%Q.
Proof.
  intros H. unfold zq. replace (- a) with ((-1) * a) by lia. rewrite inject_Z_mult.
  change (inject_Z (-1)) with (-1 # 1)%Q. field. apply q2_nz; assumption.
Qed.

Lemma zq_0 md : 0 <= md -> (0 == zq md 0)%Q.
Proof. intros H. unfold zq. change (inject_Z 0) with 0%Q. field. apply q2_nz; assumption. Qed.

(** the closed forms the source is expected to contain, in units *)
Lemma loop_coef_half md k : 0 <= k <= md ->
  (Qred (inject_Z (-2) / q2 (md - k)) / 2 == zq md (- 2 ^ k))%Q.
Proof.
  intros H. rewrite Qred_correct. unfold zq.
  assert (E : (q2 md == q2 (md - k) * q2 k)%Q).
  { rewrite <- q2_add by lia. replace (md - k + k) with md by lia. reflexivity. }
  rewrite E. replace (- 2 ^ k) with ((-1) * 2 ^ k) by lia. rewrite inject_Z_mult. fold (q2 k).
  change (inject_Z (-2)) with (-2 # 1)%Q. change (inject_Z (-1)) with (-1 # 1)%Q.
  field. split; apply q2_nz; lia.
Qed.

Lemma glob_coef_units md : 0 <= md ->
  (Qred (inject_Z (1 - 2 ^ md) / q2 md) == zq md (1 - 2 ^ md))%Q.
Proof. intros H. rewrite Qred_correct. reflexivity. Qed.

(* ------------------------------------------------------------------ the reference source *)
Definition ideal_cphase : cphase_src := {|
  cp_max_den := fun n => n - 1;
  cp_first_coef := fun md => (inject_Z (-2) / q2 md)%Q;
  cp_first_tgt := 0;
  cp_lo := 1;
  cp_hi := fun n => n;
  cp_loop_coef := fun md i => (inject_Z (-2) / q2 (md - i))%Q;
  cp_loop_tgt := fun i => i;
  cp_loop_nctrl := fun i => i;
  cp_glob_coef := fun md => (inject_Z (1 - 2 ^ md) / q2 md)%Q |}.

Definition ideal_aux : aux_src := {| ax_rz_coef := 2%Q; ax_order := [0; 1; 0]%nat |}.

(** what has to be true of the definitions regenerated from the source *)
Definition cphase_src_ok (s : cphase_src) : Prop :=
  (forall n, 1 <= n -> cp_max_den s n = n - 1) /\
  (forall md, 0 <= md -> (cp_first_coef s md == inject_Z (-2) / q2 md)%Q) /\
  cp_first_tgt s = 0 /\ cp_lo s = 1 /\ (forall n, cp_hi s n = n) /\
  (forall md i, 0 <= i <= md -> (cp_loop_coef s md i == inject_Z (-2) / q2 (md - i))%Q) /\
  (forall i, cp_loop_tgt s i = i) /\ (forall i, cp_loop_nctrl s i = i) /\
  (forall md, 0 <= md -> (cp_glob_coef s md == inject_Z (1 - 2 ^ md) / q2 md)%Q).

Definition aux_src_ok (s : aux_src) : Prop :=
  (ax_rz_coef s == 2)%Q /\ ax_order s = [0; 1; 0]%nat.

Lemma cphase_circuit_ok s n : cphase_src_ok s -> (1 <= n)%nat ->
  cphase_circuit s n = cphase_circuit ideal_cphase n.
Proof.
  intros (Hmd & Hf & Ht & Hlo & Hhi & Hl & Hlt & Hlc & Hg) Hn.
  unfold cphase_circuit. rewrite Hmd by lia. cbn [ideal_cphase cp_max_den cp_first_coef cp_first_tgt
    cp_lo cp_hi cp_loop_coef cp_loop_tgt cp_loop_nctrl cp_glob_coef].
  rewrite Ht, Hlo, Hhi. f_equal.
  - f_equal. apply Qred_complete. apply Hf. lia.
  - f_equal.
    + apply map_ext_in. intros i Hi. apply zrange_in in Hi.
      rewrite Hlt, Hlc. f_equal. apply Qred_complete. apply Hl. lia.
    + f_equal. f_equal. apply Qred_complete. apply Hg. lia.
Qed.

Lemma aux_circuit_ok s n : aux_src_ok s -> aux_circuit s n = aux_circuit ideal_aux n.
Proof.
  intros [Hc Ho]. unfold aux_circuit. rewrite Ho. cbn [ideal_aux ax_order ax_rz_coef map].
  rewrite (Qred_complete _ _ Hc). reflexivity.
Qed.

(** the reference circuit with nat indices *)
Definition loop_gate (md : Z) (k : nat) : pgate :=
  GCRz (ctrl_list 0 k) (Qred (inject_Z (-2) / q2 (md - Z.of_nat k))) k.

Lemma ideal_circuit_shape n : (1 <= n)%nat ->
  cphase_circuit ideal_cphase n =
  GRz (Qred (inject_Z (-2) / q2 (Z.of_nat n - 1))) 0
  :: map (loop_gate (Z.of_nat n - 1)) (seq 1 (n - 1))
  ++ [GPhase (Qred (inject_Z (1 - 2 ^ (Z.of_nat n - 1)) / q2 (Z.of_nat n - 1))) (seq 0 n)].
Proof.
  intros Hn. unfold cphase_circuit. cbn [ideal_cphase cp_max_den cp_first_coef cp_first_tgt
    cp_lo cp_hi cp_loop_coef cp_loop_tgt cp_loop_nctrl cp_glob_coef].
  f_equal. f_equal.
  assert (E : zrange 1 (Z.of_nat n) = map (fun k => 1 + Z.of_nat k) (seq 0 (n - 1))).
  { replace (Z.of_nat n) with (1 + Z.of_nat (n - 1)) by lia. apply zrange_nat. }
  rewrite E, map_map. rewrite <- seq_shift, map_map.
  apply map_ext. intros k. unfold loop_gate.
  replace (Z.to_nat (1 + Z.of_nat k)) with (Datatypes.S k) by lia.
  replace (1 + Z.of_nat k) with (Z.of_nat (Datatypes.S k)) by lia. reflexivity.
Qed.

(* ------------------------------------------------------------------ the integer sum (geometric series) *)
Definition zlsum (l : list Z) : Z := fold_right Z.add 0 l.
Lemma zlsum_app a b : zlsum (a ++ b) = zlsum a + zlsum b.
Proof. unfold zlsum. induction a as [|x a IH]; cbn; [reflexivity|]. rewrite IH. lia. Qed.

(** contribution of the gate on qubit k, in units of theta/2^md *)
Definition zl (b : bits) (k : nat) : Z :=
  if zeros_upto k b then (if nth k b false then - 2 ^ Z.of_nat k else 2 ^ Z.of_nat k) else 0.
Definition zloop (m : nat) (b : bits) : Z := zlsum (map (zl b) (seq 0 m)).

Lemma zloop_S m b : zloop (Datatypes.S m) b = zloop m b + zl b m.
Proof. unfold zloop. rewrite seq_S, map_app, zlsum_app. cbn. lia. Qed.

Lemma zloop_closed m b : zloop m b = if zeros_upto m b then 2 ^ Z.of_nat m - 1 else -1.
Proof.
  induction m as [|m IH]; [reflexivity|].
  rewrite zloop_S, IH, zeros_upto_S. unfold zl.
  replace (Z.of_nat (Datatypes.S m)) with (Z.succ (Z.of_nat m)) by lia.
  rewrite Z.pow_succ_r by lia.
  destruct (zeros_upto m b), (nth m b false); cbn [andb negb]; lia.
Qed.

Lemma zloop_total n b : length b = n -> (1 <= n)%nat ->
  zloop n b + (1 - 2 ^ (Z.of_nat n - 1)) =
  if forallb negb b then 2 ^ (Z.of_nat n - 1) else - 2 ^ (Z.of_nat n - 1).
Proof.
  intros Hb Hn. rewrite zloop_closed. subst n. rewrite zeros_upto_all.
  replace (Z.of_nat (length b)) with (Z.succ (Z.of_nat (length b) - 1)) at 1 by lia.
  rewrite Z.pow_succ_r by lia.
  destruct (forallb negb b); lia.
Qed.

(* ------------------------------------------------------------------ per-gate phases of the reference circuit *)
Lemma first_gate_units md b : 0 <= md ->
  (gate_phq (GRz (Qred (inject_Z (-2) / q2 md)) 0) b == zq md (zl b 0))%Q.
Proof.
  intros H. cbn [gate_phq]. unfold zl, rzq. change (zeros_upto 0 b) with true. cbv iota.
  pose proof (loop_coef_half md 0 ltac:(lia)) as E. rewrite Z.sub_0_r in E.
  change (Z.of_nat 0) with 0.
  destruct (nth 0 b false).
  - exact E.
  - rewrite E. rewrite zq_opp by assumption. replace (- - 2 ^ 0) with (2 ^ 0) by lia. reflexivity.
Qed.

Lemma loop_gate_units md k b : 0 <= Z.of_nat k <= md ->
  (gate_phq (loop_gate md k) b == zq md (zl b k))%Q.
Proof.
  intros H. unfold loop_gate. cbn [gate_phq]. rewrite active_ctrl_list. cbn [skipn].
  unfold zl, rzq. destruct (zeros_upto k b); [|apply zq_0; lia].
  pose proof (loop_coef_half md (Z.of_nat k) H) as E.
  destruct (nth k b false).
  - exact E.
  - rewrite E. rewrite zq_opp by lia.
    replace (- - 2 ^ Z.of_nat k) with (2 ^ Z.of_nat k) by lia. reflexivity.
Qed.

Lemma loop_gate_diag md k b : gate_perm (loop_gate md k) b = b.
Proof. reflexivity. Qed.

(* ------------------------------------------------------------------ Q level: sum of the phases *)
Lemma run_phq_map_diag (f : nat -> pgate) (z : nat -> Z) md b rest l : 0 <= md ->
  (forall k, In k l -> (gate_phq (f k) b == zq md (z k))%Q /\ gate_perm (f k) b = b) ->
  (run_phq (map f l ++ rest) b == zq md (zlsum (map z l)) + run_phq rest b)%Q
  /\ run_bits (map f l ++ rest) b = run_bits rest b.
Proof.
  intros Hmd. induction l as [|k l IH]; intros H.
  - cbn. split; [|reflexivity]. rewrite <- zq_0 by assumption. ring.
  - destruct (H k (or_introl eq_refl)) as [E P].
    destruct IH as [IH1 IH2]; [intros; apply H; right; assumption|].
    cbn [map app run_phq run_bits zlsum fold_right]. rewrite P. split; [|exact IH2].
    rewrite IH1, E. fold (zlsum (map z l)). rewrite <- zq_add by assumption. ring.
Qed.

(** c-phase method, every n >= 1, every basis state: the phases add up to +theta on 0...0
    and to -theta elsewhere, and the basis state is unchanged *)
Theorem cphase_phase_sum n b : (1 <= n)%nat -> length b = n ->
  run_bits (cphase_circuit ideal_cphase n) b = b /\
  (run_phq (cphase_circuit ideal_cphase n) b == if forallb negb b then 1 else -1)%Q.
Proof.
  intros Hn Hb. rewrite ideal_circuit_shape by assumption.
  set (md := Z.of_nat n - 1). assert (Hmd : 0 <= md) by (unfold md; lia).
  cbn [run_bits run_phq]. cbn [gate_perm].
  destruct (run_phq_map_diag (loop_gate md) (zl b) md b
              [GPhase (Qred (inject_Z (1 - 2 ^ md) / q2 md)) (seq 0 n)] (seq 1 (n - 1)) Hmd) as [E1 E2].
  { intros k Hk. apply in_seq in Hk. split; [apply loop_gate_units; unfold md; lia|reflexivity]. }
  split; [rewrite E2; reflexivity|].
  rewrite E1, first_gate_units by assumption. cbn [run_phq gate_phq gate_perm].
  rewrite glob_coef_units by assumption.
  rewrite Qplus_0_r, !zq_add by assumption.
  assert (EZ : zl b 0 + (zlsum (map (zl b) (seq 1 (n - 1))) + (1 - 2 ^ md))
              = zloop n b + (1 - 2 ^ md)).
  { unfold zloop. destruct n as [|n']; [lia|]. rewrite <- cons_seq. cbn [map zlsum fold_right].
    replace (Datatypes.S n' - 1)%nat with n' by lia. fold (zlsum (map (zl b) (seq 1 n'))). lia. }
  rewrite EZ. unfold md. rewrite (zloop_total n b Hb Hn). fold md.
  unfold zq. destruct (forallb negb b).
  - change (inject_Z (2 ^ md)) with (q2 md). field. apply q2_nz; assumption.
  - replace (- 2 ^ md) with ((-1) * 2 ^ md) by lia. rewrite inject_Z_mult. fold (q2 md).
    change (inject_Z (-1)) with (-1 # 1)%Q. field. apply q2_nz; assumption.
Qed.

(** auxiliary method (wire 0 = auxiliary qubit, wires 1..n = encoding register):
    |0,b> -> phase |0,b>, the auxiliary qubit returns to |0> *)
Theorem aux_phase_sum n b : length b = n ->
  run_bits (aux_circuit ideal_aux n) (false :: b) = false :: b /\
  (run_phq (aux_circuit ideal_aux n) (false :: b) == if forallb negb b then 1 else -1)%Q.
Proof.
  intros Hb. unfold aux_circuit. cbn [ideal_aux ax_order ax_rz_coef map].
  assert (A : forall a, active (ctrl_list 1 n) (a :: b) = forallb negb b).
  { intros a. rewrite active_ctrl_list. cbn [skipn]. subst n. apply zeros_upto_all. }
  cbn [run_bits run_phq gate_perm gate_phq]. rewrite (A false).
  destruct (forallb negb b) eqn:E.
  - cbn [flip negb]. rewrite !(A true), ?E. cbn [flip negb nth]. split; [reflexivity|].
    unfold rzq. rewrite Qred_correct. field.
  - rewrite !(A false), ?E. cbn [nth]. split; [reflexivity|].
    unfold rzq. rewrite Qred_correct. field.
Qed.

(* ------------------------------------------------------------------ matrices *)
Section Matrices.
  Context {K : Scalar} {L : ScalarLaws K}.
  Local Open Scope K_scope.
  Add Ring KringQub : (s_ring K L).

  (** product with a monomial gate *)
  Lemma mmul_gate n ph g (A : BMx K) r c : length c = n ->
    mmul n A (gate_mx ph g) r c = A r (gate_perm g c) * ph (gate_phq g c).
  Proof.
    intros Hc. unfold mmul, gate_mx.
    transitivity (bsum n (fun k => (A r k * ph (gate_phq g c)) * (if beq k (gate_perm g c) then 1 else 0))).
    { apply bsum_ext. intros k _. destruct (beq k (gate_perm g c)); ring. }
    apply (bsum_delta_r n (gate_perm g c) (fun k => A r k * ph (gate_phq g c))).
    rewrite gate_perm_length. exact Hc.
  Qed.

  (** the product of the gate matrices is the monomial operator computed by [run_*] *)
  Theorem circuit_mx_mono n ph gs : forall r c, length r = n -> length c = n ->
    circuit_mx n ph gs r c = if beq r (run_bits gs c) then run_phK ph gs c else 0 :> K.
  Proof.
    induction gs as [|g gs IH]; intros r c Hr Hc.
    - reflexivity.
    - cbn [circuit_mx run_bits run_phK]. rewrite mmul_gate by assumption.
      rewrite IH by (try rewrite gate_perm_length; assumption).
      destruct (beq r (run_bits gs (gate_perm g c))); ring.
  Qed.

  (* -------------------------------------------------------------- powers of a unit-modulus scalar *)
  Variable u : K.
  Hypothesis Hu : u * u^* = 1.

  Lemma kpow_conj (v : K) k : (kpow v k)^* = kpow (v^*) k.
  Proof. induction k as [|k IH]; cbn; [apply (conj_1 K L)|]. rewrite (conj_mul K L), IH. reflexivity. Qed.

  Lemma upow_0 : upow u 0 = 1.
  Proof. unfold upow. cbn. ring. Qed.

  Lemma upow_succ z : upow u (z + 1) = u * upow u z.
  Proof.
    unfold upow. destruct (Z_le_gt_dec 0 z).
    - replace (Z.to_nat (z + 1)) with (Datatypes.S (Z.to_nat z)) by lia.
      replace (Z.to_nat (- (z + 1))) with O by lia. replace (Z.to_nat (- z)) with O by lia.
      cbn [kpow]. ring.
    - replace (Z.to_nat (z + 1)) with O by lia. replace (Z.to_nat z) with O by lia.
      replace (Z.to_nat (- z)) with (Datatypes.S (Z.to_nat (- (z + 1)))) by lia.
      cbn [kpow]. ring [Hu].
  Qed.

  Lemma upow_pred z : upow u (z - 1) = u^* * upow u z.
  Proof.
    replace z with ((z - 1) + 1)%Z at 2 by lia. rewrite upow_succ. ring [Hu].
  Qed.

  Lemma upow_add a b : upow u (a + b) = upow u a * upow u b.
  Proof.
    revert b. pattern a. apply Z.peano_ind; clear a.
    - intros b. rewrite upow_0. cbn [Z.add]. ring.
    - intros a IH b. replace (Z.succ a + b)%Z with ((a + b) + 1)%Z by lia.
      replace (Z.succ a) with (a + 1)%Z by lia. rewrite !upow_succ, IH. ring.
    - intros a IH b. replace (Z.pred a + b)%Z with ((a + b) - 1)%Z by lia.
      replace (Z.pred a) with (a - 1)%Z by lia. rewrite !upow_pred, IH. ring.
  Qed.

  Lemma upow_conj z : (upow u z)^* = upow u (- z).
  Proof.
    unfold upow. rewrite (conj_mul K L), !kpow_conj, (conj_inv K L).
    replace (- - z)%Z with z by lia. ring.
  Qed.

  Lemma upow_1 : upow u 1 = u.
  Proof.
    unfold upow. change (Z.to_nat 1) with 1%nat. change (Z.to_nat (- (1))) with 0%nat.
    cbn [kpow]. ring.
  Qed.
  Lemma upow_m1 : upow u (-1) = u^*.
  Proof.
    unfold upow. change (Z.to_nat (-1)) with 0%nat. change (Z.to_nat (- (-1))) with 1%nat.
    cbn [kpow]. ring.
  Qed.

  (* -------------------------------------------------------------- rational phases as powers *)
  Lemma qunits_proper md q q' : (q == q')%Q -> qunits md q = qunits md q'.
  Proof.
    intros E. unfold qunits.
    rewrite (Qred_complete (q * inject_Z (2 ^ md)) (q' * inject_Z (2 ^ md))); [reflexivity|].
    rewrite E. reflexivity.
  Qed.

  Lemma qunits_zq md z : (0 <= md)%Z -> qunits md (zq md z) = Some z.
  Proof.
    intros H. unfold qunits.
    rewrite (Qred_complete (zq md z * inject_Z (2 ^ md)) (inject_Z z)).
    - rewrite Qcanon.Qred_identity; [reflexivity|]. cbn. apply Z.gcd_1_r.
    - unfold zq. fold (q2 md). field. apply q2_nz; assumption.
  Qed.

  Lemma upow_q_units md q z : (0 <= md)%Z -> (q == zq md z)%Q -> upow_q md u q = upow u z.
  Proof.
    intros H E. unfold upow_q. rewrite (qunits_proper md q _ E), qunits_zq by assumption. reflexivity.
  Qed.

  Lemma run_phK_map_diag (f : nat -> pgate) (z : nat -> Z) md b rest l : (0 <= md)%Z ->
    (forall k, In k l -> (gate_phq (f k) b == zq md (z k))%Q /\ gate_perm (f k) b = b) ->
    run_phK (upow_q md u) (map f l ++ rest) b
    = upow u (zlsum (map z l)) * run_phK (upow_q md u) rest b.
  Proof.
    intros Hmd. induction l as [|k l IH]; intros H.
    - cbn [map app zlsum fold_right]. rewrite upow_0. ring.
    - destruct (H k (or_introl eq_refl)) as [E P].
      cbn [map app run_phK zlsum fold_right]. rewrite P.
      rewrite IH by (intros; apply H; right; assumption).
      rewrite (upow_q_units md _ _ Hmd E). fold (zlsum (map z l)). rewrite upow_add. ring.
  Qed.

  (** c-phase method, matrix level, every n >= 1:
      product of the gate matrices = exp(i theta (2|0..0><0..0| - 1)), u = exp(i theta/2^(n-1)) *)
  Theorem cphase_matrix n : (1 <= n)%nat ->
    meq n (circuit_mx n (upow_q (Z.of_nat n - 1) u) (cphase_circuit ideal_cphase n))
          (shift_spec (upow u (2 ^ (Z.of_nat n - 1)))).
  Proof.
    intros Hn r c Hr Hc. rewrite circuit_mx_mono by assumption.
    destruct (cphase_phase_sum n c Hn Hc) as [Eb _]. rewrite Eb. unfold shift_spec.
    destruct (beq r c); [|reflexivity].
    rewrite ideal_circuit_shape by assumption.
    set (md := (Z.of_nat n - 1)%Z). assert (Hmd : (0 <= md)%Z) by (unfold md; lia).
    cbn [run_phK gate_perm].
    rewrite (run_phK_map_diag (loop_gate md) (zl c) md c _ _ Hmd) by
      (intros k Hk; apply in_seq in Hk; split;
       [apply loop_gate_units; unfold md; lia|reflexivity]).
    rewrite (upow_q_units md _ _ Hmd (first_gate_units md c Hmd)).
    cbn [run_phK gate_phq gate_perm].
    rewrite (upow_q_units md _ _ Hmd (glob_coef_units md Hmd)).
    transitivity (upow u (zl c 0 + (zlsum (map (zl c) (seq 1 (n - 1))) + (1 - 2 ^ md)))%Z).
    { rewrite !upow_add. ring. }
    assert (EZ : (zl c 0 + (zlsum (map (zl c) (seq 1 (n - 1))) + (1 - 2 ^ md))
                = zloop n c + (1 - 2 ^ md))%Z).
    { unfold zloop. destruct n as [|n']; [lia|]. rewrite <- cons_seq. cbn [map zlsum fold_right].
      replace (Datatypes.S n' - 1)%nat with n' by lia. fold (zlsum (map (zl c) (seq 1 n'))). lia. }
    rewrite EZ. unfold md. rewrite (zloop_total n c Hc Hn). fold md.
    unfold all_false. destruct (forallb negb c); [reflexivity|]. rewrite upow_conj. reflexivity.
  Qed.

  (** auxiliary method, matrix level, every n >= 1 (u = exp(i theta)):
      the column of |0,c> is shift_spec's phase times |0,c> *)
  Theorem aux_matrix n r c : length r = Datatypes.S n -> length c = n ->
    circuit_mx (Datatypes.S n) (upow_q 0 u) (aux_circuit ideal_aux n) r (false :: c)
    = if beq r (false :: c) then (if all_false c then u else u^*) else 0.
  Proof.
    intros Hr Hc. rewrite circuit_mx_mono by (cbn; congruence).
    destruct (aux_phase_sum n c Hc) as [Eb _]. rewrite Eb.
    destruct (beq r (false :: c)); [|reflexivity].
    unfold aux_circuit. cbn [ideal_aux ax_order ax_rz_coef map].
    cbn [run_phK gate_perm gate_phq].
    rewrite !active_ctrl_list. cbn [skipn]. subst n. rewrite zeros_upto_all.
    assert (E0 : upow_q 0 u 0%Q = 1) by (rewrite (upow_q_units 0 0%Q 0%Z); [apply upow_0|lia|apply zq_0; lia]).
    assert (E1 : upow_q 0 u (rzq (Qred 2) true) = u).
    { rewrite (upow_q_units 0 _ 1%Z); [apply upow_1|lia|]. unfold rzq, zq. rewrite Qred_correct. reflexivity. }
    assert (Em : upow_q 0 u (rzq (Qred 2) false) = u^*).
    { rewrite (upow_q_units 0 _ (-1)%Z); [apply upow_m1|lia|]. unfold rzq, zq. rewrite Qred_correct. reflexivity. }
    unfold all_false. destruct (forallb negb c) eqn:E.
    - cbn [flip negb nth]. rewrite E0, E1. ring.
    - cbn [nth]. rewrite E0, Em. ring.
  Qed.
End Matrices.

(* ------------------------------------------------------------------ any phase function *)
(** The statements above use an abstract u with u u^* = 1 and read the rational multiples of
    theta as powers of u.  The statements below are the direct reading: [ph q] stands for
    exp(i q theta), i.e. ANY *-homomorphism from (Q, +) to the unit-modulus elements of K.  For
    K = C and every real theta, q |-> exp(i q theta) is one (Qubitization.QubitReal). *)
Section Character.
  Context {K : Scalar} {L : ScalarLaws K}.
  Local Open Scope K_scope.
  Add Ring KringQubC : (s_ring K L).

  Record character (ph : Q -> K) : Prop := {
    ch_proper : forall q q', (q == q')%Q -> ph q = ph q';
    ch_0 : ph 0%Q = 1;
    ch_add : forall a b, ph (a + b)%Q = ph a * ph b;
    ch_opp : forall a, ph (- a)%Q = (ph a)^* }.

  (** the product of the gate phases is the phase of the sum of the gate angles *)
  Lemma run_phK_char ph gs : character ph -> forall b, run_phK ph gs b = ph (run_phq gs b).
  Proof.
    intros H. induction gs as [|g gs IH]; intros b; cbn [run_phK run_phq].
    - symmetry. apply (ch_0 ph H).
    - rewrite IH, (ch_add ph H). reflexivity.
  Qed.

  Lemma char_pm ph (x : bool) (q : Q) : character ph ->
    (q == if x then 1 else -1)%Q -> ph q = if x then ph 1%Q else (ph 1%Q)^*.
  Proof.
    intros H E. rewrite (ch_proper ph H _ _ E). destruct x; [reflexivity|].
    rewrite <- (ch_opp ph H). apply (ch_proper ph H). vm_compute. reflexivity.
  Qed.

  (** c-phase method, every n >= 1, every phase function:
      product of the gate matrices = exp(i theta (2|0..0><0..0| - 1)) *)
  Theorem cphase_matrix_char ph n : character ph -> (1 <= n)%nat ->
    meq n (circuit_mx n ph (cphase_circuit ideal_cphase n)) (shift_spec (ph 1%Q)).
  Proof.
    intros H Hn r c Hr Hc. rewrite circuit_mx_mono by assumption.
    destruct (cphase_phase_sum n c Hn Hc) as [Eb Eq]. rewrite Eb. unfold shift_spec.
    destruct (beq r c); [|reflexivity].
    rewrite run_phK_char by assumption. unfold all_false. apply char_pm; assumption.
  Qed.

  (** auxiliary method: the column of |0,c> *)
  Theorem aux_matrix_char ph n r c : character ph -> length r = Datatypes.S n -> length c = n ->
    circuit_mx (Datatypes.S n) ph (aux_circuit ideal_aux n) r (false :: c)
    = if beq r (false :: c) then (if all_false c then ph 1%Q else (ph 1%Q)^*) else 0.
  Proof.
    intros H Hr Hc. rewrite circuit_mx_mono by (cbn; congruence).
    destruct (aux_phase_sum n c Hc) as [Eb Eq]. rewrite Eb.
    destruct (beq r (false :: c)); [|reflexivity].
    rewrite run_phK_char by assumption. unfold all_false. apply char_pm; assumption.
  Qed.

  (** ProjectorControlledPhaseShift.as_matrix is the defining phase shift *)
  Definition pmat_src_ok (s : pmat_src) : Prop := (pm_proj s == 2)%Q /\ (pm_id s == -1)%Q.

  Theorem pmat_is_shift ph s n : character ph -> pmat_src_ok s ->
    meq n (pmat_mx ph s) (shift_spec (ph 1%Q)).
  Proof.
    intros H [Ha Hb] r c _ _. unfold pmat_mx, shift_spec. destruct (beq r c); [|reflexivity].
    apply char_pm; [assumption|]. destruct (all_false c); [rewrite Ha, Hb; reflexivity|exact Hb].
  Qed.
End Character.
