(** The phase functions of Qubitization.QubitProofs at the complex numbers (Coquelicot's
    C = R * R): for every real theta, q |-> exp(i q theta) = (cos (q theta), sin (q theta)) is a
    [character].  This is the only place of the qubitization development where the standard
    library's real-number axioms enter.  (np.exp(1j*x) is read as cos x + i sin x.) *)
From Coq Require Import Reals Lra Qreals.
From Coquelicot Require Import Complex.
From Qib Require Export Qubitization.EvtProofs.

Definition CK : Scalar := {|
  T := C; s0 := RtoC 0; s1 := RtoC 1; sI := Ci;
  sadd := Cplus; smul := Cmult; ssub := Cminus; sopp := Copp; sconj := Cconj |}.

Lemma CK_laws : ScalarLaws CK.
Proof.
  constructor.
  - exact C_ring_theory.
  - intros [a b] [c d]. apply injective_projections; cbn; ring.
  - intros [a b] [c d]. apply injective_projections; cbn; ring.
  - intros [a b]. apply injective_projections; cbn; ring.
  - apply injective_projections; cbn; ring.
  - apply injective_projections; cbn; ring.
  - apply injective_projections; cbn; ring.
  - intros [a b]. apply injective_projections; cbn; ring.
  - apply injective_projections; cbn; ring.
Qed.
#[export] Existing Instance CK_laws.

(** exp(i x) *)
Definition expi (x : R) : CK := (cos x, sin x).
(** exp(i q theta) *)
Definition expq (theta : R) (q : Q) : CK := expi (Q2R q * theta).

Lemma expq_character (theta : R) : character (K:=CK) (expq theta).
Proof.
  constructor; unfold expq, expi.
  - intros q q' E. rewrite (Qeq_eqR _ _ E). reflexivity.
  - replace (Q2R 0 * theta)%R with 0%R by (unfold Q2R; cbn; lra).
    rewrite cos_0, sin_0. reflexivity.
  - intros a b. rewrite Q2R_plus, Rmult_plus_distr_r, cos_plus, sin_plus.
    apply injective_projections; cbn; ring.
  - intros a. rewrite Q2R_opp.
    replace (- Q2R a * theta)%R with (- (Q2R a * theta))%R by ring.
    rewrite cos_neg, sin_neg. reflexivity.
Qed.

Lemma expq_1 (theta : R) : expq theta 1%Q = expi theta.
Proof. unfold expq. replace (Q2R 1 * theta)%R with theta by (unfold Q2R; cbn; lra). reflexivity. Qed.
