(** Histories of setter / getter calls: a faithful implementation hands out, and keeps
    denoting, exactly the values of the reference semantics.  Induction over histories. *)
From Qib Require Export Qubitization.HistGeneric.
From Coq Require Import List Arith Lia.
Import ListNotations.

Section Proofs.
  Variables P Sg G V : Type.
  Variable set : Sg -> P -> P.
  Variable view : G -> P -> V.
  Variable geff : G -> P -> P.

  Lemma handed_states_app p cs cs' :
    handed_states set geff p (cs ++ cs')
    = handed_states set geff p cs ++ handed_states set geff (final set geff p cs) cs'.
  Proof.
    revert p. induction cs as [|[s|g] cs IH]; intros p; cbn [app handed_states final].
    - reflexivity.
    - apply IH.
    - rewrite IH. reflexivity.
  Qed.

  Lemma handed_app p cs cs' :
    handed set view geff p (cs ++ cs')
    = handed set view geff p cs ++ handed set view geff (final set geff p cs) cs'.
  Proof. unfold handed. rewrite handed_states_app, map_app. reflexivity. Qed.

  Lemma final_app p cs cs' : final set geff p (cs ++ cs') = final set geff (final set geff p cs) cs'.
  Proof. revert p. induction cs as [|[s|g] cs IH]; intros p; cbn [app final]; auto. Qed.

  (** the number of values handed out = number of getter calls *)
  Lemma handed_length p cs :
    length (handed set view geff p cs)
    = length (filter (fun c => match c with CGet _ => true | _ => false end) cs).
  Proof.
    unfold handed. rewrite map_length. revert p.
    induction cs as [|[s|g] cs IH]; intros p; cbn [handed_states filter length]; auto.
  Qed.

  Lemma nth_error_seq_all (l : list V) : map (nth_error l) (seq 0 (length l)) = map Some l.
  Proof.
    induction l as [|x l IH]; [reflexivity|].
    cbn [length seq map nth_error]. f_equal.
    rewrite <- seq_shift, map_map. cbn [nth_error]. exact IH.
  Qed.

  (** the central invariant: after any history the heap of a faithful implementation is the
      old heap followed by the values of the reference semantics, the handed-out addresses are
      exactly those new cells, and the internal state stands for the reference parameters *)
  Theorem faithful_run (I : impl P Sg G V) : faithful set view geff I ->
    forall cs (w : world P Sg G V I),
      i_abs _ _ _ _ I (w_int (irun I cs w)) = final set geff (i_abs _ _ _ _ I (w_int w)) cs /\
      w_heap (irun I cs w) = w_heap w ++ handed set view geff (i_abs _ _ _ _ I (w_int w)) cs /\
      w_out (irun I cs w)
      = w_out w ++ seq (length (w_heap w)) (length (handed set view geff (i_abs _ _ _ _ I (w_int w)) cs)).
  Proof.
    intros [Hs Hg]. induction cs as [|[s|g] cs IH]; intros w.
    - cbn. rewrite !app_nil_r. auto.
    - cbn [irun fold_left]. fold (irun I cs (istep I w (CSet s))).
      destruct (IH (istep I w (CSet s))) as (E1 & E2 & E3).
      cbn [istep w_int w_heap w_out] in *. rewrite Hs in *. auto.
    - cbn [irun fold_left]. fold (irun I cs (istep I w (CGet g))).
      destruct (IH (istep I w (CGet g))) as (E1 & E2 & E3).
      destruct (Hg g (w_int w) (w_heap w)) as (i' & Eg & Ea).
      cbn [istep w_int w_heap w_out] in *. rewrite Eg in *. cbn [fst snd] in *. rewrite Ea in *.
      split; [exact E1|]. split.
      + rewrite E2. unfold handed. cbn [handed_states map fst snd]. rewrite <- app_assoc. reflexivity.
      + rewrite E3. unfold handed. cbn [handed_states map length]. rewrite <- app_assoc.
        rewrite app_length. cbn [length app seq]. do 3 f_equal. lia.
  Qed.

  (** what the caller holds at the end of ANY history = what every getter returned when it was
      called (the value for the parameters current at that call) *)
  Theorem faithful_observed (I : impl P Sg G V) : faithful set view geff I ->
    forall cs (i : ist _ _ _ _ I),
      observed (irun I cs (start I i)) = map Some (handed set view geff (i_abs _ _ _ _ I i) cs).
  Proof.
    intros H cs i. destruct (faithful_run I H cs (start I i)) as (_ & E2 & E3).
    unfold observed. rewrite E2, E3. cbn [start w_heap w_out app length].
    apply nth_error_seq_all.
  Qed.

  (** later calls (setters or getters) do not change what was handed out earlier *)
  Theorem faithful_earlier_unaffected (I : impl P Sg G V) : faithful set view geff I ->
    forall cs cs' (i : ist _ _ _ _ I),
      observed (irun I (cs ++ cs') (start I i))
      = observed (irun I cs (start I i))
        ++ map Some (handed set view geff (final set geff (i_abs _ _ _ _ I i) cs) cs').
  Proof.
    intros H cs cs' i. rewrite !(faithful_observed I H), handed_app, map_app. reflexivity.
  Qed.

  Lemma fresh_faithful : faithful set view geff (fresh_impl set view geff).
  Proof. split; [reflexivity|]. intros g i h. exists (geff g i). split; reflexivity. Qed.

  Lemma kind_fresh_observed k cs p : k = GFresh ->
    observed (irun (kind_impl set view geff k) cs (kind_start set view geff k p))
    = map Some (handed set view geff p cs).
  Proof. intros ->. apply (faithful_observed (fresh_impl set view geff) fresh_faithful). Qed.

  Lemma kind_fresh_earlier_unaffected k cs cs' p : k = GFresh ->
    observed (irun (kind_impl set view geff k) (cs ++ cs') (kind_start set view geff k p))
    = observed (irun (kind_impl set view geff k) cs (kind_start set view geff k p))
      ++ map Some (handed set view geff (final set geff p cs) cs').
  Proof. intros ->. apply (faithful_earlier_unaffected (fresh_impl set view geff) fresh_faithful). Qed.

  (** every handed-out value is the view of the parameters recorded for its call *)
  Lemma handed_in p cs v : In v (handed set view geff p cs) ->
    exists g q, In (g, q) (handed_states set geff p cs) /\ v = view g q.
  Proof.
    unfold handed. intros H. apply in_map_iff in H. destruct H as ([g q] & E & H).
    exists g, q. split; [exact H|symmetry; exact E].
  Qed.
End Proofs.

(** the caching getter is NOT faithful: get, set, get - the first object now shows the second value *)
Lemma reuse_not_faithful :
  let set := fun (s p : nat) => s in
  let view := fun (_ : unit) (p : nat) => p in
  let geff := fun (_ : unit) (p : nat) => p in
  observed (irun (reuse_impl set view geff) [CGet tt; CSet 7; CGet tt] (start (reuse_impl set view geff) (3, None)))
  = [Some 7; Some 7] /\
  handed set view geff 3 [CGet tt; CSet 7; CGet tt] = [3; 7].
Proof. split; reflexivity. Qed.
