(** FullyConnectedLattice, LayeredLattice (over an arbitrary base), CustomizedLattice. *)
From Qib Require Export Lattice.LatBase.
Local Open Scope Z_scope.

(** * fully connected *)
Theorem full_pairs_iff n i j : In (i, j) (full_pairs n) <-> 0 <= i < n /\ 0 <= j < n /\ i <> j.
Proof.
  unfold full_pairs. rewrite filter_In, in_flat_map. unfold ne_pair. cbn [fst snd].
  rewrite negb_true_iff, Z.eqb_neq. split.
  - intros [[a [Ha H]] N]. apply in_map_iff in H as [b [E Hb]]. injection E as -> ->.
    apply in_zrange in Ha, Hb. auto.
  - intros [Hi [Hj N]]. split; [|assumption]. exists i. split; [apply in_zrange, Hi|].
    apply in_map. apply in_zrange, Hj.
Qed.

(** * layered: block (a,b) is the base matrix if a = b and the identity otherwise *)
Section Layered.
  Variables (nl bn : Z) (base : list ipair).
  Hypothesis Hbn : 0 < bn.
  Hypothesis base_range : forall i j, In (i, j) base -> 0 <= i < bn /\ 0 <= j < bn.

  Lemma in_layered I J :
    In (I, J) (layered_pairs nl bn base) <->
    exists a b, 0 <= a < nl /\ 0 <= b < nl /\
      ((a = b /\ exists i j, In (i, j) base /\ I = a * bn + i /\ J = b * bn + j) \/
       (a <> b /\ exists k, 0 <= k < bn /\ I = a * bn + k /\ J = b * bn + k)).
  Proof.
    unfold layered_pairs. rewrite in_flat_map. split.
    - intros [a [Ha H]]. apply in_flat_map in H as [b [Hb H]]. apply in_zrange in Ha, Hb.
      exists a, b. split; [assumption|]. split; [assumption|].
      destruct (a =? b) eqn:E.
      + apply Z.eqb_eq in E. left. split; [assumption|]. apply in_map_iff in H as [[i j] [E2 H]].
        cbn [fst snd] in E2. injection E2 as <- <-. exists i, j. auto.
      + apply Z.eqb_neq in E. right. split; [assumption|]. apply in_map_iff in H as [k [E2 H]].
        injection E2 as <- <-. exists k. apply in_zrange in H. auto.
    - intros [a [b [Ha [Hb H]]]]. exists a. split; [apply in_zrange, Ha|]. apply in_flat_map.
      exists b. split; [apply in_zrange, Hb|].
      destruct H as [[E [i [j [H [-> ->]]]]] | [N [k [Hk [-> ->]]]]].
      + subst b. rewrite Z.eqb_refl. apply in_map_iff. exists (i, j). auto.
      + replace (a =? b) with false by (symmetry; apply Z.eqb_neq, N).
        apply in_map_iff. exists k. split; [reflexivity|]. apply in_zrange, Hk.
  Qed.

  Lemma divmod_block a i : 0 <= i < bn -> (a * bn + i) / bn = a /\ (a * bn + i) mod bn = i.
  Proof.
    intros H. split.
    - symmetry. apply (Z.div_unique_pos _ _ _ i); lia.
    - symmetry. apply (Z.mod_unique_pos _ _ a); lia.
  Qed.

  (** base adjacency within a layer, same-site links between different layers *)
  Theorem layered_adjacency_iff I J : 0 <= I < nl * bn -> 0 <= J < nl * bn ->
    (In (I, J) (layered_pairs nl bn base) <->
     (I / bn = J / bn /\ In (I mod bn, J mod bn) base) \/ (I / bn <> J / bn /\ I mod bn = J mod bn)).
  Proof.
    intros HI HJ. rewrite in_layered. split.
    - intros [a [b [Ha [Hb [[E [i [j [H [-> ->]]]]] | [N [k [Hk [-> ->]]]]]]]]].
      + destruct (base_range _ _ H) as [Bi Bj].
        destruct (divmod_block a i Bi) as [-> ->]. destruct (divmod_block b j Bj) as [-> ->]. auto.
      + destruct (divmod_block a k Hk) as [-> ->]. destruct (divmod_block b k Hk) as [-> ->]. auto.
    - assert (BI : 0 <= I mod bn < bn) by (apply Z.mod_pos_bound; lia).
      assert (BJ : 0 <= J mod bn < bn) by (apply Z.mod_pos_bound; lia).
      assert (QI : 0 <= I / bn < nl) by (split; [apply Z.div_pos; lia | apply Z.div_lt_upper_bound; lia]).
      assert (QJ : 0 <= J / bn < nl) by (split; [apply Z.div_pos; lia | apply Z.div_lt_upper_bound; lia]).
      pose proof (Z.div_mod I bn) as DI. pose proof (Z.div_mod J bn) as DJ.
      intros [[E H] | [N E]]; exists (I / bn), (J / bn); (split; [assumption|]); (split; [assumption|]).
      + left. split; [assumption|]. exists (I mod bn), (J mod bn). split; [assumption|]. lia.
      + right. split; [assumption|]. exists (I mod bn). split; [assumption|]. lia.
  Qed.

  Theorem layered_in_range I J : In (I, J) (layered_pairs nl bn base) -> 0 <= I < nl * bn /\ 0 <= J < nl * bn.
  Proof.
    intros H. apply in_layered in H as [a [b [Ha [Hb [[E [i [j [H [-> ->]]]]] | [N [k [Hk [-> ->]]]]]]]]].
    - destruct (base_range _ _ H). nia.
    - nia.
  Qed.

  Theorem layered_symmetric : (forall i j, In (i, j) base -> In (j, i) base) ->
    forall I J, In (I, J) (layered_pairs nl bn base) -> In (J, I) (layered_pairs nl bn base).
  Proof.
    intros S I J H. apply in_layered in H as [a [b [Ha [Hb H]]]]. apply in_layered.
    exists b, a. split; [assumption|]. split; [assumption|].
    destruct H as [[E [i [j [H [-> ->]]]]] | [N [k [Hk [-> ->]]]]].
    - left. split; [congruence|]. exists j, i. auto.
    - right. split; [congruence|]. exists k. auto.
  Qed.

  Theorem layered_irreflexive : (forall i, ~ In (i, i) base) -> forall I, ~ In (I, I) (layered_pairs nl bn base).
  Proof.
    intros R I H. apply in_layered in H as [a [b [Ha [Hb [[E [i [j [H [E1 E2]]]]] | [N [k [Hk [E1 E2]]]]]]]]].
    - subst b. assert (i = j) by lia. subst j. exact (R _ H).
    - destruct (divmod_block a k Hk) as [Q1 _]. destruct (divmod_block b k Hk) as [Q2 _]. congruence.
  Qed.
End Layered.

(** * customised: what the constructor accepts is a symmetric 0/1 matrix with zero diagonal *)
Section Custom.
  Variables (sh : list Z) (m : list (list Z)) (ps : list ipair).
  Hypothesis accepted : custom_ctor sh m = Some ps.

  Let n := zprod sh.
  Let nz i j := negb (mat_get m (Z.to_nat i) (Z.to_nat j) =? 0).

  Lemma custom_facts :
    forallb (fun i => forallb (fun j => Bool.eqb (nz i j) (nz j i)) (zrange n)) (zrange n) = true /\
    forallb (fun i => mat_get m (Z.to_nat i) (Z.to_nat i) =? 0) (zrange n) = true /\
    ps = flat_map (fun i => flat_map (fun j => if nz i j then [(i, j)] else []) (zrange n)) (zrange n).
  Proof.
    unfold custom_ctor in accepted. fold n in accepted.
    destruct (negb _) in accepted; [discriminate|].
    destruct (forallb (fun i => forallb _ (zrange n)) (zrange n)) eqn:E1 in accepted; cbn [negb] in accepted; [|discriminate].
    destruct (forallb (fun i => mat_get m (Z.to_nat i) (Z.to_nat i) =? 0) (zrange n)) eqn:E2 in accepted; cbn [negb] in accepted; [|discriminate].
    injection accepted as <-. auto.
  Qed.

  Theorem custom_iff i j : In (i, j) ps <-> 0 <= i < n /\ 0 <= j < n /\ mat_get m (Z.to_nat i) (Z.to_nat j) <> 0.
  Proof.
    destruct custom_facts as [_ [_ ->]]. rewrite in_flat_map. split.
    - intros [a [Ha H]]. apply in_flat_map in H as [b [Hb H]]. apply in_zrange in Ha, Hb.
      unfold nz in H. destruct (mat_get m (Z.to_nat a) (Z.to_nat b) =? 0) eqn:E; cbn [negb] in H; [destruct H|].
      destruct H as [H|[]]. injection H as <- <-. apply Z.eqb_neq in E. auto.
    - intros [Hi [Hj N]]. exists i. split; [apply in_zrange, Hi|]. apply in_flat_map. exists j.
      split; [apply in_zrange, Hj|]. unfold nz. apply Z.eqb_neq in N. rewrite N. left. reflexivity.
  Qed.

  Theorem custom_symmetric i j : In (i, j) ps -> In (j, i) ps.
  Proof.
    rewrite !custom_iff. intros [Hi [Hj N]]. split; [assumption|]. split; [assumption|].
    destruct custom_facts as [S _]. rewrite forallb_forall in S.
    specialize (S i (proj2 (in_zrange _ _) Hi)). rewrite forallb_forall in S.
    specialize (S j (proj2 (in_zrange _ _) Hj)). unfold nz in S.
    apply Z.eqb_neq in N. rewrite N in S. cbn [negb] in S.
    destruct (mat_get m (Z.to_nat j) (Z.to_nat i) =? 0) eqn:E; [discriminate|]. apply Z.eqb_neq, E.
  Qed.

  Theorem custom_irreflexive i : ~ In (i, i) ps.
  Proof.
    rewrite custom_iff. intros [Hi [_ N]]. destruct custom_facts as [_ [D _]].
    rewrite forallb_forall in D. specialize (D i (proj2 (in_zrange _ _) Hi)). apply Z.eqb_eq in D. auto.
  Qed.
End Custom.
