(** TriangularLattice (with the proposed repair), all extents and boundary flags:
    axis links as for the integer lattice plus the (1,1) chord, each axis wrapping iff periodic. *)
From Qib Require Export Lattice.LatInt.
Local Open Scope Z_scope.
Ltac Zify.zify_post_hook ::= Z.to_euclidean_division_equations.

(** [y] is [x + s] on an axis of extent [n], wrapping allowed iff the axis is periodic *)
Definition stepd (n : Z) (per : bool) (s x y : Z) : Prop :=
  y = x + s \/ (per = true /\ y = (x + s) mod n).

Definition nn_tri (sh : list Z) (pbc : list bool) (c c' : coord) : Prop :=
  nn_int sh pbc c c' \/
  (c <> c' /\ length sh = 2%nat /\
   exists s, (s = 1 \/ s = -1) /\
     stepd (nth 0 sh 0) (nth 0 pbc false) s (nth 0 c 0) (nth 0 c' 0) /\
     stepd (nth 1 sh 0) (nth 1 pbc false) s (nth 1 c 0) (nth 1 c' 0)).

Lemma stepd_sym n per s x y : 0 < n -> 0 <= x < n -> 0 <= y < n -> (s = 1 \/ s = -1) ->
  stepd n per s x y -> stepd n per (- s) y x.
Proof.
  intros Hn Hx Hy Hs [H | [P H]]; [left; lia|].
  destruct (Z.eq_dec y (x + s)) as [E|E]; [left; lia|]. right. split; [assumption|].
  destruct Hs as [-> | ->].
  - (* y = (x+1) mod n, not x+1: x = n-1, y = 0 *)
    destruct (Z.eq_dec x (n - 1)) as [Ex|Ex]; [|rewrite Z.mod_small in H by lia; lia].
    subst x. replace (n - 1 + 1) with (1 * n) in H by ring. rewrite Z.mod_mul in H by lia. subst y.
    replace (0 + - (1)) with (n - 1 + (-1) * n) by ring. rewrite Z.mod_add by lia. rewrite Z.mod_small; lia.
  - destruct (Z.eq_dec x 0) as [Ex|Ex]; [|rewrite Z.mod_small in H by lia; lia].
    subst x. replace (0 + -1) with (n - 1 + (-1) * n) in H by ring. rewrite Z.mod_add in H by lia.
    rewrite Z.mod_small in H by lia. subst y.
    replace (n - 1 + - -1) with (1 * n) by ring. rewrite Z.mod_mul; lia.
Qed.

Lemma nn_tri_sym sh pbc c c' : valid sh c -> valid sh c' -> nn_tri sh pbc c c' -> nn_tri sh pbc c' c.
Proof.
  intros V V' [N | [N [L [s [Hs [S0 S1]]]]]]; [left; apply nn_int_sym, N|].
  right. split; [congruence|]. split; [assumption|]. exists (- s). split; [lia|].
  pose proof (valid_pos _ _ V) as P.
  assert (B0 : (0 < length sh)%nat) by lia. assert (B1 : (1 < length sh)%nat) by lia.
  pose proof (valid_nth _ _ V 0%nat B0). pose proof (valid_nth _ _ V' 0%nat B0).
  pose proof (valid_nth _ _ V 1%nat B1). pose proof (valid_nth _ _ V' 1%nat B1).
  split; apply stepd_sym; try assumption; lia.
Qed.

(** one axis: the rolled entry with the optional cut is the step [-s] *)
Lemma axis_stepd n per s x y : 0 <= x < n -> 0 <= y < n -> (s = -1 \/ s = 1) ->
  (y = (x - s) mod n /\ (per = true \/ (if s =? 1 then 1 <=? x else x <=? n - 2) = true)) <->
  stepd n per (- s) x y.
Proof.
  intros Hx Hy Hs. unfold stepd. split.
  - intros [E [P | K]].
    + right. split; [assumption|]. rewrite E. f_equal; lia.
    + left. destruct Hs as [-> | ->].
      * change (-1 =? 1) with false in K. cbv iota in K. rewrite E. rewrite Z.mod_small; lia.
      * change (1 =? 1) with true in K. cbv iota in K. rewrite E. rewrite Z.mod_small; lia.
  - intros [E | [P E]].
    + split; [rewrite Z.mod_small; lia|]. right. destruct Hs as [-> | ->].
      * change (-1 =? 1) with false. cbv iota. lia.
      * change (1 =? 1) with true. cbv iota. lia.
    + split; [|left; assumption]. rewrite E. f_equal; lia.
Qed.

Lemma in_diag_pairs sh cut0 cut1 s i j :
  In (i, j) (diag_pairs sh cut0 cut1 s) <->
  exists c, valid sh c /\ (cut0 = false \/ keep sh 0 s c = true) /\ (cut1 = false \/ keep sh 1 s c = true) /\
            i = ravel sh c /\ j = ravel sh (roll1 sh 1 s (roll1 sh 0 s c)).
Proof.
  unfold diag_pairs. rewrite in_map_iff. split.
  - intros [c [E H]]. apply filter_In in H as [H1 H2]. injection E as <- <-.
    exists c. split; [apply all_coords_valid, H1|]. apply andb_true_iff in H2 as [K0 K1].
    apply orb_true_iff in K0, K1. rewrite negb_true_iff in K0, K1. auto.
  - intros [c [V [K0 [K1 [-> ->]]]]]. exists c. split; [reflexivity|]. apply filter_In.
    split; [apply all_coords_valid, V|]. apply andb_true_iff. split; apply orb_true_iff; rewrite negb_true_iff; assumption.
Qed.

Lemma in_tri_diag n0 n1 p0 p1 i j :
  In (i, j) (tri_diag_g true [n0; n1] [p0; p1]) <->
  exists s, (s = -1 \/ s = 1) /\ In (i, j) (diag_pairs [n0; n1] (negb p0) (negb p1) s) /\
            (p0 = true -> p1 = true -> i <> j).
Proof.
  unfold tri_diag_g. cbn [length Nat.sub seq flat_map nth]. rewrite app_nil_r, in_flat_map. split.
  - intros [s [Hs H]]. apply in_shifts in Hs. exists s. split; [assumption|].
    destruct p0, p1; cbn [andb negb] in *.
    + apply filter_In in H as [H1 H2]. split; [assumption|]. intros _ _.
      unfold ne_pair in H2. cbn [fst snd] in H2. apply negb_true_iff, Z.eqb_neq in H2. assumption.
    + split; [assumption|]. intros _ ?. discriminate.
    + split; [assumption|]. intros ?. discriminate.
    + split; [assumption|]. intros ?. discriminate.
  - intros [s [Hs [H G]]]. exists s. split; [apply in_shifts, Hs|].
    destruct p0, p1; cbn [andb negb] in *; try assumption.
    apply filter_In. split; [assumption|]. unfold ne_pair. cbn [fst snd]. apply negb_true_iff, Z.eqb_neq. auto.
Qed.

Lemma pair_list_inj' (a b c d : Z) : [a; b] = [c; d] -> a = c /\ b = d.
Proof. intros H; split; congruence. Qed.

Lemma valid2 n0 n1 c : valid [n0; n1] c -> exists x y, c = [x; y] /\ 0 <= x < n0 /\ 0 <= y < n1.
Proof.
  intros V. inversion V as [|? x ? c1 Hx V1]; subst. inversion V1 as [|? y ? c2 Hy V2]; subst. inversion V2; subst.
  exists x, y. auto.
Qed.

Lemma roll_diag n0 n1 s x y :
  roll1 [n0; n1] 1 s (roll1 [n0; n1] 0 s [x; y]) = [(x - s) mod n0; (y - s) mod n1].
Proof. reflexivity. Qed.

Lemma keep0 n0 n1 s x y : keep [n0; n1] 0 s [x; y] = (if s =? 1 then 1 <=? x else x <=? n0 - 2).
Proof. reflexivity. Qed.
Lemma keep1 n0 n1 s x y : keep [n0; n1] 1 s [x; y] = (if s =? 1 then 1 <=? y else y <=? n1 - 2).
Proof. reflexivity. Qed.

Lemma per_or_keep (p : bool) (k : bool) : (negb p = false \/ k = true) <-> (p = true \/ k = true).
Proof. destruct p; cbn [negb]; intuition discriminate. Qed.

(** the chord links, on coordinates *)
Lemma tri_diag_nn n0 n1 p0 p1 c c' : valid [n0; n1] c -> valid [n0; n1] c' ->
  (In (ravel [n0; n1] c, ravel [n0; n1] c') (tri_diag_g true [n0; n1] [p0; p1]) <->
   c <> c' /\ exists s, (s = 1 \/ s = -1) /\
     stepd n0 p0 s (nth 0 c 0) (nth 0 c' 0) /\ stepd n1 p1 s (nth 1 c 0) (nth 1 c' 0)).
Proof.
  intros V V'. destruct (valid2 _ _ _ V) as [x [y [-> [Bx By]]]]. destruct (valid2 _ _ _ V') as [x' [y' [-> [Bx' By']]]].
  cbn [nth]. rewrite in_tri_diag. split.
  - intros [s [Hs [H G]]]. apply in_diag_pairs in H as [c [Vc [K0 [K1 [E1 E2]]]]].
    apply (ravel_inj [n0; n1]) in E1; [|assumption|assumption]. subst c.
    rewrite roll_diag in E2. apply (ravel_inj [n0; n1]) in E2;
      [|assumption| repeat constructor; apply Z.mod_pos_bound; lia].
    apply pair_list_inj' in E2 as [Ex Ey].
    rewrite keep0 in K0. rewrite keep1 in K1. rewrite per_or_keep in K0, K1.
    assert (S0 : stepd n0 p0 (- s) x x') by (apply axis_stepd; auto).
    assert (S1 : stepd n1 p1 (- s) y y') by (apply axis_stepd; auto).
    split.
    + intros E. apply pair_list_inj' in E as [<- <-].
      destruct p0, p1; try (apply G; reflexivity);
        unfold stepd in S0, S1; destruct S0 as [S0|[? S0]]; destruct S1 as [S1|[? S1]]; try discriminate; lia.
    + exists (- s). split; [lia|]. auto.
  - intros [N [s [Hs [S0 S1]]]]. exists (- s). split; [lia|].
    replace s with (- - s) in S0, S1 by lia.
    apply axis_stepd in S0; try assumption; [|lia]. apply axis_stepd in S1; try assumption; [|lia].
    destruct S0 as [Ex K0]. destruct S1 as [Ey K1]. split.
    + apply in_diag_pairs. exists [x; y]. split; [assumption|].
      rewrite keep0, keep1, !per_or_keep. split; [assumption|]. split; [assumption|]. split; [reflexivity|].
      rewrite roll_diag. congruence.
    + intros _ _ E. apply N. apply (ravel_inj [n0; n1]); assumption.
Qed.

Lemma tri_diag_short sh pbc : (length sh <= 1)%nat -> tri_diag_g true sh pbc = [].
Proof.
  intros L. unfold tri_diag_g. replace (length sh - 1)%nat with 0%nat by lia. reflexivity.
Qed.

Theorem tri_pairs_nn sh pbc c c' : (length sh <= 2)%nat -> length pbc = length sh ->
  valid sh c -> valid sh c' ->
  (In (ravel sh c, ravel sh c') (tri_pairs sh pbc) <-> nn_tri sh pbc c c').
Proof.
  intros L Lp V V'. unfold tri_pairs, tri_pairs_g. rewrite in_app_iff. fold (int_pairs sh pbc).
  rewrite (int_pairs_nn sh pbc c c' V V'). unfold nn_tri.
  destruct sh as [|n0 [|n1 [|? ?]]]; cbn [length] in L, Lp; try lia.
  - rewrite tri_diag_short by (cbn; lia). cbn [In length]. intuition discriminate.
  - rewrite tri_diag_short by (cbn; lia). cbn [In length]. intuition discriminate.
  - destruct pbc as [|p0 [|p1 [|? ?]]]; cbn [length] in Lp; try discriminate.
    rewrite (tri_diag_nn n0 n1 p0 p1 c c' V V'). cbn [nth length]. intuition.
Qed.

Theorem tri_pairs_in_range sh pbc i j : (length sh <= 2)%nat -> length pbc = length sh ->
  In (i, j) (tri_pairs sh pbc) -> 0 <= i < zprod sh /\ 0 <= j < zprod sh.
Proof.
  intros L Lp H. unfold tri_pairs, tri_pairs_g in H. apply in_app_iff in H as [H|H].
  - exact (int_pairs_in_range _ _ _ _ _ H).
  - destruct sh as [|n0 [|n1 [|? ?]]]; cbn [length] in L, Lp; try lia;
      try (rewrite tri_diag_short in H by (cbn; lia); destruct H).
    destruct pbc as [|p0 [|p1 [|? ?]]]; cbn [length] in Lp; try discriminate.
    apply in_tri_diag in H as [s [Hs [H _]]]. apply in_diag_pairs in H as [c [V [_ [_ [-> ->]]]]].
    split; apply ravel_bound; [assumption|]. apply roll1_valid; [apply roll1_valid|]; cbn; try assumption; lia.
Qed.

Theorem tri_adjacency_iff sh pbc i j : (length sh <= 2)%nat -> length pbc = length sh -> pos_shape sh ->
  0 <= i < zprod sh -> 0 <= j < zprod sh ->
  (In (i, j) (tri_pairs sh pbc) <-> nn_tri sh pbc (unravel sh i) (unravel sh j)).
Proof.
  intros L Lp P Hi Hj.
  rewrite <- (tri_pairs_nn sh pbc) by (try assumption; apply unravel_valid; assumption).
  rewrite !ravel_unravel by assumption. reflexivity.
Qed.

Theorem tri_adjacency_symmetric sh pbc i j : (length sh <= 2)%nat -> length pbc = length sh -> pos_shape sh ->
  In (i, j) (tri_pairs sh pbc) -> In (j, i) (tri_pairs sh pbc).
Proof.
  intros L Lp P H. destruct (tri_pairs_in_range _ _ _ _ L Lp H) as [Hi Hj].
  apply tri_adjacency_iff; try assumption. apply nn_tri_sym; try (apply unravel_valid; assumption).
  apply tri_adjacency_iff in H; assumption.
Qed.

Theorem tri_adjacency_irreflexive sh pbc i : (length sh <= 2)%nat -> length pbc = length sh -> pos_shape sh ->
  ~ In (i, i) (tri_pairs sh pbc).
Proof.
  intros L Lp P H. destruct (tri_pairs_in_range _ _ _ _ L Lp H) as [Hi _].
  apply tri_adjacency_iff in H; try assumption.
  destruct H as [N | [N _]]; [exact (nn_int_irrefl _ _ _ N) | congruence].
Qed.

(** the code as found: with axis 0 periodic and axis 1 open the chord wraps around the OPEN axis *)
Lemma tri_unrepaired_wraps_open_axis :
  In (0, 8) (tri_pairs_g false [3; 3] [true; false]) /\ ~ In (0, 8) (tri_pairs [3; 3] [true; false]).
Proof. split; [vm_compute; tauto|]. vm_compute. intuition discriminate. Qed.
