(** BrickLattice / HexagonalLattice index maps, every shape, both conventions, delete on/off:
    index -> coordinate -> index is the identity; hexagonal positions decode back to the grid point. *)
From Qib Require Export Lattice.LatBase.
Local Open Scope Z_scope.
Ltac Zify.zify_post_hook ::= Z.to_euclidean_division_equations.

Ltac zb := repeat match goal with
  | H : (_ =? _) = true |- _ => apply Z.eqb_eq in H
  | H : (_ =? _) = false |- _ => apply Z.eqb_neq in H
  | H : (_ <? _) = true |- _ => apply Z.ltb_lt in H
  | H : (_ <? _) = false |- _ => apply Z.ltb_ge in H
  | H : (_ <=? _) = true |- _ => apply Z.leb_le in H
  | H : (_ <=? _) = false |- _ => apply Z.leb_gt in H end.
Ltac noif t := lazymatch t with context [if _ then _ else _] => fail | _ => idtac end.
Ltac atoms := repeat (match goal with
  | |- context [?a =? ?b] => noif a; noif b; destruct (a =? b) eqn:?
  | |- context [?a <? ?b] => noif a; noif b; destruct (a <? b) eqn:?
  | |- context [?a <=? ?b] => noif a; noif b; destruct (a <=? b) eqn:?
  end; cbn [andb orb negb]).

(** position of k = r*q1 + c in a q0 x q1 grid *)
Lemma rc_facts q0 q1 k : 0 < q1 -> 0 <= k < q0 * q1 ->
  let r := k / q1 in let c := k mod q1 in
  0 <= r < q0 /\ 0 <= c < q1 /\ k = r * q1 + c /\
  (r = 0 <-> k < q1) /\ (r = q0 - 1 <-> (q0 - 1) * q1 <= k).
Proof.
  intros Hq Hk. cbv zeta. pose proof (Z.div_mod k q1 ltac:(lia)) as D.
  pose proof (Z.mod_pos_bound k q1 Hq) as M.
  assert (R : 0 <= k / q1 < q0) by (split; [apply Z.div_pos; lia | apply Z.div_lt_upper_bound; lia]).
  set (r := k / q1) in *. set (c := k mod q1) in *. clearbody r c.
  split; [assumption|]. split; [assumption|]. split; [lia|]. split; split; intros; nia.
Qed.

Lemma unravel2 q0 q1 k : unravel [q0; q1] k = [k / q1; k mod q1].
Proof. cbn [unravel zprod]. rewrite Z.mul_1_r, Z.div_1_r. reflexivity. Qed.
Lemma ravel2 q0 q1 r c : ravel [q0; q1] [r; c] = r * q1 + c.
Proof. cbn [ravel zprod]. ring. Qed.
Lemma zprod2 s0 s1 : zprod [s0; s1] = s0 * s1.
Proof. cbn [zprod]. ring. Qed.
Lemma in_box2 q0 q1 r c : 0 <= r < q0 -> 0 <= c < q1 -> in_box [q0; q1] [r; c] = true.
Proof. intros. cbn [in_box]. repeat (apply andb_true_iff; split); lia. Qed.


(** generic skeleton: a q0 x q1 grid with A = (q0-1)*q1, N = A + q1 *)
Ltac grid_setup q0 q1 A :=
  assert (EA : q0 * q1 = (q0 - 1) * q1 + q1) by ring;
  rewrite EA in *; set (A := (q0 - 1) * q1) in *.

Lemma brick_rt_nodel up s0 s1 i : 1 <= s0 -> 1 <= s1 -> 0 <= i < brick_nsites up false s0 s1 ->
  exists r c, brick_index_to_coord up false s0 s1 i = Some [r; c] /\
              brick_coord_to_index up false s0 s1 r c = Some (Some i) /\
              0 <= r < fst (brick_sq up s0 s1) /\ 0 <= c < snd (brick_sq up s0 s1).
Proof.
  intros H0 H1 Hi. unfold brick_index_to_coord, brick_coord_to_index.
  assert (NS : brick_nsites up false s0 s1 = fst (brick_sq up s0 s1) * snd (brick_sq up s0 s1)).
  { unfold brick_nsites, brick_extra, brick_sq. destruct up; cbn [negb andb fst snd]; atoms; zb; nia. }
  assert (Q1 : 0 < snd (brick_sq up s0 s1)) by (unfold brick_sq; destruct up; cbn [snd]; atoms; zb; lia).
  rewrite NS in Hi. destruct (brick_sq up s0 s1) as [q0 q1]. cbn [fst snd] in *.
  destruct (rc_facts q0 q1 i Q1 Hi) as [Br [Bc [Ek _]]].
  exists (i / q1), (i mod q1). unfold np_unravel, np_ravel. rewrite zprod2, unravel2.
  replace ((0 <=? i) && (i <? q0 * q1)) with true by lia. split; [reflexivity|].
  rewrite in_box2 by assumption. rewrite ravel2. cbn [option_map]. split; [|auto]. do 2 f_equal. lia.
Qed.

Lemma brick_rt_up_del s0 s1 i : 1 <= s0 -> 1 <= s1 -> 0 <= i < brick_nsites true true s0 s1 ->
  exists r c, brick_index_to_coord true true s0 s1 i = Some [r; c] /\
              brick_coord_to_index true true s0 s1 r c = Some (Some i) /\
              0 <= r < fst (brick_sq true s0 s1) /\ 0 <= c < snd (brick_sq true s0 s1).
Proof.
  intros H0 H1 Hi. unfold brick_index_to_coord, brick_coord_to_index, brick_shift_i, brick_nsites, brick_extra, brick_sq in *.
  cbn [negb andb] in *.
  replace (i <? 2 * s0 * s1 + 2 * (s0 + s1)) with true by lia.
  destruct (1 <? s1) eqn:E1; zb; cbn [fst snd].
  - set (q0 := 2 * s0 + 2) in *. set (q1 := s1 + 1) in *.
    assert (Q0 : 4 <= q0) by (unfold q0; lia). assert (Q1 : 3 <= q1) by (unfold q1; lia).
    assert (NS : 2 * s0 * s1 + 2 * (s0 + s1) = q0 * q1 - 2) by (unfold q0, q1; ring).
    rewrite NS in Hi. assert (S1 : s1 = q1 - 1) by (unfold q1; lia).
    clearbody q0 q1. clear NS.
    assert (GA : 3 * q1 <= (q0 - 1) * q1) by nia.
    grid_setup q0 q1 A.
    match goal with |- exists r c, np_unravel _ (i + ?s) = _ /\ _ => set (sh := s) end.
    assert (Hk : 0 <= i + sh < A + q1 /\
                 sh = (if (s1 mod 2 =? 0) && (q1 <=? i + sh) then 1 else 0) + (if A <=? i + sh then 1 else 0) /\
                 i + sh <> A /\ (s1 mod 2 = 0 -> i + sh <> q1 - 1) /\ (s1 mod 2 <> 0 -> i + sh <> A + q1 - 1)).
    { unfold sh. clearbody A. atoms; zb; lia. }
    set (k := i + sh) in *. destruct Hk as [Bk [Esh [N1 [N2 N3]]]].
    rewrite <- EA in Bk. destruct (rc_facts q0 q1 k ltac:(lia) Bk) as [Br [Bc [Ek [F0 F1]]]]. fold A in F1.
    exists (k / q1), (k mod q1). unfold np_unravel, np_ravel. rewrite zprod2, unravel2.
    replace ((0 <=? k) && (k <? q0 * q1)) with true by lia. split; [reflexivity|].
    rewrite in_box2 by assumption. rewrite ravel2. split; [|auto].
    set (r := k / q1) in *. set (c := k mod q1) in *. clearbody r c. cbn [option_map].
    clearbody A. revert Esh. atoms; zb; intros Esh; try (exfalso; lia); do 2 f_equal; lia.
  - assert (s1 = 1) by lia. subst s1.
    set (q0 := 2 * s0 + 1) in *.
    exists (i / 2), (i mod 2). unfold np_unravel, np_ravel. rewrite zprod2, unravel2, Z.add_0_r.
    change (1 + 1) with 2.
    replace ((0 <=? i) && (i <? q0 * 2)) with true by (unfold q0; lia). split; [reflexivity|].
    rewrite in_box2, ravel2 by (unfold q0; lia). cbn [option_map]. split; [do 2 f_equal; lia|unfold q0; lia].
Qed.

Lemma brick_rt_left_del s0 s1 i : 1 <= s0 -> 1 <= s1 -> 0 <= i < brick_nsites false true s0 s1 ->
  exists r c, brick_index_to_coord false true s0 s1 i = Some [r; c] /\
              brick_coord_to_index false true s0 s1 r c = Some (Some i) /\
              0 <= r < fst (brick_sq false s0 s1) /\ 0 <= c < snd (brick_sq false s0 s1).
Proof.
  intros H0 H1 Hi. unfold brick_index_to_coord, brick_coord_to_index, brick_shift_i, brick_nsites, brick_extra, brick_sq in *.
  cbn [negb andb] in *.
  replace (i <? 2 * s0 * s1 + 2 * (s0 + s1)) with true by lia.
  destruct (1 <? s0) eqn:E1; zb; cbn [fst snd].
  - set (q0 := s0 + 1) in *. set (q1 := 2 * s1 + 2) in *.
    assert (Q0 : 3 <= q0) by (unfold q0; lia). assert (Q1 : 4 <= q1) by (unfold q1; lia).
    assert (NS : 2 * s0 * s1 + 2 * (s0 + s1) = q0 * q1 - 2) by (unfold q0, q1; ring).
    rewrite NS in Hi. assert (S0 : s0 = q0 - 1) by (unfold q0; lia).
    clearbody q0 q1. clear NS.
    assert (GA : 2 * q1 <= (q0 - 1) * q1) by nia.
    grid_setup q0 q1 A.
    match goal with |- exists r c, np_unravel _ (i + ?s) = _ /\ _ => set (sh := s) end.
    assert (Hk : 0 <= i + sh < A + q1 /\
                 sh = (if q1 <=? i + sh then 1 else 0) + (if (s0 mod 2 =? 0) && (A <=? i + sh) then 1 else 0) /\
                 i + sh <> q1 - 1 /\ (s0 mod 2 = 0 -> i + sh <> A) /\ (s0 mod 2 <> 0 -> i + sh <> A + q1 - 1)).
    { unfold sh. clearbody A. atoms; zb; lia. }
    set (k := i + sh) in *. destruct Hk as [Bk [Esh [N1 [N2 N3]]]].
    rewrite <- EA in Bk. destruct (rc_facts q0 q1 k ltac:(lia) Bk) as [Br [Bc [Ek [F0 F1]]]]. fold A in F1.
    exists (k / q1), (k mod q1). unfold np_unravel, np_ravel. rewrite zprod2, unravel2.
    replace ((0 <=? k) && (k <? q0 * q1)) with true by lia. split; [reflexivity|].
    rewrite in_box2 by assumption. rewrite ravel2. split; [|auto].
    set (r := k / q1) in *. set (c := k mod q1) in *. clearbody r c. cbn [option_map].
    clearbody A. revert Esh. atoms; zb; intros Esh; try (exfalso; lia); do 2 f_equal; lia.
  - assert (s0 = 1) by lia. subst s0.
    set (q1 := 2 * s1 + 1) in *.
    assert (Q1 : 0 < q1) by (unfold q1; lia).
    assert (Bi : 0 <= i < (1 + 1) * q1) by (unfold q1; lia).
    destruct (rc_facts (1 + 1) q1 i Q1 Bi) as [Br [Bc [Ek _]]].
    exists (i / q1), (i mod q1). unfold np_unravel, np_ravel. rewrite zprod2, unravel2, Z.add_0_r.
    replace ((0 <=? i) && (i <? (1 + 1) * q1)) with true by lia. split; [reflexivity|].
    rewrite in_box2, ravel2 by assumption. cbn [option_map]. split; [do 2 f_equal; lia|auto].
Qed.

Theorem brick_roundtrip up del s0 s1 i : 1 <= s0 -> 1 <= s1 -> 0 <= i < brick_nsites up del s0 s1 ->
  exists r c, brick_index_to_coord up del s0 s1 i = Some [r; c] /\
              brick_coord_to_index up del s0 s1 r c = Some (Some i) /\
              0 <= r < fst (brick_sq up s0 s1) /\ 0 <= c < snd (brick_sq up s0 s1).
Proof.
  destruct del; [destruct up|]; [apply brick_rt_up_del | apply brick_rt_left_del | apply brick_rt_nodel].
Qed.

Theorem brick_coord_injective up del s0 s1 i j p : 1 <= s0 -> 1 <= s1 ->
  0 <= i < brick_nsites up del s0 s1 -> 0 <= j < brick_nsites up del s0 s1 ->
  brick_index_to_coord up del s0 s1 i = Some p -> brick_index_to_coord up del s0 s1 j = Some p -> i = j.
Proof.
  intros H0 H1 Hi Hj Ei Ej.
  destruct (brick_roundtrip up del s0 s1 i H0 H1 Hi) as [r [c [E1 [E2 _]]]].
  destruct (brick_roundtrip up del s0 s1 j H0 H1 Hj) as [r' [c' [E3 [E4 _]]]].
  rewrite E1 in Ei. rewrite E3 in Ej. assert (E : [r; c] = [r'; c']) by congruence. injection E as -> ->. congruence.
Qed.

(** * hexagonal positions *)
Lemma hex_unlong_long a b : hex_unlong a (hex_long a b) = Some b.
Proof.
  unfold hex_unlong, hex_long. destruct (a mod 2 =? 0) eqn:E.
  - replace ((1 + 2 * ((b + 1) / 2) + 4 * (b / 2) - 1) mod 2 =? 0) with true by lia. f_equal. lia.
  - replace ((2 * (b / 2) + 4 * ((b + 1) / 2)) mod 2 =? 0) with true by lia. f_equal. lia.
Qed.

Theorem hex_roundtrip up s0 s1 i : 1 <= s0 -> 1 <= s1 -> 0 <= i < hex_nsites s0 s1 ->
  exists a b, hex_index_to_coord up s0 s1 i = Some [a; b] /\ hex_coord_to_index up s0 s1 a b = Some (Some i).
Proof.
  intros H0 H1 Hi.
  assert (Hi' : 0 <= i < brick_nsites up true s0 s1) by (unfold brick_nsites, hex_nsites in *; cbn [negb andb]; lia).
  destruct (brick_roundtrip up true s0 s1 i H0 H1 Hi') as [r [c [E1 [E2 _]]]].
  unfold hex_index_to_coord, hex_coord_to_index. rewrite E1. unfold hex_pos. destruct up.
  - exists r, (hex_long r c). split; [reflexivity|]. rewrite hex_unlong_long. exact E2.
  - exists (hex_long c r), c. split; [reflexivity|]. rewrite hex_unlong_long. exact E2.
Qed.

Theorem hex_coord_injective up s0 s1 i j p : 1 <= s0 -> 1 <= s1 ->
  0 <= i < hex_nsites s0 s1 -> 0 <= j < hex_nsites s0 s1 ->
  hex_index_to_coord up s0 s1 i = Some p -> hex_index_to_coord up s0 s1 j = Some p -> i = j.
Proof.
  intros H0 H1 Hi Hj Ei Ej.
  destruct (hex_roundtrip up s0 s1 i H0 H1 Hi) as [a [b [E1 E2]]].
  destruct (hex_roundtrip up s0 s1 j H0 H1 Hj) as [a' [b' [E3 E4]]].
  rewrite E1 in Ei. rewrite E3 in Ej. assert (E : [a; b] = [a'; b']) by congruence. injection E as -> ->. congruence.
Qed.
