(** Case type and checker for the C14 correspondence run (evaluated with vm_compute).
    Every case carries what the implementation returned; [check] recomputes it with the model. *)
From Qib Require Export Lattice.LatModel.
Local Open Scope Z_scope.

Inductive lcase :=
| CNs (L : latt) (n : Z)                                   (* .nsites *)
| CAdj (L : latt) (r : option (Z * list (list Z)))           (* adjacency: size, neighbour lists per row; None = constructor raises *)
| CI2C (L : latt) (tab : list (Z * option coord))            (* index_to_coord on a list of indices; None = raises *)
| CC2I (L : latt) (tab : list (coord * option (option Z)))   (* coord_to_index; Some None = returns None *)
| CEdge (s0 s1 : Z) (tab : list ((Z * Z * Z * Z) * option Z)). (* edge_to_odd_face_index *)

Fixpoint upd_row (i : nat) (j : Z) (rows : list (list Z)) : list (list Z) :=
  match i, rows with
  | O, r :: t => (j :: r) :: t
  | S i', r :: t => r :: upd_row i' j t
  | _, [] => []
  end.

Definition pair_in_range (n : Z) (p : ipair) : bool :=
  (0 <=? fst p) && (fst p <? n) && (0 <=? snd p) && (snd p <? n).

(** neighbour lists of the matrix; [None] if a pair lies outside n x n (numpy would raise or wrap) *)
Definition rows_of (a : amat) : option (list (list Z)) :=
  let '(n, ps) := a in
  if (0 <=? n) && forallb (pair_in_range n) ps then
    Some (fold_left (fun rows p => upd_row (Z.to_nat (fst p)) (snd p) rows) ps (repeat [] (Z.to_nat n)))
  else None.

Definition subset (a b : list Z) : bool := forallb (fun x => existsb (Z.eqb x) b) a.
Fixpoint rows_eqb (r1 r2 : list (list Z)) : bool :=
  match r1, r2 with
  | [], [] => true
  | a :: r1', b :: r2' => subset a b && subset b a && rows_eqb r1' r2'
  | _, _ => false
  end.

Definition opt_eqb {A} (eqb : A -> A -> bool) (a b : option A) : bool :=
  match a, b with
  | Some x, Some y => eqb x y
  | None, None => true
  | _, _ => false
  end.

Definition check (c : lcase) : bool :=
  match c with
  | CNs L n => nsites L =? n
  | CAdj L r =>
      match adjacency L, r with
      | None, None => true
      | Some a, Some (n, rows) =>
          (fst a =? n) && (nsites L =? n) &&
          match rows_of a with
          | Some rows' => rows_eqb rows' rows
          | None => false
          end
      | _, _ => false
      end
  | CI2C L tab => forallb (fun e => opt_eqb coord_eqb (index_to_coord L (fst e)) (snd e)) tab
  | CC2I L tab => forallb (fun e => opt_eqb (opt_eqb Z.eqb) (coord_to_index L (fst e)) (snd e)) tab
  | CEdge s0 s1 tab =>
      forallb (fun e => let '(ix, iy, jx, jy) := fst e in
                        opt_eqb Z.eqb (ofc_edge_to_face s0 s1 ix iy jx jy) (snd e)) tab
  end.

Definition bad_cases (cs : list (nat * lcase)) : list nat :=
  map fst (filter (fun c => negb (check (snd c))) cs).
