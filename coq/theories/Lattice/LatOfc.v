(** OddFaceCenteredLattice, every shape: face-centre index maps are inverse, the running counter of
    the face loop is the closed-form face index, and the adjacency is: unit steps between vertices
    (wrapping on periodic axes) plus every face centre with its four corners. *)
From Qib Require Export Lattice.LatInt.
Local Open Scope Z_scope.
Ltac Zify.zify_post_hook ::= Z.to_euclidean_division_equations.

(** * arithmetic of the face numbering (w = shape[1] - 1 faces per row) *)
Definition fS (w x : Z) := (x * w + 1) / 2.           (* odd faces in rows < x *)
Definition rowcnt (x m : Z) := (m + 1 - x mod 2) / 2.   (* odd faces (x,y') with y' < m *)

Lemma parity_cases x : (exists k, x = 2 * k) \/ (exists k, x = 2 * k + 1).
Proof.
  destruct (Z.even x) eqn:E.
  - left. apply Z.even_spec in E. destruct E as [k ->]. exists k; ring.
  - right. assert (O : Z.odd x = true) by (rewrite <- Z.negb_even, E; reflexivity).
    apply Z.odd_spec in O. destruct O as [k ->]. exists k; ring.
Qed.

Lemma fS_succ w x : fS w (x + 1) = fS w x + rowcnt x w.
Proof.
  unfold fS, rowcnt.
  destruct (parity_cases x) as [[k ->]|[k ->]].
  - replace ((2 * k + 1) * w) with (2 * (k * w) + w) by ring. replace (2 * k * w) with (2 * (k * w)) by ring.
    set (p := k * w). clearbody p. lia.
  - replace ((2 * k + 1 + 1) * w) with (2 * (k * w) + 2 * w) by ring. replace ((2 * k + 1) * w) with (2 * (k * w) + w) by ring.
    set (p := k * w). clearbody p. lia.
Qed.

Lemma rowcnt_succ x m : rowcnt x (m + 1) = rowcnt x m + (if (x + m) mod 2 =? 1 then 0 else 1).
Proof. unfold rowcnt. destruct ((x + m) mod 2 =? 1) eqn:E; [apply Z.eqb_eq in E|apply Z.eqb_neq in E]; lia. Qed.

Lemma rowcnt_even x y : (x + y) mod 2 = 0 -> rowcnt x y = y / 2.
Proof. unfold rowcnt. lia. Qed.

(** face (x,y) -> index -> (x,y) *)
Lemma face_xy_of_index w x y : 1 <= w -> 0 <= x -> 0 <= y < w -> (x + y) mod 2 = 0 ->
  let k := fS w x + y / 2 in
  2 * k / w = x /\ 2 * (k - (x * w + 1) / 2) + x mod 2 = y.
Proof.
  intros Hw Hx Hy P. cbv zeta. unfold fS.
  assert (E : 2 * ((x * w + 1) / 2 + y / 2) / w = x).
  { symmetry.
    destruct (parity_cases x) as [[k ->]|[k ->]].
    - replace (2 * k * w) with (2 * (k * w)) by ring.
      apply (Z.div_unique_pos _ _ _ (2 * ((2 * (k * w) + 1) / 2 + y / 2) - w * (2 * k))); [|ring].
      set (p := k * w). replace (w * (2 * k)) with (2 * p) by (unfold p; ring). clearbody p. lia.
    - replace ((2 * k + 1) * w) with (2 * (k * w) + w) by ring.
      apply (Z.div_unique_pos _ _ _ (2 * ((2 * (k * w) + w + 1) / 2 + y / 2) - w * (2 * k + 1))); [|ring].
      set (p := k * w). replace (w * (2 * k + 1)) with (2 * p + w) by (unfold p; ring). clearbody p. lia. }
  split; [exact E|].
  destruct (parity_cases x) as [[k ->]|[k ->]].
  - replace (2 * k * w) with (2 * (k * w)) by ring. set (p := k * w). clearbody p. lia.
  - replace ((2 * k + 1) * w) with (2 * (k * w) + w) by ring. set (p := k * w). clearbody p. lia.
Qed.

(** index -> face (x,y) -> index, with the face inside the rectangle *)
Lemma face_index_of_xy a w k : 1 <= w -> 0 <= a -> 0 <= k < (a * w + 1) / 2 ->
  let x := 2 * k / w in
  let y := 2 * (k - (x * w + 1) / 2) + x mod 2 in
  0 <= x < a /\ 0 <= y < w /\ (x + y) mod 2 = 0 /\ fS w x + y / 2 = k.
Proof.
  intros Hw Ha Hk. cbv zeta. unfold fS.
  set (x := 2 * k / w).
  assert (Hx : x * w <= 2 * k < x * w + w) by (unfold x; nia).
  assert (Hx0 : 0 <= x) by (unfold x; apply Z.div_pos; lia).
  assert (Hxa : x < a).
  { assert (2 * k < a * w) by lia. nia. }
  clearbody x.
  destruct (parity_cases x) as [[j ->]|[j ->]].
  - replace (2 * j * w) with (2 * (j * w)) in * by ring.
    set (p := j * w) in *. clearbody p. lia.
  - replace ((2 * j + 1) * w) with (2 * (j * w) + w) in * by ring.
    set (p := j * w) in *. clearbody p. lia.
Qed.

(** * index maps *)
Lemma zprod2 s0 s1 : zprod [s0; s1] = s0 * s1.
Proof. cbn [zprod]. ring. Qed.

Lemma even_double_list u : forallb Z.even (map (Z.mul 2) u) = true.
Proof. induction u as [|x u IH]; cbn [map forallb]; [reflexivity|]. rewrite IH, Z.even_mul. reflexivity. Qed.

Lemma halve_double_list u : map (fun v => v / 2) (map (Z.mul 2) u) = u.
Proof.
  induction u as [|x u IH]; cbn [map]; [reflexivity|]. rewrite IH. f_equal.
  rewrite Z.mul_comm. apply Z.div_mul. lia.
Qed.

Lemma even_odd1 x : Z.even (2 * x + 1) = false.
Proof. rewrite Z.add_comm, Z.even_add_mul_2. reflexivity. Qed.
Lemma odd_odd1 x : Z.odd (2 * x + 1) = true.
Proof. rewrite <- Z.negb_even, even_odd1. reflexivity. Qed.

Lemma pos_shape2 s0 s1 : 1 <= s0 -> 1 <= s1 -> pos_shape [s0; s1].
Proof. intros. repeat constructor; lia. Qed.

(** what index_to_coord returns: a doubled vertex or a doubled face centre inside the rectangle *)
Lemma ofc_i2c_cases s0 s1 i c : 1 <= s0 -> 1 <= s1 -> 0 <= i < ofc_nsites s0 s1 ->
  ofc_index_to_coord s0 s1 i = Some c ->
  (i < s0 * s1 /\ c = map (Z.mul 2) (unravel [s0; s1] i)) \/
  (s0 * s1 <= i /\ exists x y, c = [2 * x + 1; 2 * y + 1] /\ 0 <= x < s0 - 1 /\ 0 <= y < s1 - 1 /\
      (x + y) mod 2 = 0 /\ i = s0 * s1 + fS (s1 - 1) x + y / 2).
Proof.
  intros H0 H1 Hi. unfold ofc_index_to_coord, np_unravel, ofc_nsites in *. rewrite zprod2.
  destruct (i <? s0 * s1) eqn:E.
  - apply Z.ltb_lt in E. replace (0 <=? i) with true by lia. replace (i <? s0 * s1) with true by lia.
    cbn [andb option_map]. intros [= <-]. left. auto.
  - apply Z.ltb_ge in E. intros [= <-]. right. split; [assumption|].
    set (k := i - s0 * s1).
    assert (Hk : 0 <= k < ((s0 - 1) * (s1 - 1) + 1) / 2) by (unfold k; lia).
    assert (Hw : 1 <= s1 - 1).
    { destruct (Z.eq_dec s1 1) as [->|]; [|lia]. replace ((s0 - 1) * (1 - 1) + 1) with 1 in Hk by ring.
      change (1 / 2) with 0 in Hk. lia. }
    destruct (face_index_of_xy (s0 - 1) (s1 - 1) k Hw ltac:(lia) Hk) as [Bx [By [P Ek]]].
    unfold ofc_face_y, ofc_face_x. exists (2 * k / (s1 - 1)). eexists. split; [reflexivity|].
    split; [assumption|]. split; [exact By|]. split; [exact P|]. unfold k in Ek |- *. lia.
Qed.

Theorem ofc_roundtrip s0 s1 i : 1 <= s0 -> 1 <= s1 -> 0 <= i < ofc_nsites s0 s1 ->
  exists c, ofc_index_to_coord s0 s1 i = Some c /\ ofc_coord_to_index s0 s1 c = Some i.
Proof.
  intros H0 H1 Hi.
  assert (D : exists c, ofc_index_to_coord s0 s1 i = Some c).
  { unfold ofc_index_to_coord, np_unravel. rewrite zprod2. destruct (i <? s0 * s1) eqn:E; [|eauto].
    apply Z.ltb_lt in E. replace (0 <=? i) with true by lia. cbn [andb option_map]. eauto. }
  destruct D as [c Ec]. exists c. split; [assumption|].
  destruct (ofc_i2c_cases _ _ _ _ H0 H1 Hi Ec) as [[Lt ->] | [Ge [x [y [-> [Bx [By [P Ei]]]]]]]].
  - unfold ofc_coord_to_index. rewrite even_double_list, halve_double_list.
    unfold np_ravel.
    assert (V : valid [s0; s1] (unravel [s0; s1] i)).
    { apply unravel_valid; [apply pos_shape2; assumption|]. rewrite zprod2. lia. }
    rewrite (proj2 (in_box_valid _ _) V). rewrite ravel_unravel; [reflexivity|apply pos_shape2; assumption|].
    rewrite zprod2. lia.
  - unfold ofc_coord_to_index. cbn [forallb]. rewrite even_odd1. cbn [andb]. rewrite !odd_odd1. cbn [andb].
    replace ((2 * x + 1 - 1) / 2) with x by lia. replace ((2 * y + 1 - 1) / 2) with y by lia.
    unfold ofc_face_to_index. replace ((x + y) mod 2 =? 1) with false by lia.
    replace ((x <? 0) || (y <? 0) || (s0 - 1 <=? x) || (s1 - 1 <=? y)) with false by lia.
    f_equal. unfold fS in Ei. lia.
Qed.

Theorem ofc_coord_injective s0 s1 i j c : 1 <= s0 -> 1 <= s1 ->
  0 <= i < ofc_nsites s0 s1 -> 0 <= j < ofc_nsites s0 s1 ->
  ofc_index_to_coord s0 s1 i = Some c -> ofc_index_to_coord s0 s1 j = Some c -> i = j.
Proof.
  intros H0 H1 Hi Hj Ei Ej.
  destruct (ofc_roundtrip s0 s1 i H0 H1 Hi) as [ci [E1 E2]].
  destruct (ofc_roundtrip s0 s1 j H0 H1 Hj) as [cj [E3 E4]].
  congruence.
Qed.

(** * the face loop: its running counter is the closed-form face index *)
Lemma zrange_succ n : 0 <= n -> zrange (n + 1) = zrange n ++ [n].
Proof.
  intros H. unfold zrange. replace (Z.to_nat (n + 1)) with (S (Z.to_nat n)) by lia.
  rewrite seq_S, map_app. cbn [map Nat.add]. f_equal. f_equal. lia.
Qed.

Lemma zrange_0 : zrange 0 = [].
Proof. reflexivity. Qed.

Definition row_list (x m : Z) : list coord := map (fun y => [x; y]) (zrange m).
Definition face_out (s1 c0 x y : Z) : list ipair :=
  if (x + y) mod 2 =? 1 then [] else ofc_face_links s1 (c0 + rowcnt x y) x y.

Lemma row_fold s1 x c0 acc m : 0 <= m ->
  fold_left (ofc_face_step s1) (row_list x m) (c0, acc) =
  (c0 + rowcnt x m, acc ++ flat_map (face_out s1 c0 x) (zrange m)).
Proof.
  intros Hm. pattern m. apply natlike_ind; [| |assumption].
  - unfold row_list. rewrite zrange_0. cbn [map fold_left flat_map]. rewrite app_nil_r.
    f_equal. unfold rowcnt. lia.
  - intros n Hn IH. cbv beta in IH |- *. unfold row_list in *. rewrite <- Z.add_1_r, zrange_succ by assumption.
    rewrite map_app, fold_left_app.
    match goal with |- fold_left ?f ?l ?st = _ => replace st with (c0 + rowcnt x n, acc ++ flat_map (face_out s1 c0 x) (zrange n)) by (symmetry; exact IH) end.
    cbn [map fold_left].
    rewrite flat_map_app. cbn [flat_map]. rewrite app_nil_r.
    unfold ofc_face_step at 1. cbn [nth fst snd].
    assert (F : face_out s1 c0 x n = if (x + n) mod 2 =? 1 then [] else ofc_face_links s1 (c0 + rowcnt x n) x n) by reflexivity.
    rewrite F, rowcnt_succ. destruct ((x + n) mod 2 =? 1).
    + rewrite app_nil_r. f_equal. lia.
    + rewrite app_assoc. f_equal. lia.
Qed.

Lemma flat_map_singletons (l : list Z) : flat_map (fun y => map (cons y) [[]]) l = map (fun y => [y]) l.
Proof. induction l as [|y l IH]; [reflexivity|]. cbn [flat_map]. rewrite IH. reflexivity. Qed.

Lemma all_coords_1 w : all_coords [w] = map (fun y => [y]) (zrange w).
Proof. cbn [all_coords]. apply flat_map_singletons. Qed.

Lemma all_coords_2 a w : all_coords [a; w] = flat_map (fun x => row_list x w) (zrange a).
Proof.
  change (all_coords [a; w]) with (flat_map (fun x => map (cons x) (all_coords [w])) (zrange a)).
  rewrite all_coords_1. apply flat_map_ext. intros x. unfold row_list. rewrite map_map. reflexivity.
Qed.

Lemma rows_fold s1 w c0 acc a : 0 <= w -> 0 <= a ->
  fold_left (ofc_face_step s1) (flat_map (fun x => row_list x w) (zrange a)) (c0, acc) =
  (c0 + fS w a, acc ++ flat_map (fun x => flat_map (face_out s1 (c0 + fS w x) x) (zrange w)) (zrange a)).
Proof.
  intros Hw Ha. pattern a. apply natlike_ind; [| |assumption].
  - rewrite zrange_0. cbn [flat_map fold_left]. rewrite app_nil_r. f_equal. unfold fS. lia.
  - intros n Hn IH. cbv beta in IH |- *. rewrite <- Z.add_1_r, zrange_succ by assumption.
    rewrite !flat_map_app, fold_left_app, IH. cbn [flat_map]. rewrite !app_nil_r.
    rewrite row_fold by assumption. rewrite fS_succ. f_equal; [lia|]. rewrite app_assoc. reflexivity.
Qed.

Lemma in_face_links s1 i x y a b :
  In (a, b) (ofc_face_links s1 i x y) <->
  exists vx vy, (vx = x \/ vx = x + 1) /\ (vy = y \/ vy = y + 1) /\
                ((a, b) = (i, vx * s1 + vy) \/ (a, b) = (vx * s1 + vy, i)).
Proof.
  unfold ofc_face_links, ofc_corners. cbn [flat_map app In]. split.
  - intros [H|[H|[H|[H|[H|[H|[H|[H|[]]]]]]]]]; injection H as <- <-.
    + exists x, y. auto. + exists x, y. auto.
    + exists x, (y + 1). auto. + exists x, (y + 1). auto.
    + exists (x + 1), y. auto. + exists (x + 1), y. auto.
    + exists (x + 1), (y + 1). auto. + exists (x + 1), (y + 1). auto.
  - intros [vx [vy [[->| ->] [[->| ->] [H|H]]]]]; injection H as -> ->; tauto.
Qed.

(** the links written by the face loop *)
Theorem in_ofc_face_loop s0 s1 a b : 1 <= s0 -> 1 <= s1 ->
  In (a, b) (snd (ofc_face_loop s0 s1)) <->
  exists x y vx vy, 0 <= x < s0 - 1 /\ 0 <= y < s1 - 1 /\ (x + y) mod 2 = 0 /\
    (vx = x \/ vx = x + 1) /\ (vy = y \/ vy = y + 1) /\
    let f := s0 * s1 + fS (s1 - 1) x + y / 2 in
    ((a, b) = (f, vx * s1 + vy) \/ (a, b) = (vx * s1 + vy, f)).
Proof.
  intros H0 H1. unfold ofc_face_loop, ofc_nverts. rewrite all_coords_2, rows_fold by lia.
  cbn [snd app]. rewrite in_flat_map. split.
  - intros [x [Hx H]]. apply in_flat_map in H as [y [Hy H]]. apply in_zrange in Hx, Hy.
    unfold face_out in H. destruct ((x + y) mod 2 =? 1) eqn:E; [destruct H|]. apply Z.eqb_neq in E.
    assert (P : (x + y) mod 2 = 0) by lia.
    apply in_face_links in H as [vx [vy [Hvx [Hvy H]]]]. rewrite (rowcnt_even _ _ P) in H.
    exists x, y, vx, vy. auto 10.
  - intros [x [y [vx [vy [Hx [Hy [P [Hvx [Hvy H]]]]]]]]]. exists x. split; [apply in_zrange, Hx|].
    apply in_flat_map. exists y. split; [apply in_zrange, Hy|]. unfold face_out.
    replace ((x + y) mod 2 =? 1) with false by lia. apply in_face_links. exists vx, vy.
    rewrite (rowcnt_even _ _ P). auto.
Qed.

(** * adjacency *)
(** without the [i != j] guard nothing changes as long as every periodic axis has extent >= 2
    (the constructor demands even extents on periodic axes) *)
Lemma mod_shift_ne n x s : 2 <= n -> 0 <= x < n -> (s = -1 \/ s = 1) -> (x - s) mod n <> x.
Proof.
  intros Hn Hx [-> | ->].
  - destruct (Z.eq_dec x (n - 1)) as [->|N].
    + replace (n - 1 - -1) with (1 * n) by ring. rewrite Z.mod_mul; lia.
    + rewrite Z.mod_small; lia.
  - destruct (Z.eq_dec x 0) as [->|N].
    + replace (0 - 1) with (n - 1 + (-1) * n) by ring. rewrite Z.mod_add by lia. rewrite Z.mod_small; lia.
    + rewrite Z.mod_small; lia.
Qed.

Lemma int_pairs_unguarded sh pbc i j :
  (forall d, (d < length sh)%nat -> nth d pbc false = true -> 2 <= nth d sh 0) ->
  (In (i, j) (int_pairs_g false sh pbc) <-> In (i, j) (int_pairs sh pbc)).
Proof.
  intros Hp. unfold int_pairs. rewrite !in_int_pairs_g. split.
  - intros [d [s [Hd [Hs [H _]]]]]. exists d, s. split; [assumption|]. split; [assumption|]. split; [assumption|].
    intros P _ E. apply in_axis_pairs in H as [c [V [K [E1 E2]]]].
    assert (c = roll1 sh d s c).
    { apply (ravel_inj sh); [assumption|apply roll1_valid; assumption|congruence]. }
    pose proof (valid_length _ _ V) as L.
    assert (N : nth d c 0 = nth d (roll1 sh d s c) 0) by congruence.
    rewrite roll1_nth_eq in N by lia. pose proof (valid_nth _ _ V d Hd).
    symmetry in N. revert N. apply mod_shift_ne; auto.
  - intros [d [s [Hd [Hs [H _]]]]]. exists d, s. split; [assumption|]. split; [assumption|]. split; [assumption|].
    intros _ ?. discriminate.
Qed.

(** geometric relation on DOUBLED coordinates: vertices have even entries, face centres odd ones *)
Definition is_vertex (c : coord) : Prop := forallb Z.even c = true.
Definition halves (c : coord) : coord := map (fun v => v / 2) c.

Definition nn_ofc (s0 s1 : Z) (p0 p1 : bool) (c c' : coord) : Prop :=
  (is_vertex c /\ is_vertex c' /\ nn_int [s0; s1] [p0; p1] (halves c) (halves c')) \/
  (exists x y vx vy, (vx = x \/ vx = x + 1) /\ (vy = y \/ vy = y + 1) /\
     ((c = [2 * x + 1; 2 * y + 1] /\ c' = [2 * vx; 2 * vy]) \/
      (c' = [2 * x + 1; 2 * y + 1] /\ c = [2 * vx; 2 * vy]))).

Lemma nn_ofc_sym s0 s1 p0 p1 c c' : nn_ofc s0 s1 p0 p1 c c' -> nn_ofc s0 s1 p0 p1 c' c.
Proof.
  intros [[V [V' N]] | [x [y [vx [vy [Hx [Hy H]]]]]]].
  - left. auto using nn_int_sym.
  - right. exists x, y, vx, vy. tauto.
Qed.

Lemma ofc_periodic_even s0 s1 p0 p1 : 1 <= s0 -> 1 <= s1 -> ofc_ctor_ok s0 s1 p0 p1 = true ->
  forall d, (d < length [s0; s1])%nat -> nth d [p0; p1] false = true -> 2 <= nth d [s0; s1] 0.
Proof.
  intros H0 H1 C d Hd P. unfold ofc_ctor_ok in C. apply andb_true_iff in C as [C0 C1].
  destruct d as [|[|d]]; cbn [nth length] in *; [| |lia]; subst.
  - rewrite andb_true_r in C0. apply negb_true_iff, Z.eqb_neq in C0. lia.
  - rewrite andb_true_r in C1. apply negb_true_iff, Z.eqb_neq in C1. lia.
Qed.

Lemma pair_list_inj (a b c d : Z) : [a; b] = [c; d] -> a = c /\ b = d.
Proof. intros H; split; congruence. Qed.

Lemma vertex_not_face x y : ~ is_vertex [2 * x + 1; y].
Proof. unfold is_vertex. cbn [forallb]. rewrite even_odd1. discriminate. Qed.

Lemma unravel2_of s0 s1 vx vy : 0 <= vx < s0 -> 0 <= vy < s1 -> unravel [s0; s1] (vx * s1 + vy) = [vx; vy].
Proof.
  intros Hx Hy. assert (V : valid [s0; s1] [vx; vy]) by (repeat constructor; lia).
  rewrite <- (unravel_ravel _ _ V). f_equal. cbn [ravel zprod]. ring.
Qed.

Theorem ofc_adjacency_iff s0 s1 p0 p1 i j c c' :
  1 <= s0 -> 1 <= s1 -> ofc_ctor_ok s0 s1 p0 p1 = true ->
  0 <= i < ofc_nsites s0 s1 -> 0 <= j < ofc_nsites s0 s1 ->
  ofc_index_to_coord s0 s1 i = Some c -> ofc_index_to_coord s0 s1 j = Some c' ->
  (In (i, j) (ofc_pairs s0 s1 p0 p1) <-> nn_ofc s0 s1 p0 p1 c c').
Proof.
  intros H0 H1 C Hi Hj Ei Ej.
  pose proof (pos_shape2 s0 s1 H0 H1) as PS.
  pose proof (ofc_periodic_even s0 s1 p0 p1 H0 H1 C) as PE.
  unfold ofc_pairs. rewrite in_app_iff, (int_pairs_unguarded _ _ _ _ PE), (in_ofc_face_loop _ _ _ _ H0 H1).
  destruct (ofc_i2c_cases _ _ _ _ H0 H1 Hi Ei) as [[Li ->] | [Gi [x [y [-> [Bx [By [P Fi]]]]]]]];
  destruct (ofc_i2c_cases _ _ _ _ H0 H1 Hj Ej) as [[Lj ->] | [Gj [x' [y' [-> [Bx' [By' [P' Fj]]]]]]]].
  - (* vertex, vertex *)
    split.
    + intros [H | [a [b [vx [vy [Ba [Bb [Pa [Hvx [Hvy [H|H]]]]]]]]]]].
      * left. split; [apply even_double_list|]. split; [apply even_double_list|].
        unfold halves. rewrite !halve_double_list. apply int_adjacency_iff; try assumption; rewrite zprod2; lia.
      * exfalso. injection H as E1 E2. unfold fS in E1. assert (0 <= (a * (s1 - 1) + 1) / 2) by (apply Z.div_pos; nia).
        assert (0 <= b / 2) by (apply Z.div_pos; lia). lia.
      * exfalso. injection H as E1 E2. unfold fS in E2. assert (0 <= (a * (s1 - 1) + 1) / 2) by (apply Z.div_pos; nia).
        assert (0 <= b / 2) by (apply Z.div_pos; lia). lia.
    + intros [[_ [_ N]] | [a [b [vx [vy [_ [_ [[E _]|[E _]]]]]]]]].
      * left. unfold halves in N. rewrite !halve_double_list in N.
        apply int_adjacency_iff in N; try assumption; rewrite zprod2; lia.
      * exfalso. apply (vertex_not_face a (2 * b + 1)). rewrite <- E. apply even_double_list.
      * exfalso. apply (vertex_not_face a (2 * b + 1)). rewrite <- E. apply even_double_list.
  - (* vertex i, face j *)
    split.
    + intros [H | [a [b [vx [vy [Ba [Bb [Pa [Hvx [Hvy [H|H]]]]]]]]]]].
      * exfalso. apply (int_pairs_in_range true) in H. rewrite zprod2 in H. lia.
      * exfalso. injection H as E1 E2. unfold fS in E1. assert (0 <= (a * (s1 - 1) + 1) / 2) by (apply Z.div_pos; nia).
        assert (0 <= b / 2) by (apply Z.div_pos; lia). lia.
      * injection H as E1 E2.
        assert (Hw : 1 <= s1 - 1) by lia.
        destruct (face_xy_of_index (s1 - 1) a b Hw ltac:(lia) Bb Pa) as [Q1 Q2].
        destruct (face_xy_of_index (s1 - 1) x' y' Hw ltac:(lia) By' P') as [Q3 Q4].
        assert (EK : fS (s1 - 1) a + b / 2 = fS (s1 - 1) x' + y' / 2) by lia.
        assert (Ea : a = x') by (rewrite <- Q1, EK; exact Q3).
        assert (Eb : b = y') by (rewrite <- Q2, <- Q4, EK, Ea; reflexivity).
        clear Q1 Q2 Q3 Q4 EK. subst a b.
        right. exists x', y', vx, vy. split; [assumption|]. split; [assumption|]. right. split; [reflexivity|].
        rewrite E1. rewrite unravel2_of by lia. reflexivity.
    + intros [[_ [V _]] | [a [b [vx [vy [Hvx [Hvy [[E _]|[E1 E2]]]]]]]]].
      * exfalso. exact (vertex_not_face _ _ V).
      * exfalso. apply (vertex_not_face a (2 * b + 1)). rewrite <- E. apply even_double_list.
      * apply pair_list_inj in E1 as [Ea Eb]. assert (a = x') by lia. assert (b = y') by lia. subst a b.
        right. exists x', y', vx, vy. split; [assumption|]. split; [assumption|]. split; [assumption|].
        split; [assumption|]. split; [assumption|]. cbv zeta. right. f_equal; [|lia].
        assert (V : valid [s0; s1] (unravel [s0; s1] i)) by (apply unravel_valid; [assumption|rewrite zprod2; lia]).
        rewrite <- (ravel_unravel [s0; s1] i) by (try assumption; rewrite zprod2; lia).
        assert (U : unravel [s0; s1] i = [vx; vy]).
        { rewrite <- (halve_double_list (unravel [s0; s1] i)), E2. cbn [map]. f_equal; [|f_equal]; lia. }
        rewrite U. cbn [ravel zprod]. ring.
  - (* face i, vertex j *)
    split.
    + intros [H | [a [b [vx [vy [Ba [Bb [Pa [Hvx [Hvy [H|H]]]]]]]]]]].
      * exfalso. apply (int_pairs_in_range true) in H. rewrite zprod2 in H. lia.
      * injection H as E1 E2.
        assert (Hw : 1 <= s1 - 1) by lia.
        destruct (face_xy_of_index (s1 - 1) a b Hw ltac:(lia) Bb Pa) as [Q1 Q2].
        destruct (face_xy_of_index (s1 - 1) x y Hw ltac:(lia) By P) as [Q3 Q4].
        assert (EK : fS (s1 - 1) a + b / 2 = fS (s1 - 1) x + y / 2) by lia.
        assert (Ea : a = x) by (rewrite <- Q1, EK; exact Q3).
        assert (Eb : b = y) by (rewrite <- Q2, <- Q4, EK, Ea; reflexivity).
        clear Q1 Q2 Q3 Q4 EK. subst a b.
        right. exists x, y, vx, vy. split; [assumption|]. split; [assumption|]. left. split; [reflexivity|].
        rewrite E2. rewrite unravel2_of by lia. reflexivity.
      * exfalso. injection H as E1 E2. unfold fS in E2. assert (0 <= (a * (s1 - 1) + 1) / 2) by (apply Z.div_pos; nia).
        assert (0 <= b / 2) by (apply Z.div_pos; lia). lia.
    + intros [[V _] | [a [b [vx [vy [Hvx [Hvy [[E1 E2]|[E _]]]]]]]]].
      * exfalso. exact (vertex_not_face _ _ V).
      * apply pair_list_inj in E1 as [Ea Eb]. assert (a = x) by lia. assert (b = y) by lia. subst a b.
        right. exists x, y, vx, vy. split; [assumption|]. split; [assumption|]. split; [assumption|].
        split; [assumption|]. split; [assumption|]. cbv zeta. left. f_equal; [lia|].
        assert (V : valid [s0; s1] (unravel [s0; s1] j)) by (apply unravel_valid; [assumption|rewrite zprod2; lia]).
        rewrite <- (ravel_unravel [s0; s1] j) by (try assumption; rewrite zprod2; lia).
        assert (U : unravel [s0; s1] j = [vx; vy]).
        { rewrite <- (halve_double_list (unravel [s0; s1] j)), E2. cbn [map]. f_equal; [|f_equal]; lia. }
        rewrite U. cbn [ravel zprod]. ring.
      * exfalso. apply (vertex_not_face a (2 * b + 1)). rewrite <- E. apply even_double_list.
  - (* face, face: never adjacent *)
    split.
    + intros [H | [a [b [vx [vy [Ba [Bb [Pa [Hvx [Hvy [H|H]]]]]]]]]]].
      * exfalso. apply (int_pairs_in_range true) in H. rewrite zprod2 in H. lia.
      * exfalso. injection H as E1 E2. nia.
      * exfalso. injection H as E1 E2. nia.
    + intros [[V _] | [a [b [vx [vy [Hvx [Hvy [[_ E]|[_ E]]]]]]]]].
      * exfalso. exact (vertex_not_face _ _ V).
      * exfalso. apply pair_list_inj in E as [E _]. lia.
      * exfalso. apply pair_list_inj in E as [E _]. lia.
Qed.

(** shape, symmetry, zero diagonal *)
Theorem ofc_pairs_in_range s0 s1 p0 p1 i j : 1 <= s0 -> 1 <= s1 ->
  In (i, j) (ofc_pairs s0 s1 p0 p1) -> 0 <= i < ofc_nsites s0 s1 /\ 0 <= j < ofc_nsites s0 s1.
Proof.
  intros H0 H1 H. unfold ofc_pairs in H. apply in_app_iff in H as [H|H].
  - apply int_pairs_in_range in H. rewrite zprod2 in H. unfold ofc_nsites.
    assert (0 <= ((s0 - 1) * (s1 - 1) + 1) / 2) by (apply Z.div_pos; nia). lia.
  - apply in_ofc_face_loop in H as [x [y [vx [vy [Bx [By [P [Hvx [Hvy H]]]]]]]]]; try assumption.
    cbv zeta in H. assert (Hw : 1 <= s1 - 1) by lia.
    assert (F : 0 <= fS (s1 - 1) x + y / 2 < ((s0 - 1) * (s1 - 1) + 1) / 2).
    { unfold fS. set (w := s1 - 1) in *. 
      assert (fS w x + rowcnt x w <= fS w (s0 - 1)).
      { rewrite <- fS_succ. unfold fS. apply Z.div_le_mono; [lia|]. nia. }
      unfold fS, rowcnt in *. assert (0 <= (x * w + 1) / 2) by (apply Z.div_pos; nia). lia. }
    unfold ofc_nsites.
    assert (V : 0 <= vx * s1 + vy < s0 * s1) by nia.
    destruct H as [H|H]; injection H as -> ->; lia.
Qed.

Theorem ofc_adjacency_symmetric s0 s1 p0 p1 i j : 1 <= s0 -> 1 <= s1 -> ofc_ctor_ok s0 s1 p0 p1 = true ->
  In (i, j) (ofc_pairs s0 s1 p0 p1) -> In (j, i) (ofc_pairs s0 s1 p0 p1).
Proof.
  intros H0 H1 C H. destruct (ofc_pairs_in_range _ _ _ _ _ _ H0 H1 H) as [Hi Hj].
  destruct (ofc_roundtrip s0 s1 i H0 H1 Hi) as [c [Ei _]].
  destruct (ofc_roundtrip s0 s1 j H0 H1 Hj) as [c' [Ej _]].
  apply (ofc_adjacency_iff s0 s1 p0 p1 j i c' c); try assumption.
  apply nn_ofc_sym. apply (ofc_adjacency_iff s0 s1 p0 p1 i j c c'); assumption.
Qed.

Theorem ofc_adjacency_irreflexive s0 s1 p0 p1 i : 1 <= s0 -> 1 <= s1 -> ofc_ctor_ok s0 s1 p0 p1 = true ->
  ~ In (i, i) (ofc_pairs s0 s1 p0 p1).
Proof.
  intros H0 H1 C H. destruct (ofc_pairs_in_range _ _ _ _ _ _ H0 H1 H) as [Hi _].
  destruct (ofc_roundtrip s0 s1 i H0 H1 Hi) as [c [Ei _]].
  apply (ofc_adjacency_iff s0 s1 p0 p1 i i c c) in H; try assumption.
  destruct H as [[_ [_ N]] | [x [y [vx [vy [_ [_ [[E1 E2]|[E1 E2]]]]]]]]].
  - exact (nn_int_irrefl _ _ _ N).
  - rewrite E1 in E2. apply pair_list_inj in E2 as [E _]. lia.
  - rewrite E1 in E2. apply pair_list_inj in E2 as [E _]. lia.
Qed.

(** edge_to_odd_face_index: for a nearest-neighbour edge inside the rectangle the result is the
    index of the odd face having both end points as corners, or -1 if there is none *)
Theorem ofc_edge_to_face_spec s0 s1 ix iy jx jy : 1 <= s0 -> 1 <= s1 ->
  0 <= ix < s0 -> 0 <= iy < s1 -> 0 <= jx < s0 -> 0 <= jy < s1 ->
  (ix = jx /\ Z.abs (iy - jy) = 1) \/ (iy = jy /\ Z.abs (ix - jx) = 1) ->
  exists r, ofc_edge_to_face s0 s1 ix iy jx jy = Some r /\
    ((r = -1 /\ forall x y, 0 <= x < s0 - 1 -> 0 <= y < s1 - 1 -> (x + y) mod 2 = 0 ->
                  ~ ((ix = x \/ ix = x + 1) /\ (iy = y \/ iy = y + 1) /\ (jx = x \/ jx = x + 1) /\ (jy = y \/ jy = y + 1))) \/
     (exists x y, 0 <= x < s0 - 1 /\ 0 <= y < s1 - 1 /\ (x + y) mod 2 = 0 /\
                  ofc_face_to_index s0 s1 x y = Some r /\
                  (ix = x \/ ix = x + 1) /\ (iy = y \/ iy = y + 1) /\ (jx = x \/ jx = x + 1) /\ (jy = y \/ jy = y + 1))).
Proof.
  intros H0 H1 Bix Biy Bjx Bjy NN. unfold ofc_edge_to_face.
  assert (G : negb ((ix =? jx) && (Z.abs (iy - jy) =? 1) || (iy =? jy) && (Z.abs (ix - jx) =? 1)) = false).
  { apply negb_false_iff. apply orb_true_iff. destruct NN as [[E A]|[E A]]; [left|right]; apply andb_true_iff; split; lia. }
  rewrite G. cbv zeta.
  set (x := Z.min ix jx). set (y := Z.min iy jy).
  replace ((x <? 0) || (y <? 0) || (s0 <=? x) || (s1 <=? y)) with false by (unfold x, y; lia).
  set (odd := (x + y) mod 2 =? 1).
  set (x' := if odd && (ix =? jx) then x - 1 else x).
  set (y' := if odd && negb (ix =? jx) then y - 1 else y).
  destruct ((x' <? 0) || (y' <? 0) || (s0 - 1 <=? x') || (s1 - 1 <=? y')) eqn:OUT.
  - exists (-1). split; [reflexivity|]. left. split; [reflexivity|].
    intros fx fy Bx By P [C1 [C2 [C3 C4]]].
    assert (x' = fx /\ y' = fy).
    { unfold x', y', odd, x, y in *. destruct (ix =? jx) eqn:E; [apply Z.eqb_eq in E|apply Z.eqb_neq in E];
        rewrite ?andb_true_r, ?andb_false_r; cbn [negb]; rewrite ?andb_true_r, ?andb_false_r;
        destruct ((Z.min ix jx + Z.min iy jy) mod 2 =? 1) eqn:O; [apply Z.eqb_eq in O|apply Z.eqb_neq in O|apply Z.eqb_eq in O|apply Z.eqb_neq in O]; lia. }
    lia.
  - eexists. split; [reflexivity|]. right. exists x', y'.
    assert (Q : (x' + y') mod 2 = 0 /\ (ix = x' \/ ix = x' + 1) /\ (iy = y' \/ iy = y' + 1) /\ (jx = x' \/ jx = x' + 1) /\ (jy = y' \/ jy = y' + 1)).
    { unfold x', y', odd, x, y in *. destruct (ix =? jx) eqn:E; [apply Z.eqb_eq in E|apply Z.eqb_neq in E];
        rewrite ?andb_true_r, ?andb_false_r; cbn [negb]; rewrite ?andb_true_r, ?andb_false_r;
        destruct ((Z.min ix jx + Z.min iy jy) mod 2 =? 1) eqn:O; [apply Z.eqb_eq in O|apply Z.eqb_neq in O|apply Z.eqb_eq in O|apply Z.eqb_neq in O]; lia. }
    destruct Q as [P Q]. apply orb_false_iff in OUT as [OUT O4]. apply orb_false_iff in OUT as [OUT O3].
    apply orb_false_iff in OUT as [O1 O2].
    split; [lia|]. split; [lia|]. split; [assumption|]. split; [|exact Q].
    unfold ofc_face_to_index. replace ((x' + y') mod 2 =? 1) with false by lia.
    rewrite O1, O2, O3, O4. reflexivity.
Qed.
