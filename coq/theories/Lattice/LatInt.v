(** IntegerLattice, every number of axes, every extent, every per-axis boundary condition:
    the pairs written by the np.roll loops are exactly the unit steps along one axis,
    wrapping iff that axis is periodic, between distinct sites. *)
From Qib Require Export Lattice.LatBase.
Local Open Scope Z_scope.

(** [y] is one unit step away from [x] on an axis of extent [n] *)
Definition step_rel (n : Z) (per : bool) (x y : Z) : Prop :=
  y = x + 1 \/ y = x - 1 \/ (per = true /\ ((x = n - 1 /\ y = 0) \/ (x = 0 /\ y = n - 1))).

(** geometric nearest neighbours of a box with per-axis boundary conditions *)
Definition nn_int (sh : list Z) (pbc : list bool) (c c' : coord) : Prop :=
  c <> c' /\
  exists d, (d < length sh)%nat /\
    step_rel (nth d sh 0) (nth d pbc false) (nth d c 0) (nth d c' 0) /\
    forall k, k <> d -> nth k c' 0 = nth k c 0.

Lemma step_rel_sym n per x y : step_rel n per x y -> step_rel n per y x.
Proof. unfold step_rel. intros [H|[H|[P [[H1 H2]|[H1 H2]]]]]; subst; [right; left; lia | left; lia | right; right; auto | right; right; auto]. Qed.

Lemma nn_int_sym sh pbc c c' : nn_int sh pbc c c' -> nn_int sh pbc c' c.
Proof.
  intros [N [d [Hd [S O]]]]. split; [congruence|]. exists d. split; [assumption|]. split.
  - apply step_rel_sym, S.
  - intros k Hk. symmetry. apply O, Hk.
Qed.

Lemma nn_int_irrefl sh pbc c : ~ nn_int sh pbc c c.
Proof. intros [N _]. congruence. Qed.

(** * membership in the written pair lists *)
Lemma in_axis_pairs sh per d s i j :
  In (i, j) (axis_pairs sh per d s) <->
  exists c, valid sh c /\ (per = true \/ keep sh d s c = true) /\ i = ravel sh c /\ j = ravel sh (roll1 sh d s c).
Proof.
  unfold axis_pairs. rewrite in_map_iff. split.
  - intros [c [E H]]. apply filter_In in H as [H1 H2]. injection E as <- <-.
    exists c. split; [apply all_coords_valid, H1|]. split; [|auto].
    apply orb_true_iff in H2. tauto.
  - intros [c [V [K [-> ->]]]]. exists c. split; [reflexivity|]. apply filter_In.
    split; [apply all_coords_valid, V|]. apply orb_true_iff. tauto.
Qed.

Lemma in_shifts s : In s shifts <-> s = -1 \/ s = 1.
Proof. unfold shifts. cbn [In]. intuition. Qed.

Lemma in_int_pairs_g g sh pbc i j :
  In (i, j) (int_pairs_g g sh pbc) <->
  exists d s, (d < length sh)%nat /\ (s = -1 \/ s = 1) /\
              In (i, j) (axis_pairs sh (nth d pbc false) d s) /\
              (nth d pbc false = true -> g = true -> i <> j).
Proof.
  unfold int_pairs_g. rewrite in_flat_map. split.
  - intros [d [Hd H]]. apply in_seq in Hd. apply in_flat_map in H as [s [Hs H]].
    apply in_shifts in Hs. exists d, s. split; [lia|]. split; [assumption|].
    destruct (nth d pbc false); cbn [andb] in H; [destruct g|].
    + apply filter_In in H as [H1 H2]. split; [assumption|]. intros _ _.
      unfold ne_pair in H2. cbn [fst snd] in H2. apply negb_true_iff, Z.eqb_neq in H2. assumption.
    + split; [assumption|]. intros _ ?. discriminate.
    + split; [assumption|]. intros ?. discriminate.
  - intros [d [s [Hd [Hs [H G]]]]]. exists d. split; [apply in_seq; lia|].
    apply in_flat_map. exists s. split; [apply in_shifts, Hs|].
    destruct (nth d pbc false); cbn [andb]; [destruct g|]; try assumption.
    apply filter_In. split; [assumption|]. unfold ne_pair. cbn [fst snd].
    apply negb_true_iff, Z.eqb_neq. auto.
Qed.

(** * the rolled coordinate *)
Lemma roll1_valid sh d s c : valid sh c -> (d < length sh)%nat -> valid sh (roll1 sh d s c).
Proof.
  intros V Hd. pose proof (valid_length _ _ V) as L. unfold roll1.
  apply valid_of_nth; [rewrite set_nth_length; assumption|].
  intros k Hk. destruct (Nat.eq_dec k d) as [->|N].
  - rewrite nth_set_nth_eq by lia. rewrite nth_default_1_0 by assumption.
    pose proof (valid_nth _ _ V d Hd). apply Z.mod_pos_bound. lia.
  - rewrite nth_set_nth_neq by assumption. apply (valid_nth _ _ V). assumption.
Qed.

Lemma roll1_nth_eq sh d s c : (d < length c)%nat -> (d < length sh)%nat ->
  nth d (roll1 sh d s c) 0 = (nth d c 0 - s) mod nth d sh 0.
Proof. intros H H'. unfold roll1. rewrite nth_set_nth_eq by assumption. rewrite nth_default_1_0 by assumption. reflexivity. Qed.

Lemma roll1_nth_neq sh d s c k : k <> d -> nth k (roll1 sh d s c) 0 = nth k c 0.
Proof. intros H. unfold roll1. apply nth_set_nth_neq, H. Qed.

Lemma roll1_length sh d s c : length (roll1 sh d s c) = length c.
Proof. apply set_nth_length. Qed.

(** * one axis *)
Ltac Zify.zify_post_hook ::= Z.to_euclidean_division_equations.

(** the entry np.roll shows at [x], with the open-boundary cut, is a unit step *)
Lemma axis_step n per s x : 0 <= x < n -> (s = -1 \/ s = 1) ->
  (per = true \/ (if s =? 1 then 1 <=? x else x <=? n - 2) = true) ->
  step_rel n per x ((x - s) mod n).
Proof.
  intros Hx Hs K. unfold step_rel.
  destruct Hs as [-> | ->].
  - (* s = -1 : y = (x+1) mod n *)
    change (-1 =? 1) with false in K. cbv iota in K.
    destruct (Z.eq_dec x (n - 1)) as [E|E].
    + destruct K as [K|K]; [|lia]. right. right. split; [assumption|]. left. split; [assumption|].
      subst x. replace (n - 1 - -1) with (1 * n) by ring. apply Z.mod_mul. lia.
    + left. rewrite Z.mod_small; lia.
  - (* s = 1 : y = (x-1) mod n *)
    change (1 =? 1) with true in K. cbv iota in K.
    destruct (Z.eq_dec x 0) as [E|E].
    + destruct K as [K|K]; [|lia]. right. right. split; [assumption|]. right. split; [assumption|].
      subst x. replace (0 - 1) with (n - 1 + (-1) * n) by ring. rewrite Z.mod_add by lia. apply Z.mod_small. lia.
    + right. left. rewrite Z.mod_small; lia.
Qed.

(** conversely every unit step is produced by one of the two shifts *)
Lemma step_axis n per x y : 0 <= x < n -> 0 <= y < n -> step_rel n per x y ->
  exists s, (s = -1 \/ s = 1) /\ y = (x - s) mod n /\
            (per = true \/ (if s =? 1 then 1 <=? x else x <=? n - 2) = true).
Proof.
  intros Hx Hy [H|[H|[P [[H1 H2]|[H1 H2]]]]].
  - exists (-1). split; [auto|]. split; [rewrite Z.mod_small; lia|]. right. change (-1 =? 1) with false. cbv iota. lia.
  - exists 1. split; [auto|]. split; [rewrite Z.mod_small; lia|]. right. change (1 =? 1) with true. cbv iota. lia.
  - exists (-1). split; [auto|]. split; [|auto]. subst.
    replace (n - 1 - -1) with (1 * n) by ring. rewrite Z.mod_mul; lia.
  - exists 1. split; [auto|]. split; [|auto]. subst.
    replace (0 - 1) with (n - 1 + (-1) * n) by ring. rewrite Z.mod_add by lia. rewrite Z.mod_small; lia.
Qed.

Lemma keep_unfold sh d s c : keep sh d s c = (if s =? 1 then 1 <=? nth d c 0 else nth d c 0 <=? nth d sh 0 - 2).
Proof. reflexivity. Qed.

(** * the adjacency theorem on coordinates *)
Lemma int_pairs_coords g sh pbc i j :
  In (i, j) (int_pairs_g g sh pbc) ->
  exists c c', valid sh c /\ valid sh c' /\ i = ravel sh c /\ j = ravel sh c'.
Proof.
  intros H. apply in_int_pairs_g in H as [d [s [Hd [Hs [H _]]]]].
  apply in_axis_pairs in H as [c [V [K [-> ->]]]].
  exists c, (roll1 sh d s c). auto using roll1_valid.
Qed.

Theorem int_pairs_in_range g sh pbc i j :
  In (i, j) (int_pairs_g g sh pbc) -> 0 <= i < zprod sh /\ 0 <= j < zprod sh.
Proof.
  intros H. apply int_pairs_coords in H as [c [c' [V [V' [-> ->]]]]].
  split; apply ravel_bound; assumption.
Qed.

Lemma int_pairs_nn sh pbc c c' : valid sh c -> valid sh c' ->
  (In (ravel sh c, ravel sh c') (int_pairs sh pbc) <-> nn_int sh pbc c c').
Proof.
  intros V V'. pose proof (valid_length _ _ V) as L. pose proof (valid_length _ _ V') as L'.
  unfold int_pairs. rewrite in_int_pairs_g. split.
  - intros [d [s [Hd [Hs [H G]]]]]. apply in_axis_pairs in H as [c0 [V0 [K [E1 E2]]]].
    apply (ravel_inj sh) in E1; [|assumption|assumption]. subst c0.
    apply (ravel_inj sh) in E2; [|assumption|apply roll1_valid; assumption]. subst c'.
    pose proof (valid_nth _ _ V d Hd) as Bx.
    assert (S : step_rel (nth d sh 0) (nth d pbc false) (nth d c 0) (nth d (roll1 sh d s c) 0)).
    { rewrite roll1_nth_eq by lia. apply axis_step; [assumption|assumption|].
      rewrite <- keep_unfold. assumption. }
    split.
    + destruct (nth d pbc false) eqn:P.
      * intros E. apply (G eq_refl eq_refl). congruence.
      * intros E. rewrite <- E in S. unfold step_rel in S. destruct S as [S|[S|[S _]]]; try lia; try discriminate.
    + exists d. split; [assumption|]. split; [assumption|]. intros k Hk. apply roll1_nth_neq, Hk.
  - intros [N [d [Hd [S O]]]].
    pose proof (valid_nth _ _ V d Hd) as Bx. pose proof (valid_nth _ _ V' d Hd) as By.
    destruct (step_axis _ _ _ _ Bx By S) as [s [Hs [E K]]].
    exists d, s. split; [assumption|]. split; [assumption|].
    assert (R : c' = roll1 sh d s c).
    { apply nth_ext_Z; [rewrite roll1_length; congruence|]. intros k Hk.
      destruct (Nat.eq_dec k d) as [->|Nk].
      - rewrite roll1_nth_eq by lia. assumption.
      - rewrite roll1_nth_neq by assumption. apply O, Nk. }
    split.
    + apply in_axis_pairs. exists c. split; [assumption|]. split; [rewrite keep_unfold; assumption|].
      split; [reflexivity|]. congruence.
    + intros _ _ E2. apply N. apply (ravel_inj sh); assumption.
Qed.

(** the statement on site indices *)
Theorem int_adjacency_iff sh pbc i j : pos_shape sh -> 0 <= i < zprod sh -> 0 <= j < zprod sh ->
  (In (i, j) (int_pairs sh pbc) <-> nn_int sh pbc (unravel sh i) (unravel sh j)).
Proof.
  intros P Hi Hj.
  rewrite <- (int_pairs_nn sh pbc) by (apply unravel_valid; assumption).
  rewrite !ravel_unravel by assumption. reflexivity.
Qed.

Theorem int_adjacency_symmetric sh pbc i j :
  In (i, j) (int_pairs sh pbc) -> In (j, i) (int_pairs sh pbc).
Proof.
  intros H. destruct (int_pairs_coords _ _ _ _ _ H) as [c [c' [V [V' [-> ->]]]]].
  apply int_pairs_nn; try assumption. apply nn_int_sym. apply int_pairs_nn in H; assumption.
Qed.

Theorem int_adjacency_irreflexive sh pbc i : ~ In (i, i) (int_pairs sh pbc).
Proof.
  intros H. destruct (int_pairs_coords _ _ _ _ _ H) as [c [c' [V [V' [E1 E2]]]]].
  assert (c = c') by (apply (ravel_inj sh); congruence). subst c' i.
  apply int_pairs_nn in H; try assumption. exact (nn_int_irrefl _ _ _ H).
Qed.

(** the code as found (no [i != j] guard) has a self-loop as soon as a periodic axis has extent 1 *)
Lemma int_unrepaired_selfloop : In (0, 0) (int_pairs_g false [1; 3] [true; true]).
Proof. vm_compute. tauto. Qed.
