(** BrickLattice / HexagonalLattice adjacency for every shape and both conventions:
    (A) the links written on the embedding square grid are the brick pattern,
    (B) the brick pattern is exactly "Euclidean distance 1" between the hexagonal positions,
    (C) deleting / disconnecting the two surplus corner points renumbers consistently with index_to_coord. *)
From Qib Require Export Lattice.LatInt Lattice.LatBrick.
Local Open Scope Z_scope.
Ltac Zify.zify_post_hook ::= Z.to_euclidean_division_equations.

(** * (A) links of the square grid *)
Definition sq_nn (up : bool) (r c r' c' : Z) : Prop :=
  if up then
    (c' = c /\ (r' = r + 1 \/ r' = r - 1)) \/
    (r' = r /\ ((c' = c + 1 /\ (r + c) mod 2 = 0) \/ (c' = c - 1 /\ (r + c) mod 2 = 1)))
  else
    (r' = r /\ (c' = c + 1 \/ c' = c - 1)) \/
    (c' = c /\ ((r' = r + 1 /\ (r + c) mod 2 = 0) \/ (r' = r - 1 /\ (r + c) mod 2 = 1))).

Lemma brick_sq_pos up s0 s1 : 1 <= s0 -> 1 <= s1 -> 2 <= fst (brick_sq up s0 s1) /\ 2 <= snd (brick_sq up s0 s1).
Proof. intros. unfold brick_sq. destruct up; cbn [fst snd]; atoms; zb; lia. Qed.

(** psc is "q1 is even" in both conventions *)
Lemma brick_psc_even up s0 s1 : 1 <= s0 -> 1 <= s1 ->
  (brick_psc up s0 s1 = true -> snd (brick_sq up s0 s1) mod 2 = 0) /\
  (brick_psc up s0 s1 = false -> snd (brick_sq up s0 s1) mod 2 = 1).
Proof. intros. unfold brick_psc, brick_sq. destruct up; cbn [fst snd]; atoms; zb; split; intros; try discriminate; lia. Qed.

Lemma keep_link_parity psc q1 s r c : 0 < q1 -> 0 <= c < q1 ->
  (psc = true -> q1 mod 2 = 0) -> (psc = false -> q1 mod 2 = 1) ->
  brick_keep_link psc q1 s (r * q1 + c) =
  ((s =? -1) && ((r + c) mod 2 =? 0)) || ((s =? 1) && ((r + c) mod 2 =? 1)).
Proof.
  intros Hq Hc Pe Po. unfold brick_keep_link.
  assert (D : (r * q1 + c) / q1 = r) by (symmetry; apply (Z.div_unique_pos _ _ _ c); lia).
  destruct psc.
  - rewrite D. specialize (Pe eq_refl). assert (exists m, q1 = 2 * m) as [m ->] by (exists (q1 / 2); lia).
    replace (r * (2 * m) + c + r) with (2 * (r * m) + (r + c)) by ring. set (p := r * m). clearbody p.
    replace ((2 * p + (r + c)) mod 2) with ((r + c) mod 2) by lia. reflexivity.
  - specialize (Po eq_refl). assert (exists m, q1 = 2 * m + 1) as [m ->] by (exists (q1 / 2); lia).
    replace (r * (2 * m + 1) + c) with (2 * (r * m) + (r + c)) by ring. set (p := r * m). clearbody p.
    replace ((2 * p + (r + c)) mod 2) with ((r + c) mod 2) by lia. reflexivity.
Qed.

Lemma valid2' q0 q1 cc : valid [q0; q1] cc -> exists r c, cc = [r; c] /\ 0 <= r < q0 /\ 0 <= c < q1.
Proof.
  intros V. inversion V as [|? x ? c1 Hx V1]; subst. inversion V1 as [|? y ? c2 Hy V2]; subst. inversion V2; subst.
  exists x, y. auto.
Qed.

Lemma valid2_intro q0 q1 r c : 0 <= r < q0 -> 0 <= c < q1 -> valid [q0; q1] [r; c].
Proof. intros. constructor; [assumption|]. constructor; [assumption|]. constructor. Qed.

(** one open axis of the 2-d grid *)
Lemma grid_axis_pairs q0 q1 d s r c j : (s = -1 \/ s = 1) -> (d = 0 \/ d = 1)%nat ->
  0 <= r < q0 -> 0 <= c < q1 ->
  (In (r * q1 + c, j) (axis_pairs [q0; q1] false d s) <->
   exists r' c', j = r' * q1 + c' /\ 0 <= r' < q0 /\ 0 <= c' < q1 /\
     ((d = 0%nat /\ r' = r - s /\ c' = c) \/ (d = 1%nat /\ r' = r /\ c' = c - s))).
Proof.
  intros Hs Hd Hr Hc. rewrite in_axis_pairs. split.
  - intros [cc [V [K [E1 E2]]]]. destruct K as [K|K]; [discriminate|].
    destruct (valid2' _ _ _ V) as [x [y [-> [Hx Hy]]]].
    rewrite <- ravel2 with (q0 := q0) in E1. apply ravel_inj in E1; [|apply valid2_intro; assumption|assumption].
    injection E1 as <- <-.
    destruct Hd as [-> | ->]; unfold keep in K; cbn [nth] in K.
    + exists (r - s), c. unfold roll1 in E2. cbn [nth set_nth] in E2. rewrite ravel2 in E2.
      destruct Hs as [-> | ->]; [change (-1 =? 1) with false in K | change (1 =? 1) with true in K]; cbv iota in K;
        rewrite Z.mod_small in E2 by lia; (split; [assumption|]); (split; [lia|]); (split; [lia|]); left; auto.
    + exists r, (c - s). unfold roll1 in E2. cbn [nth set_nth] in E2. rewrite ravel2 in E2.
      destruct Hs as [-> | ->]; [change (-1 =? 1) with false in K | change (1 =? 1) with true in K]; cbv iota in K;
        rewrite Z.mod_small in E2 by lia; (split; [assumption|]); (split; [lia|]); (split; [lia|]); right; auto.
  - intros [r' [c' [-> [Hr' [Hc' H]]]]]. exists [r; c]. split; [apply valid2_intro; assumption|].
    rewrite ravel2. split; [right|split; [reflexivity|]].
    + unfold keep. destruct H as [[-> [-> ->]] | [-> [-> ->]]]; cbn [nth];
        destruct Hs as [-> | ->]; [change (-1 =? 1) with false | change (1 =? 1) with true | change (-1 =? 1) with false | change (1 =? 1) with true]; cbv iota; lia.
    + unfold roll1. destruct H as [[-> [-> ->]] | [-> [-> ->]]]; cbn [nth set_nth]; rewrite ravel2, Z.mod_small by lia; reflexivity.
Qed.

Lemma in_brick_sq_pairs up s0 s1 i j :
  In (i, j) (brick_sq_pairs up s0 s1) <->
  exists d s, (d = 0 \/ d = 1)%nat /\ (s = -1 \/ s = 1) /\
    In (i, j) (axis_pairs [fst (brick_sq up s0 s1); snd (brick_sq up s0 s1)] false d s) /\
    (d = brick_dsquare up \/ brick_keep_link (brick_psc up s0 s1) (snd (brick_sq up s0 s1)) s i = true).
Proof.
  unfold brick_sq_pairs. destruct (brick_sq up s0 s1) as [q0 q1]. cbn [fst snd]. rewrite in_flat_map. split.
  - intros [d [Hd H]]. apply in_flat_map in H as [s [Hs H]]. apply in_shifts in Hs.
    assert (Hd' : (d = 0 \/ d = 1)%nat) by (cbn in Hd; intuition).
    exists d, s. split; [assumption|]. split; [assumption|].
    destruct (Nat.eqb d (brick_dsquare up)) eqn:E.
    + apply Nat.eqb_eq in E. auto.
    + apply filter_In in H as [H1 H2]. cbn [fst] in H2. auto.
  - intros [d [s [Hd [Hs [H K]]]]]. exists d. split; [cbn; intuition|]. apply in_flat_map. exists s.
    split; [apply in_shifts, Hs|]. destruct (Nat.eqb d (brick_dsquare up)) eqn:E; [assumption|].
    apply Nat.eqb_neq in E. destruct K as [K|K]; [contradiction|]. apply filter_In. cbn [fst]. auto.
Qed.

Theorem sq_pairs_iff up s0 s1 r c r' c' : 1 <= s0 -> 1 <= s1 ->
  let q0 := fst (brick_sq up s0 s1) in let q1 := snd (brick_sq up s0 s1) in
  0 <= r < q0 -> 0 <= c < q1 -> 0 <= r' < q0 -> 0 <= c' < q1 ->
  (In (r * q1 + c, r' * q1 + c') (brick_sq_pairs up s0 s1) <-> sq_nn up r c r' c').
Proof.
  intros H0 H1 q0 q1 Hr Hc Hr' Hc'.
  destruct (brick_sq_pos up s0 s1 H0 H1) as [Q0 Q1]. fold q0 in Q0. fold q1 in Q1.
  destruct (brick_psc_even up s0 s1 H0 H1) as [Pe Po]. fold q1 in Pe, Po.
  rewrite in_brick_sq_pairs. fold q0 q1. split.
  - intros [d [s [Hd [Hs [H K]]]]].
    apply grid_axis_pairs in H; try assumption.
    destruct H as [x [y [E [Hx [Hy H]]]]].
    assert (x = r' /\ y = c') as [-> ->].
    { rewrite <- !ravel2 with (q0 := q0) in E. apply ravel_inj in E; try (apply valid2_intro; assumption).
      injection E as -> ->. auto. }
    rewrite keep_link_parity in K by (try assumption; lia).
    unfold sq_nn, brick_dsquare in *. destruct up.
    + destruct H as [[-> [-> ->]] | [-> [-> ->]]].
      * left. split; [reflexivity|]. lia.
      * right. split; [reflexivity|]. destruct K as [K|K]; [discriminate|].
        destruct Hs as [-> | ->]; cbn [Z.eqb andb orb] in K.
        -- left. split; [lia|]. change (-1 =? 1) with false in K. change (-1 =? -1) with true in K. cbn [andb orb] in K.
           rewrite orb_false_r in K. apply Z.eqb_eq in K. assumption.
        -- right. split; [lia|]. change (1 =? -1) with false in K. change (1 =? 1) with true in K. cbn [andb orb] in K.
           apply Z.eqb_eq in K. assumption.
    + destruct H as [[-> [-> ->]] | [-> [-> ->]]].
      * right. split; [reflexivity|]. destruct K as [K|K]; [discriminate|].
        destruct Hs as [-> | ->].
        -- left. split; [lia|]. change (-1 =? 1) with false in K. change (-1 =? -1) with true in K. cbn [andb orb] in K.
           rewrite orb_false_r in K. apply Z.eqb_eq in K. assumption.
        -- right. split; [lia|]. change (1 =? -1) with false in K. change (1 =? 1) with true in K. cbn [andb orb] in K.
           apply Z.eqb_eq in K. assumption.
      * left. split; [reflexivity|]. lia.
  - intros N. unfold sq_nn in N.
    assert (G : exists d s, (d = 0 \/ d = 1)%nat /\ (s = -1 \/ s = 1) /\
               ((d = 0%nat /\ r' = r - s /\ c' = c) \/ (d = 1%nat /\ r' = r /\ c' = c - s)) /\
               (d = brick_dsquare up \/
                ((s =? -1) && ((r + c) mod 2 =? 0)) || ((s =? 1) && ((r + c) mod 2 =? 1)) = true)).
    { unfold brick_dsquare. destruct up.
      - destruct N as [[-> [-> | ->]] | [-> [[-> P] | [-> P]]]].
        + exists 0%nat, (-1). split; [auto|]. split; [auto|]. split; [left; split; [reflexivity|]; split; [lia|reflexivity]|]. auto.
        + exists 0%nat, 1. split; [auto|]. split; [auto|]. split; [left; split; [reflexivity|]; split; [lia|reflexivity]|]. auto.
        + exists 1%nat, (-1). split; [auto|]. split; [auto|]. split; [right; split; [reflexivity|]; split; [reflexivity|lia]|].
          right. rewrite P. reflexivity.
        + exists 1%nat, 1. split; [auto|]. split; [auto|]. split; [right; split; [reflexivity|]; split; [reflexivity|lia]|].
          right. rewrite P. reflexivity.
      - destruct N as [[-> [-> | ->]] | [-> [[-> P] | [-> P]]]].
        + exists 1%nat, (-1). split; [auto|]. split; [auto|]. split; [right; split; [reflexivity|]; split; [reflexivity|lia]|]. auto.
        + exists 1%nat, 1. split; [auto|]. split; [auto|]. split; [right; split; [reflexivity|]; split; [reflexivity|lia]|]. auto.
        + exists 0%nat, (-1). split; [auto|]. split; [auto|]. split; [left; split; [reflexivity|]; split; [lia|reflexivity]|].
          right. rewrite P. reflexivity.
        + exists 0%nat, 1. split; [auto|]. split; [auto|]. split; [left; split; [reflexivity|]; split; [lia|reflexivity]|].
          right. rewrite P. reflexivity. }
    destruct G as [d [s [Hd [Hs [M K]]]]]. exists d, s. split; [assumption|]. split; [assumption|]. split.
    + apply grid_axis_pairs; try assumption. exists r', c'. auto.
    + rewrite keep_link_parity by (try assumption; lia). assumption.
Qed.

(** * (B) the brick pattern is unit distance between hexagonal positions *)
Lemma hex_long_closed a b : hex_long a b = 3 * b + (if (a + b) mod 2 =? 0 then 1 else 0).
Proof. unfold hex_long. destruct (a mod 2 =? 0) eqn:E1; destruct ((a + b) mod 2 =? 0) eqn:E2; zb; lia. Qed.

Lemma dist4_cases a b : 3 * a * a + b * b = 4 ->
  (a = 0 /\ (b = 2 \/ b = -2)) \/ ((a = 1 \/ a = -1) /\ (b = 1 \/ b = -1)).
Proof.
  intros H. assert (0 <= b * b) by nia. assert (A : a * a <= 1) by lia.
  assert (-1 <= a <= 1) by nia.
  assert (a = -1 \/ a = 0 \/ a = 1) as [-> | [-> | ->]] by lia.
  - right. split; [auto|]. assert (b * b = 1) by lia. assert (-1 <= b <= 1) by nia. assert (b <> 0) by nia. lia.
  - left. split; [auto|]. assert (b * b = 4) by lia. assert (-2 <= b <= 2) by nia.
    assert (b = -2 \/ b = -1 \/ b = 0 \/ b = 1 \/ b = 2) as [-> | [-> | [-> | [-> | ->]]]] by lia; lia.
  - right. split; [auto|]. assert (b * b = 1) by lia. assert (-1 <= b <= 1) by nia. assert (b <> 0) by nia. lia.
Qed.

Lemma dist4_cases' a b : a * a + 3 * b * b = 4 ->
  (b = 0 /\ (a = 2 \/ a = -2)) \/ ((b = 1 \/ b = -1) /\ (a = 1 \/ a = -1)).
Proof. intros H. apply dist4_cases. lia. Qed.

Theorem sq_nn_unit_distance up r c r' c' :
  sq_nn up r c r' c' <-> hex_dist4 up (hex_pos up r c) (hex_pos up r' c') = 4.
Proof.
  unfold sq_nn, hex_dist4, hex_pos. destruct up; cbn [nth]; rewrite !hex_long_closed.
  - split.
    + intros [[-> [-> | ->]] | [-> [[-> P] | [-> P]]]];
        repeat match goal with |- context [if ?b then _ else _] => destruct b eqn:? end; zb; try lia.
    + intros H. apply dist4_cases in H.
      repeat match goal with H : context [if ?b then _ else _] |- _ => destruct b eqn:? end; zb; lia.
  - split.
    + intros [[-> [-> | ->]] | [-> [[-> P] | [-> P]]]];
        repeat match goal with |- context [if ?b then _ else _] => destruct b eqn:? end; zb; try lia.
    + intros H. apply dist4_cases' in H.
      repeat match goal with H : context [if ?b then _ else _] |- _ => destruct b eqn:? end; zb; lia.
Qed.

(** * (C) removing / disconnecting the surplus points *)
Definition re (q k : Z) : Z := if q <? k then k - 1 else k.

Lemma in_np_delete p a i j :
  In (i, j) (snd (np_delete_rc p a)) <->
  exists k l, In (k, l) (snd a) /\ k <> norm_idx (fst a) p /\ l <> norm_idx (fst a) p /\
              i = re (norm_idx (fst a) p) k /\ j = re (norm_idx (fst a) p) l.
Proof.
  unfold np_delete_rc. cbn [snd]. rewrite in_map_iff. unfold re. split.
  - intros [[k l] [E H]]. apply filter_In in H as [H1 H2]. cbn [fst snd] in *.
    apply andb_true_iff in H2 as [N1 N2]. apply negb_true_iff, Z.eqb_neq in N1, N2.
    injection E as <- <-. exists k, l. auto.
  - intros [k [l [H [N1 [N2 [-> ->]]]]]]. exists (k, l). cbn [fst snd]. split; [reflexivity|].
    apply filter_In. split; [assumption|]. cbn [fst snd]. apply andb_true_iff.
    split; apply negb_true_iff, Z.eqb_neq; assumption.
Qed.

Lemma in_np_delete' p a q i j : norm_idx (fst a) p = q ->
  (In (i, j) (snd (np_delete_rc p a)) <->
   exists k l, In (k, l) (snd a) /\ k <> q /\ l <> q /\ i = re q k /\ j = re q l).
Proof. intros <-. apply in_np_delete. Qed.

Lemma norm_idx_nonneg n p : 0 <= p -> norm_idx n p = p.
Proof. intros. unfold norm_idx. replace (p <? 0) with false by lia. reflexivity. Qed.

Lemma fst_np_delete p a : fst (np_delete_rc p a) = fst a - 1.
Proof. reflexivity. Qed.

Lemma in_np_zero p a i j :
  In (i, j) (snd (np_zero_rc p a)) <-> In (i, j) (snd a) /\ i <> norm_idx (fst a) p /\ j <> norm_idx (fst a) p.
Proof.
  unfold np_zero_rc. cbn [snd]. rewrite filter_In. cbn [fst snd].
  rewrite andb_true_iff, !negb_true_iff, !Z.eqb_neq. tauto.
Qed.

Lemma fst_np_zero p a : fst (np_zero_rc p a) = fst a.
Proof. reflexivity. Qed.

Lemma sq_pairs_range up s0 s1 k l : In (k, l) (brick_sq_pairs up s0 s1) ->
  0 <= k < fst (brick_sq up s0 s1) * snd (brick_sq up s0 s1) /\ 0 <= l < fst (brick_sq up s0 s1) * snd (brick_sq up s0 s1).
Proof.
  intros H. apply in_brick_sq_pairs in H as [d [s [Hd [Hs [H _]]]]].
  apply in_axis_pairs in H as [cc [V [_ [-> ->]]]]. rewrite <- zprod2.
  split; apply ravel_bound; [assumption|]. apply roll1_valid; [assumption|]. cbn [length]. lia.
Qed.

(** the square-grid index of site i of the deleting variant *)
Definition brick_k (up : bool) (s0 s1 i : Z) : Z := i + brick_shift_i up s0 s1 i.

(** renumbering facts, one convention at a time; N = q0*q1, A = (q0-1)*q1 *)
Lemma renum_up s0 s1 : 1 <= s0 -> 1 < s1 ->
  let q0 := 2 * s0 + 2 in let q1 := s1 + 1 in let N := q0 * q1 in
  let qa := (q0 - 1) * q1 in
  let qb := norm_idx (N - 1) (if q1 mod 2 =? 0 then -1 else q1 - 1) in
  let rr k := re qb (re qa k) in
  let dead k := k = qa \/ re qa k = qb in
  (forall i, 0 <= i < N - 2 -> 0 <= brick_k true s0 s1 i < N /\ ~ dead (brick_k true s0 s1 i) /\ rr (brick_k true s0 s1 i) = i) /\
  (forall k, 0 <= k < N -> ~ dead k -> 0 <= rr k < N - 2 /\ brick_k true s0 s1 (rr k) = k).
Proof.
  intros H0 H1. cbv zeta. unfold brick_k, brick_shift_i, brick_sq, norm_idx, re.
  replace (1 <? s1) with true by lia.
  set (q0 := 2 * s0 + 2). set (q1 := s1 + 1).
  assert (Q0 : 4 <= q0) by (unfold q0; lia). assert (Q1 : 3 <= q1) by (unfold q1; lia).
  assert (S1 : s1 = q1 - 1) by (unfold q1; lia). rewrite S1. clearbody q0 q1. clear S1 H1.
  assert (EA : q0 * q1 = (q0 - 1) * q1 + q1) by ring. assert (GA : 3 * q1 <= (q0 - 1) * q1) by nia.
  rewrite EA. set (A := (q0 - 1) * q1) in *. clearbody A.
  split.
  - intros i Hi. atoms; zb; lia.
  - intros k Hk. atoms; zb; lia.
Qed.

Lemma renum_left s0 s1 : 1 < s0 -> 1 <= s1 ->
  let q0 := s0 + 1 in let q1 := 2 * s1 + 2 in let N := q0 * q1 in
  let qa := q1 - 1 in
  let qb := norm_idx (N - 1) (if q0 mod 2 =? 1 then (q0 - 1) * q1 - 1 else -1) in
  let rr k := re qb (re qa k) in
  let dead k := k = qa \/ re qa k = qb in
  (forall i, 0 <= i < N - 2 -> 0 <= brick_k false s0 s1 i < N /\ ~ dead (brick_k false s0 s1 i) /\ rr (brick_k false s0 s1 i) = i) /\
  (forall k, 0 <= k < N -> ~ dead k -> 0 <= rr k < N - 2 /\ brick_k false s0 s1 (rr k) = k).
Proof.
  intros H0 H1. cbv zeta. unfold brick_k, brick_shift_i, brick_sq, norm_idx, re.
  replace (1 <? s0) with true by lia.
  set (q0 := s0 + 1). set (q1 := 2 * s1 + 2).
  assert (Q0 : 3 <= q0) by (unfold q0; lia). assert (Q1 : 4 <= q1) by (unfold q1; lia).
  assert (S0 : s0 = q0 - 1) by (unfold q0; lia). rewrite S0. clearbody q0 q1. clear S0 H0.
  assert (EA : q0 * q1 = (q0 - 1) * q1 + q1) by ring. assert (GA : 2 * q1 <= (q0 - 1) * q1) by nia.
  rewrite EA. set (A := (q0 - 1) * q1) in *. clearbody A.
  split.
  - intros i Hi. atoms; zb; lia.
  - intros k Hk. atoms; zb; lia.
Qed.

Lemma brick_adj_unfold up del s0 s1 :
  brick_adj up del s0 s1 =
  let a := (fst (brick_sq up s0 s1) * snd (brick_sq up s0 s1), brick_sq_pairs up s0 s1) in
  if del then brick_delete_extra up s0 s1 a else brick_disconnect_extra up s0 s1 a.
Proof. unfold brick_adj. destruct (brick_sq up s0 s1). reflexivity. Qed.

Lemma brick_sq_up s0 s1 : 1 < s1 -> brick_sq true s0 s1 = (2 * s0 + 2, s1 + 1).
Proof. intros. unfold brick_sq. replace (1 <? s1) with true by lia. reflexivity. Qed.
Lemma brick_sq_left s0 s1 : 1 < s0 -> brick_sq false s0 s1 = (s0 + 1, 2 * s1 + 2).
Proof. intros. unfold brick_sq. replace (1 <? s0) with true by lia. reflexivity. Qed.

Lemma brick_nsites_del_extra up s0 s1 : 1 <= s0 -> 1 <= s1 -> brick_extra up s0 s1 = true ->
  brick_nsites up true s0 s1 = fst (brick_sq up s0 s1) * snd (brick_sq up s0 s1) - 2.
Proof. intros H0 H1. unfold brick_nsites, brick_extra, brick_sq. destruct up; cbn [negb andb fst snd]; intros ->; ring. Qed.

Lemma brick_nsites_noextra up del s0 s1 : 1 <= s0 -> 1 <= s1 -> brick_extra up s0 s1 = false ->
  brick_nsites up del s0 s1 = fst (brick_sq up s0 s1) * snd (brick_sq up s0 s1).
Proof.
  intros H0 H1. unfold brick_nsites, brick_extra, brick_sq. destruct up; intros E; rewrite E; rewrite andb_false_r; cbn [fst snd]; zb; nia.
Qed.

Lemma brick_nsites_nodel_extra up s0 s1 : 1 <= s0 -> 1 <= s1 -> brick_extra up s0 s1 = true ->
  brick_nsites up false s0 s1 = fst (brick_sq up s0 s1) * snd (brick_sq up s0 s1).
Proof. intros H0 H1. unfold brick_nsites, brick_extra, brick_sq. destruct up; cbn [negb andb fst snd]; intros ->; ring. Qed.

(** delete = True: the adjacency of the renumbered sites is the square-grid adjacency of their grid points *)
Theorem brick_adj_delete_iff up s0 s1 i j : 1 <= s0 -> 1 <= s1 ->
  0 <= i < brick_nsites up true s0 s1 -> 0 <= j < brick_nsites up true s0 s1 ->
  (In (i, j) (snd (brick_adj up true s0 s1)) <->
   In (brick_k up s0 s1 i, brick_k up s0 s1 j) (brick_sq_pairs up s0 s1)).
Proof.
  intros H0 H1 Hi Hj. rewrite brick_adj_unfold. cbv zeta. unfold brick_delete_extra.
  destruct (brick_extra up s0 s1) eqn:EX.
  - rewrite (brick_nsites_del_extra up s0 s1 H0 H1 EX) in Hi, Hj.
    pose proof (sq_pairs_range up s0 s1) as RG.
    unfold brick_extra in EX. unfold brick_delete_positions. destruct up; zb.
    + pose proof (renum_up s0 s1 H0 EX) as [R1 R2]. rewrite (brick_sq_up s0 s1 EX) in *. cbn [fst snd] in *.
      replace (1 <? s1) with true by lia. cbn [fold_left].
      set (qa := (2 * s0 + 2 - 1) * (s1 + 1)) in *.
      set (qb := norm_idx ((2 * s0 + 2) * (s1 + 1) - 1) (if (s1 + 1) mod 2 =? 0 then -1 else s1 + 1 - 1)) in *.
      assert (NA : norm_idx ((2 * s0 + 2) * (s1 + 1)) qa = qa) by (apply norm_idx_nonneg; unfold qa; nia).
      rewrite (in_np_delete' _ _ qb) by reflexivity. split.
      * intros [k' [l' [H [N1 [N2 [-> ->]]]]]].
        apply (in_np_delete' _ _ qa) in H; [|exact NA]. destruct H as [k [l [H [M1 [M2 [-> ->]]]]]]. cbn [fst snd] in *.
        destruct (RG _ _ H) as [Bk Bl].
        destruct (R2 k Bk) as [_ Ek]; [intros [D|D]; [apply M1, D|apply N1, D]|].
        destruct (R2 l Bl) as [_ El]; [intros [D|D]; [apply M2, D|apply N2, D]|].
        rewrite Ek, El. exact H.
      * intros H. destruct (R1 i Hi) as [Bk [Dk Ek]]. destruct (R1 j Hj) as [Bl [Dl El]].
        exists (re qa (brick_k true s0 s1 i)), (re qa (brick_k true s0 s1 j)).
        split; [|split; [tauto|split; [tauto|split; [symmetry; exact Ek|symmetry; exact El]]]].
        apply (in_np_delete' _ _ qa); [exact NA|]. exists (brick_k true s0 s1 i), (brick_k true s0 s1 j). cbn [fst snd].
        split; [exact H|]. split; [tauto|]. split; [tauto|]. auto.
    + pose proof (renum_left s0 s1 EX H1) as [R1 R2]. rewrite (brick_sq_left s0 s1 EX) in *. cbn [fst snd] in *.
      replace (1 <? s0) with true by lia. cbn [fold_left].
      set (qa := 2 * s1 + 2 - 1) in *.
      set (qb := norm_idx ((s0 + 1) * (2 * s1 + 2) - 1) (if (s0 + 1) mod 2 =? 1 then (s0 + 1 - 1) * (2 * s1 + 2) - 1 else -1)) in *.
      assert (NA : norm_idx ((s0 + 1) * (2 * s1 + 2)) qa = qa) by (apply norm_idx_nonneg; unfold qa; lia).
      rewrite (in_np_delete' _ _ qb) by reflexivity. split.
      * intros [k' [l' [H [N1 [N2 [-> ->]]]]]].
        apply (in_np_delete' _ _ qa) in H; [|exact NA]. destruct H as [k [l [H [M1 [M2 [-> ->]]]]]]. cbn [fst snd] in *.
        destruct (RG _ _ H) as [Bk Bl].
        destruct (R2 k Bk) as [_ Ek]; [intros [D|D]; [apply M1, D|apply N1, D]|].
        destruct (R2 l Bl) as [_ El]; [intros [D|D]; [apply M2, D|apply N2, D]|].
        rewrite Ek, El. exact H.
      * intros H. destruct (R1 i Hi) as [Bk [Dk Ek]]. destruct (R1 j Hj) as [Bl [Dl El]].
        exists (re qa (brick_k false s0 s1 i)), (re qa (brick_k false s0 s1 j)).
        split; [|split; [tauto|split; [tauto|split; [symmetry; exact Ek|symmetry; exact El]]]].
        apply (in_np_delete' _ _ qa); [exact NA|]. exists (brick_k false s0 s1 i), (brick_k false s0 s1 j). cbn [fst snd].
        split; [exact H|]. split; [tauto|]. split; [tauto|]. auto.
  - assert (P : brick_delete_positions up s0 s1 = []).
    { unfold brick_delete_positions, brick_extra in *. destruct (brick_sq up s0 s1). destruct up; rewrite EX; reflexivity. }
    rewrite P. cbn [fold_left snd].
    assert (K : forall x, brick_k up s0 s1 x = x).
    { intros x. unfold brick_k, brick_shift_i, brick_extra in *. destruct (brick_sq up s0 s1). destruct up; rewrite EX; lia. }
    rewrite !K. reflexivity.
Qed.

(** a grid point is surplus iff the deleting variant has no index for it *)
Definition brick_surplus (up : bool) (s0 s1 r c : Z) : Prop :=
  brick_coord_to_index up true s0 s1 r c = Some None.

Lemma surplus_noextra up s0 s1 r c : brick_extra up s0 s1 = false -> ~ brick_surplus up s0 s1 r c.
Proof.
  unfold brick_surplus, brick_coord_to_index, brick_extra. destruct (brick_sq up s0 s1) as [q0 q1].
  destruct up; intros ->; unfold np_ravel; destruct (in_box [q0; q1] [r; c]); cbn [option_map]; discriminate.
Qed.

Lemma grid_pos_facts q0 q1 r c : 0 < q1 -> 0 <= r < q0 -> 0 <= c < q1 ->
  (r * q1 + c = (q0 - 1) * q1 <-> r = q0 - 1 /\ c = 0) /\
  (r * q1 + c = q1 - 1 <-> r = 0 /\ c = q1 - 1) /\
  (r * q1 + c = q0 * q1 - 1 <-> r = q0 - 1 /\ c = q1 - 1).
Proof.
  intros Hq Hr Hc. split; [|split]; split.
  - intros E. destruct (Z.eq_dec r (q0 - 1)) as [->|N]; [lia|]. exfalso.
    assert ((r + 1) * q1 <= (q0 - 1) * q1) by (apply Z.mul_le_mono_nonneg_r; lia). lia.
  - intros [-> ->]. ring.
  - intros E. destruct (Z.eq_dec r 0) as [->|N]; [lia|]. exfalso.
    assert (1 * q1 <= r * q1) by (apply Z.mul_le_mono_nonneg_r; lia). lia.
  - intros [-> ->]. ring.
  - intros E. destruct (Z.eq_dec r (q0 - 1)) as [->|N]; [lia|]. exfalso.
    assert ((r + 1) * q1 <= (q0 - 1) * q1) by (apply Z.mul_le_mono_nonneg_r; lia). lia.
  - intros [-> ->]. ring.
Qed.

Lemma surplus_up_iff s0 s1 r c : 1 < s1 -> 0 <= r < 2 * s0 + 2 -> 0 <= c < s1 + 1 ->
  (brick_surplus true s0 s1 r c <->
   (r = 2 * s0 + 2 - 1 /\ c = 0) \/ (s1 mod 2 = 0 /\ r = 0 /\ c = s1 + 1 - 1) \/
   (s1 mod 2 <> 0 /\ r = 2 * s0 + 2 - 1 /\ c = s1 + 1 - 1)).
Proof.
  intros E Hr Hc. unfold brick_surplus, brick_coord_to_index. rewrite (brick_sq_up s0 s1 E).
  replace (1 <? s1) with true by lia. unfold np_ravel. rewrite in_box2 by assumption. cbn [option_map].
  atoms; zb; split; intros H; try discriminate; try lia; try reflexivity.
Qed.

Lemma surplus_left_iff s0 s1 r c : 1 < s0 -> 0 <= r < s0 + 1 -> 0 <= c < 2 * s1 + 2 ->
  (brick_surplus false s0 s1 r c <->
   (r = 0 /\ c = 2 * s1 + 2 - 1) \/ (s0 mod 2 = 0 /\ r = s0 + 1 - 1 /\ c = 0) \/
   (s0 mod 2 <> 0 /\ r = s0 + 1 - 1 /\ c = 2 * s1 + 2 - 1)).
Proof.
  intros E Hr Hc. unfold brick_surplus, brick_coord_to_index. rewrite (brick_sq_left s0 s1 E).
  replace (1 <? s0) with true by lia. unfold np_ravel. rewrite in_box2 by assumption. cbn [option_map].
  atoms; zb; split; intros H; try discriminate; try lia; try reflexivity.
Qed.

(** delete = False: the two surplus points are disconnected, nothing is renumbered *)
Theorem brick_adj_disconnect_iff up s0 s1 r c r' c' : 1 <= s0 -> 1 <= s1 ->
  let q0 := fst (brick_sq up s0 s1) in let q1 := snd (brick_sq up s0 s1) in
  0 <= r < q0 -> 0 <= c < q1 -> 0 <= r' < q0 -> 0 <= c' < q1 ->
  (In (r * q1 + c, r' * q1 + c') (snd (brick_adj up false s0 s1)) <->
   In (r * q1 + c, r' * q1 + c') (brick_sq_pairs up s0 s1) /\
   ~ brick_surplus up s0 s1 r c /\ ~ brick_surplus up s0 s1 r' c').
Proof.
  intros H0 H1 q0 q1 Hr Hc Hr' Hc'. rewrite brick_adj_unfold. cbv zeta. unfold brick_disconnect_extra.
  destruct (brick_extra up s0 s1) eqn:EX.
  - unfold brick_disconnect_positions. unfold brick_extra in EX.
    subst q0 q1. destruct up; zb.
    + rewrite (surplus_up_iff s0 s1 r c EX), (surplus_up_iff s0 s1 r' c' EX)
        by (rewrite (brick_sq_up s0 s1 EX) in *; assumption).
      rewrite (brick_sq_up s0 s1 EX) in *. cbn [fst snd] in *. replace (1 <? s1) with true by lia.
      cbn [fold_left]. rewrite !in_np_zero. rewrite fst_np_zero. cbn [fst snd]. unfold norm_idx.
      set (q0 := 2 * s0 + 2) in *. set (q1 := s1 + 1) in *.
      assert (Q0 : 4 <= q0) by (unfold q0; lia). assert (S1 : s1 = q1 - 1) by (unfold q1; lia). rewrite S1.
      assert (Q1 : 3 <= q1) by lia. clearbody q0 q1. clear S1 EX H1.
      destruct (grid_pos_facts q0 q1 r c ltac:(lia) Hr Hc) as [F1 [F2 F3]].
      destruct (grid_pos_facts q0 q1 r' c' ltac:(lia) Hr' Hc') as [G1 [G2 G3]].
      assert (NN : 0 <= (q0 - 1) * q1) by (apply Z.mul_nonneg_nonneg; lia).
      replace ((q0 - 1) * q1 <? 0) with false by lia.
      rewrite <- F1, <- F2, <- F3, <- G1, <- G2, <- G3. clear F1 F2 F3 G1 G2 G3.
      set (k := r * q1 + c) in *. set (k' := r' * q1 + c') in *. set (A := (q0 - 1) * q1) in *. set (N := q0 * q1) in *.
      clearbody k k' A N.
      destruct (q1 mod 2 =? 0) eqn:P; zb.
      * assert (M : (q1 - 1) mod 2 = 1) by lia. rewrite M. clear P M. replace (-1 <? 0) with true by reflexivity.
        split; [intros [[H [A1 A2]] [B1 B2]]; split; [exact H|]; split; intro; lia
               |intros [H [S1 S2]]; repeat split; try assumption; intro; lia].
      * assert (M : (q1 - 1) mod 2 = 0) by lia. rewrite M. clear P M. replace (q1 - 1 <? 0) with false by lia.
        split; [intros [[H [A1 A2]] [B1 B2]]; split; [exact H|]; split; intro; lia
               |intros [H [S1 S2]]; repeat split; try assumption; intro; lia].
    + rewrite (surplus_left_iff s0 s1 r c EX), (surplus_left_iff s0 s1 r' c' EX)
        by (rewrite (brick_sq_left s0 s1 EX) in *; assumption).
      rewrite (brick_sq_left s0 s1 EX) in *. cbn [fst snd] in *. replace (1 <? s0) with true by lia.
      cbn [fold_left]. rewrite !in_np_zero. rewrite fst_np_zero. cbn [fst snd]. unfold norm_idx.
      set (q0 := s0 + 1) in *. set (q1 := 2 * s1 + 2) in *.
      assert (Q1 : 4 <= q1) by (unfold q1; lia). assert (S0 : s0 = q0 - 1) by (unfold q0; lia). rewrite S0.
      assert (Q0 : 3 <= q0) by lia. clearbody q0 q1. clear S0 EX H0.
      destruct (grid_pos_facts q0 q1 r c ltac:(lia) Hr Hc) as [F1 [F2 F3]].
      destruct (grid_pos_facts q0 q1 r' c' ltac:(lia) Hr' Hc') as [G1 [G2 G3]].
      assert (NN : 0 <= (q0 - 1) * q1) by (apply Z.mul_nonneg_nonneg; lia).
      replace (q1 - 1 <? 0) with false by lia.
      rewrite <- F1, <- F2, <- F3, <- G1, <- G2, <- G3. clear F1 F2 F3 G1 G2 G3.
      set (k := r * q1 + c) in *. set (k' := r' * q1 + c') in *. set (A := (q0 - 1) * q1) in *. set (N := q0 * q1) in *.
      clearbody k k' A N.
      destruct (q0 mod 2 =? 1) eqn:P; zb.
      * assert (M : (q0 - 1) mod 2 = 0) by lia. rewrite M. clear P M. replace (A <? 0) with false by lia.
        split; [intros [[H [A1 A2]] [B1 B2]]; split; [exact H|]; split; intro; lia
               |intros [H [S1 S2]]; repeat split; try assumption; intro; lia].
      * assert (M : (q0 - 1) mod 2 = 1) by lia. rewrite M. clear P M. replace (-1 <? 0) with true by reflexivity.
        split; [intros [[H [A1 A2]] [B1 B2]]; split; [exact H|]; split; intro; lia
               |intros [H [S1 S2]]; repeat split; try assumption; intro; lia].
  - assert (P : brick_disconnect_positions up s0 s1 = []).
    { unfold brick_disconnect_positions, brick_extra in *. destruct (brick_sq up s0 s1). destruct up; rewrite EX; reflexivity. }
    rewrite P. cbn [fold_left snd]. pose proof (surplus_noextra up s0 s1 r c EX). pose proof (surplus_noextra up s0 s1 r' c' EX). tauto.
Qed.

(** * assembling (A) (B) (C) *)
Lemma np_unravel_some sh k cc : np_unravel sh k = Some cc -> 0 <= k < zprod sh /\ cc = unravel sh k.
Proof.
  unfold np_unravel. destruct (0 <=? k) eqn:E1; destruct (k <? zprod sh) eqn:E2; cbn [andb]; try discriminate.
  intros [= <-]. zb. auto.
Qed.

Lemma brick_i2c_grid up del s0 s1 i r c : 1 <= s0 -> 1 <= s1 ->
  brick_index_to_coord up del s0 s1 i = Some [r; c] ->
  0 <= r < fst (brick_sq up s0 s1) /\ 0 <= c < snd (brick_sq up s0 s1) /\
  r * snd (brick_sq up s0 s1) + c = (if del then brick_k up s0 s1 i else i).
Proof.
  intros H0 H1 E. destruct (brick_sq_pos up s0 s1 H0 H1) as [Q0 Q1].
  unfold brick_index_to_coord, brick_k in *. destruct (brick_sq up s0 s1) as [q0 q1]. cbn [fst snd] in *.
  assert (G : forall k, np_unravel [q0; q1] k = Some [r; c] -> 0 <= r < q0 /\ 0 <= c < q1 /\ r * q1 + c = k).
  { intros k Hk. apply np_unravel_some in Hk as [Bk Ek]. 
    assert (PS : pos_shape [q0; q1]) by (repeat constructor; lia).
    pose proof (unravel_valid _ _ PS Bk) as V. rewrite <- Ek in V.
    destruct (valid2' _ _ _ V) as [x [y [E2 [Hx Hy]]]]. injection E2 as -> ->.
    split; [assumption|]. split; [assumption|]. rewrite <- ravel2 with (q0 := q0). rewrite Ek. apply ravel_unravel; assumption. }
  destruct del.
  - destruct (i <? brick_nsites up true s0 s1); [|discriminate]. apply G, E.
  - apply G, E.
Qed.

Theorem brick_adjacency_iff up del s0 s1 i j r c r' c' : 1 <= s0 -> 1 <= s1 ->
  0 <= i < brick_nsites up del s0 s1 -> 0 <= j < brick_nsites up del s0 s1 ->
  brick_index_to_coord up del s0 s1 i = Some [r; c] -> brick_index_to_coord up del s0 s1 j = Some [r'; c'] ->
  (In (i, j) (snd (brick_adj up del s0 s1)) <->
   sq_nn up r c r' c' /\ ~ brick_surplus up s0 s1 r c /\ ~ brick_surplus up s0 s1 r' c').
Proof.
  intros H0 H1 Hi Hj Ei Ej.
  destruct (brick_i2c_grid _ _ _ _ _ _ _ H0 H1 Ei) as [Br [Bc Ek]].
  destruct (brick_i2c_grid _ _ _ _ _ _ _ H0 H1 Ej) as [Br' [Bc' El]].
  rewrite <- (sq_pairs_iff up s0 s1 r c r' c' H0 H1 Br Bc Br' Bc'). destruct del.
  - rewrite (brick_adj_delete_iff up s0 s1 i j H0 H1 Hi Hj). rewrite <- Ek, <- El.
    destruct (brick_roundtrip up true s0 s1 i H0 H1 Hi) as [x [y [E1 [E2 _]]]].
    destruct (brick_roundtrip up true s0 s1 j H0 H1 Hj) as [x' [y' [E3 [E4 _]]]].
    rewrite Ei in E1. injection E1 as <- <-. rewrite Ej in E3. injection E3 as <- <-.
    unfold brick_surplus. rewrite E2, E4. intuition discriminate.
  - rewrite <- Ek, <- El. apply brick_adj_disconnect_iff; assumption.
Qed.

(** hexagonal lattice: adjacency = Euclidean distance 1 between the site positions *)
Theorem hex_adjacency_iff up s0 s1 i j p p' : 1 <= s0 -> 1 <= s1 ->
  0 <= i < hex_nsites s0 s1 -> 0 <= j < hex_nsites s0 s1 ->
  hex_index_to_coord up s0 s1 i = Some p -> hex_index_to_coord up s0 s1 j = Some p' ->
  (In (i, j) (snd (brick_adj up true s0 s1)) <-> hex_dist4 up p p' = 4).
Proof.
  intros H0 H1 Hi Hj Ei Ej.
  assert (NS : hex_nsites s0 s1 = brick_nsites up true s0 s1) by (unfold brick_nsites, hex_nsites; reflexivity).
  rewrite NS in Hi, Hj.
  destruct (brick_roundtrip up true s0 s1 i H0 H1 Hi) as [r [c [E1 [E2 _]]]].
  destruct (brick_roundtrip up true s0 s1 j H0 H1 Hj) as [r' [c' [E3 [E4 _]]]].
  unfold hex_index_to_coord in Ei, Ej. rewrite E1 in Ei. rewrite E3 in Ej. injection Ei as <-. injection Ej as <-.
  rewrite (brick_adjacency_iff up true s0 s1 i j r c r' c' H0 H1 Hi Hj E1 E3).
  rewrite sq_nn_unit_distance. unfold brick_surplus. rewrite E2, E4. intuition discriminate.
Qed.

(** matrix size *)
Theorem brick_adj_size up del s0 s1 : 1 <= s0 -> 1 <= s1 -> fst (brick_adj up del s0 s1) = brick_nsites up del s0 s1.
Proof.
  intros H0 H1. rewrite brick_adj_unfold. cbv zeta. unfold brick_delete_extra, brick_disconnect_extra.
  destruct (brick_extra up s0 s1) eqn:EX.
  - destruct del.
    + rewrite (brick_nsites_del_extra up s0 s1 H0 H1 EX). unfold brick_delete_positions, brick_extra in *.
      destruct (brick_sq up s0 s1) as [q0 q1]. destruct up; rewrite EX; cbn [fold_left fst snd]; rewrite !fst_np_delete; cbn [fst]; lia.
    + rewrite (brick_nsites_nodel_extra up s0 s1 H0 H1 EX). unfold brick_disconnect_positions, brick_extra in *.
      destruct (brick_sq up s0 s1) as [q0 q1]. destruct up; rewrite EX; cbn [fold_left fst snd]; rewrite !fst_np_zero; reflexivity.
  - rewrite (brick_nsites_noextra up del s0 s1 H0 H1 EX). unfold brick_delete_positions, brick_disconnect_positions, brick_extra in *.
    destruct (brick_sq up s0 s1) as [q0 q1]. destruct del, up; rewrite EX; reflexivity.
Qed.

(** every written pair is inside the matrix *)
Theorem brick_adj_range up del s0 s1 i j : 1 <= s0 -> 1 <= s1 ->
  In (i, j) (snd (brick_adj up del s0 s1)) ->
  0 <= i < brick_nsites up del s0 s1 /\ 0 <= j < brick_nsites up del s0 s1.
Proof.
  intros H0 H1. rewrite brick_adj_unfold. cbv zeta. unfold brick_delete_extra, brick_disconnect_extra.
  pose proof (sq_pairs_range up s0 s1) as RG.
  destruct (brick_extra up s0 s1) eqn:EX.
  - destruct del.
    + rewrite (brick_nsites_del_extra up s0 s1 H0 H1 EX). unfold brick_delete_positions. unfold brick_extra in EX. destruct up; zb.
      * pose proof (renum_up s0 s1 H0 EX) as [_ R2]. rewrite (brick_sq_up s0 s1 EX) in *. cbn [fst snd] in *.
        replace (1 <? s1) with true by lia. cbn [fold_left].
        set (qa := (2 * s0 + 2 - 1) * (s1 + 1)) in *.
        set (qb := norm_idx ((2 * s0 + 2) * (s1 + 1) - 1) (if (s1 + 1) mod 2 =? 0 then -1 else s1 + 1 - 1)) in *.
        assert (NA : norm_idx ((2 * s0 + 2) * (s1 + 1)) qa = qa) by (apply norm_idx_nonneg; unfold qa; nia).
        rewrite (in_np_delete' _ _ qb) by reflexivity.
        intros [k' [l' [H [N1 [N2 [-> ->]]]]]].
        apply (in_np_delete' _ _ qa) in H; [|exact NA]. destruct H as [k [l [H [M1 [M2 [-> ->]]]]]]. cbn [fst snd] in *.
        destruct (RG _ _ H) as [Bk Bl].
        destruct (R2 k Bk) as [Rk _]; [intros [D|D]; [apply M1, D|apply N1, D]|].
        destruct (R2 l Bl) as [Rl _]; [intros [D|D]; [apply M2, D|apply N2, D]|]. auto.
      * pose proof (renum_left s0 s1 EX H1) as [_ R2]. rewrite (brick_sq_left s0 s1 EX) in *. cbn [fst snd] in *.
        replace (1 <? s0) with true by lia. cbn [fold_left].
        set (qa := 2 * s1 + 2 - 1) in *.
        set (qb := norm_idx ((s0 + 1) * (2 * s1 + 2) - 1) (if (s0 + 1) mod 2 =? 1 then (s0 + 1 - 1) * (2 * s1 + 2) - 1 else -1)) in *.
        assert (NA : norm_idx ((s0 + 1) * (2 * s1 + 2)) qa = qa) by (apply norm_idx_nonneg; unfold qa; lia).
        rewrite (in_np_delete' _ _ qb) by reflexivity.
        intros [k' [l' [H [N1 [N2 [-> ->]]]]]].
        apply (in_np_delete' _ _ qa) in H; [|exact NA]. destruct H as [k [l [H [M1 [M2 [-> ->]]]]]]. cbn [fst snd] in *.
        destruct (RG _ _ H) as [Bk Bl].
        destruct (R2 k Bk) as [Rk _]; [intros [D|D]; [apply M1, D|apply N1, D]|].
        destruct (R2 l Bl) as [Rl _]; [intros [D|D]; [apply M2, D|apply N2, D]|]. auto.
    + rewrite (brick_nsites_nodel_extra up s0 s1 H0 H1 EX). unfold brick_disconnect_positions, brick_extra in *.
      destruct (brick_sq up s0 s1) as [q0 q1]. cbn [fst snd] in *.
      destruct up; rewrite EX; cbn [fold_left]; rewrite !in_np_zero; intros [[H _] _]; apply RG, H.
  - rewrite (brick_nsites_noextra up del s0 s1 H0 H1 EX). unfold brick_delete_positions, brick_disconnect_positions, brick_extra in *.
    destruct (brick_sq up s0 s1) as [q0 q1]. cbn [fst snd] in *. destruct del, up; rewrite EX; cbn [fold_left snd]; apply RG.
Qed.

Lemma sq_nn_sym up r c r' c' : sq_nn up r c r' c' -> sq_nn up r' c' r c.
Proof. rewrite !sq_nn_unit_distance. unfold hex_dist4. destruct up; intros H; rewrite <- H; ring. Qed.

Lemma sq_nn_irrefl up r c : ~ sq_nn up r c r c.
Proof. rewrite sq_nn_unit_distance. unfold hex_dist4. destruct up; intros H; ring_simplify in H; lia. Qed.

Theorem brick_adjacency_symmetric up del s0 s1 i j : 1 <= s0 -> 1 <= s1 ->
  In (i, j) (snd (brick_adj up del s0 s1)) -> In (j, i) (snd (brick_adj up del s0 s1)).
Proof.
  intros H0 H1 H. destruct (brick_adj_range _ _ _ _ _ _ H0 H1 H) as [Hi Hj].
  destruct (brick_roundtrip up del s0 s1 i H0 H1 Hi) as [r [c [E1 _]]].
  destruct (brick_roundtrip up del s0 s1 j H0 H1 Hj) as [r' [c' [E3 _]]].
  apply (brick_adjacency_iff up del s0 s1 i j r c r' c') in H; try assumption.
  apply (brick_adjacency_iff up del s0 s1 j i r' c' r c); try assumption.
  destruct H as [N [S S']]. auto using sq_nn_sym.
Qed.

Theorem brick_adjacency_irreflexive up del s0 s1 i : 1 <= s0 -> 1 <= s1 ->
  ~ In (i, i) (snd (brick_adj up del s0 s1)).
Proof.
  intros H0 H1 H. destruct (brick_adj_range _ _ _ _ _ _ H0 H1 H) as [Hi _].
  destruct (brick_roundtrip up del s0 s1 i H0 H1 Hi) as [r [c [E1 _]]].
  apply (brick_adjacency_iff up del s0 s1 i i r c r c) in H; try assumption.
  destruct H as [N _]. exact (sq_nn_irrefl _ _ _ N).
Qed.
