(** Mixed-radix (row-major) index arithmetic for every number of axes:
    ravel/unravel are mutually inverse bijections between the box and [0, prod shape). *)
From Qib Require Export Lattice.LatModel.
From Coq Require Import FinFun.
Local Open Scope Z_scope.

Definition pos_shape (sh : list Z) : Prop := Forall (fun n => 0 < n) sh.
Definition valid (sh : list Z) (c : coord) : Prop := Forall2 (fun n x => 0 <= x < n) sh c.

Lemma in_zrange n x : In x (zrange n) <-> 0 <= x < n.
Proof.
  unfold zrange. rewrite in_map_iff. split.
  - intros [k [<- H]]. apply in_seq in H. lia.
  - intros H. exists (Z.to_nat x). split; [lia|]. apply in_seq. lia.
Qed.

Lemma zrange_NoDup n : NoDup (zrange n).
Proof.
  unfold zrange. apply Injective_map_NoDup.
  - intros a b. lia.
  - apply seq_NoDup.
Qed.

Lemma zprod_pos sh : pos_shape sh -> 0 < zprod sh.
Proof. induction 1; cbn [zprod]; lia. Qed.

Lemma valid_pos sh c : valid sh c -> pos_shape sh.
Proof. induction 1; constructor; auto; lia. Qed.

Lemma valid_length sh c : valid sh c -> length c = length sh.
Proof. induction 1; cbn; congruence. Qed.

Lemma in_box_valid sh : forall c, in_box sh c = true <-> valid sh c.
Proof.
  induction sh as [|n sh IH]; intros [|x c]; cbn [in_box]; split; intros H;
    try discriminate; try (inversion H; fail); try constructor; try reflexivity.
  - apply andb_true_iff in H as [H H2]. apply andb_true_iff in H as [H0 H1]. lia.
  - apply andb_true_iff in H as [H H2]. apply IH, H2.
  - inversion H; subst. apply andb_true_iff. split; [|apply IH; assumption].
    apply andb_true_iff. split; lia.
Qed.

Lemma ravel_bound sh : forall c, valid sh c -> 0 <= ravel sh c < zprod sh.
Proof.
  induction sh as [|n sh IH]; intros c H; inversion H; subst; cbn [ravel zprod]; [lia|].
  specialize (IH _ H4). nia.
Qed.

Lemma unravel_length sh : forall i, length (unravel sh i) = length sh.
Proof. induction sh as [|n sh IH]; intros i; cbn [unravel length]; [reflexivity|]. rewrite IH. reflexivity. Qed.

Lemma unravel_valid sh : forall i, pos_shape sh -> 0 <= i < zprod sh -> valid sh (unravel sh i).
Proof.
  induction sh as [|n sh IH]; intros i P H; cbn [unravel]; [constructor|].
  inversion P; subst. pose proof (zprod_pos _ H3) as Q. cbn [zprod] in H.
  constructor.
  - split; [apply Z.div_pos; lia|]. apply Z.div_lt_upper_bound; lia.
  - apply IH; [assumption|]. apply Z.mod_pos_bound. lia.
Qed.

Lemma ravel_unravel sh : forall i, pos_shape sh -> 0 <= i < zprod sh -> ravel sh (unravel sh i) = i.
Proof.
  induction sh as [|n sh IH]; intros i P H; cbn [unravel ravel zprod] in *; [lia|].
  inversion P; subst. pose proof (zprod_pos _ H3) as Q.
  rewrite IH; [|assumption|apply Z.mod_pos_bound; lia].
  pose proof (Z.div_mod i (zprod sh)). lia.
Qed.

Lemma unravel_ravel sh : forall c, valid sh c -> unravel sh (ravel sh c) = c.
Proof.
  induction sh as [|n sh IH]; intros c H; inversion H; subst; cbn [ravel unravel]; [reflexivity|].
  pose proof (ravel_bound _ _ H4) as B.
  assert (E1 : (y * zprod sh + ravel sh l') / zprod sh = y).
  { symmetry. apply (Z.div_unique_pos _ _ _ (ravel sh l')); lia. }
  assert (E2 : (y * zprod sh + ravel sh l') mod zprod sh = ravel sh l').
  { symmetry. apply (Z.mod_unique_pos _ _ y); lia. }
  rewrite E1, E2, IH by assumption. reflexivity.
Qed.

Lemma ravel_inj sh c c' : valid sh c -> valid sh c' -> ravel sh c = ravel sh c' -> c = c'.
Proof. intros H H' E. rewrite <- (unravel_ravel sh c H), <- (unravel_ravel sh c' H'). congruence. Qed.

Lemma unravel_inj sh i j : pos_shape sh -> 0 <= i < zprod sh -> 0 <= j < zprod sh ->
  unravel sh i = unravel sh j -> i = j.
Proof. intros P Hi Hj E. rewrite <- (ravel_unravel sh i P Hi), <- (ravel_unravel sh j P Hj). congruence. Qed.

Lemma all_coords_valid sh : forall c, In c (all_coords sh) <-> valid sh c.
Proof.
  induction sh as [|n sh IH]; intros c; cbn [all_coords].
  - split; [intros [<-|[]]; constructor | intros H; inversion H; left; reflexivity].
  - rewrite in_flat_map. split.
    + intros [x [Hx H]]. apply in_map_iff in H as [c' [<- H]].
      constructor; [apply in_zrange, Hx | apply IH, H].
    + intros H. inversion H; subst. exists y. split; [apply in_zrange; assumption|].
      apply in_map. apply IH. assumption.
Qed.

Lemma coord_eqb_eq a : forall b, coord_eqb a b = true <-> a = b.
Proof.
  induction a as [|x a IH]; intros [|y b]; cbn [coord_eqb]; split; intros H; try discriminate; try reflexivity.
  - apply andb_true_iff in H as [H1 H2]. apply Z.eqb_eq in H1. apply IH in H2. congruence.
  - injection H as -> ->. rewrite Z.eqb_refl. apply IH. reflexivity.
Qed.

(** * nth / set_nth *)
Lemma set_nth_length d v : forall c, length (set_nth d v c) = length c.
Proof. induction d as [|d IH]; intros [|x c]; cbn [set_nth length]; try reflexivity. rewrite IH. reflexivity. Qed.

Lemma nth_set_nth_eq d v : forall c, (d < length c)%nat -> nth d (set_nth d v c) 0 = v.
Proof.
  induction d as [|d IH]; intros [|x c] H; cbn [length] in H; try lia; cbn [set_nth nth]; [reflexivity|].
  apply IH. lia.
Qed.

Lemma nth_set_nth_neq d v k : forall c, k <> d -> nth k (set_nth d v c) 0 = nth k c 0.
Proof.
  revert k. induction d as [|d IH]; intros k [|x c] H; cbn [set_nth]; try reflexivity.
  - destruct k; [congruence|reflexivity].
  - destruct k; [reflexivity|]. cbn [nth]. apply IH. congruence.
Qed.

Lemma nth_ext_Z (a b : coord) : length a = length b -> (forall k, (k < length a)%nat -> nth k a 0 = nth k b 0) -> a = b.
Proof.
  revert b. induction a as [|x a IH]; intros [|y b] L H; cbn [length] in L; try discriminate; [reflexivity|].
  f_equal.
  - apply (H 0%nat). cbn. lia.
  - apply IH; [congruence|]. intros k Hk. apply (H (S k)). cbn. lia.
Qed.

Lemma valid_nth sh c : valid sh c -> forall k, (k < length sh)%nat -> 0 <= nth k c 0 < nth k sh 0.
Proof.
  induction 1; intros k Hk; cbn [length] in Hk; [lia|].
  destruct k; cbn [nth]; [assumption|]. apply IHForall2. lia.
Qed.

Lemma valid_of_nth sh : forall c, length c = length sh ->
  (forall k, (k < length sh)%nat -> 0 <= nth k c 0 < nth k sh 0) -> valid sh c.
Proof.
  induction sh as [|n sh IH]; intros [|x c] L H; cbn [length] in L; try discriminate; constructor.
  - apply (H 0%nat). cbn. lia.
  - apply IH; [congruence|]. intros k Hk. apply (H (S k)). cbn. lia.
Qed.

Lemma nth_default_1_0 sh d : (d < length sh)%nat -> nth d sh 1 = nth d sh 0.
Proof. intros H. apply nth_indep. assumption. Qed.

(** * index maps of the box-shaped classes (Integer, Triangular, FullyConnected, Customized) *)
Lemma assert_all_lt_valid sh c : valid sh c -> assert_all_lt sh c = true.
Proof. induction 1; cbn [assert_all_lt]; [reflexivity|]. apply andb_true_iff. split; [lia|assumption]. Qed.

Theorem box_roundtrip sh i : pos_shape sh -> 0 <= i < zprod sh ->
  exists c, box_index_to_coord sh i = Some c /\ valid sh c /\ box_coord_to_index sh c = Some i.
Proof.
  intros P H. exists (unravel sh i). pose proof (unravel_valid sh i P H) as V.
  unfold box_index_to_coord, box_coord_to_index, np_unravel, np_ravel.
  assert (E1 : (i <? zprod sh) = true) by lia. assert (E0 : (0 <=? i) = true) by lia.
  rewrite E1, E0. cbn [andb].
  rewrite (assert_all_lt_valid _ _ V). rewrite (proj2 (in_box_valid _ _) V).
  rewrite ravel_unravel by assumption. repeat split; auto.
Qed.

Theorem box_coord_injective sh i j c : pos_shape sh ->
  box_index_to_coord sh i = Some c -> box_index_to_coord sh j = Some c -> i = j.
Proof.
  unfold box_index_to_coord, np_unravel. intros P Hi Hj.
  destruct (i <? zprod sh) eqn:E1; [|discriminate]. destruct (0 <=? i) eqn:E2; [|discriminate].
  destruct (j <? zprod sh) eqn:E3; [|discriminate]. destruct (0 <=? j) eqn:E4; [|discriminate].
  cbn [andb] in Hi, Hj.
  injection Hi as Hi. injection Hj as Hj. apply (unravel_inj sh); try lia; [assumption|congruence].
Qed.

Theorem box_coord_roundtrip sh c : valid sh c ->
  exists i, box_coord_to_index sh c = Some i /\ 0 <= i < zprod sh /\ box_index_to_coord sh i = Some c.
Proof.
  intros V. exists (ravel sh c). pose proof (ravel_bound _ _ V) as B.
  unfold box_index_to_coord, box_coord_to_index, np_unravel, np_ravel.
  rewrite (assert_all_lt_valid _ _ V), (proj2 (in_box_valid _ _) V).
  assert (E1 : (ravel sh c <? zprod sh) = true) by lia. assert (E0 : (0 <=? ravel sh c) = true) by lia.
  rewrite E1, E0. cbn [andb].
  rewrite unravel_ravel by assumption. repeat split; auto; lia.
Qed.
