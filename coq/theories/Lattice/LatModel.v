(** Executable model of the lattice classes of qib (src/qib/lattice/*.py).  No proofs here.

    Indices and extents are [Z]; a coordinate is a [list Z] (one entry per axis).
    Half-integer / sqrt(3)-scaled coordinates are stored exactly:
      - OddFaceCenteredLattice: every coordinate is stored DOUBLED (vertex (x,y) -> [2x;2y],
        face centre (x+0.5, y+0.5) -> [2x+1; 2y+1]);
      - HexagonalLattice, COLS_SHIFTED_UP : (x,y) = (k*sqrt3/2, Y/2)  -> [k; Y]
                          ROWS_SHIFTED_LEFT: (x,y) = (X/2, k*sqrt3/2)  -> [X; k].

    numpy calls are modelled as the mathematical functions they are documented to be
    (assumed, validated by the correspondence run):
      np.arange(N).reshape(sh)[c]          = ravel sh c               (row major)
      np.unravel_index / ravel_multi_index = unravel / ravel, ValueError outside the box
      np.roll(a, s, axis=d)[c]             = a[c with c_d := (c_d - s) mod n_d]
      a.reshape(pre,n_d,post)[:,1:,:] / [:,:-1,:]  selects the entries with c_d >= 1 / c_d <= n_d-2
      np.delete(a, p, axis)                removes index p (negative p counts from the end)
      np.block of equal square blocks      = block matrix
    The adjacency matrix is "the set of index pairs the loops write a 1 to" (it starts as
    np.zeros, so it is 0/1 by construction), together with its size. *)
From Coq Require Export ZArith List Bool Lia.
Export ListNotations.
Local Open Scope Z_scope.

Definition coord := list Z.

(** * row-major index arithmetic *)
Fixpoint zprod (l : list Z) : Z :=
  match l with [] => 1 | n :: l' => n * zprod l' end.

Fixpoint ravel (sh : list Z) (c : coord) : Z :=
  match sh, c with
  | _ :: sh', x :: c' => x * zprod sh' + ravel sh' c'
  | _, _ => 0
  end.

Fixpoint unravel (sh : list Z) (i : Z) : coord :=
  match sh with
  | [] => []
  | _ :: sh' => i / zprod sh' :: unravel sh' (i mod zprod sh')
  end.

Definition zrange (n : Z) : list Z := map Z.of_nat (seq 0 (Z.to_nat n)).

(** all multi-indices of a box, in row-major (= numpy iteration) order *)
Fixpoint all_coords (sh : list Z) : list coord :=
  match sh with
  | [] => [[]]
  | n :: sh' => flat_map (fun x => map (cons x) (all_coords sh')) (zrange n)
  end.

Fixpoint in_box (sh : list Z) (c : coord) : bool :=
  match sh, c with
  | [], [] => true
  | n :: sh', x :: c' => (0 <=? x) && (x <? n) && in_box sh' c'
  | _, _ => false
  end.

Fixpoint coord_eqb (a b : coord) : bool :=
  match a, b with
  | [], [] => true
  | x :: a', y :: b' => (x =? y) && coord_eqb a' b'
  | _, _ => false
  end.

Fixpoint set_nth (d : nat) (v : Z) (c : coord) : coord :=
  match d, c with
  | O, _ :: c' => v :: c'
  | S d', x :: c' => x :: set_nth d' v c'
  | _, [] => []
  end.

(** numpy primitives that can raise: [None] = exception *)
Definition np_unravel (sh : list Z) (i : Z) : option coord :=
  if (0 <=? i) && (i <? zprod sh) then Some (unravel sh i) else None.
Definition np_ravel (sh : list Z) (c : coord) : option Z :=
  if in_box sh c then Some (ravel sh c) else None.

(** [for i, n in enumerate(shape): assert c[i] < n]  (IndexError when c is too short) *)
Fixpoint assert_all_lt (sh : list Z) (c : coord) : bool :=
  match sh, c with
  | [], _ => true
  | n :: sh', x :: c' => (x <? n) && assert_all_lt sh' c'
  | _ :: _, [] => false
  end.

(** * np.roll based neighbour pairing *)
(** coordinate whose entry np.roll(idx, s, axis=d) shows at position c *)
Definition roll1 (sh : list Z) (d : nat) (s : Z) (c : coord) : coord :=
  set_nth d ((nth d c 0 - s) mod nth d sh 1) c.

(** open-boundary cut: [1:] for s = 1, [:-1] for s = -1 *)
Definition keep (sh : list Z) (d : nat) (s : Z) (c : coord) : bool :=
  if s =? 1 then 1 <=? nth d c 0 else nth d c 0 <=? nth d sh 0 - 2.

Definition ipair := (Z * Z)%type.
Definition ipair_eqb (p q : ipair) : bool := (fst p =? fst q) && (snd p =? snd q).
Definition ne_pair (p : ipair) : bool := negb (fst p =? snd p).

(** pairs (idx[c], ids[c]) over the kept positions, for one axis and one shift *)
Definition axis_pairs (sh : list Z) (per : bool) (d : nat) (s : Z) : list ipair :=
  map (fun c => (ravel sh c, ravel sh (roll1 sh d s c)))
      (filter (fun c => per || keep sh d s c) (all_coords sh)).

Definition shifts : list Z := [-1; 1].

(** ** IntegerLattice.adjacency_matrix (with the proposed repair: [if i != j] on periodic axes).
    [guard = false] is the code before the repair. *)
Definition int_pairs_g (guard : bool) (sh : list Z) (pbc : list bool) : list ipair :=
  flat_map (fun d =>
    flat_map (fun s =>
      let per := nth d pbc false in
      let ps := axis_pairs sh per d s in
      if per && guard then filter ne_pair ps else ps) shifts)
    (seq 0 (length sh)).
Definition int_pairs := int_pairs_g true.

(** ** TriangularLattice.adjacency_matrix (repaired): axis links + the (1,1) chord *)
Definition diag_pairs (sh : list Z) (cut0 cut1 : bool) (s : Z) : list ipair :=
  map (fun c => (ravel sh c, ravel sh (roll1 sh 1 s (roll1 sh 0 s c))))
      (filter (fun c => (negb cut0 || keep sh 0 s c) && (negb cut1 || keep sh 1 s c)) (all_coords sh)).

(** [repaired = false]: the code as found (no self-loop guard; axis 0 periodic => no cut at all) *)
Definition tri_diag_g (repaired : bool) (sh : list Z) (pbc : list bool) : list ipair :=
  flat_map (fun d =>
    flat_map (fun s =>
      let p0 := nth d pbc false in
      let p1 := nth (S d) pbc false in
      if repaired then
        if p0 && p1 then filter ne_pair (diag_pairs sh false false s)
        else if p0 then diag_pairs sh false true s
        else if p1 then diag_pairs sh true false s
        else diag_pairs sh true true s
      else
        if p0 then diag_pairs sh false false s
        else if p1 then diag_pairs sh true false s
        else diag_pairs sh true true s) shifts)
    (seq 0 (length sh - 1)).
Definition tri_pairs_g (repaired : bool) sh pbc := int_pairs_g repaired sh pbc ++ tri_diag_g repaired sh pbc.
Definition tri_pairs := tri_pairs_g true.

(** ** FullyConnectedLattice *)
Definition full_pairs (n : Z) : list ipair :=
  filter ne_pair (flat_map (fun i => map (fun j => (i, j)) (zrange n)) (zrange n)).

(** ** OddFaceCenteredLattice *)
Definition ofc_nverts (s0 s1 : Z) := s0 * s1.
Definition ofc_nsites (s0 s1 : Z) := s0 * s1 + ((s0 - 1) * (s1 - 1) + 1) / 2.

(** the four corners of face (x,y), in the order written; each gets a link in both directions *)
Definition ofc_corners (s1 x y : Z) : list Z :=
  [x * s1 + y; x * s1 + (y + 1); (x + 1) * s1 + y; (x + 1) * s1 + (y + 1)].
Definition ofc_face_links (s1 i x y : Z) : list ipair :=
  flat_map (fun j => [(i, j); (j, i)]) (ofc_corners s1 x y).

(** the double loop with its running counter [i]; faces with (x+y) odd are skipped *)
Definition ofc_face_step (s1 : Z) (st : Z * list ipair) (f : coord) : Z * list ipair :=
  let x := nth 0 f 0 in let y := nth 1 f 0 in
  if (x + y) mod 2 =? 1 then st
  else (fst st + 1, snd st ++ ofc_face_links s1 (fst st) x y).
Definition ofc_face_loop (s0 s1 : Z) : Z * list ipair :=
  fold_left (ofc_face_step s1) (all_coords [s0 - 1; s1 - 1]) (ofc_nverts s0 s1, []).

Definition ofc_pairs (s0 s1 : Z) (p0 p1 : bool) : list ipair :=
  int_pairs_g false [s0; s1] [p0; p1] ++ snd (ofc_face_loop s0 s1).

(** constructor check: 2-d is imposed by the caller; periodic axes need even extent *)
Definition ofc_ctor_ok (s0 s1 : Z) (p0 p1 : bool) : bool :=
  negb ((s0 mod 2 =? 1) && p0) && negb ((s1 mod 2 =? 1) && p1).

(** index maps, doubled coordinates *)
Definition ofc_face_x (s1 i : Z) := 2 * i / (s1 - 1).
Definition ofc_face_y (s1 i : Z) := let x := ofc_face_x s1 i in 2 * (i - (x * (s1 - 1) + 1) / 2) + x mod 2.
Definition ofc_index_to_coord (s0 s1 i : Z) : option coord :=
  if i <? s0 * s1 then option_map (map (Z.mul 2)) (np_unravel [s0; s1] i)
  else let k := i - s0 * s1 in Some [2 * ofc_face_x s1 k + 1; 2 * ofc_face_y s1 k + 1].

Definition ofc_face_to_index (s0 s1 x y : Z) : option Z :=
  if (x + y) mod 2 =? 1 then None
  else if (x <? 0) || (y <? 0) || (s0 - 1 <=? x) || (s1 - 1 <=? y) then None
  else Some (s0 * s1 + (x * (s1 - 1) + 1) / 2 + y / 2).

(** dtype dispatch of coord_to_index: integer tuple -> vertex; (x+0.5, y+0.5) -> face.
    Doubled input: all entries even -> vertex, all odd -> face; mixed inputs are not modelled. *)
Definition ofc_coord_to_index (s0 s1 : Z) (c2 : coord) : option Z :=
  if forallb Z.even c2 then np_ravel [s0; s1] (map (fun v => v / 2) c2)
  else match c2 with
       | [a; b] => if Z.odd a && Z.odd b then ofc_face_to_index s0 s1 ((a - 1) / 2) ((b - 1) / 2) else None
       | _ => None
       end.

(** edge_to_odd_face_index; [None] = ValueError, [Some (-1)] = no adjacent odd face *)
Definition ofc_edge_to_face (s0 s1 ix iy jx jy : Z) : option Z :=
  if negb (((ix =? jx) && (Z.abs (iy - jy) =? 1)) || ((iy =? jy) && (Z.abs (ix - jx) =? 1))) then None
  else
    let x := Z.min ix jx in let y := Z.min iy jy in
    if (x <? 0) || (y <? 0) || (s0 <=? x) || (s1 <=? y) then None
    else
      let odd := (x + y) mod 2 =? 1 in
      let x' := if odd && (ix =? jx) then x - 1 else x in
      let y' := if odd && negb (ix =? jx) then y - 1 else y in
      if (x' <? 0) || (y' <? 0) || (s0 - 1 <=? x') || (s1 - 1 <=? y') then Some (-1)
      else Some (s0 * s1 + (x' * (s1 - 1) + 1) / 2 + y' / 2).

(** ** BrickLattice ([up] = COLS_SHIFTED_UP, otherwise ROWS_SHIFTED_LEFT) *)
Definition brick_sq (up : bool) (s0 s1 : Z) : Z * Z :=
  if up then ((if 1 <? s1 then 2 * s0 + 2 else 2 * s0 + 1), s1 + 1)
  else (s0 + 1, (if 1 <? s0 then 2 * s1 + 2 else 2 * s1 + 1)).
Definition brick_extra (up : bool) (s0 s1 : Z) : bool := if up then 1 <? s1 else 1 <? s0.
Definition brick_nsites (up del : bool) (s0 s1 : Z) : Z :=
  if negb del && brick_extra up s0 s1 then 2 * s0 * s1 + 2 * (s0 + s1) + 2
  else 2 * s0 * s1 + 2 * (s0 + s1).

Definition brick_dsquare (up : bool) : nat := if up then 0%nat else 1%nat.
Definition brick_psc (up : bool) (s0 s1 : Z) : bool := if up then s1 mod 2 =? 1 else 1 <? s0.
(** parity filter on the links of the "half" axis; [i] is the flat square index written first *)
Definition brick_keep_link (psc : bool) (q1 s i : Z) : bool :=
  if psc then ((s =? -1) && ((i + i / q1) mod 2 =? 0)) || ((s =? 1) && ((i + i / q1) mod 2 =? 1))
  else ((s =? -1) && (i mod 2 =? 0)) || ((s =? 1) && (i mod 2 =? 1)).

Definition brick_sq_pairs (up : bool) (s0 s1 : Z) : list ipair :=
  let '(q0, q1) := brick_sq up s0 s1 in
  let psc := brick_psc up s0 s1 in
  flat_map (fun d =>
    flat_map (fun s =>
      let ps := axis_pairs [q0; q1] false d s in
      if Nat.eqb d (brick_dsquare up) then ps
      else filter (fun p => brick_keep_link psc q1 s (fst p)) ps) shifts)
    (seq 0 2).

(** a sized pair set = an adjacency matrix *)
Definition amat := (Z * list ipair)%type.
Definition norm_idx (n p : Z) : Z := if p <? 0 then n + p else p.
(** adj[p,:] = 0 ; adj[:,p] = 0 *)
Definition np_zero_rc (p : Z) (a : amat) : amat :=
  let q := norm_idx (fst a) p in
  (fst a, filter (fun e => negb (fst e =? q) && negb (snd e =? q)) (snd a)).
(** np.delete(.,p,0) then np.delete(.,p,1) *)
Definition np_delete_rc (p : Z) (a : amat) : amat :=
  let q := norm_idx (fst a) p in
  let re k := if q <? k then k - 1 else k in
  (fst a - 1,
   map (fun e => (re (fst e), re (snd e)))
       (filter (fun e => negb (fst e =? q) && negb (snd e =? q)) (snd a))).

Definition brick_delete_positions (up : bool) (s0 s1 : Z) : list Z :=
  let '(q0, q1) := brick_sq up s0 s1 in
  if up then
    if 1 <? s1 then [(q0 - 1) * q1; if q1 mod 2 =? 0 then -1 else q1 - 1] else []
  else
    if 1 <? s0 then [q1 - 1; if q0 mod 2 =? 1 then (q0 - 1) * q1 - 1 else -1] else [].

Definition brick_disconnect_positions (up : bool) (s0 s1 : Z) : list Z :=
  let '(q0, q1) := brick_sq up s0 s1 in
  if up then
    if 1 <? s1 then [(q0 - 1) * q1; if q1 mod 2 =? 0 then -1 else q1 - 1] else []
  else
    if 1 <? s0 then [q1 - 1; if q0 mod 2 =? 1 then (q0 - 1) * q1 else -1] else [].

(** the positions are applied one after the other (np.delete renumbers in between) *)
Definition brick_delete_extra (up : bool) (s0 s1 : Z) (a : amat) : amat :=
  fold_left (fun a p => np_delete_rc p a) (brick_delete_positions up s0 s1) a.
Definition brick_disconnect_extra (up : bool) (s0 s1 : Z) (a : amat) : amat :=
  fold_left (fun a p => np_zero_rc p a) (brick_disconnect_positions up s0 s1) a.

Definition brick_adj (up del : bool) (s0 s1 : Z) : amat :=
  let '(q0, q1) := brick_sq up s0 s1 in
  let a := (q0 * q1, brick_sq_pairs up s0 s1) in
  if del then brick_delete_extra up s0 s1 a else brick_disconnect_extra up s0 s1 a.

(** index maps *)
Definition brick_shift_i (up : bool) (s0 s1 i : Z) : Z :=
  let '(q0, q1) := brick_sq up s0 s1 in
  if up then
    if 1 <? s1 then
      let sh1 := if (q1 - 1 <=? i) && (s1 mod 2 =? 0) then 1 else 0 in
      if (q0 - 1) * q1 - sh1 <=? i then sh1 + 1 else sh1
    else 0
  else
    if 1 <? s0 then
      let sh1 := if q1 - 1 <=? i then 1 else 0 in
      if ((q0 - 1) * q1 - sh1 <=? i) && (s0 mod 2 =? 0) then sh1 + 1 else sh1
    else 0.

Definition brick_index_to_coord (up del : bool) (s0 s1 i : Z) : option coord :=
  let '(q0, q1) := brick_sq up s0 s1 in
  if del then
    if i <? brick_nsites up del s0 s1 then np_unravel [q0; q1] (i + brick_shift_i up s0 s1 i) else None
  else np_unravel [q0; q1] i.

(** [Some None] = the method returns None (deleted point); [None] = exception *)
Definition brick_coord_to_index (up del : bool) (s0 s1 c0 c1 : Z) : option (option Z) :=
  let '(q0, q1) := brick_sq up s0 s1 in
  let fin (shift : Z) := option_map Some (option_map (fun r => r - shift) (np_ravel [q0; q1] [c0; c1])) in
  if del then
    if up then
      if 1 <? s1 then
        if (s1 mod 2 =? 0) && (c0 =? 0) && (c1 =? q1 - 1) then Some None
        else if (negb (s1 mod 2 =? 0)) && (c0 =? q0 - 1) && (c1 =? q1 - 1) then Some None
        else
          let sh1 := if (s1 mod 2 =? 0) && (0 <? c0) then 1 else 0 in
          if c0 =? q0 - 1 then (if c1 =? 0 then Some None else fin (sh1 + 1)) else fin sh1
      else fin 0
    else
      if 1 <? s0 then
        if (s0 mod 2 =? 0) && (c0 =? q0 - 1) && (c1 =? 0) then Some None
        else if (negb (s0 mod 2 =? 0)) && (c0 =? q0 - 1) && (c1 =? q1 - 1) then Some None
        else
          let sh1 := if (s0 mod 2 =? 0) && (c0 =? q0 - 1) then 1 else 0 in
          if c0 =? 0 then (if c1 =? q1 - 1 then Some None else fin sh1) else fin (sh1 + 1)
      else fin 0
  else fin 0.

(** ** HexagonalLattice: exact position of a square-grid point (r,c) *)
Definition hex_long (a b : Z) : Z :=       (* 2 * (coordinate along the zig-zag direction) *)
  if a mod 2 =? 0 then 1 + 2 * ((b + 1) / 2) + 4 * (b / 2) else 2 * (b / 2) + 4 * ((b + 1) / 2).
Definition hex_pos (up : bool) (r c : Z) : coord :=
  if up then [r; hex_long r c] else [hex_long c r; c].

Definition hex_nsites (s0 s1 : Z) := 2 * s0 * s1 + 2 * (s0 + s1).
Definition hex_index_to_coord (up : bool) (s0 s1 i : Z) : option coord :=
  match brick_index_to_coord up true s0 s1 i with
  | Some [r; c] => Some (hex_pos up r c)
  | _ => None
  end.

(** inverse of [hex_long] as coded (with the "Incompatible set of coordinates" refusal) *)
Definition hex_unlong (k l : Z) : option Z :=
  if k mod 2 =? 0 then
    if (l - 1) mod 2 =? 0 then let m := (l - 1) / 2 in Some (2 * (m / 3) + m mod 3) else None
  else
    if l mod 2 =? 0 then let m := l / 2 in Some (2 * (m / 3) + (m mod 3) / 2) else None.
Definition hex_coord_to_index (up : bool) (s0 s1 a b : Z) : option (option Z) :=
  if up then
    match hex_unlong a b with
    | Some c => brick_coord_to_index up true s0 s1 a c
    | None => None
    end
  else
    match hex_unlong b a with
    | Some r => brick_coord_to_index up true s0 s1 r b
    | None => None
    end.

(** 4 * squared Euclidean distance of two hexagonal positions *)
Definition hex_dist4 (up : bool) (p q : coord) : Z :=
  let da := nth 0 p 0 - nth 0 q 0 in let db := nth 1 p 0 - nth 1 q 0 in
  if up then 3 * da * da + db * db else da * da + 3 * db * db.

(** ** LayeredLattice: np.block([i*[I] + [base] + (nl-i-1)*[I] for i in range(nl)]) *)
Definition layered_pairs (nl bn : Z) (base : list ipair) : list ipair :=
  flat_map (fun a =>
    flat_map (fun b =>
      if a =? b then map (fun e => (a * bn + fst e, b * bn + snd e)) base
      else map (fun k => (a * bn + k, b * bn + k)) (zrange bn)) (zrange nl)) (zrange nl).

(** ** CustomizedLattice: constructor validation, then the matrix as booleans *)
Definition mat_get (m : list (list Z)) (i j : nat) : Z := nth j (nth i m []) 0.
Definition custom_ctor (sh : list Z) (m : list (list Z)) : option (list ipair) :=
  let n := zprod sh in
  let idx := zrange n in
  let nz i j := negb (mat_get m (Z.to_nat i) (Z.to_nat j) =? 0) in
  if negb ((Z.of_nat (length m) =? n) && forallb (fun r => Z.of_nat (length r) =? n) m) then None
  else if negb (forallb (fun i => forallb (fun j => Bool.eqb (nz i j) (nz j i)) idx) idx) then None
  else if negb (forallb (fun i => mat_get m (Z.to_nat i) (Z.to_nat i) =? 0) idx) then None
  else Some (flat_map (fun i => flat_map (fun j => if nz i j then [(i, j)] else []) idx) idx).

(** * the lattice descriptor used by the correspondence run *)
Inductive latt :=
| LInt (sh : list Z) (pbc : list bool)
| LTri (sh : list Z) (pbc : list bool)
| LBrick (s0 s1 : Z) (up del : bool)
| LHex (s0 s1 : Z) (up : bool)
| LOfc (s0 s1 : Z) (p0 p1 : bool)
| LFull (sh : list Z)
| LCustom (sh : list Z) (m : list (list Z))
| LLayer (base : latt) (nl : Z).

Fixpoint nsites (L : latt) : Z :=
  match L with
  | LInt sh _ | LTri sh _ | LFull sh | LCustom sh _ => zprod sh
  | LBrick s0 s1 up del => brick_nsites up del s0 s1
  | LHex s0 s1 _ => hex_nsites s0 s1
  | LOfc s0 s1 _ _ => ofc_nsites s0 s1
  | LLayer b nl => nl * nsites b
  end.

(** adjacency matrix: size and pair set; [None] = the constructor refuses *)
Fixpoint adjacency (L : latt) : option amat :=
  match L with
  | LInt sh pbc => Some (zprod sh, int_pairs sh pbc)
  | LTri sh pbc => Some (zprod sh, tri_pairs sh pbc)
  | LBrick s0 s1 up del => Some (brick_adj up del s0 s1)
  | LHex s0 s1 up => Some (brick_adj up true s0 s1)
  | LOfc s0 s1 p0 p1 => if ofc_ctor_ok s0 s1 p0 p1 then Some (ofc_nsites s0 s1, ofc_pairs s0 s1 p0 p1) else None
  | LFull sh => Some (zprod sh, full_pairs (zprod sh))
  | LCustom sh m => option_map (fun ps => (zprod sh, ps)) (custom_ctor sh m)
  | LLayer b nl =>
      match adjacency b with
      | Some (bn, ps) => Some (nl * bn, layered_pairs nl bn ps)
      | None => None
      end
  end.

Definition box_index_to_coord (sh : list Z) (i : Z) : option coord :=
  if i <? zprod sh then np_unravel sh i else None.
Definition box_coord_to_index (sh : list Z) (c : coord) : option Z :=
  if assert_all_lt sh c then np_ravel sh c else None.

Fixpoint index_to_coord (L : latt) (i : Z) : option coord :=
  match L with
  | LInt sh _ | LTri sh _ | LFull sh | LCustom sh _ => box_index_to_coord sh i
  | LBrick s0 s1 up del => brick_index_to_coord up del s0 s1 i
  | LHex s0 s1 up => hex_index_to_coord up s0 s1 i
  | LOfc s0 s1 _ _ => ofc_index_to_coord s0 s1 i
  | LLayer b nl =>
      if i <? nl * nsites b then
        option_map (cons (i / nsites b)) (index_to_coord b (i mod nsites b))
      else None
  end.

Fixpoint coord_to_index (L : latt) (c : coord) : option (option Z) :=
  match L with
  | LInt sh _ | LTri sh _ | LFull sh | LCustom sh _ => option_map Some (box_coord_to_index sh c)
  | LBrick s0 s1 up del =>
      match c with [c0; c1] => brick_coord_to_index up del s0 s1 c0 c1 | _ => None end
  | LHex s0 s1 up =>
      match c with [a; b] => hex_coord_to_index up s0 s1 a b | _ => None end
  | LOfc s0 s1 _ _ => option_map Some (ofc_coord_to_index s0 s1 c)
  | LLayer b nl =>
      match c with
      | l :: c' =>
          if l <? nl then
            match coord_to_index b c' with
            | Some (Some k) => Some (Some (l * nsites b + k))
            | _ => None          (* int + None raises TypeError *)
            end
          else None
      | [] => None
      end
  end.
