(** Generic scalars: a record of operations (so that the same model definitions run on
    PrimFloat pairs, exact Gaussian rationals and are proved over any commutative *-ring). *)
From Coq Require Export List Bool Arith ZArith Lia Ring.
Export ListNotations.

Record Scalar := {
  T :> Type; s0 : T; s1 : T; sadd : T -> T -> T; smul : T -> T -> T;
  ssub : T -> T -> T; sopp : T -> T; sconj : T -> T; sI : T }.

Record ScalarLaws (K : Scalar) := {
  s_ring : ring_theory (s0 K) (s1 K) (sadd K) (smul K) (ssub K) (sopp K) eq;
  conj_add : forall a b, sconj K (sadd K a b) = sadd K (sconj K a) (sconj K b);
  conj_mul : forall a b, sconj K (smul K a b) = smul K (sconj K a) (sconj K b);
  conj_opp : forall a, sconj K (sopp K a) = sopp K (sconj K a);
  conj_0 : sconj K (s0 K) = s0 K;
  conj_1 : sconj K (s1 K) = s1 K;
  conj_I : sconj K (sI K) = sopp K (sI K);
  conj_inv : forall a, sconj K (sconj K a) = a;
  I_sq : smul K (sI K) (sI K) = sopp K (s1 K) }.

Existing Class ScalarLaws.
Arguments s0 {_}. Arguments s1 {_}. Arguments sadd {_}. Arguments smul {_}.
Arguments ssub {_}. Arguments sopp {_}. Arguments sconj {_}. Arguments sI {_}.

Declare Scope K_scope.
Delimit Scope K_scope with K.
Notation "0" := s0 : K_scope.
Notation "1" := s1 : K_scope.
Infix "+" := sadd : K_scope.
Infix "*" := smul : K_scope.
Infix "-" := ssub : K_scope.
Notation "- x" := (sopp x) : K_scope.
Notation "x ^*" := (sconj x) (at level 5, format "x ^*") : K_scope.

Section Derived.
  Context {K : Scalar} {L : ScalarLaws K}.
  Local Open Scope K_scope.
  Add Ring Kring : (s_ring K L).

  Lemma conj_sub (a b : K) : (a - b)^* = a^* - b^*.
  Proof.
    replace (a - b) with (a + - b) by ring.
    rewrite (conj_add K L), (conj_opp K L). ring.
  Qed.

  (** (-i)^q *)
  Definition mip (q : nat) : K :=
    match Nat.modulo q 4 with
    | O => 1 | S O => - sI | S (S O) => - (1) | _ => sI end.

  Lemma mip_add a b : mip (a + b) = mip a * mip b.
  Proof.
    pose proof (I_sq K L) as I2.
    unfold mip. rewrite Nat.add_mod by lia.
    pose proof (Nat.mod_upper_bound a 4 ltac:(lia)) as Ha.
    pose proof (Nat.mod_upper_bound b 4 ltac:(lia)) as Hb.
    destruct (a mod 4) as [|[|[|[|?]]]]; try lia;
    destruct (b mod 4) as [|[|[|[|?]]]]; try lia; cbn; ring [I2].
  Qed.

  Definition sgn (k : nat) : K := if Nat.even k then 1 else - (1).
  Lemma sgn_add a b : sgn (a + b) = sgn a * sgn b.
  Proof. unfold sgn. rewrite Nat.even_add. destruct (Nat.even a), (Nat.even b); cbn; ring. Qed.
  Lemma sgn_sq a : sgn a * sgn a = 1.
  Proof. unfold sgn. destruct (Nat.even a); ring. Qed.
  Lemma mip_2 k : mip (2 * k) = sgn k.
  Proof.
    unfold mip, sgn.
    destruct (Nat.even k) eqn:E.
    - apply Nat.even_spec in E. destruct E as [m ->].
      replace (2 * (2 * m))%nat with (0 + m * 4)%nat by lia.
      rewrite Nat.mod_add by lia. reflexivity.
    - assert (O : Nat.odd k = true) by (rewrite <- Nat.negb_even, E; reflexivity).
      apply Nat.odd_spec in O. destruct O as [m ->].
      replace (2 * (2 * m + 1))%nat with (2 + m * 4)%nat by lia.
      rewrite Nat.mod_add by lia. reflexivity.
  Qed.
  Lemma mip_mod q : mip (q mod 4) = mip q.
  Proof. unfold mip. rewrite Nat.mod_mod by lia. reflexivity. Qed.
  Lemma conj_mip q : (mip q)^* = mip (3 * q).
  Proof.
    pose proof (conj_I K L) as CI.
    unfold mip.
    replace (3 * q)%nat with (q + q + q)%nat by lia.
    rewrite !(Nat.add_mod (q + q) q), !(Nat.add_mod q q) by lia.
    pose proof (Nat.mod_upper_bound q 4 ltac:(lia)) as Hq.
    destruct (q mod 4) as [|[|[|[|?]]]]; try lia; cbn;
      rewrite ?(conj_opp K L), ?CI, ?(conj_1 K L); ring.
  Qed.
End Derived.
