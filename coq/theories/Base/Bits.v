(** Bit lists (wire 0 first = most significant), enumeration of all indices. *)
From Qib Require Export Base.Scalar.

Notation bits := (list bool) (only parsing).

Fixpoint all_bits (n : nat) : list bits :=
  match n with
  | O => [[]]
  | Datatypes.S n' => map (cons false) (all_bits n') ++ map (cons true) (all_bits n')
  end.

Fixpoint beq (a b : bits) : bool :=
  match a, b with
  | [], [] => true
  | x :: a', y :: b' => Bool.eqb x y && beq a' b'
  | _, _ => false
  end.

Lemma beq_refl a : beq a a = true.
Proof. induction a as [|x a IH]; cbn; [reflexivity|]. rewrite Bool.eqb_reflx, IH. reflexivity. Qed.

Lemma beq_eq a b : beq a b = true <-> a = b.
Proof.
  revert b; induction a as [|x a IH]; intros [|y b]; cbn; split; intros H;
    try reflexivity; try discriminate.
  - apply andb_true_iff in H. destruct H as [H1 H2].
    apply Bool.eqb_prop in H1. apply IH in H2. congruence.
  - inversion H; subst. rewrite Bool.eqb_reflx. cbn. apply IH. reflexivity.
Qed.

Lemma beq_sym a b : beq a b = beq b a.
Proof.
  revert b; induction a as [|x a IH]; intros [|y b]; cbn; try reflexivity.
  rewrite IH. destruct x, y; reflexivity.
Qed.

Lemma all_bits_length n b : In b (all_bits n) -> length b = n.
Proof.
  revert b; induction n as [|n IH]; intros b H; cbn in H.
  - destruct H as [<-|[]]. reflexivity.
  - apply in_app_or in H. destruct H as [H|H]; apply in_map_iff in H;
      destruct H as [b' [<- H]]; cbn; f_equal; apply IH; exact H.
Qed.

Lemma all_bits_complete n b : length b = n -> In b (all_bits n).
Proof.
  revert b; induction n as [|n IH]; intros b H.
  - destruct b; [left; reflexivity | discriminate].
  - destruct b as [|x b]; [discriminate|]. cbn in H. injection H as H.
    cbn. apply in_or_app. destruct x; [right|left]; apply in_map; apply IH; exact H.
Qed.


(** bit list -> number (MSB first) *)
Fixpoint b2n (b : bits) : nat :=
  match b with
  | [] => 0
  | x :: b' => (if x then 2 ^ length b' else 0) + b2n b'
  end.

Lemma b2n_bound b : b2n b < 2 ^ length b.
Proof.
  induction b as [|x b IH]; cbn; [lia|]. destruct x; lia.
Qed.

Lemma b2n_inj a b : length a = length b -> b2n a = b2n b -> a = b.
Proof.
  revert b; induction a as [|x a IH]; intros [|y b] Hl H; try discriminate; [reflexivity|].
  cbn in Hl. injection Hl as Hl. cbn in H. rewrite Hl in H.
  pose proof (b2n_bound a) as Ba. pose proof (b2n_bound b) as Bb. rewrite Hl in Ba.
  destruct x, y; try lia; f_equal; apply IH; auto; lia.
Qed.

(** number -> bit list of given length (MSB first) *)
Fixpoint n2b (len k : nat) : bits :=
  match len with
  | O => []
  | Datatypes.S l => Nat.leb (2 ^ l) k :: n2b l (if Nat.leb (2 ^ l) k then k - 2 ^ l else k)
  end.

Lemma n2b_length len k : length (n2b len k) = len.
Proof. revert k; induction len as [|l IH]; intros k; cbn; [reflexivity|]. rewrite IH. reflexivity. Qed.

Lemma b2n_n2b len k : k < 2 ^ len -> b2n (n2b len k) = k.
Proof.
  revert k; induction len as [|l IH]; intros k H; cbn in *; [lia|].
  rewrite n2b_length. destruct (Nat.leb_spec (2 ^ l) k).
  - rewrite IH by lia. lia.
  - rewrite IH by lia. lia.
Qed.

Lemma n2b_b2n b : n2b (length b) (b2n b) = b.
Proof.
  apply b2n_inj; [apply n2b_length|]. apply b2n_n2b. apply b2n_bound.
Qed.

Lemma firstn_app_len {A} (a b : list A) n : length a = n -> firstn n (a ++ b) = a.
Proof. intros <-. rewrite firstn_app, Nat.sub_diag, firstn_all. cbn. apply app_nil_r. Qed.
Lemma skipn_app_len {A} (a b : list A) n : length a = n -> skipn n (a ++ b) = b.
Proof. intros <-. rewrite skipn_app, Nat.sub_diag, skipn_all. reflexivity. Qed.

Lemma beq_app a1 a2 b1 b2 : length a1 = length b1 ->
  beq (a1 ++ a2) (b1 ++ b2) = beq a1 b1 && beq a2 b2.
Proof.
  revert b1; induction a1 as [|x a1 IH]; intros [|y b1] H; try discriminate; cbn; [reflexivity|].
  cbn in H. injection H as H. rewrite IH by exact H. rewrite andb_assoc. reflexivity.
Qed.

Definition bxor (a b : bits) : bits := map (fun p => xorb (fst p) (snd p)) (combine a b).
Lemma bxor_length a b : length a = length b -> length (bxor a b) = length a.
Proof. intros H. unfold bxor. rewrite map_length, combine_length. lia. Qed.
