(** Executable scalar instances used only to RUN models in the correspondence check:
    Gaussian integers (exact), Gaussian rationals (exact, reduced), PrimFloat pairs. *)
From Qib Require Export Base.Scalar.
From Coq Require Import QArith Qcanon.
From Coq Require PrimFloat.

Definition ZI : Scalar := {|
  T := (Z * Z)%type;
  s0 := (0, 0)%Z; s1 := (1, 0)%Z; sI := (0, 1)%Z;
  sadd := fun a b => (fst a + fst b, snd a + snd b)%Z;
  smul := fun a b => (fst a * fst b - snd a * snd b, fst a * snd b + snd a * fst b)%Z;
  ssub := fun a b => (fst a - fst b, snd a - snd b)%Z;
  sopp := fun a => (- fst a, - snd a)%Z;
  sconj := fun a => (fst a, - snd a)%Z |}.

Definition zi_eqb (a b : ZI) : bool := Z.eqb (fst a) (fst b) && Z.eqb (snd a) (snd b).

(** Gaussian integers do satisfy the laws (so the generic theorems apply to the very
    instance the correspondence check evaluates). *)
Lemma ZI_laws : ScalarLaws ZI.
Proof.
  constructor.
  - constructor; intros; repeat match goal with x : T ZI |- _ => destruct x | x : ZI |- _ => destruct x | x : (Z * Z)%type |- _ => destruct x end;
      cbv [ZI T sadd smul ssub sopp s0 s1 fst snd]; f_equal; ring.
  - intros [a b] [c d]; cbv [ZI T sadd smul ssub sopp sconj s0 s1 sI fst snd]; f_equal; ring.
  - intros [a b] [c d]; cbv [ZI T sadd smul ssub sopp sconj s0 s1 sI fst snd]; f_equal; ring.
  - intros [a b]; cbv [ZI T sadd smul ssub sopp sconj s0 s1 sI fst snd]; f_equal; ring.
  - reflexivity.
  - reflexivity.
  - reflexivity.
  - intros [a b]; cbv [ZI T sadd smul ssub sopp sconj s0 s1 sI fst snd]; f_equal; ring.
  - reflexivity.
Qed.

(** Gaussian rationals, kept reduced *)
Definition qr (a : Q) : Q := Qred a.
Definition QI : Scalar := {|
  T := (Q * Q)%type;
  s0 := (0, 0)%Q; s1 := (1, 0)%Q; sI := (0, 1)%Q;
  sadd := fun a b => (qr (fst a + fst b), qr (snd a + snd b))%Q;
  smul := fun a b => (qr (fst a * fst b - snd a * snd b), qr (fst a * snd b + snd a * fst b))%Q;
  ssub := fun a b => (qr (fst a - fst b), qr (snd a - snd b))%Q;
  sopp := fun a => (qr (- fst a), qr (- snd a))%Q;
  sconj := fun a => (fst a, qr (- snd a))%Q |}.
Definition qi_eqb (a b : QI) : bool := Qeq_bool (fst a) (fst b) && Qeq_bool (snd a) (snd b).

(** binary64 pairs *)
Module F.
  Import PrimFloat.
  Definition FI : Scalar := {|
    T := (float * float)%type;
    s0 := (zero, zero); s1 := (one, zero); sI := (zero, one);
    sadd := fun a b => (fst a + fst b, snd a + snd b)%float;
    smul := fun a b => (fst a * fst b - snd a * snd b, fst a * snd b + snd a * fst b)%float;
    ssub := fun a b => (fst a - fst b, snd a - snd b)%float;
    sopp := fun a => (- fst a, - snd a)%float;
    sconj := fun a => (fst a, - snd a)%float |}.
  (** |a-b| <= tol * max(1,|b|), componentwise *)
  Definition close1 (tol a b : float) : bool :=
    let d := abs (a - b) in
    let m := if ltb one (abs b) then abs b else one in
    leb d (tol * m).
  Definition fi_close (tol : float) (a b : FI) : bool :=
    close1 tol (fst a) (fst b) && close1 tol (snd a) (snd b).
End F.

Fixpoint list_eqb {A} (eqb : A -> A -> bool) (a b : list A) : bool :=
  match a, b with
  | [], [] => true
  | x :: a', y :: b' => eqb x y && list_eqb eqb a' b'
  | _, _ => false
  end.
