(** Integer vectors as the translators emit them (numpy 1-d int arrays), and the bridge to
    the bit-list representation used by the models. *)
From Qib Require Export Base.Bits.
Local Open Scope Z_scope.

Fixpoint vzip (f : Z -> Z -> Z) (a b : list Z) : list Z :=
  match a, b with
  | x :: a', y :: b' => f x y :: vzip f a' b'
  | _, _ => []
  end.
Definition vadd := vzip Z.add.
Definition vsub := vzip Z.sub.
Definition vmul := vzip Z.mul.
Definition vmod (a : list Z) (m : Z) : list Z := map (fun x => x mod m) a.
Definition vscal (k : Z) (a : list Z) : list Z := map (Z.mul k) a.
Fixpoint vdot (a b : list Z) : Z :=
  match a, b with
  | x :: a', y :: b' => x * y + vdot a' b'
  | _, _ => 0
  end.
Definition zi_opp (a : Z * Z) : Z * Z := (- fst a, - snd a).
Definition zitab_get (t : list (Z * Z)) (i : Z) : Z * Z := nth (Z.to_nat i) t (0, 0).

Definition bz (b : bool) : Z := if b then 1 else 0.
Definition vb (l : list bool) : list Z := map bz l.

Fixpoint dotnat (a b : list bool) : nat :=
  match a, b with
  | x :: a', y :: b' => ((if x && y then 1 else 0) + dotnat a' b')%nat
  | _, _ => 0%nat
  end.

Lemma vdot_vb a : forall b, vdot (vb a) (vb b) = Z.of_nat (dotnat a b).
Proof.
  induction a as [|x a IH]; intros [|y b]; try reflexivity.
  cbn [vb map vdot dotnat]. fold (vb a) (vb b). rewrite IH, Nat2Z.inj_add.
  destruct x, y; reflexivity.
Qed.

Lemma vmod_vadd_vb a : forall b, length a = length b ->
  vmod (vadd (vb a) (vb b)) 2 = vb (bxor a b).
Proof.
  induction a as [|x a IH]; intros [|y b] H; try discriminate; [reflexivity|].
  cbn in H. injection H as H. specialize (IH b H).
  unfold vmod, vadd, vb in *. cbn [map vzip]. cbn [bxor combine map fst snd].
  f_equal; [destruct x, y; reflexivity|]. exact IH.
Qed.

Lemma vb_length a : length (vb a) = length a.
Proof. apply map_length. Qed.
