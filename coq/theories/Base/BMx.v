(** Matrices indexed by bit lists (wire 0 first = most significant, numpy's kron order). *)
From Qib Require Export Base.Sums.

Section BMx.
  Context {K : Scalar} {L : ScalarLaws K}.
  Local Open Scope K_scope.
  Add Ring Kring3 : (s_ring K L).

  Definition BMx := bits -> bits -> K.

  Definition mmul (n : nat) (A B : BMx) : BMx := fun r c => bsum n (fun k => A r k * B k c).
  Definition madj (A : BMx) : BMx := fun r c => (A c r)^*.
  Definition mid : BMx := fun r c => if beq r c then 1 else 0.
  Definition madd (A B : BMx) : BMx := fun r c => A r c + B r c.
  Definition mscal (a : K) (A : BMx) : BMx := fun r c => a * A r c.
  Definition mzero : BMx := fun _ _ => 0.
  Definition meq (n : nat) (A B : BMx) : Prop :=
    forall r c, length r = n -> length c = n -> A r c = B r c.
  Definition unitary (n : nat) (U : BMx) : Prop :=
    meq n (mmul n U (madj U)) mid /\ meq n (mmul n (madj U) U) mid.
  Definition hermitian (n : nat) (A : BMx) : Prop := meq n (madj A) A.
  Definition kron (m : nat) (A B : BMx) : BMx :=
    fun r c => A (firstn m r) (firstn m c) * B (skipn m r) (skipn m c).

  (** matrix from a list-of-rows literal, rows/cols addressed by b2n *)
  Definition mxl (rows : list (list K)) : BMx :=
    fun r c => nth (b2n c) (nth (b2n r) rows []) 0.
  (** dense n x n list-of-rows from a BMx *)
  Definition dense (n : nat) (A : BMx) : list (list K) :=
    map (fun r => map (fun c => A r c) (all_bits n)) (all_bits n).

  Lemma meq_refl n A : meq n A A.
  Proof. intros r c _ _. reflexivity. Qed.
  Lemma meq_sym n A B : meq n A B -> meq n B A.
  Proof. intros H r c Hr Hc. symmetry. apply H; assumption. Qed.
  Lemma meq_trans n A B C : meq n A B -> meq n B C -> meq n A C.
  Proof. intros H1 H2 r c Hr Hc. rewrite H1, H2 by assumption. reflexivity. Qed.

  Lemma mmul_meq n A A' B B' : meq n A A' -> meq n B B' -> meq n (mmul n A B) (mmul n A' B').
  Proof.
    intros HA HB r c Hr Hc. unfold mmul. apply bsum_ext. intros k Hk.
    rewrite HA, HB by assumption. reflexivity.
  Qed.
  Lemma madj_meq n A A' : meq n A A' -> meq n (madj A) (madj A').
  Proof. intros HA r c Hr Hc. unfold madj. rewrite HA by assumption. reflexivity. Qed.

  Lemma mmul_id_l n A : meq n (mmul n mid A) A.
  Proof. intros r c Hr Hc. unfold mmul, mid. apply (bsum_delta_l n r (fun k => A k c) Hr). Qed.
  Lemma mmul_id_r n A : meq n (mmul n A mid) A.
  Proof. intros r c Hr Hc. unfold mmul, mid. apply (bsum_delta_r n c (fun k => A r k) Hc). Qed.

  Lemma mmul_assoc n A B C : meq n (mmul n (mmul n A B) C) (mmul n A (mmul n B C)).
  Proof.
    intros r c Hr Hc. unfold mmul.
    transitivity (bsum n (fun k => bsum n (fun j => A r j * B j k * C k c))).
    { apply bsum_ext. intros k _. rewrite <- bsum_scal_r. reflexivity. }
    rewrite bsum_swap. apply bsum_ext. intros j _.
    rewrite <- bsum_scal. apply bsum_ext. intros k _. ring.
  Qed.

  Lemma madj_invol n A : meq n (madj (madj A)) A.
  Proof. intros r c _ _. unfold madj. apply (conj_inv K L). Qed.

  Lemma madj_mmul n A B : meq n (madj (mmul n A B)) (mmul n (madj B) (madj A)).
  Proof.
    intros r c Hr Hc. unfold madj, mmul. rewrite bsum_conj.
    apply bsum_ext. intros k _. rewrite (conj_mul K L). ring.
  Qed.

  Lemma madj_mid n : meq n (madj mid) mid.
  Proof.
    intros r c _ _. unfold madj, mid. rewrite beq_sym.
    destruct (beq r c); [apply (conj_1 K L)|apply (conj_0 K L)].
  Qed.

  Lemma unitary_mid n : unitary n mid.
  Proof.
    split.
    - eapply meq_trans; [apply mmul_id_l|apply madj_mid].
    - eapply meq_trans; [apply mmul_id_r|apply madj_mid].
  Qed.

  Lemma unitary_madj n U : unitary n U -> unitary n (madj U).
  Proof.
    intros [H1 H2]. split.
    - eapply meq_trans; [|exact H2]. apply mmul_meq; [apply meq_refl|apply madj_invol].
    - eapply meq_trans; [|exact H1]. apply mmul_meq; [apply madj_invol|apply meq_refl].
  Qed.

  Lemma unitary_mmul n U V : unitary n U -> unitary n V -> unitary n (mmul n U V).
  Proof.
    intros [U1 U2] [V1 V2]. split.
    - (* U V (U V)^† = U V V† U† *)
      eapply meq_trans; [apply mmul_meq; [apply meq_refl|apply madj_mmul]|].
      eapply meq_trans; [apply mmul_assoc|].
      eapply meq_trans; [apply mmul_meq; [apply meq_refl|apply meq_sym; apply mmul_assoc]|].
      eapply meq_trans; [apply mmul_meq; [apply meq_refl|apply mmul_meq; [exact V1|apply meq_refl]]|].
      eapply meq_trans; [apply mmul_meq; [apply meq_refl|apply mmul_id_l]|]. exact U1.
    - eapply meq_trans; [apply mmul_meq; [apply madj_mmul|apply meq_refl]|].
      eapply meq_trans; [apply mmul_assoc|].
      eapply meq_trans; [apply mmul_meq; [apply meq_refl|apply meq_sym; apply mmul_assoc]|].
      eapply meq_trans; [apply mmul_meq; [apply meq_refl|apply mmul_meq; [exact U2|apply meq_refl]]|].
      eapply meq_trans; [apply mmul_meq; [apply meq_refl|apply mmul_id_l]|]. exact V2.
  Qed.

  Lemma unitary_meq n U V : meq n U V -> unitary n U -> unitary n V.
  Proof.
    intros E [H1 H2]. split.
    - eapply meq_trans; [|exact H1]. apply mmul_meq; [|apply madj_meq]; apply meq_sym; exact E.
    - eapply meq_trans; [|exact H2]. apply mmul_meq; [apply madj_meq|]; apply meq_sym; exact E.
  Qed.

  (** Kronecker product *)
  Lemma kron_mmul m n A B C D :
    meq (m + n) (mmul (m + n) (kron m A B) (kron m C D)) (kron m (mmul m A C) (mmul n B D)).
  Proof.
    intros r c Hr Hc. unfold mmul, kron. rewrite bsum_add.
    rewrite <- bsum_scal_r.
    apply bsum_ext; intros a Ha.
    rewrite <- bsum_scal.
    apply bsum_ext; intros b Hb.
    rewrite firstn_app_len, skipn_app_len by assumption. ring.
  Qed.

  Lemma kron_madj m A B : forall r c, madj (kron m A B) r c = kron m (madj A) (madj B) r c.
  Proof. intros r c. unfold madj, kron. apply (conj_mul K L). Qed.

  Lemma split_bits m n (r : bits) : length r = (m + n)%nat ->
    length (firstn m r) = m /\ length (skipn m r) = n /\ r = firstn m r ++ skipn m r.
  Proof.
    intros H. split; [|split].
    - rewrite firstn_length. lia.
    - rewrite skipn_length. lia.
    - symmetry. apply firstn_skipn.
  Qed.

  Lemma kron_mid m n : meq (m + n) (kron m mid mid) mid.
  Proof.
    intros r c Hr Hc. unfold kron, mid.
    destruct (split_bits m n r Hr) as [Hr1 [Hr2 Er]].
    destruct (split_bits m n c Hc) as [Hc1 [Hc2 Ec]].
    rewrite Er at 3. rewrite Ec at 3. rewrite beq_app by lia.
    destruct (beq (firstn m r) (firstn m c)), (beq (skipn m r) (skipn m c)); cbn; ring.
  Qed.

  Lemma kron_meq m n A A' B B' : meq m A A' -> meq n B B' ->
    meq (m + n) (kron m A B) (kron m A' B').
  Proof.
    intros HA HB r c Hr Hc. unfold kron.
    destruct (split_bits m n r Hr) as [Hr1 [Hr2 _]].
    destruct (split_bits m n c Hc) as [Hc1 [Hc2 _]].
    rewrite HA, HB by assumption. reflexivity.
  Qed.

  Lemma unitary_kron m n U V : unitary m U -> unitary n V -> unitary (m + n) (kron m U V).
  Proof.
    intros [U1 U2] [V1 V2]. split.
    - eapply meq_trans.
      { apply mmul_meq; [apply meq_refl|]. intros r c _ _. apply kron_madj. }
      eapply meq_trans; [apply kron_mmul|].
      eapply meq_trans; [apply kron_meq; eassumption|]. apply kron_mid.
    - eapply meq_trans.
      { apply mmul_meq; [|apply meq_refl]. intros r c _ _. apply kron_madj. }
      eapply meq_trans; [apply kron_mmul|].
      eapply meq_trans; [apply kron_meq; eassumption|]. apply kron_mid.
  Qed.
End BMx.

Arguments BMx K : clear implicits.
