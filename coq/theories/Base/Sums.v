(** Finite sums over lists and over all bit indices. *)
From Qib Require Export Base.Bits.

Section Sums.
  Context {K : Scalar} {L : ScalarLaws K}.
  Local Open Scope K_scope.
  Add Ring Kring2 : (s_ring K L).

  Definition lsum (l : list K) : K := fold_right sadd 0 l.
  Definition bsum (n : nat) (f : bits -> K) : K := lsum (map f (all_bits n)).

  Lemma lsum_cons x l : lsum (x :: l) = x + lsum l.
  Proof. reflexivity. Qed.
  Lemma lsum_nil : lsum [] = 0.
  Proof. reflexivity. Qed.

  Lemma lsum_app a b : lsum (a ++ b) = lsum a + lsum b.
  Proof. unfold lsum. induction a as [|x a IH]; cbn; [ring|]. rewrite IH. ring. Qed.

  Lemma lsum_map_ext {A} (f g : A -> K) l :
    (forall x, In x l -> f x = g x) -> lsum (map f l) = lsum (map g l).
  Proof.
    induction l as [|x l IH]; intros H; cbn [map]; rewrite ?lsum_cons, ?lsum_nil; [reflexivity|].
    rewrite H by (left; reflexivity). f_equal. apply IH. intros; apply H; right; assumption.
  Qed.

  Lemma lsum_map_add {A} (f g : A -> K) l :
    lsum (map (fun x => f x + g x) l) = lsum (map f l) + lsum (map g l).
  Proof. induction l as [|x l IH]; cbn [map]; rewrite ?lsum_cons, ?lsum_nil; [ring|]. rewrite IH. ring. Qed.

  Lemma lsum_map_scal {A} c (f : A -> K) l :
    lsum (map (fun x => c * f x) l) = c * lsum (map f l).
  Proof. induction l as [|x l IH]; cbn [map]; rewrite ?lsum_cons, ?lsum_nil; [ring|]. rewrite IH. ring. Qed.

  Lemma lsum_map_scal_r {A} c (f : A -> K) l :
    lsum (map (fun x => f x * c) l) = lsum (map f l) * c.
  Proof. induction l as [|x l IH]; cbn [map]; rewrite ?lsum_cons, ?lsum_nil; [ring|]. rewrite IH. ring. Qed.

  Lemma lsum_map_zero {A} (f : A -> K) l :
    (forall x, In x l -> f x = 0) -> lsum (map f l) = 0.
  Proof.
    induction l as [|x l IH]; intros H; cbn [map]; rewrite ?lsum_cons, ?lsum_nil; [reflexivity|].
    rewrite H by (left; reflexivity). rewrite IH; [ring|]. intros; apply H; right; assumption.
  Qed.

  Lemma lsum_map_conj {A} (f : A -> K) l :
    (lsum (map f l))^* = lsum (map (fun x => (f x)^*) l).
  Proof.
    induction l as [|x l IH]; cbn [map]; rewrite ?lsum_cons, ?lsum_nil; [apply (conj_0 K L)|].
    rewrite (conj_add K L). f_equal. exact IH.
  Qed.

  Lemma lsum_map_swap {A B} (f : A -> B -> K) la lb :
    lsum (map (fun a => lsum (map (fun b => f a b) lb)) la)
    = lsum (map (fun b => lsum (map (fun a => f a b) la)) lb).
  Proof.
    induction la as [|a la IH]; cbn [map]; rewrite ?lsum_cons, ?lsum_nil.
    - symmetry. apply lsum_map_zero. reflexivity.
    - rewrite IH. rewrite <- lsum_map_add. apply lsum_map_ext. intros; cbn [map]; rewrite lsum_cons; reflexivity.
  Qed.

  (** exactly one non-zero term *)
  Lemma lsum_map_single {A} (f : A -> K) l x0 :
    NoDup l -> In x0 l -> (forall x, In x l -> x <> x0 -> f x = 0) ->
    lsum (map f l) = f x0.
  Proof.
    induction l as [|x l IH]; intros ND Hin Hz; [destruct Hin|].
    inversion ND as [|? ? Hnot ND']; subst. cbn [map]; rewrite lsum_cons.
    destruct Hin as [->|Hin].
    - rewrite lsum_map_zero; [ring|]. intros y Hy. apply Hz; [right; exact Hy|].
      intros ->. contradiction.
    - rewrite IH; auto.
      + rewrite Hz; [ring|left; reflexivity|]. intros ->. contradiction.
      + intros y Hy Hne. apply Hz; [right; exact Hy|exact Hne].
  Qed.

  Lemma bsum_ext n f g : (forall b, length b = n -> f b = g b) -> bsum n f = bsum n g.
  Proof. intros H. apply lsum_map_ext. intros b Hb. apply H. eapply all_bits_length; eauto. Qed.

  Lemma bsum_S n f :
    bsum (Datatypes.S n) f = bsum n (fun b => f (false :: b)) + bsum n (fun b => f (true :: b)).
  Proof. unfold bsum. cbn [all_bits]. rewrite map_app, lsum_app, !map_map. reflexivity. Qed.

  Lemma bsum_0 f : bsum 0 f = f [].
  Proof. unfold bsum; cbn. ring. Qed.

  Lemma bsum_add_fn n f g : bsum n (fun b => f b + g b) = bsum n f + bsum n g.
  Proof. apply lsum_map_add. Qed.
  Lemma bsum_scal n c f : bsum n (fun b => c * f b) = c * bsum n f.
  Proof. apply lsum_map_scal. Qed.
  Lemma bsum_scal_r n c f : bsum n (fun b => f b * c) = bsum n f * c.
  Proof. apply lsum_map_scal_r. Qed.
  Lemma bsum_zero n f : (forall b, length b = n -> f b = 0) -> bsum n f = 0.
  Proof. intros H. apply lsum_map_zero. intros b Hb. apply H. eapply all_bits_length; eauto. Qed.
  Lemma bsum_conj n f : (bsum n f)^* = bsum n (fun b => (f b)^*).
  Proof. apply lsum_map_conj. Qed.
  Lemma bsum_swap m n (f : bits -> bits -> K) :
    bsum m (fun a => bsum n (fun b => f a b)) = bsum n (fun b => bsum m (fun a => f a b)).
  Proof. apply lsum_map_swap. Qed.

  Lemma bsum_add m n f :
    bsum (m + n) f = bsum m (fun a => bsum n (fun b => f (a ++ b))).
  Proof.
    revert f; induction m as [|m IH]; intros f.
    - cbn [Nat.add]. rewrite bsum_0. reflexivity.
    - cbn [Nat.add]. rewrite !bsum_S, !IH. reflexivity.
  Qed.

  (** sum with a Kronecker delta *)
  (** sum with a Kronecker delta *)
  Lemma bsum_delta_l n c (f : bits -> K) : length c = n ->
    bsum n (fun k => (if beq c k then 1 else 0) * f k) = f c.
  Proof.
    revert c f; induction n as [|n IH]; intros c f Hc.
    - destruct c; [|discriminate]. rewrite bsum_0. cbn. ring.
    - destruct c as [|x c]; [discriminate|]. injection Hc as Hc.
      rewrite bsum_S. cbv beta. destruct x.
      + etransitivity.
        { apply f_equal2.
          - apply bsum_zero. intros; cbn; ring.
          - apply bsum_ext. intros b _. cbn [beq Bool.eqb andb]. reflexivity. }
        pose proof (IH c (fun b => f (true :: b)) Hc) as E; cbv beta in E; rewrite E. ring.
      + etransitivity.
        { apply f_equal2.
          - apply bsum_ext. intros b _. cbn [beq Bool.eqb andb]. reflexivity.
          - apply bsum_zero. intros; cbn; ring. }
        pose proof (IH c (fun b => f (false :: b)) Hc) as E; cbv beta in E; rewrite E. ring.
  Qed.

  Lemma bsum_delta_r n c (f : bits -> K) : length c = n ->
    bsum n (fun k => f k * (if beq k c then 1 else 0)) = f c.
  Proof.
    intros Hc. rewrite <- (bsum_delta_l n c f Hc).
    apply bsum_ext. intros b _. rewrite beq_sym. ring.
  Qed.
End Sums.
