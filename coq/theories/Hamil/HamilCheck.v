(** Case type and checker for the C15 correspondence run (evaluated with vm_compute over the
    exact Gaussian rationals QI).  Every case carries the implementation's adjacency matrix and
    couplings as inputs and the implementation's outputs as expectations. *)
From Qib Require Export Hamil.HamilProofs2 Pauli.PauliCheck.
From Coq Require Import QArith.

Definition Qc0 : QI := (0, 0)%Q.
Definition qhalf : QI := (Qmake 1 2, 0)%Q.
Definition qz (x : QI) : bool := qi_eqb x Qc0.

Definition adjf (a : list (list bool)) : nat -> nat -> bool := fun i j => nth j (nth i a []) false.
Definition t2 (m : list (list QI)) : tensor QI :=
  fun idx => match idx with [i; j] => nth j (nth i m []) Qc0 | _ => Qc0 end.
Definition t4 (v : list (list (list (list QI)))) : tensor QI :=
  fun idx => match idx with
             | [i; j; k; l] => nth l (nth k (nth j (nth i v []) []) []) Qc0
             | _ => Qc0 end.
Definition assoc (l : list (list nat * QI)) : tensor QI :=
  fun idx => match find (fun e => idx_eqb idx (fst e)) l with Some e => snd e | None => Qc0 end.

Definition qmat_eqb (a b : list (list QI)) : bool := list_eqb (list_eqb qi_eqb) a b.
Definition ops_eqb (st : list (wstr (K:=QI))) (final : list (P3 * QI)) : bool :=
  list_eqb (fun u v => p3_eqb (fst u) (fst v) && qi_eqb (snd u) (snd v))
           (map (fun u => (un (fst u), snd u)) st) final.
Definition tensor_eqb (L k : nat) (A B : tensor QI) : bool :=
  forallb (fun idx => qi_eqb (A idx) (B idx)) (all_idx L k).
Definition opt_mat_ok (n : nat) (M : BMx QI) (m : option (list (list QI))) : bool :=
  match m with Some m => qmat_eqb (dense n M) m | None => true end.

(** result of the molecular constructor + as_field_operator coefficient tensors + flag *)
Definition molres := (bool * QI * list (list QI) * list (list (list (list QI))) * list bool)%type.
Definition flags_ok (n : nat) (fop : list (fterm QI)) (flags : list bool) : bool :=
  list_eqb Bool.eqb (map (fterm_herm_flag qi_eqb n) fop) flags.

Inductive hcase :=
| CIsing (n : nat) (adj : list (list bool)) (J h g : QI) (zz : bool)
         (ops : list (P3 * QI)) (m : option (list (list QI)))
| CHeis (n : nat) (adj : list (list bool)) (J h : list QI)
        (ops : list (P3 * QI)) (m : option (list (list QI)))
| CHub (n : nat) (adj : list (list bool)) (t u : QI) (spin : bool)
       (kin : list (list QI)) (int_nz : list (list nat * QI)) (flags : list bool) (m : option (list (list QI)))
| CMol (n nsites : nat) (c : QI) (creal : bool) (tk : list (list QI)) (vi : list (list (list (list QI))))
       (herm varch : bool) (res : option molres) (m : option (list (list QI))).

Definition check (c : hcase) : bool :=
  match c with
  | CIsing n adj J h g zz ops m =>
      let st := ising_ops n (adjf adj) J h g zz in
      ops_eqb st ops && opt_mat_ok n (opmatrix st) m
  | CHeis n adj J h ops m =>
      let st := heis_ops n (adjf adj) J h in
      ops_eqb st ops && opt_mat_ok n (opmatrix st) m
  | CHub n adj t u spin kin int_nz flags m =>
      let fop := hub_fop n (adjf adj) t u spin in
      tensor_eqb n 2 (hub_kin n (adjf adj) t spin) (t2 kin)
      && tensor_eqb n 4 (hub_int n (adjf adj) u spin) (assoc int_nz)
      && flags_ok n fop flags
      && opt_mat_ok n (fop_matrix_sparse qz n fop) m
  | CMol n nsites c creal tk vi herm varch res m =>
      match mol_ctor qi_eqb n nsites c creal (t2 tk) (t4 vi) herm varch, res with
      | None, None => true
      | Some H, Some (flag, cc, tt2, vv4, flags) =>
          let fop := mol_fop qhalf H in
          Bool.eqb (mol_is_hermitian H) flag
          && flags_ok n fop flags
          && match fop with
             | [C; T; V] =>
                 qi_eqb (coef C []) cc
                 && tensor_eqb n 2 (coef T) (t2 tt2)
                 && tensor_eqb n 4 (coef V) (t4 vv4)
             | _ => false
             end
          && opt_mat_ok n (fop_matrix_sparse qz n fop) m
      | _, _ => false
      end
  end.

Definition bad_cases (cs : list (nat * hcase)) : list nat :=
  map fst (filter (fun c => negb (check (snd c))) cs).
