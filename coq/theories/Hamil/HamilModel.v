(** Executable model of the four model-Hamiltonian classes of qib.operator
    (ising_hamiltonian.py, heisenberg_hamiltonian.py, fermi_hubbard_hamiltonian.py,
    molecular_hamiltonian.py) over an abstract adjacency relation, plus the minimal model of
    FieldOperator.as_matrix (field_operator.py) they need.  No proofs here.

    Conventions: site 0 is the first Kronecker factor (most significant bit); a lattice is
    [n] sites and [adj : nat -> nat -> bool] (adj i j = true iff adjacency_matrix()[i,j] != 0);
    Python [for x in range(a, b)] is [for_range a b]. *)
From Qib Require Export Pauli.PauliModel.

(* ------------------------------------------------------------------ loops *)
Definition for_range {X} (a b : nat) (body : nat -> X -> X) (init : X) : X :=
  fold_left (fun x k => body k x) (seq a (b - a)) init.

(** upper-triangle scan: the pairs (i, j), i < j < n, adj i j, in the order the loops visit them *)
Definition edges (n : nat) (adj : nat -> nat -> bool) : list (nat * nat) :=
  flat_map (fun i => map (pair i) (filter (adj i) (seq (i + 1) (n - (i + 1))))) (seq 0 n).

(* ------------------------------------------------------------------ Pauli strings from letters *)
Inductive pl := LI | LX | LY | LZ.
Definition plz (a : pl) : bool := match a with LY | LZ => true | _ => false end.
Definition plx (a : pl) : bool := match a with LX | LY => true | _ => false end.

Fixpoint upd (l : list bool) (i : nat) (v : bool) : list bool :=
  match l, i with
  | [], _ => []
  | _ :: t, O => v :: t
  | h :: t, Datatypes.S i' => h :: upd t i' v
  end.

(** PauliString.from_single_paulis(n, (s, i), ...): later arguments overwrite earlier ones.
    (The ValueError for an index outside [0, n) is not modelled: the Hamiltonian loops only
    produce indices below n.) *)
Definition fsp (n : nat) (args : list (pl * nat)) : pstr :=
  let zx := fold_left (fun zx a => (upd (fst zx) (snd a) (plz (fst a)), upd (snd zx) (snd a) (plx (fst a))))
                      args (repeat false n, repeat false n) in
  {| pz := fst zx; px := snd zx; pq := 0 |}.

Section Spin.
  Context {K : Scalar}.

  (** IsingHamiltonian.as_pauli_operator; [zz] = (convention == ISING_ZZ) *)
  Definition ising_letters (zz : bool) : pl * pl := if zz then (LZ, LX) else (LX, LZ).
  Definition ising_ops (n : nat) (adj : nat -> nat -> bool) (J h g : K) (zz : bool) : list (wstr (K:=K)) :=
    let A := fst (ising_letters zz) in
    let B := snd (ising_letters zz) in
    for_range 0 n (fun i op =>
      let op := for_range (i + 1) n (fun j op =>
                  if negb (adj i j) then op
                  else add_pauli_string op (fsp n [(A, i); (A, j)], J)) op in
      let op := add_pauli_string op (fsp n [(A, i)], h) in
      add_pauli_string op (fsp n [(B, i)], g)) [].

  (** HeisenbergHamiltonian.as_pauli_operator; J, h are the 3-tuples *)
  Definition heis_ops (n : nat) (adj : nat -> nat -> bool) (J h : list K) : list (wstr (K:=K)) :=
    fold_left (fun op kg =>
      let k := fst kg in let gate := snd kg in
      for_range 0 n (fun i op =>
        let op := for_range (i + 1) n (fun j op =>
                    if negb (adj i j) then op
                    else add_pauli_string op (fsp n [(gate, i); (gate, j)], nth k J 0%K)) op in
        add_pauli_string op (fsp n [(gate, i)], nth k h 0%K)) op)
      (combine (seq 0 3) [LX; LY; LZ]) [].

  (** specification side: Kronecker product over the sites k0, k0+1, ... of the 2x2 letters f k *)
  Fixpoint site_kron (n : nat) (f : nat -> pl) (k0 : nat) (r c : bits) : K :=
    match n, r, c with
    | O, [], [] => 1%K
    | Datatypes.S n', rb :: r', cb :: c' =>
        (letter_entry (plz (f k0)) (plx (f k0)) rb cb * site_kron n' f (Datatypes.S k0) r' c')%K
    | _, _, _ => 0%K
    end.
  Definition one_site (n : nat) (a : pl) (i : nat) : BMx K :=
    site_kron n (fun k => if Nat.eqb k i then a else LI) 0.
  Definition two_site (n : nat) (a : pl) (i j : nat) : BMx K :=
    site_kron n (fun k => if Nat.eqb k i || Nat.eqb k j then a else LI) 0.
End Spin.

(* ------------------------------------------------------------------ fermionic ladder operators *)
Inductive otype := OC | OA.     (* IFOType.FERMI_CREATE | IFOType.FERMI_ANNIHIL *)
Definition oflip (o : otype) : otype := match o with OC => OA | OA => OC end.
Definition otype_eqb (a b : otype) : bool :=
  match a, b with OC, OC | OA, OA => true | _, _ => false end.

Fixpoint parity (b : bits) : bool := match b with [] => false | x :: b' => xorb x (parity b') end.
Fixpoint popcount (b : bits) : nat := match b with [] => 0 | x :: b' => (if x then 1 else 0) + popcount b' end.

(** partial monomial maps on occupation bit lists: c_i|b> = (-1)^(occupation of the LATER
    sites) |b + e_i> if b_i = 0, else 0;  a_i likewise with b_i = 1 *)
Fixpoint lad_apply (o : otype) (i : nat) (b : bits) : option (bool * bits) :=
  match i, b with
  | _, [] => None
  | O, x :: b' =>
      if Bool.eqb x (match o with OC => false | OA => true end)
      then Some (parity b', negb x :: b') else None
  | Datatypes.S i', x :: b' =>
      match lad_apply o i' b' with
      | Some (s, r') => Some (s, x :: r')
      | None => None
      end
  end.
(** operators listed in action order (first element acts first) *)
Fixpoint mono_apply (ops : list (otype * nat)) (b : bits) : option (bool * bits) :=
  match ops with
  | [] => Some (false, b)
  | (o, i) :: rest =>
      match lad_apply o i b with
      | Some (s, b') =>
          match mono_apply rest b' with
          | Some (s', r) => Some (xorb s s', r)
          | None => None
          end
      | None => None
      end
  end.

(** multi-indices in C order (numpy nditer): all lists of length k over [0, L) *)
Fixpoint all_idx (L k : nat) : list (list nat) :=
  match k with
  | O => [[]]
  | Datatypes.S k' => flat_map (fun i => map (cons i) (all_idx L k')) (seq 0 L)
  end.

Fixpoint pat_eqb (a b : list otype) : bool :=
  match a, b with
  | [], [] => true
  | x :: a', y :: b' => otype_eqb x y && pat_eqb a' b'
  | _, _ => false
  end.

Fixpoint idx_eqb (a b : list nat) : bool :=
  match a, b with
  | [], [] => true
  | x :: a', y :: b' => Nat.eqb x y && idx_eqb a' b'
  | _, _ => false
  end.

Section Fermi.
  Context {K : Scalar}.

  (** Z (x) Z (x) ... on the remaining sites *)
  Fixpoint zstring (r c : bits) : K :=
    match r, c with
    | [], [] => 1%K
    | rb :: r', cb :: c' => ((if Bool.eqb rb cb then (if rb then - (1) else 1) else 0) * zstring r' c')%K
    | _, _ => 0%K
    end.
  (** clist[i] = I (x) ... (x) I (x) U (x) Z (x) ... (x) Z,  U = [[0,0],[1,0]] at site i *)
  Fixpoint cre (i : nat) (r c : bits) : K :=
    match i, r, c with
    | O, rb :: r', cb :: c' => ((if rb && negb cb then 1 else 0) * zstring r' c')%K
    | Datatypes.S i', rb :: r', cb :: c' => ((if Bool.eqb rb cb then 1 else 0) * cre i' r' c')%K
    | _, _, _ => 0%K
    end.
  (** alist[i] = clist[i].conj().T *)
  Definition ann (i : nat) : BMx K := madj (cre i).
  Definition ladder (oi : otype * nat) : BMx K :=
    match fst oi with OC => cre (snd oi) | OA => ann (snd oi) end.
  (** fstring = identity; for each operator: fstring = fstring @ op *)
  Definition opstring (n : nat) (ops : list (otype * nat)) : BMx K :=
    fold_left (fun M oi => mmul n M (ladder oi)) ops mid.

  (** coefficient tensors are functions of the multi-index *)
  Definition tensor := list nat -> K.
  Definition tzero : tensor := fun _ => 0%K.
  Definition tset (ten : tensor) (key : list nat) (v : K) : tensor :=
    fun idx => if idx_eqb idx key then v else ten idx.
  Definition tscal (a : K) (ten : tensor) : tensor := fun idx => (a * ten idx)%K.
  Definition tconj (ten : tensor) : tensor := fun idx => ((ten idx)^*)%K.
  (** numpy: B = A.transpose(p)  <=>  B[i_0,..] = A[j] with j[p[m]] = i_m *)
  Fixpoint index_of (a : nat) (p : list nat) : nat :=
    match p with [] => 0 | x :: p' => if Nat.eqb x a then 0 else Datatypes.S (index_of a p') end.
  Definition tr_index (p : list nat) (idx : list nat) : list nat :=
    map (fun a => nth (index_of a p) idx 0%nat) (seq 0 (length p)).
  Definition ttranspose (p : list nat) (ten : tensor) : tensor := fun idx => ten (tr_index p idx).
  (** ndarray.T reverses all axes *)
  Definition tT (ten : tensor) : tensor := fun idx => ten (rev idx).

  (** FieldOperatorTerm(opdesc, coeffs) on one fermionic field *)
  Record fterm := { pat : list otype; coef : tensor }.
  (** FieldOperator.as_matrix, one term: sum over the multi-index of coeff * operator string.
      (The code skips coefficients equal to 0; in exact arithmetic that changes nothing.) *)
  Definition fterm_matrix (L : nat) (t : fterm) : BMx K :=
    fun r c => lsum (map (fun idx => (coef t idx * opstring L (combine (pat t) idx) r c)%K)
                         (all_idx L (length (pat t)))).
  Definition fop_matrix (L : nat) (ts : list fterm) : BMx K :=
    fun r c => lsum (map (fun t => fterm_matrix L t r c) ts).

  (** FieldOperatorTerm.is_hermitian with exact comparison ([keq] decides equality of scalars;
      the code uses numpy.allclose, i.e. the real flag is this one up to rtol=1e-5/atol=1e-8) *)
  Definition pat_selfadj (p : list otype) : bool :=
    pat_eqb p (rev (map oflip p)).
  Definition fterm_herm_flag (keq : K -> K -> bool) (L : nat) (t : fterm) : bool :=
    pat_selfadj (pat t)
    && forallb (fun idx => keq (coef t idx) ((coef t (rev idx))^*)%K) (all_idx L (length (pat t))).

  (* ---------------------------------------------------------------- Fermi-Hubbard *)
  Definition kadj (adj : nat -> nat -> bool) (i j : nat) : K := if adj i j then 1%K else 0%K.
  (** np.kron(np.identity(2), B[:h, :h])[i, j] *)
  Definition kron_id2 (h : nat) (B : nat -> nat -> K) (i j : nat) : K :=
    if Nat.eqb (i / h) (j / h) then B (i mod h) (j mod h) else 0%K.
  Definition mat2tensor (M : nat -> nat -> K) : tensor :=
    fun idx => match idx with [i; j] => M i j | _ => 0%K end.

  Definition hub_kin (L : nat) (adj : nat -> nat -> bool) (t : K) (spin : bool) : tensor :=
    if spin then mat2tensor (fun i j => ((- t) * kron_id2 (L / 2) (kadj adj) i j)%K)
    else mat2tensor (fun i j => ((- t) * kadj adj i j)%K).
  Definition hub_int (L : nat) (adj : nat -> nat -> bool) (u : K) (spin : bool) : tensor :=
    if spin then
      for_range 0 (L / 2) (fun i ten => tset ten [i; i; i + L / 2; i + L / 2] u) tzero
    else
      for_range 0 L (fun i ten =>
        for_range (i + 1) L (fun j ten => if adj i j then tset ten [i; i; j; j] u else ten) ten) tzero.
  (** FermiHubbardHamiltonian.as_field_operator: [T, V] *)
  Definition hub_fop (L : nat) (adj : nat -> nat -> bool) (t u : K) (spin : bool) : list fterm :=
    [ {| pat := [OC; OA]; coef := hub_kin L adj t spin |};
      {| pat := [OC; OA; OC; OA]; coef := hub_int L adj u spin |} ].

  (* ---------------------------------------------------------------- molecular Hamiltonian *)
  (** constructor: None = ValueError.  [creal] is the outcome of isinstance(c, (int, float));
      the symmetry comparisons are exact here (numpy.allclose in the code). *)
  Record molham := { m_c : K; m_t : tensor; m_v : tensor; m_herm : bool; m_varch : bool }.
  Definition teqb (keq : K -> K -> bool) (L k : nat) (A B : tensor) : bool :=
    forallb (fun idx => keq (A idx) (B idx)) (all_idx L k).
  Definition mol_ctor (keq : K -> K -> bool) (L nsites : nat) (c : K) (creal : bool)
             (tk vi : tensor) (herm varch : bool) : option molham :=
    if negb (Nat.eqb nsites L) then None
    else if herm && negb creal then None
    else if herm && negb (teqb keq L 2 tk (tT (tconj tk))) then None
    else if herm && negb (teqb keq L 4 vi (ttranspose [2; 3; 0; 1] (tconj vi))) then None
    else if varch && negb (teqb keq L 4 vi (ttranspose [1; 0; 3; 2] vi)) then None
    else Some {| m_c := c; m_t := tk; m_v := vi; m_herm := herm; m_varch := varch |}.
  Definition mol_is_hermitian (H : molham) : bool := m_herm H.
  (** as_field_operator: [C, T, V];  [half] stands for the float 0.5 *)
  Definition mol_fop (half : K) (H : molham) : list fterm :=
    [ {| pat := []; coef := fun _ => m_c H |};
      {| pat := [OC; OA]; coef := m_t H |};
      {| pat := [OC; OC; OA; OA]; coef := tscal half (ttranspose [0; 1; 3; 2] (m_v H)) |} ].

  (* ---------------------------------------------------------------- executable evaluation *)
  Definition sgnb (s : bool) : K := if s then (- (1))%K else 1%K.
  (** entry (r, c) of an operator string through the monomial action on the column index *)
  Definition mono_entry (ops : list (otype * nat)) (r c : bits) : K :=
    match mono_apply (rev ops) c with
    | Some (s, r') => if beq r r' then sgnb s else 0%K
    | None => 0%K
    end.
  (** a term given by its (sparse) list of coefficient entries *)
  Definition sparse_term_entry (p : list otype) (entries : list (list nat * K)) (r c : bits) : K :=
    lsum (map (fun e => (snd e * mono_entry (combine p (fst e)) r c)%K) entries).
End Fermi.
Arguments tensor K : clear implicits.
Arguments fterm K : clear implicits.
Arguments molham K : clear implicits.
