(** Fermi-Hubbard and molecular Hamiltonians: coefficient tensors, matrices, Hermiticity,
    particle-number conservation.  Every number of sites, every adjacency relation, every
    commutative *-ring. *)
From Qib Require Export Hamil.HamilFermi.

(** ordered pairs (i, j), i, j < n, adj i j  (the support of the kinetic tensor) *)
Definition dpairs (n : nat) (adj : nat -> nat -> bool) : list (nat * nat) :=
  flat_map (fun i => map (pair i) (filter (adj i) (seq 0 n))) (seq 0 n).

Lemma dpairs_In n adj i j : In (i, j) (dpairs n adj) <-> (i < n /\ j < n /\ adj i j = true).
Proof.
  unfold dpairs. rewrite in_flat_map. split.
  - intros [i' [Hi H]]. apply in_map_iff in H. destruct H as [j' [E H]]. inversion E; subst.
    apply filter_In in H. destruct H as [H A]. apply in_seq in H. apply in_seq in Hi. repeat split; [lia|lia|exact A].
  - intros [H1 [H2 A]]. exists i. split; [apply in_seq; lia|].
    apply in_map. apply filter_In. split; [apply in_seq; lia|exact A].
Qed.

Lemma seq_shift_add h n : seq h n = map (Nat.add h) (seq 0 n).
Proof.
  revert h; induction n as [|n IH]; intros h; [reflexivity|].
  cbn [seq map]. rewrite Nat.add_0_r. f_equal.
  rewrite (IH (Datatypes.S h)), (IH 1), map_map. apply map_ext. intros a. lia.
Qed.

Lemma seq_double h : seq 0 (h + h) = seq 0 h ++ map (Nat.add h) (seq 0 h).
Proof. rewrite seq_app. cbn [Nat.add]. rewrite (seq_shift_add h h). reflexivity. Qed.

Section Proofs2.
  Context {K : Scalar} {L : ScalarLaws K}.
  Local Open Scope K_scope.
  Add Ring KringH2 : (s_ring K L).

  Lemma lsum_filter {A} (p : A -> bool) (f : A -> K) l :
    lsum (map (fun a => if p a then f a else 0) l) = lsum (map f (filter p l)).
  Proof.
    induction l as [|a l IH]; [reflexivity|]. cbn [map filter]. rewrite lsum_cons, IH.
    destruct (p a); [rewrite map_cons, lsum_cons; reflexivity|ring].
  Qed.

  Lemma lsum_one (x : K) : lsum [x] = x.
  Proof. rewrite lsum_cons, lsum_nil. ring. Qed.

  (* ---------------------------------------------------------------- tensors written by loops *)
  Lemma fold_tset_lookup {A} (key : A -> list nat) (u : K) W : forall ten idx,
    fold_left (fun ten e => tset ten (key e) u) W ten idx
    = if existsb (fun e => idx_eqb idx (key e)) W then u else ten idx.
  Proof.
    induction W as [|e W IH]; intros ten idx; cbn [fold_left existsb]; [reflexivity|].
    rewrite IH. unfold tset.
    destruct (existsb (fun e0 => idx_eqb idx (key e0)) W); [rewrite orb_true_r; reflexivity|].
    rewrite orb_false_r. reflexivity.
  Qed.

  (** sum against a tensor that is u on the (distinct, in-range) keys of W and 0 elsewhere *)
  Lemma sparse_sum {A} (key : A -> list nat) (u : K) (F : list nat -> K) U W :
    NoDup U -> NoDup (map key W) -> (forall e, In e W -> In (key e) U) ->
    lsum (map (fun idx => (if existsb (fun e => idx_eqb idx (key e)) W then u else 0) * F idx) U)
    = lsum (map (fun e => u * F (key e)) W).
  Proof.
    intros NU. induction W as [|e W IH]; intros NW HU.
    - cbn [existsb map]. rewrite lsum_nil. apply lsum_map_zero. intros; ring.
    - cbn [map] in NW. inversion NW as [|? ? Hn NW']; subst.
      cbn [map]. rewrite lsum_cons, <- IH by (auto; intros; apply HU; right; assumption).
      transitivity (lsum (map (fun idx => (if idx_eqb idx (key e) then u * F idx else 0)
                                          + (if existsb (fun e0 => idx_eqb idx (key e0)) W then u else 0) * F idx) U) : K).
      { apply lsum_map_ext. intros idx _. cbn [existsb].
        destruct (idx_eqb idx (key e)) eqn:E1; cbn [orb]; [|ring].
        apply idx_eqb_eq in E1. subst idx.
        destruct (existsb (fun e0 => idx_eqb (key e) (key e0)) W) eqn:E2; [|ring].
        exfalso. apply Hn. apply existsb_exists in E2. destruct E2 as [e0 [He0 E2]].
        apply idx_eqb_eq in E2. rewrite E2. apply in_map. exact He0. }
      rewrite lsum_map_add. f_equal.
      rewrite (lsum_map_single _ U (key e)); auto.
      + rewrite (proj2 (idx_eqb_eq (key e) (key e)) eq_refl). reflexivity.
      + apply HU. left; reflexivity.
      + intros x _ Hne. destruct (idx_eqb x (key e)) eqn:E; [|reflexivity].
        apply idx_eqb_eq in E. contradiction.
  Qed.

  (* ---------------------------------------------------------------- Hubbard: tensors *)
  Definition key_nn (e : nat * nat) : list nat := [fst e; fst e; snd e; snd e].

  Lemma hub_int_spinless_edges Ls adj u :
    hub_int Ls adj u false = fold_left (fun ten e => tset ten (key_nn e) u) (edges Ls adj) (tzero (K:=K)).
  Proof.
    unfold hub_int. apply (scan_edges Ls adj (fun i j ten => tset ten [i; i; j; j] u)).
  Qed.

  Theorem hub_int_spinless_closed Ls adj (u : K) idx :
    hub_int Ls adj u false idx
    = if existsb (fun e => idx_eqb idx (key_nn e)) (edges Ls adj) then u else 0.
  Proof. rewrite hub_int_spinless_edges, fold_tset_lookup. reflexivity. Qed.

  Definition key_ud (h p : nat) : list nat := [p; p; (p + h)%nat; (p + h)%nat].

  Theorem hub_int_spinful_closed Ls adj (u : K) idx :
    hub_int Ls adj u true idx
    = if existsb (fun p => idx_eqb idx (key_ud (Ls / 2) p)) (seq 0 (Ls / 2)) then u else 0.
  Proof.
    unfold hub_int, for_range. rewrite Nat.sub_0_r.
    apply (fold_tset_lookup (key_ud (Ls / 2)) u (seq 0 (Ls / 2)) tzero idx).
  Qed.

  Theorem hub_kin_spinless_closed Ls adj (t : K) i j :
    hub_kin Ls adj t false [i; j] = (- t) * kadj adj i j.
  Proof. reflexivity. Qed.

  Theorem hub_kin_spinful_closed h adj (t : K) s s' p q : (p < h)%nat -> (q < h)%nat ->
    hub_kin (2 * h) adj t true [(s * h + p)%nat; (s' * h + q)%nat]
    = if Nat.eqb s s' then (- t) * kadj adj p q else 0.
  Proof.
    intros Hp Hq. unfold hub_kin, mat2tensor, kron_id2.
    replace (2 * h / 2)%nat with h by (apply Nat.div_unique_exact; lia).
    assert (D : forall a b, (b < h)%nat -> ((a * h + b) / h = a /\ (a * h + b) mod h = b)%nat).
    { intros a b Hb. split.
      - symmetry. apply (Nat.div_unique (a * h + b) h a b); lia.
      - symmetry. apply (Nat.mod_unique (a * h + b) h a b); lia. }
    destruct (D s p Hp) as [-> ->]. destruct (D s' q Hq) as [-> ->].
    destruct (Nat.eqb s s'); ring.
  Qed.

  (* ---------------------------------------------------------------- Hubbard: matrices *)
  Definition hop (n i j : nat) : BMx K := opstring n [(OC, i); (OA, j)].
  Definition dens2 (n i j : nat) : BMx K := opstring n [(OC, i); (OA, i); (OC, j); (OA, j)].

  Lemma term2_sum Ls (ten : tensor K) r c :
    fterm_matrix Ls {| pat := [OC; OA]; coef := ten |} r c
    = lsum (map (fun i => lsum (map (fun j => ten [i; j] * hop Ls i j r c) (seq 0 Ls))) (seq 0 Ls)).
  Proof.
    unfold fterm_matrix. cbn [pat coef length].
    rewrite all_idx_S_sum. apply lsum_map_ext. intros i _.
    rewrite all_idx_S_sum. apply lsum_map_ext. intros j _.
    cbn [all_idx map]. rewrite lsum_one. reflexivity.
  Qed.

  Lemma keys_nn_NoDup Ls adj : NoDup (map key_nn (edges Ls adj)).
  Proof.
    apply NoDup_map_inj; [|apply edges_NoDup].
    intros [a b] [a' b'] E. unfold key_nn in E. cbn in E. inversion E; subst. reflexivity.
  Qed.

  Lemma keys_nn_range Ls adj e : In e (edges Ls adj) -> In (key_nn e) (all_idx Ls 4).
  Proof.
    destruct e as [i j]. intros H. apply edges_In in H. destruct H as [H1 [H2 _]].
    apply all_idx_In. split; [reflexivity|]. unfold key_nn. cbn [fst snd].
    repeat constructor; lia.
  Qed.

  Theorem hub_V_spinless Ls adj (u : K) r c :
    fterm_matrix Ls {| pat := [OC; OA; OC; OA]; coef := hub_int Ls adj u false |} r c
    = u * lsum (map (fun e => dens2 Ls (fst e) (snd e) r c) (edges Ls adj)).
  Proof.
    unfold fterm_matrix. cbn [pat coef length].
    transitivity (lsum (map (fun idx => (if existsb (fun e => idx_eqb idx (key_nn e)) (edges Ls adj) then u else 0)
                                        * opstring Ls (combine [OC; OA; OC; OA] idx) r c) (all_idx Ls 4)) : K).
    { apply lsum_map_ext. intros idx _. rewrite hub_int_spinless_closed. reflexivity. }
    rewrite (sparse_sum key_nn u (fun idx => opstring Ls (combine [OC; OA; OC; OA] idx) r c)).
    - rewrite <- lsum_map_scal. reflexivity.
    - apply all_idx_NoDup.
    - apply keys_nn_NoDup.
    - apply keys_nn_range.
  Qed.

  Theorem hub_V_spinful Ls adj (u : K) r c :
    fterm_matrix Ls {| pat := [OC; OA; OC; OA]; coef := hub_int Ls adj u true |} r c
    = u * lsum (map (fun p => dens2 Ls p (p + Ls / 2) r c) (seq 0 (Ls / 2))).
  Proof.
    unfold fterm_matrix. cbn [pat coef length].
    transitivity (lsum (map (fun idx => (if existsb (fun p => idx_eqb idx (key_ud (Ls / 2) p)) (seq 0 (Ls / 2)) then u else 0)
                                        * opstring Ls (combine [OC; OA; OC; OA] idx) r c) (all_idx Ls 4)) : K).
    { apply lsum_map_ext. intros idx _. rewrite hub_int_spinful_closed. reflexivity. }
    rewrite (sparse_sum (key_ud (Ls / 2)) u (fun idx => opstring Ls (combine [OC; OA; OC; OA] idx) r c)).
    - rewrite <- lsum_map_scal. reflexivity.
    - apply all_idx_NoDup.
    - apply NoDup_map_inj; [|apply seq_NoDup]. intros a b E. unfold key_ud in E. inversion E. reflexivity.
    - intros p Hp. apply in_seq in Hp. apply all_idx_In. split; [reflexivity|].
      pose proof (Nat.mul_div_le Ls 2 ltac:(lia)).
      unfold key_ud. repeat constructor; lia.
  Qed.

  Theorem hub_T_spinless Ls adj (t : K) r c :
    fterm_matrix Ls {| pat := [OC; OA]; coef := hub_kin Ls adj t false |} r c
    = (- t) * lsum (map (fun e => hop Ls (fst e) (snd e) r c) (dpairs Ls adj)).
  Proof.
    rewrite term2_sum. unfold dpairs. rewrite lsum_flat_map, <- lsum_map_scal.
    apply lsum_map_ext. intros i _. rewrite map_map. cbn [fst snd].
    rewrite <- lsum_filter, <- lsum_map_scal. apply lsum_map_ext. intros j _.
    rewrite hub_kin_spinless_closed. unfold kadj. destruct (adj i j); ring.
  Qed.

  (** spinful: the same hopping inside each of the two layers (sites p and h + p) *)
  Theorem hub_T_spinful h adj (t : K) r c :
    fterm_matrix (2 * h) {| pat := [OC; OA]; coef := hub_kin (2 * h) adj t true |} r c
    = (- t) * (lsum (map (fun e => hop (2 * h) (fst e) (snd e) r c) (dpairs h adj))
               + lsum (map (fun e => hop (2 * h) (h + fst e) (h + snd e) r c) (dpairs h adj))).
  Proof.
    rewrite term2_sum.
    assert (KS : forall s s' p q, (p < h)%nat -> (q < h)%nat ->
              hub_kin (2 * h) adj t true [(s * h + p)%nat; (s' * h + q)%nat]
              = if Nat.eqb s s' then (- t) * kadj adj p q else 0)
      by (intros; apply hub_kin_spinful_closed; assumption).
    set (T := hub_kin (2 * h) adj t true) in *.
    assert (K00 : forall p q, (p < h)%nat -> (q < h)%nat -> T [p; q] = (- t) * kadj adj p q).
    { intros p q Hp Hq. pose proof (KS 0%nat 0%nat p q Hp Hq) as E. cbn [Nat.mul Nat.add Nat.eqb] in E. exact E. }
    assert (K01 : forall p q, (p < h)%nat -> (q < h)%nat -> T [p; (h + q)%nat] = 0).
    { intros p q Hp Hq. pose proof (KS 0%nat 1%nat p q Hp Hq) as E. cbn [Nat.mul Nat.add Nat.eqb] in E.
      rewrite Nat.add_0_r in E. exact E. }
    assert (K10 : forall p q, (p < h)%nat -> (q < h)%nat -> T [(h + p)%nat; q] = 0).
    { intros p q Hp Hq. pose proof (KS 1%nat 0%nat p q Hp Hq) as E. cbn [Nat.mul Nat.add Nat.eqb] in E.
      rewrite Nat.add_0_r in E. exact E. }
    assert (K11 : forall p q, (p < h)%nat -> (q < h)%nat -> T [(h + p)%nat; (h + q)%nat] = (- t) * kadj adj p q).
    { intros p q Hp Hq. pose proof (KS 1%nat 1%nat p q Hp Hq) as E. cbn [Nat.mul Nat.add Nat.eqb] in E.
      rewrite Nat.add_0_r in E. exact E. }
    clearbody T. clear KS.
    replace (2 * h)%nat with (h + h)%nat by lia.
    rewrite seq_double, map_app, lsum_app, map_map.
    unfold dpairs. rewrite !lsum_flat_map.
    transitivity ((- t) * lsum (map (fun i => lsum (map (fun j => hop (h + h) i j r c) (filter (adj i) (seq 0 h)))) (seq 0 h))
                  + (- t) * lsum (map (fun i => lsum (map (fun j => hop (h + h) (h + i) (h + j) r c) (filter (adj i) (seq 0 h)))) (seq 0 h)) : K).
    2:{ rewrite <- (s_ring K L).(Rdistr_l) || idtac.
        transitivity ((- t) * (lsum (map (fun i => lsum (map (fun j => hop (h + h) i j r c) (filter (adj i) (seq 0 h)))) (seq 0 h))
                               + lsum (map (fun i => lsum (map (fun j => hop (h + h) (h + i) (h + j) r c) (filter (adj i) (seq 0 h)))) (seq 0 h))) : K); [ring|].
        f_equal. f_equal; apply lsum_map_ext; intros i _; rewrite map_map; reflexivity. }
    f_equal.
    - rewrite <- lsum_map_scal. apply lsum_map_ext. intros i Hi. apply in_seq in Hi.
      rewrite map_app, lsum_app, map_map.
      transitivity ((- t) * lsum (map (fun j => hop (h + h) i j r c) (filter (adj i) (seq 0 h))) + 0 : K); [|ring].
      f_equal.
      + rewrite <- lsum_filter, <- lsum_map_scal. apply lsum_map_ext. intros j Hj. apply in_seq in Hj.
        rewrite K00 by lia. unfold kadj. destruct (adj i j); ring.
      + apply lsum_map_zero. intros j Hj. apply in_seq in Hj. rewrite K01 by lia. ring.
    - rewrite <- lsum_map_scal. apply lsum_map_ext. intros i Hi. apply in_seq in Hi.
      rewrite map_app, lsum_app, map_map.
      transitivity (0 + (- t) * lsum (map (fun j => hop (h + h) (h + i) (h + j) r c) (filter (adj i) (seq 0 h))) : K); [|ring].
      f_equal.
      + apply lsum_map_zero. intros j Hj. apply in_seq in Hj. rewrite K10 by lia. ring.
      + rewrite <- lsum_filter, <- lsum_map_scal. apply lsum_map_ext. intros j Hj. apply in_seq in Hj.
        rewrite K11 by lia. unfold kadj. destruct (adj i j); ring.
  Qed.

  (* ---------------------------------------------------------------- ordered pairs vs edges *)
  Lemma seq_S_last a n : seq a (Datatypes.S n) = seq a n ++ [(a + n)%nat].
  Proof. apply seq_S. Qed.

  Lemma dsum_sym n (g : nat -> nat -> K) :
    lsum (map (fun i => lsum (map (g i) (seq 0 n))) (seq 0 n))
    = lsum (map (fun i => lsum (map (fun j => g i j + g j i) (seq (i + 1) (n - (i + 1))))) (seq 0 n))
      + lsum (map (fun i => g i i) (seq 0 n)).
  Proof.
    induction n as [|n IH]; [cbn; ring|].
    rewrite !seq_S_last. cbn [Nat.add]. rewrite !map_app, !lsum_app. cbn [map]. rewrite !lsum_one.
    rewrite map_app, lsum_app. cbn [map]. rewrite lsum_one.
    transitivity ((lsum (map (fun i => lsum (map (g i) (seq 0 n))) (seq 0 n))
                   + lsum (map (fun i => g i n) (seq 0 n)))
                  + (lsum (map (g n) (seq 0 n)) + g n n) : K).
    { f_equal. rewrite <- lsum_map_add. apply lsum_map_ext. intros i _.
      rewrite map_app, lsum_app. cbn [map]. rewrite lsum_one. reflexivity. }
    rewrite IH.
    replace (Datatypes.S n - (n + 1))%nat with 0%nat by lia. cbn [seq map]. rewrite lsum_nil.
    transitivity ((lsum (map (fun i => lsum (map (fun j => g i j + g j i) (seq (i + 1) (n - (i + 1))))) (seq 0 n))
                   + lsum (map (fun i => g i n + g n i) (seq 0 n)))
                  + 0 + (lsum (map (fun i => g i i) (seq 0 n)) + g n n) : K).
    { rewrite lsum_map_add. ring. }
    f_equal. f_equal. rewrite <- lsum_map_add. apply lsum_map_ext. intros i Hi. apply in_seq in Hi.
    replace (Datatypes.S n - (i + 1))%nat with (Datatypes.S (n - (i + 1))) by lia.
    rewrite seq_S_last, map_app, lsum_app. cbn [map]. rewrite lsum_one.
    replace (i + 1 + (n - (i + 1)))%nat with n by lia. reflexivity.
  Qed.

  Theorem dpairs_edges_sum n adj (f : nat -> nat -> K) :
    (forall i j, adj i j = adj j i) -> (forall i, adj i i = false) ->
    lsum (map (fun e => f (fst e) (snd e)) (dpairs n adj))
    = lsum (map (fun e => f (fst e) (snd e) + f (snd e) (fst e)) (edges n adj)).
  Proof.
    intros Sym Irr. unfold dpairs, edges. rewrite !lsum_flat_map.
    transitivity (lsum (map (fun i => lsum (map (fun j => if adj i j then f i j else 0) (seq 0 n))) (seq 0 n)) : K).
    { apply lsum_map_ext. intros i _. rewrite map_map. cbn [fst snd]. rewrite lsum_filter. reflexivity. }
    rewrite (dsum_sym n (fun i j => if adj i j then f i j else 0)).
    transitivity (lsum (map (fun i => lsum (map (fun j => if adj i j then f i j + f j i else 0) (seq (i + 1) (n - (i + 1))))) (seq 0 n)) + 0 : K).
    { f_equal.
      - apply lsum_map_ext. intros i _. apply lsum_map_ext. intros j _.
        rewrite (Sym j i). destruct (adj i j); ring.
      - apply lsum_map_zero. intros i _. rewrite Irr. reflexivity. }
    transitivity (lsum (map (fun i => lsum (map (fun j => if adj i j then f i j + f j i else 0) (seq (i + 1) (n - (i + 1))))) (seq 0 n)) : K); [ring|].
    apply lsum_map_ext. intros i _. rewrite map_map. cbn [fst snd]. rewrite lsum_filter. reflexivity.
  Qed.

  (* ---------------------------------------------------------------- density-density entries *)
  Lemma dens2_entry n i j r c : length r = n -> length c = n -> (i < n)%nat -> (j < n)%nat ->
    dens2 n i j r c = if beq r c then (if nth i c false && nth j c false then 1 else 0) else 0.
  Proof.
    intros Hr Hc Hi Hj. unfold dens2. rewrite opstring_mono by assumption.
    unfold mono_entry. cbn [rev app mono_apply].
    destruct (lad_apply OA j c) as [[s1 b1]|] eqn:E1.
    - destruct (lad_apply_num _ _ _ _ E1) as [E1' N1]. rewrite E1', N1.
      destruct (lad_apply OA i c) as [[s2 b2]|] eqn:E2.
      + destruct (lad_apply_num _ _ _ _ E2) as [E2' N2]. rewrite E2', N2.
        destruct s1, s2; cbn [xorb sgnb andb]; reflexivity.
      + rewrite (lad_apply_ann_none i c) by (try lia; exact E2). cbn [andb].
        destruct (beq r c); reflexivity.
    - rewrite (lad_apply_ann_none j c) by (try lia; exact E1). rewrite andb_false_r.
      destruct (beq r c); reflexivity.
  Qed.

  Lemma dens2_herm n i j r c : length r = n -> length c = n -> (i < n)%nat -> (j < n)%nat ->
    (dens2 n i j c r)^* = dens2 n i j r c.
  Proof.
    intros Hr Hc Hi Hj. rewrite !dens2_entry by assumption. rewrite (beq_sym c r).
    destruct (beq r c) eqn:B; [|apply (conj_0 K L)]. apply beq_eq in B. subst.
    destruct (nth i c false && nth j c false); [apply (conj_1 K L)|apply (conj_0 K L)].
  Qed.

  Lemma conj_kadj adj i j : (kadj (K:=K) adj i j)^* = kadj adj i j.
  Proof. unfold kadj. destruct (adj i j); [apply (conj_1 K L)|apply (conj_0 K L)]. Qed.

  Lemma idx2 Ls idx : In idx (all_idx Ls 2) -> exists i j, idx = [i; j] /\ (i < Ls)%nat /\ (j < Ls)%nat.
  Proof.
    intros H. apply all_idx_In in H. destruct H as [Hl Hf].
    destruct idx as [|i [|j [|? ?]]]; try discriminate.
    inversion Hf as [|? ? Hi Hf']; subst. inversion Hf' as [|? ? Hj _]; subst. eauto.
  Qed.

  Lemma idx4 Ls idx : In idx (all_idx Ls 4) ->
    exists i j k l, idx = [i; j; k; l] /\ (i < Ls)%nat /\ (j < Ls)%nat /\ (k < Ls)%nat /\ (l < Ls)%nat.
  Proof.
    intros H. apply all_idx_In in H. destruct H as [Hl Hf].
    destruct idx as [|i [|j [|k [|l [|? ?]]]]]; try discriminate.
    inversion Hf as [|? ? Hi Hf1]; subst. inversion Hf1 as [|? ? Hj Hf2]; subst.
    inversion Hf2 as [|? ? Hk Hf3]; subst. inversion Hf3 as [|? ? Hl' _]; subst.
    exists i, j, k, l. auto.
  Qed.

  (* ---------------------------------------------------------------- Hubbard: whole operator *)
  Lemma fop2 Ls (a b : fterm K) r c :
    fop_matrix Ls [a; b] r c = fterm_matrix Ls a r c + fterm_matrix Ls b r c.
  Proof. unfold fop_matrix. cbn [map]. rewrite !lsum_cons, lsum_nil. ring. Qed.

  Theorem hubbard_spinless_matrix Ls adj (t u : K) r c :
    fop_matrix Ls (hub_fop Ls adj t u false) r c
    = (- t) * lsum (map (fun e => hop Ls (fst e) (snd e) r c) (dpairs Ls adj))
      + u * lsum (map (fun e => dens2 Ls (fst e) (snd e) r c) (edges Ls adj)).
  Proof. unfold hub_fop. rewrite fop2, hub_T_spinless, hub_V_spinless. reflexivity. Qed.

  (** hopping over every edge once (both directions), for a symmetric irreflexive adjacency *)
  Theorem hubbard_spinless_matrix_edges Ls adj (t u : K) r c :
    (forall i j, adj i j = adj j i) -> (forall i, adj i i = false) ->
    fop_matrix Ls (hub_fop Ls adj t u false) r c
    = (- t) * lsum (map (fun e => hop Ls (fst e) (snd e) r c + hop Ls (snd e) (fst e) r c) (edges Ls adj))
      + u * lsum (map (fun e => dens2 Ls (fst e) (snd e) r c) (edges Ls adj)).
  Proof.
    intros Sym Irr. rewrite hubbard_spinless_matrix.
    rewrite (dpairs_edges_sum Ls adj (fun i j => hop Ls i j r c) Sym Irr). reflexivity.
  Qed.

  Theorem hubbard_spinful_matrix h adj (t u : K) r c :
    fop_matrix (2 * h) (hub_fop (2 * h) adj t u true) r c
    = (- t) * (lsum (map (fun e => hop (2 * h) (fst e) (snd e) r c) (dpairs h adj))
               + lsum (map (fun e => hop (2 * h) (h + fst e) (h + snd e) r c) (dpairs h adj)))
      + u * lsum (map (fun p => dens2 (2 * h) p (p + h) r c) (seq 0 h)).
  Proof.
    unfold hub_fop. rewrite fop2, hub_T_spinful, hub_V_spinful.
    replace (2 * h / 2)%nat with h by (apply Nat.div_unique_exact; lia). reflexivity.
  Qed.

  Theorem hubbard_spinful_matrix_edges h adj (t u : K) r c :
    (forall i j, adj i j = adj j i) -> (forall i, adj i i = false) ->
    fop_matrix (2 * h) (hub_fop (2 * h) adj t u true) r c
    = (- t) * (lsum (map (fun e => hop (2 * h) (fst e) (snd e) r c + hop (2 * h) (snd e) (fst e) r c) (edges h adj))
               + lsum (map (fun e => hop (2 * h) (h + fst e) (h + snd e) r c
                                     + hop (2 * h) (h + snd e) (h + fst e) r c) (edges h adj)))
      + u * lsum (map (fun p => dens2 (2 * h) p (p + h) r c) (seq 0 h)).
  Proof.
    intros Sym Irr. rewrite hubbard_spinful_matrix.
    rewrite (dpairs_edges_sum h adj (fun i j => hop (2 * h) i j r c) Sym Irr).
    rewrite (dpairs_edges_sum h adj (fun i j => hop (2 * h) (h + i) (h + j) r c) Sym Irr). reflexivity.
  Qed.

  (** Hermiticity (is_hermitian() is the constant True) *)
  Lemma hub_T_hermitian Ls adj (t : K) spin :
    t^* = t -> (forall i j, adj i j = adj j i) ->
    hermitian Ls (fterm_matrix Ls {| pat := [OC; OA]; coef := hub_kin Ls adj t spin |}).
  Proof.
    intros Ht Sym. apply fterm_hermitian; [reflexivity|]. cbn [pat coef length].
    intros idx Hin. destruct (idx2 _ _ Hin) as [i [j [-> _]]]. cbn [rev app].
    unfold hub_kin. destruct spin; unfold mat2tensor.
    - unfold kron_id2. rewrite (conj_mul K L), (conj_opp K L), Ht, (Nat.eqb_sym (j / (Ls / 2))).
      destruct (Nat.eqb (i / (Ls / 2)) (j / (Ls / 2))); [|rewrite (conj_0 K L); reflexivity].
      rewrite conj_kadj. unfold kadj. rewrite Sym. reflexivity.
    - rewrite (conj_mul K L), (conj_opp K L), Ht, conj_kadj. unfold kadj. rewrite Sym. reflexivity.
  Qed.

  Theorem hubbard_spinless_hermitian Ls adj (t u : K) :
    t^* = t -> u^* = u -> (forall i j, adj i j = adj j i) ->
    hermitian Ls (fop_matrix Ls (hub_fop Ls adj t u false)).
  Proof.
    intros Ht Hu Sym. apply hermitian_fop. unfold hub_fop.
    constructor; [apply hub_T_hermitian; assumption|]. constructor; [|constructor].
    intros r c Hr Hc. unfold madj. rewrite !hub_V_spinless.
    rewrite (conj_mul K L), Hu, lsum_map_conj. f_equal. apply lsum_map_ext.
    intros [i j] He. apply edges_In in He. cbn [fst snd]. apply dens2_herm; try assumption; lia.
  Qed.

  Theorem hubbard_spinful_hermitian h adj (t u : K) :
    t^* = t -> u^* = u -> (forall i j, adj i j = adj j i) ->
    hermitian (2 * h) (fop_matrix (2 * h) (hub_fop (2 * h) adj t u true)).
  Proof.
    intros Ht Hu Sym. apply hermitian_fop. unfold hub_fop.
    constructor; [apply hub_T_hermitian; assumption|]. constructor; [|constructor].
    intros r c Hr Hc. unfold madj. rewrite !hub_V_spinful.
    replace (2 * h / 2)%nat with h by (apply Nat.div_unique_exact; lia).
    rewrite (conj_mul K L), Hu, lsum_map_conj. f_equal. apply lsum_map_ext.
    intros p Hp. apply in_seq in Hp. apply dens2_herm; try assumption; lia.
  Qed.

  (** particle number *)
  Theorem hubbard_number_selection Ls adj (t u : K) spin r c :
    length r = Ls -> length c = Ls -> popcount r <> popcount c ->
    fop_matrix Ls (hub_fop Ls adj t u spin) r c = 0.
  Proof.
    intros Hr Hc Hne. unfold hub_fop. rewrite fop2.
    rewrite !fterm_conserves_number by (try reflexivity; assumption). ring.
  Qed.

  Theorem hubbard_commutes_N Ls adj (t u : K) spin :
    meq Ls (mmul Ls (fop_matrix Ls (hub_fop Ls adj t u spin)) Nmat)
           (mmul Ls Nmat (fop_matrix Ls (hub_fop Ls adj t u spin))).
  Proof. apply commutes_with_N. intros. apply hubbard_number_selection; assumption. Qed.

  Lemma popcount_sum c : forall n, length c = n ->
    lsum (map (fun i => if nth i c false then 1 else 0) (seq 0 n)) = knat (popcount c) :> K.
  Proof.
    induction c as [|x c IH]; intros n Hn; subst n; [reflexivity|].
    cbn [length seq map nth]. rewrite lsum_cons, <- seq_shift, map_map. cbn [nth popcount].
    rewrite (IH (length c) eq_refl).
    destruct x; cbn [Nat.add knat]; ring.
  Qed.

  (** N = sum_i c_i a_i is the diagonal matrix of the occupation count *)
  Theorem number_operator_diag n r c : length r = n -> length c = n ->
    lsum (map (fun i => opstring n [(OC, i); (OA, i)] r c) (seq 0 n)) = Nmat r c :> K.
  Proof.
    intros Hr Hc. unfold Nmat.
    transitivity (lsum (map (fun i => if beq r c then (if nth i c false then 1 else 0) else 0) (seq 0 n)) : K).
    { apply lsum_map_ext. intros i Hi. apply in_seq in Hi. apply num_entry; try assumption; lia. }
    destruct (beq r c); [apply popcount_sum; exact Hc|]. apply lsum_map_zero. reflexivity.
  Qed.

  (* ---------------------------------------------------------------- molecular Hamiltonian *)
  Definition sum2 Ls (F : nat -> nat -> K) : K :=
    lsum (map (fun i => lsum (map (fun j => F i j) (seq 0 Ls))) (seq 0 Ls)).
  Definition sum4 Ls (F : nat -> nat -> nat -> nat -> K) : K :=
    sum2 Ls (fun i j => sum2 Ls (fun k l => F i j k l)).

  Lemma sum2_swap Ls F : sum2 Ls F = sum2 Ls (fun i j => F j i).
  Proof. unfold sum2. apply lsum_map_swap. Qed.

  Lemma term4_sum Ls p (ten : tensor K) r c : length p = 4%nat ->
    fterm_matrix Ls {| pat := p; coef := ten |} r c
    = sum4 Ls (fun i j k l => ten [i; j; k; l] * opstring Ls (combine p [i; j; k; l]) r c).
  Proof.
    intros Hp. unfold fterm_matrix, sum4, sum2. cbn [pat coef]. rewrite Hp.
    rewrite all_idx_S_sum. apply lsum_map_ext. intros i _.
    rewrite all_idx_S_sum. apply lsum_map_ext. intros j _.
    rewrite all_idx_S_sum. apply lsum_map_ext. intros k _.
    rewrite all_idx_S_sum. apply lsum_map_ext. intros l _.
    cbn [all_idx map]. rewrite lsum_one. reflexivity.
  Qed.

  Lemma fop3 Ls (a b d : fterm K) r c :
    fop_matrix Ls [a; b; d] r c = fterm_matrix Ls a r c + fterm_matrix Ls b r c + fterm_matrix Ls d r c.
  Proof. unfold fop_matrix. cbn [map]. rewrite !lsum_cons, lsum_nil. ring. Qed.

  (** H = c + sum t_ij a+_i a_j + 1/2 sum v_ijkl a+_i a+_j a_l a_k  (note l before k) *)
  Theorem molecular_matrix Ls (half : K) (H : molham K) r c :
    fop_matrix Ls (mol_fop half H) r c
    = m_c H * mid r c
      + sum2 Ls (fun i j => m_t H [i; j] * opstring Ls [(OC, i); (OA, j)] r c)
      + sum4 Ls (fun i j k l => half * m_v H [i; j; k; l]
                                * opstring Ls [(OC, i); (OC, j); (OA, l); (OA, k)] r c).
  Proof.
    unfold mol_fop. rewrite fop3. f_equal; [f_equal|].
    - unfold fterm_matrix. cbn [pat coef length all_idx map combine]. rewrite lsum_one. reflexivity.
    - rewrite term2_sum. reflexivity.
    - rewrite term4_sum by reflexivity. unfold sum4.
      unfold sum2 at 1 3. apply lsum_map_ext. intros i _. apply lsum_map_ext. intros j _.
      rewrite sum2_swap. unfold sum2. apply lsum_map_ext. intros k _. apply lsum_map_ext. intros l _.
      unfold tscal, ttranspose. reflexivity.
  Qed.

  Theorem molecular_hermitian keq Ls nsites (half c : K) creal tk vi herm varch H :
    (forall a b : K, keq a b = true -> a = b) ->
    (creal = true -> c^* = c) -> half^* = half ->
    mol_ctor keq Ls nsites c creal tk vi herm varch = Some H ->
    mol_is_hermitian H = true ->
    hermitian Ls (fop_matrix Ls (mol_fop half H)).
  Proof.
    intros Hk Hc Hh Hctor Hflag. unfold mol_ctor in Hctor.
    destruct (negb (Nat.eqb nsites Ls)); [discriminate|].
    destruct herm.
    2:{ destruct (false && negb creal); [discriminate|]. cbn [andb] in Hctor.
        destruct (varch && _); [discriminate|]. inversion Hctor; subst. discriminate. }
    cbn [andb] in Hctor.
    destruct creal; [|discriminate]. cbn [negb] in Hctor.
    destruct (teqb keq Ls 2 tk (tT (tconj tk))) eqn:ET; [|discriminate]. cbn [negb] in Hctor.
    destruct (teqb keq Ls 4 vi (ttranspose [2; 3; 0; 1]%nat (tconj vi))) eqn:EV; [|discriminate]. cbn [negb] in Hctor.
    destruct (varch && _); [discriminate|]. inversion Hctor; subst. clear Hctor Hflag.
    unfold teqb in ET, EV. rewrite forallb_forall in ET, EV.
    apply hermitian_fop. unfold mol_fop. cbn [m_c m_t m_v].
    constructor; [|constructor; [|constructor; [|constructor]]].
    - apply fterm_hermitian; [reflexivity|]. cbn [pat coef length]. intros idx _. symmetry. apply Hc. reflexivity.
    - apply fterm_hermitian; [reflexivity|]. cbn [pat coef length]. intros idx Hin.
      apply Hk. apply (ET idx Hin).
    - apply fterm_hermitian; [reflexivity|]. cbn [pat coef length]. intros idx Hin.
      destruct (idx4 _ _ Hin) as [i [j [k [l [-> [Hi [Hj [Hk' Hl]]]]]]]].
      unfold tscal, ttranspose. cbn [rev app]. rewrite (conj_mul K L), Hh. f_equal.
      change (tr_index [0; 1; 3; 2]%nat [i; j; k; l]) with [i; j; l; k].
      change (tr_index [0; 1; 3; 2]%nat [l; k; j; i]) with [l; k; i; j].
      assert (In' : In [i; j; l; k] (all_idx Ls 4)) by (apply all_idx_In; split; [reflexivity|repeat constructor; assumption]).
      pose proof (Hk _ _ (EV _ In')) as E. unfold ttranspose, tconj in E.
      change (tr_index [2; 3; 0; 1]%nat [i; j; l; k]) with [l; k; i; j] in E. exact E.
  Qed.

  Theorem molecular_number_selection Ls (half : K) (H : molham K) r c :
    length r = Ls -> length c = Ls -> popcount r <> popcount c ->
    fop_matrix Ls (mol_fop half H) r c = 0.
  Proof.
    intros Hr Hc Hne. unfold mol_fop. rewrite fop3.
    rewrite !fterm_conserves_number by (try reflexivity; assumption). ring.
  Qed.

  (** the constructor's decision rule, exact version *)
  Theorem mol_ctor_spec keq Ls nsites (c : K) creal tk vi herm varch :
    (forall a b : K, keq a b = true <-> a = b) ->
    match mol_ctor keq Ls nsites c creal tk vi herm varch with
    | Some H => nsites = Ls /\ m_c H = c /\ m_herm H = herm /\ m_varch H = varch
                /\ (herm = true -> creal = true
                    /\ (forall i j, (i < Ls)%nat -> (j < Ls)%nat -> tk [i; j] = (tk [j; i])^*)
                    /\ (forall i j k l, (i < Ls)%nat -> (j < Ls)%nat -> (k < Ls)%nat -> (l < Ls)%nat ->
                          vi [i; j; k; l] = (vi [k; l; i; j])^*))
                /\ (varch = true ->
                    forall i j k l, (i < Ls)%nat -> (j < Ls)%nat -> (k < Ls)%nat -> (l < Ls)%nat ->
                          vi [i; j; k; l] = vi [j; i; l; k])
    | None => True
    end.
  Proof.
    intros Hk. unfold mol_ctor.
    destruct (Nat.eqb nsites Ls) eqn:EN; cbn [negb]; [|exact I]. apply Nat.eqb_eq in EN.
    destruct (herm && negb creal) eqn:E1; [exact I|].
    destruct (herm && negb (teqb keq Ls 2 tk (tT (tconj tk)))) eqn:E2; [exact I|].
    destruct (herm && negb (teqb keq Ls 4 vi (ttranspose [2; 3; 0; 1]%nat (tconj vi)))) eqn:E3; [exact I|].
    destruct (varch && negb (teqb keq Ls 4 vi (ttranspose [1; 0; 3; 2]%nat vi))) eqn:E4; [exact I|].
    cbn [m_c m_herm m_varch].
    split; [exact EN|]. split; [reflexivity|]. split; [reflexivity|]. split; [reflexivity|]. split.
    - intros ->. cbn [andb] in E1, E2, E3. apply negb_false_iff in E1, E2, E3. split; [exact E1|].
      unfold teqb in E2, E3. rewrite forallb_forall in E2, E3. split.
      + intros i j Hi Hj.
        assert (In' : In [i; j] (all_idx Ls 2)) by (apply all_idx_In; split; [reflexivity|repeat constructor; assumption]).
        apply Hk. apply (E2 _ In').
      + intros i j k l Hi Hj Hk' Hl.
        assert (In' : In [i; j; k; l] (all_idx Ls 4)) by (apply all_idx_In; split; [reflexivity|repeat constructor; assumption]).
        apply Hk. apply (E3 _ In').
    - intros ->. cbn [andb] in E4. apply negb_false_iff in E4.
      unfold teqb in E4. rewrite forallb_forall in E4.
      intros i j k l Hi Hj Hk' Hl.
      assert (In' : In [i; j; k; l] (all_idx Ls 4)) by (apply all_idx_In; split; [reflexivity|repeat constructor; assumption]).
      apply Hk. apply (E4 _ In').
  Qed.

  (* ---------------------------------------------------------------- executable (sparse, monomial) form *)
  (** the non-zero coefficient entries, as FieldOperator.as_matrix visits them ([kz] = "== 0") *)
  Definition entries_of (kz : K -> bool) (Ls : nat) (t : fterm K) : list (list nat * K) :=
    map (fun idx => (idx, coef t idx))
        (filter (fun idx => negb (kz (coef t idx))) (all_idx Ls (length (pat t)))).

  Theorem fterm_matrix_sparse kz Ls (t : fterm K) r c :
    (forall x : K, kz x = true -> x = 0) -> length r = Ls -> length c = Ls ->
    fterm_matrix Ls t r c = sparse_term_entry (pat t) (entries_of kz Ls t) r c.
  Proof.
    intros Hz Hr Hc. unfold fterm_matrix, sparse_term_entry, entries_of.
    rewrite map_map. cbn [fst snd].
    rewrite <- (lsum_filter (fun idx => negb (kz (coef t idx)))
                            (fun idx => coef t idx * mono_entry (combine (pat t) idx) r c)).
    apply lsum_map_ext. intros idx _. rewrite opstring_mono by assumption.
    destruct (kz (coef t idx)) eqn:E; cbn [negb]; [|reflexivity].
    rewrite (Hz _ E). ring.
  Qed.

  Definition fop_matrix_sparse (kz : K -> bool) (Ls : nat) (ts : list (fterm K)) : BMx K :=
    fun r c => lsum (map (fun t => sparse_term_entry (pat t) (entries_of kz Ls t) r c) ts).

  Theorem fop_matrix_sparse_ok kz Ls ts r c :
    (forall x : K, kz x = true -> x = 0) -> length r = Ls -> length c = Ls ->
    fop_matrix Ls ts r c = fop_matrix_sparse kz Ls ts r c.
  Proof.
    intros Hz Hr Hc. unfold fop_matrix, fop_matrix_sparse. apply lsum_map_ext. intros t _.
    apply fterm_matrix_sparse; assumption.
  Qed.
End Proofs2.
