(** Fermi-Hubbard and molecular Hamiltonians: coefficient tensors, matrices, Hermiticity,
    particle-number conservation.  Every number of sites, every adjacency relation, every
    commutative *-ring. *)
From Qib Require Export Hamil.HamilFermi.

(** ordered pairs (i, j), i, j < n, adj i j  (the support of the kinetic tensor) *)
Definition dpairs (n : nat) (adj : nat -> nat -> bool) : list (nat * nat) :=
  flat_map (fun i => map (pair i) (filter (adj i) (seq 0 n))) (seq 0 n).

Lemma dpairs_In n adj i j : In (i, j) (dpairs n adj) <-> (i < n /\ j < n /\ adj i j = true).
Proof.
  unfold dpairs. rewrite in_flat_map. split.
  - intros [i' [Hi H]]. apply in_map_iff in H. destruct H as [j' [E H]]. inversion E; subst.
    apply filter_In in H. destruct H as [H A]. apply in_seq in H. apply in_seq in Hi. repeat split; [lia|lia|exact A].
  - intros [H1 [H2 A]]. exists i. split; [apply in_seq; lia|].
    apply in_map. apply filter_In. split; [apply in_seq; lia|exact A].
Qed.

Lemma seq_shift_add h n : seq h n = map (Nat.add h) (seq 0 n).
Proof.
  revert h; induction n as [|n IH]; intros h; [reflexivity|].
  cbn [seq map]. rewrite Nat.add_0_r. f_equal.
  rewrite (IH (Datatypes.S h)), (IH 1), map_map. apply map_ext. intros a. lia.
Qed.

Lemma seq_double h : seq 0 (h + h) = seq 0 h ++ map (Nat.add h) (seq 0 h).
Proof. rewrite seq_app. cbn [Nat.add]. rewrite (seq_shift_add h h). reflexivity. Qed.

Section Proofs2.
  Context {K : Scalar} {L : ScalarLaws K}.
  Local Open Scope K_scope.
  Add Ring KringH2 : (s_ring K L).

  Lemma lsum_filter {A} (p : A -> bool) (f : A -> K) l :
    lsum (map (fun a => if p a then f a else 0) l) = lsum (map f (filter p l)).
  Proof.
    induction l as [|a l IH]; [reflexivity|]. cbn [map filter]. rewrite lsum_cons, IH.
    destruct (p a); [rewrite map_cons, lsum_cons; reflexivity|ring].
  Qed.

  Lemma lsum_one (x : K) : lsum [x] = x.
  Proof. rewrite lsum_cons, lsum_nil. ring. Qed.

  (* ---------------------------------------------------------------- tensors written by loops *)
  Lemma fold_tset_lookup {A} (key : A -> list nat) (u : K) W : forall ten idx,
    fold_left (fun ten e => tset ten (key e) u) W ten idx
    = if existsb (fun e => idx_eqb idx (key e)) W then u else ten idx.
  Proof.
    induction W as [|e W IH]; intros ten idx; cbn [fold_left existsb]; [reflexivity|].
    rewrite IH. unfold tset.
    destruct (existsb (fun e0 => idx_eqb idx (key e0)) W); [rewrite orb_true_r; reflexivity|].
    rewrite orb_false_r. reflexivity.
  Qed.

  (** sum against a tensor that is u on the (distinct, in-range) keys of W and 0 elsewhere *)
  Lemma sparse_sum {A} (key : A -> list nat) (u : K) (F : list nat -> K) U W :
    NoDup U -> NoDup (map key W) -> (forall e, In e W -> In (key e) U) ->
    lsum (map (fun idx => (if existsb (fun e => idx_eqb idx (key e)) W then u else 0) * F idx) U)
    = lsum (map (fun e => u * F (key e)) W).
  Proof.
    intros NU. induction W as [|e W IH]; intros NW HU.
    - cbn [existsb map]. rewrite lsum_nil. apply lsum_map_zero. intros; ring.
    - cbn [map] in NW. inversion NW as [|? ? Hn NW']; subst.
      cbn [map]. rewrite lsum_cons, <- IH by (auto; intros; apply HU; right; assumption).
      transitivity (lsum (map (fun idx => (if idx_eqb idx (key e) then u * F idx else 0)
                                          + (if existsb (fun e0 => idx_eqb idx (key e0)) W then u else 0) * F idx) U) : K).
      { apply lsum_map_ext. intros idx _. cbn [existsb].
        destruct (idx_eqb idx (key e)) eqn:E1; cbn [orb]; [|ring].
        apply idx_eqb_eq in E1. subst idx.
        destruct (existsb (fun e0 => idx_eqb (key e) (key e0)) W) eqn:E2; [|ring].
        exfalso. apply Hn. apply existsb_exists in E2. destruct E2 as [e0 [He0 E2]].
        apply idx_eqb_eq in E2. rewrite E2. apply in_map. exact He0. }
      rewrite lsum_map_add. f_equal.
      rewrite (lsum_map_single _ U (key e)); auto.
      + rewrite (proj2 (idx_eqb_eq (key e) (key e)) eq_refl). reflexivity.
      + apply HU. left; reflexivity.
      + intros x _ Hne. destruct (idx_eqb x (key e)) eqn:E; [|reflexivity].
        apply idx_eqb_eq in E. contradiction.
  Qed.

  (* ---------------------------------------------------------------- Hubbard: tensors *)
  Definition key_nn (e : nat * nat) : list nat := [fst e; fst e; snd e; snd e].

  Lemma hub_int_spinless_edges Ls adj u :
    hub_int Ls adj u false = fold_left (fun ten e => tset ten (key_nn e) u) (edges Ls adj) (tzero (K:=K)).
  Proof.
    unfold hub_int. apply (scan_edges Ls adj (fun i j ten => tset ten [i; i; j; j] u)).
  Qed.

  Theorem hub_int_spinless_closed Ls adj (u : K) idx :
    hub_int Ls adj u false idx
    = if existsb (fun e => idx_eqb idx (key_nn e)) (edges Ls adj) then u else 0.
  Proof. rewrite hub_int_spinless_edges, fold_tset_lookup. reflexivity. Qed.

  Definition key_ud (h p : nat) : list nat := [p; p; (p + h)%nat; (p + h)%nat].

  Theorem hub_int_spinful_closed Ls adj (u : K) idx :
    hub_int Ls adj u true idx
    = if existsb (fun p => idx_eqb idx (key_ud (Ls / 2) p)) (seq 0 (Ls / 2)) then u else 0.
  Proof.
    unfold hub_int, for_range. rewrite Nat.sub_0_r.
    apply (fold_tset_lookup (key_ud (Ls / 2)) u (seq 0 (Ls / 2)) tzero idx).
  Qed.

  Theorem hub_kin_spinless_closed Ls adj (t : K) i j :
    hub_kin Ls adj t false [i; j] = (- t) * kadj adj i j.
  Proof. reflexivity. Qed.

  Theorem hub_kin_spinful_closed h adj (t : K) s s' p q : (p < h)%nat -> (q < h)%nat ->
    hub_kin (2 * h) adj t true [(s * h + p)%nat; (s' * h + q)%nat]
    = if Nat.eqb s s' then (- t) * kadj adj p q else 0.
  Proof.
    intros Hp Hq. unfold hub_kin, mat2tensor, kron_id2.
    replace (2 * h / 2)%nat with h by (apply Nat.div_unique_exact; lia).
    assert (D : forall a b, (b < h)%nat -> ((a * h + b) / h = a /\ (a * h + b) mod h = b)%nat).
    { intros a b Hb. split.
      - symmetry. apply (Nat.div_unique (a * h + b) h a b); lia.
      - symmetry. apply (Nat.mod_unique (a * h + b) h a b); lia. }
    destruct (D s p Hp) as [-> ->]. destruct (D s' q Hq) as [-> ->].
    destruct (Nat.eqb s s'); ring.
  Qed.

  (* ---------------------------------------------------------------- Hubbard: matrices *)
  Definition hop (n i j : nat) : BMx K := opstring n [(OC, i); (OA, j)].
  Definition dens2 (n i j : nat) : BMx K := opstring n [(OC, i); (OA, i); (OC, j); (OA, j)].

  Lemma term2_sum Ls (ten : tensor K) r c :
    fterm_matrix Ls {| pat := [OC; OA]; coef := ten |} r c
    = lsum (map (fun i => lsum (map (fun j => ten [i; j] * hop Ls i j r c) (seq 0 Ls))) (seq 0 Ls)).
  Proof.
    unfold fterm_matrix. cbn [pat coef length].
    rewrite all_idx_S_sum. apply lsum_map_ext. intros i _.
    rewrite all_idx_S_sum. apply lsum_map_ext. intros j _.
    cbn [all_idx map]. rewrite lsum_one. reflexivity.
  Qed.

  Lemma keys_nn_NoDup Ls adj : NoDup (map key_nn (edges Ls adj)).
  Proof.
    apply NoDup_map_inj; [|apply edges_NoDup].
    intros [a b] [a' b'] E. unfold key_nn in E. cbn in E. inversion E; subst. reflexivity.
  Qed.

  Lemma keys_nn_range Ls adj e : In e (edges Ls adj) -> In (key_nn e) (all_idx Ls 4).
  Proof.
    destruct e as [i j]. intros H. apply edges_In in H. destruct H as [H1 [H2 _]].
    apply all_idx_In. split; [reflexivity|]. unfold key_nn. cbn [fst snd].
    repeat constructor; lia.
  Qed.

  Theorem hub_V_spinless Ls adj (u : K) r c :
    fterm_matrix Ls {| pat := [OC; OA; OC; OA]; coef := hub_int Ls adj u false |} r c
    = u * lsum (map (fun e => dens2 Ls (fst e) (snd e) r c) (edges Ls adj)).
  Proof.
    unfold fterm_matrix. cbn [pat coef length].
    transitivity (lsum (map (fun idx => (if existsb (fun e => idx_eqb idx (key_nn e)) (edges Ls adj) then u else 0)
                                        * opstring Ls (combine [OC; OA; OC; OA] idx) r c) (all_idx Ls 4)) : K).
    { apply lsum_map_ext. intros idx _. rewrite hub_int_spinless_closed. reflexivity. }
    rewrite (sparse_sum key_nn u (fun idx => opstring Ls (combine [OC; OA; OC; OA] idx) r c)).
    - rewrite <- lsum_map_scal. reflexivity.
    - apply all_idx_NoDup.
    - apply keys_nn_NoDup.
    - apply keys_nn_range.
  Qed.

  Theorem hub_V_spinful Ls adj (u : K) r c :
    fterm_matrix Ls {| pat := [OC; OA; OC; OA]; coef := hub_int Ls adj u true |} r c
    = u * lsum (map (fun p => dens2 Ls p (p + Ls / 2) r c) (seq 0 (Ls / 2))).
  Proof.
    unfold fterm_matrix. cbn [pat coef length].
    transitivity (lsum (map (fun idx => (if existsb (fun p => idx_eqb idx (key_ud (Ls / 2) p)) (seq 0 (Ls / 2)) then u else 0)
                                        * opstring Ls (combine [OC; OA; OC; OA] idx) r c) (all_idx Ls 4)) : K).
    { apply lsum_map_ext. intros idx _. rewrite hub_int_spinful_closed. reflexivity. }
    rewrite (sparse_sum (key_ud (Ls / 2)) u (fun idx => opstring Ls (combine [OC; OA; OC; OA] idx) r c)).
    - rewrite <- lsum_map_scal. reflexivity.
    - apply all_idx_NoDup.
    - apply NoDup_map_inj; [|apply seq_NoDup]. intros a b E. unfold key_ud in E. inversion E. reflexivity.
    - intros p Hp. apply in_seq in Hp. apply all_idx_In. split; [reflexivity|].
      pose proof (Nat.mul_div_le Ls 2 ltac:(lia)).
      unfold key_ud. repeat constructor; lia.
  Qed.

  Theorem hub_T_spinless Ls adj (t : K) r c :
    fterm_matrix Ls {| pat := [OC; OA]; coef := hub_kin Ls adj t false |} r c
    = (- t) * lsum (map (fun e => hop Ls (fst e) (snd e) r c) (dpairs Ls adj)).
  Proof.
    rewrite term2_sum. unfold dpairs. rewrite lsum_flat_map, <- lsum_map_scal.
    apply lsum_map_ext. intros i _. rewrite map_map. cbn [fst snd].
    rewrite <- lsum_filter, <- lsum_map_scal. apply lsum_map_ext. intros j _.
    rewrite hub_kin_spinless_closed. unfold kadj. destruct (adj i j); ring.
  Qed.

  (** spinful: the same hopping inside each of the two layers (sites p and h + p) *)
  Theorem hub_T_spinful h adj (t : K) r c :
    fterm_matrix (2 * h) {| pat := [OC; OA]; coef := hub_kin (2 * h) adj t true |} r c
    = (- t) * (lsum (map (fun e => hop (2 * h) (fst e) (snd e) r c) (dpairs h adj))
               + lsum (map (fun e => hop (2 * h) (h + fst e) (h + snd e) r c) (dpairs h adj))).
  Proof.
    rewrite term2_sum.
    assert (KS : forall s s' p q, (p < h)%nat -> (q < h)%nat ->
              hub_kin (2 * h) adj t true [(s * h + p)%nat; (s' * h + q)%nat]
              = if Nat.eqb s s' then (- t) * kadj adj p q else 0)
      by (intros; apply hub_kin_spinful_closed; assumption).
    set (T := hub_kin (2 * h) adj t true) in *.
    assert (K00 : forall p q, (p < h)%nat -> (q < h)%nat -> T [p; q] = (- t) * kadj adj p q).
    { intros p q Hp Hq. pose proof (KS 0%nat 0%nat p q Hp Hq) as E. cbn [Nat.mul Nat.add Nat.eqb] in E. exact E. }
    assert (K01 : forall p q, (p < h)%nat -> (q < h)%nat -> T [p; (h + q)%nat] = 0).
    { intros p q Hp Hq. pose proof (KS 0%nat 1%nat p q Hp Hq) as E. cbn [Nat.mul Nat.add Nat.eqb] in E.
      rewrite Nat.add_0_r in E. exact E. }
    assert (K10 : forall p q, (p < h)%nat -> (q < h)%nat -> T [(h + p)%nat; q] = 0).
    { intros p q Hp Hq. pose proof (KS 1%nat 0%nat p q Hp Hq) as E. cbn [Nat.mul Nat.add Nat.eqb] in E.
      rewrite Nat.add_0_r in E. exact E. }
    assert (K11 : forall p q, (p < h)%nat -> (q < h)%nat -> T [(h + p)%nat; (h + q)%nat] = (- t) * kadj adj p q).
    { intros p q Hp Hq. pose proof (KS 1%nat 1%nat p q Hp Hq) as E. cbn [Nat.mul Nat.add Nat.eqb] in E.
      rewrite Nat.add_0_r in E. exact E. }
    clearbody T. clear KS.
    replace (2 * h)%nat with (h + h)%nat by lia.
    rewrite seq_double, map_app, lsum_app, map_map.
    unfold dpairs. rewrite !lsum_flat_map.
    transitivity ((- t) * lsum (map (fun i => lsum (map (fun j => hop (h + h) i j r c) (filter (adj i) (seq 0 h)))) (seq 0 h))
                  + (- t) * lsum (map (fun i => lsum (map (fun j => hop (h + h) (h + i) (h + j) r c) (filter (adj i) (seq 0 h)))) (seq 0 h)) : K).
    2:{ rewrite <- (s_ring K L).(Rdistr_l) || idtac.
        transitivity ((- t) * (lsum (map (fun i => lsum (map (fun j => hop (h + h) i j r c) (filter (adj i) (seq 0 h)))) (seq 0 h))
                               + lsum (map (fun i => lsum (map (fun j => hop (h + h) (h + i) (h + j) r c) (filter (adj i) (seq 0 h)))) (seq 0 h))) : K); [ring|].
        f_equal. f_equal; apply lsum_map_ext; intros i _; rewrite map_map; reflexivity. }
    f_equal.
    - rewrite <- lsum_map_scal. apply lsum_map_ext. intros i Hi. apply in_seq in Hi.
      rewrite map_app, lsum_app, map_map.
      transitivity ((- t) * lsum (map (fun j => hop (h + h) i j r c) (filter (adj i) (seq 0 h))) + 0 : K); [|ring].
      f_equal.
      + rewrite <- lsum_filter, <- lsum_map_scal. apply lsum_map_ext. intros j Hj. apply in_seq in Hj.
        rewrite K00 by lia. unfold kadj. destruct (adj i j); ring.
      + apply lsum_map_zero. intros j Hj. apply in_seq in Hj. rewrite K01 by lia. ring.
    - rewrite <- lsum_map_scal. apply lsum_map_ext. intros i Hi. apply in_seq in Hi.
      rewrite map_app, lsum_app, map_map.
      transitivity (0 + (- t) * lsum (map (fun j => hop (h + h) (h + i) (h + j) r c) (filter (adj i) (seq 0 h))) : K); [|ring].
      f_equal.
      + apply lsum_map_zero. intros j Hj. apply in_seq in Hj. rewrite K10 by lia. ring.
      + rewrite <- lsum_filter, <- lsum_map_scal. apply lsum_map_ext. intros j Hj. apply in_seq in Hj.
        rewrite K11 by lia. unfold kadj. destruct (adj i j); ring.
  Qed.
End Proofs2.
