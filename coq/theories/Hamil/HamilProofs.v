(** Spin Hamiltonians (Ising both conventions, Heisenberg): the Pauli-string list the
    upper-triangle scan builds has the matrix
        sum_{(i,j) in edges} J A_i A_j + sum_i (h A_i + g B_i)
    for every number of sites, every adjacency relation and every commutative *-ring;
    [edges] lists every pair i<j<n with adj i j exactly once. *)
From Qib Require Export Hamil.HamilModel Pauli.PauliProofs2.

(* ------------------------------------------------------------------ generic list / loop lemmas *)
Lemma fold_left_filter {X A} (p : A -> bool) (f : A -> X -> X) l : forall x,
  fold_left (fun x a => if p a then f a x else x) l x = fold_left (fun x a => f a x) (filter p l) x.
Proof. induction l as [|a l IH]; intros x; cbn; [reflexivity|]. destruct (p a); cbn; apply IH. Qed.

Lemma fold_left_flat_map {X A B} (g : X -> B -> X) (h : A -> list B) l : forall x,
  fold_left g (flat_map h l) x = fold_left (fun x a => fold_left g (h a) x) l x.
Proof. induction l as [|a l IH]; intros x; cbn; [reflexivity|]. rewrite fold_left_app. apply IH. Qed.

Lemma fold_left_map {X A B} (g : X -> B -> X) (m : A -> B) l : forall x,
  fold_left g (map m l) x = fold_left (fun x a => g x (m a)) l x.
Proof. induction l as [|a l IH]; intros x; cbn; [reflexivity|]. apply IH. Qed.

Lemma fold_left_ext {X A} (f g : X -> A -> X) l : (forall x a, In a l -> f x a = g x a) ->
  forall x, fold_left f l x = fold_left g l x.
Proof.
  induction l as [|a l IH]; intros H x; cbn; [reflexivity|].
  rewrite H by (left; reflexivity). apply IH. intros; apply H; right; assumption.
Qed.

Lemma fold_left_inv {X A} (P : X -> Prop) (g : X -> A -> X) l :
  (forall x a, In a l -> P x -> P (g x a)) -> forall x, P x -> P (fold_left g l x).
Proof.
  induction l as [|a l IH]; intros H x Hx; cbn; [exact Hx|].
  apply IH; [intros; apply H; [right|]; assumption|]. apply H; [left; reflexivity|exact Hx].
Qed.

(** the scan as a fold over [edges] *)
Lemma scan_edges {X} (n : nat) (adj : nat -> nat -> bool) (f : nat -> nat -> X -> X) (x : X) :
  for_range 0 n (fun i x => for_range (i + 1) n (fun j x => if adj i j then f i j x else x) x) x
  = fold_left (fun x e => f (fst e) (snd e) x) (edges n adj) x.
Proof.
  unfold for_range, edges. rewrite Nat.sub_0_r. rewrite fold_left_flat_map.
  apply fold_left_ext. intros y i _. rewrite fold_left_map.
  rewrite (fold_left_filter (adj i) (fun j x => f i j x)). reflexivity.
Qed.

Lemma edges_In n adj i j : In (i, j) (edges n adj) <-> (i < j /\ j < n /\ adj i j = true).
Proof.
  unfold edges. rewrite in_flat_map. split.
  - intros [i' [Hi H]]. apply in_map_iff in H. destruct H as [j' [E H]]. inversion E; subst.
    apply filter_In in H. destruct H as [H A]. apply in_seq in H. apply in_seq in Hi. repeat split; [lia|lia|exact A].
  - intros [H1 [H2 A]]. exists i. split; [apply in_seq; lia|].
    apply in_map. apply filter_In. split; [apply in_seq; lia|exact A].
Qed.

Lemma NoDup_app_disjoint {A} (l1 l2 : list A) :
  NoDup l1 -> NoDup l2 -> (forall a, In a l1 -> ~ In a l2) -> NoDup (l1 ++ l2).
Proof.
  induction l1 as [|a l1 IH]; intros N1 N2 D; cbn; [exact N2|].
  inversion N1; subst. constructor.
  - intros Hin. apply in_app_or in Hin. destruct Hin as [Hin|Hin]; [contradiction|].
    apply (D a); [left; reflexivity|exact Hin].
  - apply IH; auto. intros b Hb. apply D. right; exact Hb.
Qed.

Lemma NoDup_map_inj {A B} (f : A -> B) l : (forall a b, f a = f b -> a = b) -> NoDup l -> NoDup (map f l).
Proof.
  intros Inj. induction l as [|a l IH]; intros ND; cbn; [constructor|].
  inversion ND; subst. constructor; [|apply IH; assumption].
  intros Hin. apply in_map_iff in Hin. destruct Hin as [b [E Hb]]. apply Inj in E. subst. contradiction.
Qed.

Lemma edges_NoDup n adj : NoDup (edges n adj).
Proof.
  unfold edges.
  assert (G : forall l, NoDup l ->
    NoDup (flat_map (fun i => map (pair i) (filter (adj i) (seq (i + 1) (n - (i + 1))))) l)).
  { induction l as [|i l IH]; intros ND; cbn; [constructor|].
    inversion ND; subst. apply NoDup_app_disjoint.
    - apply NoDup_map_inj; [intros a b E; inversion E; reflexivity|].
      apply NoDup_filter. apply seq_NoDup.
    - apply IH; assumption.
    - intros [a b] I1 I2. apply in_map_iff in I1. destruct I1 as [j [E _]]. inversion E; subst.
      apply in_flat_map in I2. destruct I2 as [i' [Hi' I2]].
      apply in_map_iff in I2. destruct I2 as [j' [E' _]]. inversion E'; subst. contradiction. }
  apply G. apply seq_NoDup.
Qed.

(** with a symmetric, irreflexive adjacency every (undirected) edge is listed exactly once,
    in exactly one orientation *)
Lemma edges_each_edge_once n adj :
  (forall i j, adj i j = adj j i) -> (forall i, adj i i = false) ->
  forall i j, i < n -> j < n -> adj i j = true ->
    (In (i, j) (edges n adj) /\ ~ In (j, i) (edges n adj)) \/
    (In (j, i) (edges n adj) /\ ~ In (i, j) (edges n adj)).
Proof.
  intros Sym Irr i j Hi Hj A.
  assert (i <> j) by (intros ->; rewrite Irr in A; discriminate).
  destruct (Nat.lt_ge_cases i j).
  - left. split; [apply edges_In; auto|]. rewrite edges_In. lia.
  - right. split; [apply edges_In; rewrite <- Sym; repeat split; auto; lia|]. rewrite edges_In. lia.
Qed.

(* ------------------------------------------------------------------ strings from letters *)
Lemma upd_length l : forall i v, length (upd l i v) = length l.
Proof. induction l as [|h t IH]; intros [|i] v; cbn; try reflexivity. rewrite IH. reflexivity. Qed.

Lemma upd_nth l : forall i v k d,
  nth k (upd l i v) d = if Nat.eqb k i && Nat.ltb i (length l) then v else nth k l d.
Proof.
  induction l as [|h t IH]; intros i v k d.
  - cbn. rewrite andb_false_r. reflexivity.
  - destruct i as [|i]; destruct k as [|k]; cbn [upd nth length]; try reflexivity.
    rewrite IH. change (Nat.eqb (Datatypes.S k) (Datatypes.S i)) with (Nat.eqb k i).
    change (Nat.ltb (Datatypes.S i) (Datatypes.S (length t))) with (Nat.ltb i (length t)). reflexivity.
Qed.

Lemma nth_repeat_false n k : nth k (repeat false n) false = false.
Proof. revert k; induction n as [|n IH]; intros [|k]; cbn; auto. Qed.

Section SpinProofs.
  Context {K : Scalar} {L : ScalarLaws K}.
  Local Open Scope K_scope.
  Add Ring KringH : (s_ring K L).

  Lemma letters_site_kron zs : forall xs f k0 r c,
    length zs = length xs ->
    (forall k, (k < length zs)%nat ->
       nth k zs false = plz (f (k0 + k)%nat) /\ nth k xs false = plx (f (k0 + k)%nat)) ->
    letters_mat zs xs r c = site_kron (length zs) f k0 r c :> K.
  Proof.
    induction zs as [|z zs IH]; intros xs f k0 r c Hl H.
    - destruct xs; [|discriminate]. destruct r, c; reflexivity.
    - destruct xs as [|x xs]; [discriminate|]. cbn in Hl. injection Hl as Hl.
      destruct r as [|rb r], c as [|cb c]; try reflexivity.
      cbn [letters_mat length site_kron].
      destruct (H 0%nat ltac:(cbn; lia)) as [Ez Ex]. cbn [nth] in Ez, Ex.
      rewrite Nat.add_0_r in Ez, Ex. rewrite Ez, Ex.
      rewrite (IH xs f (Datatypes.S k0) r c Hl); [reflexivity|].
      intros k Hk. destruct (H (Datatypes.S k) ltac:(cbn; lia)) as [Ez' Ex']. cbn [nth] in Ez', Ex'.
      replace (Datatypes.S k0 + k)%nat with (k0 + Datatypes.S k)%nat by lia. split; assumption.
  Qed.

  Lemma pmatrix_q0 zs xs r c :
    pmatrix {| pz := zs; px := xs; pq := 0 |} r c = letters_mat zs xs r c :> K.
  Proof. rewrite pmatrix_kron. cbn [pq pz px]. rewrite mipz_0. ring. Qed.

  Lemma fsp_one n a i r c : (i < n)%nat ->
    pmatrix (fsp n [(a, i)]) r c = one_site n a i r c :> K.
  Proof.
    intros Hi. unfold fsp. cbn [fold_left fst snd]. rewrite pmatrix_q0.
    unfold one_site.
    rewrite (letters_site_kron _ _ (fun k => if Nat.eqb k i then a else LI) 0%nat).
    - rewrite upd_length, repeat_length. reflexivity.
    - rewrite !upd_length, !repeat_length. reflexivity.
    - rewrite upd_length, repeat_length. intros k Hk. cbn [Nat.add].
      rewrite !upd_nth, !repeat_length, !nth_repeat_false.
      assert (E : Nat.ltb i n = true) by (apply Nat.ltb_lt; exact Hi). rewrite E, andb_true_r.
      destruct (Nat.eqb k i); split; reflexivity.
  Qed.

  Lemma fsp_two n a i j r c : (i < n)%nat -> (j < n)%nat ->
    pmatrix (fsp n [(a, i); (a, j)]) r c = two_site n a i j r c :> K.
  Proof.
    intros Hi Hj. unfold fsp. cbn [fold_left fst snd]. rewrite pmatrix_q0.
    unfold two_site.
    rewrite (letters_site_kron _ _ (fun k => if Nat.eqb k i || Nat.eqb k j then a else LI) 0%nat).
    - rewrite !upd_length, repeat_length. reflexivity.
    - rewrite !upd_length, !repeat_length. reflexivity.
    - rewrite !upd_length, repeat_length. intros k Hk. cbn [Nat.add].
      rewrite !upd_nth, !upd_length, !repeat_length, !nth_repeat_false.
      assert (E : Nat.ltb i n = true) by (apply Nat.ltb_lt; exact Hi).
      assert (E' : Nat.ltb j n = true) by (apply Nat.ltb_lt; exact Hj).
      rewrite E, E', !andb_true_r.
      destruct (Nat.eqb k i), (Nat.eqb k j); split; reflexivity.
  Qed.

  (* ---------------------------------------------------------------- additive folds *)
  Lemma opmatrix_fold_add {A} (g : list (wstr (K:=K)) -> A -> list (wstr (K:=K))) (D : A -> K) r c l :
    (forall op a, In a l -> opmatrix (g op a) r c = opmatrix op r c + D a) ->
    forall op, opmatrix (fold_left g l op) r c = opmatrix op r c + lsum (map D l).
  Proof.
    induction l as [|a l IH]; intros H op; cbn [fold_left map]; rewrite ?lsum_nil, ?lsum_cons; [ring|].
    rewrite IH by (intros; apply H; right; assumption).
    rewrite H by (left; reflexivity). ring.
  Qed.

  Lemma lsum_flat_map {A B} (f : B -> K) (h : A -> list B) l :
    lsum (map f (flat_map h l)) = lsum (map (fun a => lsum (map f (h a))) l).
  Proof.
    induction l as [|a l IH]; cbn [flat_map map]; rewrite ?lsum_nil; [reflexivity|].
    rewrite map_app, lsum_app, lsum_cons, IH. reflexivity.
  Qed.

  (** inner scan of one row i: adds J * (A_i A_j) for the neighbours j > i *)
  Lemma row_scan n adj (a : pl) (w : K) i r c op : (i < n)%nat ->
    opmatrix (for_range (i + 1) n (fun j op =>
                if negb (adj i j) then op else add_pauli_string op (fsp n [(a, i); (a, j)], w)) op) r c
    = opmatrix op r c
      + lsum (map (fun j => w * two_site n a i j r c) (filter (adj i) (seq (i + 1) (n - (i + 1))))).
  Proof.
    intros Hi. unfold for_range.
    rewrite (fold_left_ext _ (fun op j => if adj i j then add_pauli_string op (fsp n [(a, i); (a, j)], w) else op))
      by (intros x j _; destruct (adj i j); reflexivity).
    rewrite (fold_left_filter (adj i) (fun j op => add_pauli_string op (fsp n [(a, i); (a, j)], w))).
    apply opmatrix_fold_add. intros op' j Hj.
    apply filter_In in Hj. destruct Hj as [Hj _]. apply in_seq in Hj.
    rewrite add_pauli_string_matrix. unfold wmatrix. cbn [fst snd].
    rewrite fsp_two by lia. reflexivity.
  Qed.

  Definition edge_sum n adj (a : pl) (w : K) (r c : bits) : K :=
    lsum (map (fun e => w * two_site n a (fst e) (snd e) r c) (edges n adj)).

  Lemma edge_sum_rows n adj a w r c :
    edge_sum n adj a w r c
    = lsum (map (fun i => lsum (map (fun j => w * two_site n a i j r c)
                                    (filter (adj i) (seq (i + 1) (n - (i + 1)))))) (seq 0 n)).
  Proof.
    unfold edge_sum, edges. rewrite lsum_flat_map. apply lsum_map_ext. intros i _.
    rewrite map_map. reflexivity.
  Qed.

  (* ---------------------------------------------------------------- Ising *)
  Definition ising_spec n adj (J h g : K) (zz : bool) : BMx K := fun r c =>
    let A := fst (ising_letters zz) in let B := snd (ising_letters zz) in
    edge_sum n adj A J r c
    + lsum (map (fun i => h * one_site n A i r c + g * one_site n B i r c) (seq 0 n)).

  Theorem ising_matrix n adj J h g zz r c :
    opmatrix (ising_ops n adj J h g zz) r c = ising_spec n adj J h g zz r c.
  Proof.
    unfold ising_ops, ising_spec. cbv zeta.
    set (A := fst (ising_letters zz)). set (B := snd (ising_letters zz)).
    unfold for_range at 1. rewrite Nat.sub_0_r.
    rewrite (opmatrix_fold_add _
      (fun i => lsum (map (fun j => J * two_site n A i j r c) (filter (adj i) (seq (i + 1) (n - (i + 1)))))
                + (h * one_site n A i r c + g * one_site n B i r c))).
    - rewrite opmatrix_nil, lsum_map_add, edge_sum_rows. ring.
    - intros op i Hi. apply in_seq in Hi.
      rewrite !add_pauli_string_matrix, row_scan by lia.
      unfold wmatrix. cbn [fst snd]. rewrite !fsp_one by lia. ring.
  Qed.

  (* ---------------------------------------------------------------- Heisenberg *)
  Definition heis_spec n adj (J h : list K) : BMx K := fun r c =>
    lsum (map (fun kg =>
            edge_sum n adj (snd kg) (nth (fst kg) J 0) r c
            + lsum (map (fun i => nth (fst kg) h 0 * one_site n (snd kg) i r c) (seq 0 n)))
          (combine (seq 0 3) [LX; LY; LZ])).

  Theorem heis_matrix n adj J h r c :
    opmatrix (heis_ops n adj J h) r c = heis_spec n adj J h r c.
  Proof.
    unfold heis_ops, heis_spec.
    rewrite (opmatrix_fold_add _
      (fun kg => edge_sum n adj (snd kg) (nth (fst kg) J 0) r c
                 + lsum (map (fun i => nth (fst kg) h 0 * one_site n (snd kg) i r c) (seq 0 n)))).
    - rewrite opmatrix_nil. ring.
    - intros op [k gate] _. cbn [fst snd]. unfold for_range at 1. rewrite Nat.sub_0_r.
      rewrite (opmatrix_fold_add _
        (fun i => lsum (map (fun j => nth k J 0 * two_site n gate i j r c)
                            (filter (adj i) (seq (i + 1) (n - (i + 1)))))
                  + nth k h 0 * one_site n gate i r c)).
      + rewrite lsum_map_add, edge_sum_rows. ring.
      + intros op' i Hi. apply in_seq in Hi.
        rewrite add_pauli_string_matrix, row_scan by lia.
        unfold wmatrix. cbn [fst snd]. rewrite fsp_one by lia. ring.
  Qed.

  (* ---------------------------------------------------------------- Hermiticity *)
  Definition herm_op (op : list (wstr (K:=K))) : Prop :=
    Forall (fun w => pherm (fst w) = true /\ (snd w)^* = snd w) op.

  Lemma herm_op_matrix n op : herm_op op -> hermitian n (opmatrix op).
  Proof.
    intros H r c Hr Hc. unfold madj. induction H as [|w op [Hp Hw] _ IH].
    - unfold opmatrix. cbn [fold_right]. apply (conj_0 K L).
    - change (opmatrix (w :: op) c r) with (wmatrix w c r + opmatrix op c r).
      change (opmatrix (w :: op) r c) with (wmatrix w r c + opmatrix op r c).
      rewrite (conj_add K L), IH. f_equal.
      unfold wmatrix. rewrite (conj_mul K L), Hw.
      pose proof (pherm_sound n (fst w) Hp r c Hr Hc) as E. unfold madj in E. rewrite E. reflexivity.
  Qed.

  Lemma herm_op_add op ps : herm_op op -> pherm (fst ps) = true -> (snd ps)^* = snd ps ->
    herm_op (add_pauli_string op ps).
  Proof.
    intros H Hp Hw. induction H as [|w op [Hp' Hw'] H IH]; cbn [add_pauli_string].
    - constructor; [split; assumption|constructor].
    - destruct (peqb (fst w) (fst ps)).
      + constructor; [|exact H]. cbn [fst snd]. split; [exact Hp'|].
        rewrite (conj_add K L), Hw, Hw'. reflexivity.
      + constructor; [split; assumption|exact IH].
  Qed.

  Lemma fsp_pherm n args : pherm (fsp n args) = true.
  Proof. reflexivity. Qed.

  Theorem ising_herm_op n adj J h g zz : J^* = J -> h^* = h -> g^* = g ->
    herm_op (ising_ops n adj J h g zz).
  Proof.
    intros HJ Hh Hg. unfold ising_ops. cbv zeta. unfold for_range at 1.
    apply fold_left_inv; [|constructor]. intros op i _ Hop.
    apply herm_op_add; [apply herm_op_add|..]; try apply fsp_pherm; try assumption.
    unfold for_range. apply fold_left_inv; [|exact Hop]. intros op' j _ Hop'.
    destruct (negb (adj i j)); [exact Hop'|]. apply herm_op_add; [exact Hop'|apply fsp_pherm|exact HJ].
  Qed.

  Theorem heis_herm_op n adj J h :
    Forall (fun w => w^* = w) J -> Forall (fun w => w^* = w) h -> herm_op (heis_ops n adj J h).
  Proof.
    intros HJ Hh. unfold heis_ops.
    assert (N : forall (l : list K) k, Forall (fun w => w^* = w) l -> (nth k l 0)^* = nth k l 0).
    { intros l k Hl. revert k. induction Hl; intros [|k]; cbn; auto; apply (conj_0 K L). }
    apply fold_left_inv; [|constructor]. intros op [k gate] _ Hop. cbn [fst snd].
    unfold for_range at 1. apply fold_left_inv; [|exact Hop]. intros op' i _ Hop'.
    apply herm_op_add; [|apply fsp_pherm|apply N; exact Hh].
    unfold for_range. apply fold_left_inv; [|exact Hop']. intros op'' j _ Hop''.
    destruct (negb (adj i j)); [exact Hop''|]. apply herm_op_add; [exact Hop''|apply fsp_pherm|apply N; exact HJ].
  Qed.

  (* ---------------------------------------------------------------- A_i A_j as a matrix product *)
  Definition le (a : pl) (rb cb : bool) : K := letter_entry (plz a) (plx a) rb cb.

  Lemma le_mul_id a rb cb :
    (le a rb false * le LI false cb + le a rb true * le LI true cb = le a rb cb) /\
    (le LI rb false * le a false cb + le LI rb true * le a true cb = le a rb cb).
  Proof. split; destruct a, rb, cb; cbn; ring. Qed.

  Lemma site_kron_mul n : forall (f g h : nat -> pl) k0 r c,
    length r = n -> length c = n ->
    (forall k rb cb, le (f k) rb false * le (g k) false cb + le (f k) rb true * le (g k) true cb = le (h k) rb cb) ->
    bsum n (fun x => site_kron n f k0 r x * site_kron n g k0 x c) = site_kron n h k0 r c :> K.
  Proof.
    induction n as [|n IH]; intros f g h k0 r c Hr Hc Hm.
    - destruct r, c; try discriminate. rewrite bsum_0. cbn. ring.
    - destruct r as [|rb r], c as [|cb c]; try discriminate.
      injection Hr as Hr. injection Hc as Hc.
      rewrite bsum_S. cbn [site_kron].
      pose proof (Hm k0 rb cb) as E. unfold le in E.
      rewrite <- (IH f g h (Datatypes.S k0) r c Hr Hc Hm), <- E.
      set (S0 := bsum n (fun x => site_kron n f (Datatypes.S k0) r x * site_kron n g (Datatypes.S k0) x c) : K).
      set (a0 := letter_entry (plz (f k0)) (plx (f k0)) rb false : K).
      set (a1 := letter_entry (plz (f k0)) (plx (f k0)) rb true : K).
      set (b0 := letter_entry (plz (g k0)) (plx (g k0)) false cb : K).
      set (b1 := letter_entry (plz (g k0)) (plx (g k0)) true cb : K).
      transitivity (a0 * b0 * S0 + a1 * b1 * S0 : K); [|ring].
      unfold S0. rewrite <- !bsum_scal. f_equal; apply bsum_ext; intros x _; ring.
  Qed.

  Theorem two_site_product n a i j : i <> j ->
    meq (K:=K) n (two_site n a i j) (mmul n (one_site n a i) (one_site n a j)).
  Proof.
    intros Hij r c Hr Hc. unfold two_site, one_site, mmul. symmetry.
    apply site_kron_mul; try assumption. intros k rb cb.
    destruct (Nat.eqb_spec k i) as [Ei|Hi]; destruct (Nat.eqb_spec k j) as [Ej|Hj]; cbn [orb];
      try (exfalso; congruence); apply le_mul_id.
  Qed.
End SpinProofs.
